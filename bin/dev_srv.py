#!/usr/bin/env python3
"""developer aid: run a batch of Srv cases and print the disagreements in full"""
import sys, os, json, random, time
sys.path.insert(0, os.path.dirname(os.path.abspath(__file__)))
sys.path.insert(0, os.path.join(os.path.dirname(os.path.abspath(__file__)), "..", "checks"))
import vlib, srvlib

seed = int(sys.argv[1]) if len(sys.argv) > 1 else 1
n = int(sys.argv[2]) if len(sys.argv) > 2 else 40
b, log = vlib.harness_build("srv")
if not b:
    print(log)
    sys.exit(1)
ctx = vlib.Ctx("dev", "quick", seed)
rng = random.Random(seed)
ops = [srvlib.Gen(rng).history(14) for _ in range(n)] + srvlib.matrix_cases(rng, 2) + srvlib.attach_cases()
t = time.time()
bad, cov, outs = srvlib.run_cases(ctx, b, ops)
print(len(ops), "cases", round(time.time() - t, 1), "s cov", cov, "bad", len(bad))
seen = set()
for x in bad:
    c = x["case"]
    key = (x["field"], json.dumps(ops[c][x["step"]]), x["c10"], x["c17"])
    if key in seen:
        continue
    seen.add(key)
    print(x)
    for i, (o, ob) in enumerate(zip(ops[c], outs[c]["obs"])):
        print("   ", i, json.dumps(o), "->", json.dumps(ob))
        if x["field"] != 0 and i >= x["step"]:
            break
ctx.cleanup()
