#!/usr/bin/env python3
"""developer aid: run a batch of Ctl cases and print the first disagreements in full"""
import sys, os, json, random, time
sys.path.insert(0, os.path.dirname(os.path.abspath(__file__)))
sys.path.insert(0, os.path.join(os.path.dirname(os.path.abspath(__file__)), "..", "checks"))
import vlib, ctllib

seed = int(sys.argv[1]) if len(sys.argv) > 1 else 1
n = int(sys.argv[2]) if len(sys.argv) > 2 else 40
show = int(sys.argv[3]) if len(sys.argv) > 3 else 4
b, log = vlib.harness_build("ctl")
if not b:
    print(log)
    sys.exit(1)
ctx = vlib.Ctx("devctl", "quick", seed)
rng = random.Random(seed)
cases = []
for i in range(n):
    rf = rng.randint(1, 5)
    nrep = min(6, rf + rng.randint(0, 2))
    if i % 3 == 0:
        es, revs = ctllib.bootstrap_history(rng, rf, nrep)
        cases.append(dict(rf=rf, world=ctllib.world(nrep, revs=dict(enumerate(revs))), events=es))
    else:
        g = ctllib.Gen(rng)
        cases.append(dict(rf=rf, world=ctllib.world(nrep), events=g.history(rf, nrep, rng.randint(4, 14))))
if len(sys.argv) > 4:
    cases = ctllib.scenarios()
ctllib.autosync(cases)
t = time.time()
res, outs = ctllib.run_cases(ctx, b, cases)
bad, cov = ctllib.parse_bad(res)
print(len(cases), "cases", round(time.time() - t, 1), "s; bad", len(bad), "flags-or", __import__("functools").reduce(lambda x, y: x | y, cov.values(), 0))
seen = set()
for x in bad:
    c, step, field = x["case"], x["step"], x["field"]
    if not field and x["fails"]:
        step = min(x["fails"].values())
    key = (field, cases[c]["events"][step]["k"], tuple(sorted(x["fails"])))
    if key in seen:
        continue
    seen.add(key)
    if len(seen) > show:
        break
    print("== case", c, cases[c].get("name", ""), "rf", cases[c]["rf"], "diff step", x["step"], "field", field, "oracle fails", x["fails"])
    for i, (e, ob) in enumerate(zip(cases[c]["events"], outs[c]["obs"])):
        o = dict(ob)
        reps = o.pop("reps")
        print("  ", i, json.dumps(e))
        print("       ->", json.dumps(o))
        if i == step:
            for a, r in enumerate(reps):
                print("          rep", a, json.dumps(r))
            break
ctx.cleanup()
