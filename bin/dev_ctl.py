#!/usr/bin/env python3
"""developer aid: run a batch of Ctl cases and print the first disagreements in full"""
import sys, os, json, random, time
sys.path.insert(0, os.path.dirname(os.path.abspath(__file__)))
sys.path.insert(0, os.path.join(os.path.dirname(os.path.abspath(__file__)), "..", "checks"))
import vlib, ctllib

seed = int(sys.argv[1]) if len(sys.argv) > 1 else 1
n = int(sys.argv[2]) if len(sys.argv) > 2 else 40
show = int(sys.argv[3]) if len(sys.argv) > 3 else 4
b, log = vlib.harness_build("ctl")
if not b:
    print(log)
    sys.exit(1)
ctx = vlib.Ctx("devctl", "quick", seed)
rng = random.Random(seed)
cases = []
for i in range(n):
    rf = rng.randint(1, 5)
    nrep = min(6, rf + rng.randint(0, 2))
    if i % 3 == 0:
        es, revs = ctllib.bootstrap_history(rng, rf, nrep)
        cases.append(dict(rf=rf, world=ctllib.world(nrep, revs=dict(enumerate(revs))), events=es))
    else:
        g = ctllib.Gen(rng)
        cases.append(dict(rf=rf, world=ctllib.world(nrep), events=g.history(rf, nrep, rng.randint(4, 14))))
t = time.time()
res, outs = ctllib.run_cases(ctx, b, cases, queries=lambda l: ["bad_cases 0%%nat %s" % l])
bad = []
for off, vals in res:
    for item in vlib.parse_coq_list(vals[0]):
        f = vlib.flat(item)
        bad.append((off + f[0], f[1], f[2]))
print(len(cases), "cases", round(time.time() - t, 1), "s; bad", len(bad))
seen = set()
for c, step, field in bad:
    key = (field, cases[c]["events"][step]["k"])
    if key in seen:
        continue
    seen.add(key)
    if len(seen) > show:
        break
    print("== case", c, "rf", cases[c]["rf"], "step", step, "field", field)
    for i, (e, ob) in enumerate(zip(cases[c]["events"], outs[c]["obs"])):
        o = dict(ob)
        reps = o.pop("reps")
        print("  ", i, json.dumps(e))
        print("       ->", json.dumps(o))
        if i == step:
            for a, r in enumerate(reps):
                print("          rep", a, json.dumps(r))
            break
    # model's view of the same step
    term = ctllib.case_term(cases[c], outs[c])
    q = "let c := %s in nth %d%%nat (trace (c_n c) (init (c_rf c) (c_world c)) (c_events c)) (mkobs RInvalid [] false 0%%nat None None false [] 0 false [] [] None)" % (term, step)
    try:
        print("   model:", vlib.coq_eval(ctx, "dbg%d" % c, ["Ctl.Model", "Ctl.Corr", "Ctl.Oracles"], "", [q])[0])
    except Exception as ex:
        print("   model eval failed", str(ex)[:300])
ctx.cleanup()
