"""Shared machinery of the jiva verification checks (see DESIGN.md §1).

Layers per check run:
  L1  the Coq development builds (make), contains no Admitted/axiom, and the property's theorems
      print 'Closed under the global context' (or only pinned standard-library axioms);
  L2  correspondence: a Go harness built from /repo's working tree runs generated histories on the
      real code; the Gallina model evaluates the same histories inside Coq (vm_compute) and the
      property's trace oracle (a Coq function proved to hold on every model trace) is evaluated on
      the implementation's observations.
"""
import json, os, random, re, shutil, subprocess, sys, time, hashlib

VERIF = os.path.dirname(os.path.dirname(os.path.abspath(__file__)))
REPO = os.environ.get("JIVA_REPO", "/repo")
COQ = os.path.join(VERIF, "coq")
WORKROOT = os.path.join(VERIF, ".work")
HARNESS_SRC = os.path.join(VERIF, "harness")
if REPO == "/repo":
    HARNESS = HARNESS_SRC
else:
    # checks pointed at a scratch worktree (mutation rehearsal) build in a private copy of the harness
    HARNESS = os.path.join(WORKROOT, "harness-" + hashlib.sha1(REPO.encode()).hexdigest()[:10])
GOENV = dict(GOFLAGS="-mod=mod", GOPROXY="off", GOSUMDB="off", GOTOOLCHAIN="local")

FORBIDDEN = re.compile(r"\b(Admitted|admit|Axiom|Axioms|Parameter|Parameters|Conjecture|Hypothesis|Variable)\b|Unset Guard|bypass_check|Admit Obligations|type-in-type|impredicative-set")

# standard-library axioms that may appear under Print Assumptions (named in DESIGN.md §5)
ALLOWED_AXIOMS = set()


class Ctx:
    def __init__(self, pid, tier, seed):
        self.pid = pid
        self.tier = tier
        self.seed = seed
        self.t0 = time.time()
        self.work = os.path.join(WORKROOT, "%s-%d" % (pid, os.getpid()))
        shutil.rmtree(self.work, ignore_errors=True)
        os.makedirs(self.work)
        self.rng = random.Random(seed)
        self.violations = []      # (replay_path, nofail)
        self.known = []           # KNOWN-FINDING lines printed
        self.notes = []

    def cleanup(self):
        shutil.rmtree(self.work, ignore_errors=True)

    def elapsed(self):
        return time.time() - self.t0


def sh(cmd, cwd=None, env=None, timeout=600, check=False, stdin=None):
    e = dict(os.environ)
    if env:
        e.update(env)
    p = subprocess.run(cmd, cwd=cwd, env=e, timeout=timeout, stdout=subprocess.PIPE,
                       stderr=subprocess.STDOUT, text=True, shell=isinstance(cmd, str),
                       stdin=stdin if stdin is not None else subprocess.DEVNULL)
    if check and p.returncode != 0:
        raise RuntimeError("command failed (%d): %s\n%s" % (p.returncode, cmd, p.stdout[-4000:]))
    return p.returncode, p.stdout


# --------------------------------------------------------------------------- Coq (L1)

def coq_sources():
    """the development = the files listed in coq/_CoqProject (files of builders still at work are not part of it)"""
    out = []
    for line in open(os.path.join(COQ, "_CoqProject")):
        line = line.strip()
        if line.endswith(".v") and not line.startswith("-"):
            out.append(os.path.join(COQ, line))
    return sorted(out)


def coq_lint(pid=None):
    """No Admitted / axiom declarations / disabled checks anywhere in the development (pid given: in the files
    that property's theorems depend on)."""
    bad = []
    files = coq_sources()
    cone = coq_cone(pid) if pid else None
    if cone:
        files = [f for f in files if os.path.relpath(f, COQ) in cone]
    for path in files:
        txt = open(path).read()
        # strip comments (nested) before scanning
        txt = strip_coq_comments(txt)
        for i, line in enumerate(txt.split("\n"), 1):
            m = FORBIDDEN.search(line)
            if m:
                # 'Variable'/'Hypothesis' are legal inside a Section; we do not use sections with them
                bad.append("%s:%d: %s" % (os.path.relpath(path, VERIF), i, m.group(0)))
    return bad


def strip_coq_comments(s):
    out, depth, i, n = [], 0, 0, len(s)
    while i < n:
        if s.startswith("(*", i):
            depth += 1
            i += 2
        elif s.startswith("*)", i) and depth > 0:
            depth -= 1
            i += 2
        else:
            if depth == 0:
                out.append(s[i])
            elif s[i] == "\n":
                out.append("\n")
            i += 1
    return "".join(out)


def coq_build(clean=False, pid=None):
    """make the development (pid given: only Properties/<pid>.vo and what it depends on, so that a property's
    verdict depends on its own cone of files only); returns (ok, log)."""
    mk = os.path.join(COQ, "Makefile")
    proj = os.path.join(COQ, "_CoqProject")
    if not os.path.exists(mk) or clean or os.path.getmtime(proj) > os.path.getmtime(mk):
        sh("coq_makefile -f _CoqProject -o Makefile", cwd=COQ, check=True)
    if clean:
        sh("make clean", cwd=COQ, timeout=120)
    target = (" theories/Properties/%s.vo" % pid) if pid else ""
    rc, out = sh("make -j16" + target, cwd=COQ, timeout=3000)
    return rc == 0, out


def coq_cone(pid):
    """the .v files Properties/<pid>.v transitively depends on (from coq_makefile's dependency file);
    None when that file is not there yet"""
    dep = os.path.join(COQ, ".Makefile.d")
    if not os.path.exists(dep):
        return None
    deps = {}
    txt = open(dep).read().replace("\\\n", " ")
    for line in txt.split("\n"):
        if ":" not in line:
            continue
        lhs, rhs = line.split(":", 1)
        for t in lhs.split():
            if t.endswith(".vo"):
                deps.setdefault(t[:-1], set()).update(x[:-1] for x in rhs.split() if x.endswith(".vo") and x.startswith("theories/"))
    root = "theories/Properties/%s.v" % pid
    if root not in deps:
        return None
    seen, todo = set(), [root]
    while todo:
        f = todo.pop()
        if f in seen:
            continue
        seen.add(f)
        todo += list(deps.get(f, ()))
    return seen


def coq_property_file(pid):
    return os.path.join(COQ, "theories", "Properties", pid + ".v")


def coq_check_property(pid):
    """Re-run coqc on Properties/<pid>.v, capture Print Assumptions.
    Returns dict(ok, theorems=[...], assumptions={thm: 'closed' | [axioms]}, log)."""
    path = coq_property_file(pid)
    src = strip_coq_comments(open(path).read())
    theorems = re.findall(r"^\s*(?:Theorem|Corollary)\s+([A-Za-z0-9_']+)", src, re.M)
    printed = re.findall(r"Print Assumptions\s+([A-Za-z0-9_']+)\s*\.", src)
    rc, out = sh(["coqc", "-Q", "theories", "Jiva", "-w", "-notation-overridden,-deprecated-hint-without-locality",
                  os.path.relpath(path, COQ)], cwd=COQ, timeout=900)
    res = dict(ok=(rc == 0), theorems=theorems, printed=printed, assumptions={}, log=out)
    if rc != 0:
        return res
    # Output blocks: either "Closed under the global context" or "Axioms:\n name : type ..."
    blocks = re.split(r"(?=Closed under the global context|Axioms:)", out)
    blocks = [b for b in blocks if b.startswith("Closed under") or b.startswith("Axioms:")]
    if len(blocks) != len(printed):
        res["ok"] = False
        res["log"] += "\n[vlib] %d Print Assumptions commands but %d outputs" % (len(printed), len(blocks))
        return res
    for name, b in zip(printed, blocks):
        if b.startswith("Closed under"):
            res["assumptions"][name] = "closed"
        else:
            axs = re.findall(r"^([A-Za-z0-9_.']+)\s*:", b, re.M)
            res["assumptions"][name] = axs
            if not set(axs) <= ALLOWED_AXIOMS:
                res["ok"] = False
    missing = [t for t in theorems if t not in printed]
    if missing:
        res["ok"] = False
        res["log"] += "\n[vlib] theorems without Print Assumptions: %s" % missing
    return res


def coqchk(pid_modules):
    """thorough tier: independent re-check of compiled files. Returns (ok, axioms text)."""
    rc, out = sh(["coqchk", "-silent", "-o", "-Q", "theories", "Jiva"] + pid_modules, cwd=COQ, timeout=7200)
    return rc == 0, out


# --------------------------------------------------------------------------- evaluating the model

COQ_HDR = "From Coq Require Import List ZArith NArith Bool String.\nImport ListNotations.\n"


_BUILT = set()
_BUILD_LOCK = __import__("threading").Lock()


def ensure_built(imports):
    """the modules an evaluation imports must be compiled (they need not lie in the cone of the property's own
    theorems, e.g. the controller half of a Block property): make their .vo targets, once per process"""
    with _BUILD_LOCK:
        todo = [i for i in imports if i not in _BUILT]
        if not todo:
            return
        targets = ["theories/%s.vo" % i.replace(".", "/") for i in todo if os.path.exists(os.path.join(COQ, "theories", i.replace(".", "/") + ".v"))]
        if targets:
            mk = os.path.join(COQ, "Makefile")
            if not os.path.exists(mk):
                sh("coq_makefile -f _CoqProject -o Makefile", cwd=COQ, check=True)
            rc, out = sh(["make", "-j16"] + targets, cwd=COQ, timeout=3000)
            if rc != 0:
                raise RuntimeError("cannot build %s:\n%s" % (targets, out[-2500:]))
        _BUILT.update(todo)


def coq_eval(ctx, name, imports, defs, queries, timeout=1800):
    """Write a .v file with `defs`, then `Definition qN := Eval vm_compute in <query>. Print qN.` per
    query; returns list of normalised printed values (strings) or raises."""
    ensure_built(imports)
    path = os.path.join(ctx.work, name + ".v")
    with open(path, "w") as f:
        f.write(COQ_HDR)
        for imp in imports:
            f.write("From Jiva Require Import %s.\n" % imp)
        f.write(defs)
        f.write("\n")
        for i, q in enumerate(queries):
            f.write("Definition vq%d := Eval vm_compute in (%s).\n" % (i, q))
            f.write('Redirect "%s.q%d" Print vq%d.\n' % (os.path.join(ctx.work, name), i, i))
    # evaluation of observed data: bounded address space, so that an implementation gone astray (huge
    # observations) ends in an error of this check instead of exhausting the machine
    rc, out = sh(["prlimit", "--as=%d" % (20 << 30), "coqc", "-Q", os.path.join(COQ, "theories"), "Jiva", "-w", "-all", path],
                 cwd=ctx.work, timeout=timeout)
    if rc != 0:
        raise RuntimeError("coqc failed on %s:\n%s" % (path, out[-3000:]))
    vals = []
    for i in range(len(queries)):
        txt = open(os.path.join(ctx.work, "%s.q%d.out" % (name, i))).read()
        txt = " ".join(txt.split())
        m = re.match(r"vq\d+ = (.*) : .*?$", txt)
        if not m:
            raise RuntimeError("cannot parse coq output: " + txt[:500])
        vals.append(m.group(1).strip())
    return vals


def coq_eval_sharded(ctx, name, imports, case_terms, queries_of, shard=400, timeout=1800, max_chars=500000):
    """case_terms: list of Coq terms; evaluated in shards in parallel.  A shard holds at most `shard` cases and
    at most `max_chars` characters of term text (large cases: fewer per coqc, bounded memory).
    queries_of(listname) -> list of query strings over the shard list `listname`.
    Returns list (per shard) of (offset, [values])."""
    import concurrent.futures as cf
    shards, cur, off, size = [], [], 0, 0
    for i, t in enumerate(case_terms):
        if cur and (len(cur) >= shard or size + len(t) > max_chars):
            shards.append((off, cur))
            cur, off, size = [], i, 0
        cur.append(t)
        size += len(t)
    shards.append((off, cur))

    def one(arg):
        k, (off, terms) = arg
        defs = "Definition cs := [\n%s\n].\n" % ";\n".join(terms)
        return off, coq_eval(ctx, "%s_%d" % (name, k), imports, defs, queries_of("cs"), timeout)

    # at most 6 evaluations at a time: one can take several GB
    with cf.ThreadPoolExecutor(max_workers=6) as ex:
        return list(ex.map(one, enumerate(shards)))


def parse_coq_list(s):
    """Parse a printed Coq value made of lists, tuples, numbers, true/false, None/Some into python."""
    s = re.sub(r"%[A-Za-z]+", "", s)
    toks = re.findall(r"\[|\]|\(|\)|;|,|-?\d+|[A-Za-z_][A-Za-z0-9_']*", s)
    pos = [0]

    def val():
        t = toks[pos[0]]
        if t == "[":
            pos[0] += 1
            out = []
            while toks[pos[0]] != "]":
                out.append(val())
                if toks[pos[0]] == ";":
                    pos[0] += 1
            pos[0] += 1
            return out
        if t == "(":
            pos[0] += 1
            out = [val()]
            while toks[pos[0]] == ",":
                pos[0] += 1
                out.append(val())
            assert toks[pos[0]] == ")", toks[pos[0]:pos[0] + 5]
            pos[0] += 1
            return tuple(out) if len(out) > 1 else out[0]
        pos[0] += 1
        if re.match(r"-?\d+$", t):
            return int(t)
        if t == "true":
            return True
        if t == "false":
            return False
        if t == "Some":
            return ("Some", val())
        return t

    v = val()
    return v


def flat(t):
    """flatten nested pairs ((a,b),c) -> [a,b,c]"""
    if isinstance(t, tuple):
        out = []
        for x in t:
            out.extend(flat(x))
        return out
    return [t]


# --------------------------------------------------------------------------- Go harness (L2)

def harness_gomod():
    """go.mod of the harness module is derived from /repo/go.mod on every build."""
    if HARNESS != HARNESS_SRC:
        os.makedirs(HARNESS, exist_ok=True)
        sh(["rsync", "-a", "--delete", "--exclude", "bin", "--exclude", "go.mod", "--exclude", "go.sum",
            HARNESS_SRC + "/", HARNESS + "/"], check=True)
    src = open(os.path.join(REPO, "go.mod")).read().split("\n")
    lines = ["module jivaverif/harness"] + [l for l in src if not l.startswith("module ")]
    lines += ["require github.com/openebs/jiva v0.0.0", "replace github.com/openebs/jiva => " + REPO, ""]
    new = "\n".join(lines)
    p = os.path.join(HARNESS, "go.mod")
    if not os.path.exists(p) or open(p).read() != new:
        open(p, "w").write(new)
    shutil.copyfile(os.path.join(REPO, "go.sum"), os.path.join(HARNESS, "go.sum"))


def harness_build(cmd, race=False, tags="verif"):
    """Build harness/cmd/<cmd> against /repo's working tree. Returns (path|None, log)."""
    harness_gomod()
    os.makedirs(os.path.join(HARNESS, "bin"), exist_ok=True)
    out = os.path.join(HARNESS, "bin", cmd + ("-race" if race else ""))
    args = ["go", "build", "-tags", tags, "-o", out]
    if race:
        args.append("-race")
    args.append("./cmd/" + cmd)
    rc, log = sh(args, cwd=HARNESS, env=GOENV, timeout=900)
    return (out if rc == 0 else None), log


def netns_wrap(argv):
    """Run argv in a private network namespace with loopback up (fixed ports never collide)."""
    inner = "ip link set lo up 2>/dev/null || true; exec " + " ".join("'%s'" % a.replace("'", "'\\''") for a in argv)
    return ["unshare", "-n", "sh", "-c", inner]


_netns_ok = None


def have_netns():
    global _netns_ok
    if _netns_ok is None:
        rc, _ = sh(["unshare", "-n", "true"], timeout=20)
        _netns_ok = (rc == 0)
    return _netns_ok


def run_harness(ctx, binpath, cases, extra_args=(), netns=False, timeout=1200, tag="h", workers=1):
    """cases: list of dicts (each with 'id'); returns dict id -> output dict."""
    import concurrent.futures as cf
    chunks = [cases[i::workers] for i in range(workers)] if workers > 1 else [cases]
    chunks = [c for c in chunks if c]

    def one(arg):
        k, chunk = arg
        inp = os.path.join(ctx.work, "%s-in-%d.jsonl" % (tag, k))
        outp = os.path.join(ctx.work, "%s-out-%d.jsonl" % (tag, k))
        with open(inp, "w") as f:
            for c in chunk:
                f.write(json.dumps(c) + "\n")
        wdir = os.path.join(ctx.work, "%s-w%d" % (tag, k))
        os.makedirs(wdir, exist_ok=True)
        argv = [binpath, inp, outp, wdir] + [str(a) for a in extra_args]
        if netns and have_netns():
            argv = netns_wrap(argv)
        rc, log = sh(argv, timeout=timeout)
        if rc != 0:
            raise RuntimeError("harness failed rc=%d:\n%s" % (rc, log[-3000:]))
        res = {}
        for line in open(outp):
            line = line.strip()
            if line:
                o = json.loads(line)
                res[o["id"]] = o
        shutil.rmtree(wdir, ignore_errors=True)
        return res

    out = {}
    with cf.ThreadPoolExecutor(max_workers=max(1, len(chunks))) as ex:
        for r in ex.map(one, enumerate(chunks)):
            out.update(r)
    return out


# --------------------------------------------------------------------------- findings / evidence

def load_known(pid):
    """known_findings.txt lines:  finding: property=Cxx key=<key> <text>   |   fixed: property=Cxx <commit> <text>"""
    out = []
    p = os.path.join(VERIF, "known_findings.txt")
    if os.path.exists(p):
        for line in open(p):
            line = line.strip()
            m = re.match(r"finding:\s+property=(\S+)\s+key=(\S+)\s+(.*)", line)
            if m and m.group(1) == pid:
                out.append((m.group(2), m.group(3)))
    return out


def out_dir(kind):
    """evidence/ and replays/ belong to runs against /repo; rehearsals against a scratch tree write elsewhere"""
    if REPO == "/repo":
        return os.path.join(VERIF, kind)
    return os.path.join(WORKROOT, "%s-%s" % (kind, hashlib.sha1(REPO.encode()).hexdigest()[:10]))


def write_replay(ctx, obj, suffix=""):
    os.makedirs(out_dir("replays"), exist_ok=True)
    path = os.path.join(out_dir("replays"), "%s-%d%s.json" % (ctx.pid, ctx.seed, suffix))
    with open(path, "w") as f:
        json.dump(obj, f, indent=1)
    return path


def violation(ctx, replay_obj, nofail=False, suffix=""):
    path = write_replay(ctx, replay_obj, suffix)
    ctx.violations.append((path, nofail))
    print("VIOLATION property=%s replay=%s%s" % (ctx.pid, path, " no-failing-input-found" if nofail else ""))
    sys.stdout.flush()


def known_finding(ctx, key, text):
    line = "KNOWN-FINDING: property=%s %s (%s)" % (ctx.pid, text, key)
    if line not in ctx.known:
        ctx.known.append(line)
        print(line)
        sys.stdout.flush()


TRUSTED_COMMON = [
    "Coq 8.16.1 kernel (coqc; vm_compute used for evaluation; no native_compute)",
    "axioms under every property theorem: none (Print Assumptions: Closed under the global context)",
    "hand-written Gallina model tied to /repo by the correspondence run of this check (Go harness built from the working tree)",
    "Go harness, python orchestration and the printing/parsing of Coq values",
]


def write_evidence(ctx, proof, coverage_extra, assumptions, samples):
    cov = dict(
        obligations=proof.get("obligations", 0),
        discharged=proof.get("discharged", 0),
        checker_cmd=proof.get("checker_cmd", "make -C coq -j16 && coqc theories/Properties/%s.v" % ctx.pid),
        trusted_base=TRUSTED_COMMON + proof.get("trusted_extra", []),
        samples=samples[:6] if samples else ["(none)"],
    )
    cov.update(coverage_extra)
    if proof.get("coqchk"):
        cov["coqchk"] = proof["coqchk"]
        cov["checker_cmd"] += " && coqchk -silent -o Jiva.Properties.%s" % ctx.pid
    ev = dict(property_id=ctx.pid, tier=ctx.tier, seed=ctx.seed, level="proof", coverage=cov,
              assumptions=assumptions, wall_s=round(ctx.elapsed(), 2), violations=len(ctx.violations))
    if ctx.known:
        ev["known_findings"] = ctx.known
    if ctx.notes:
        ev["notes"] = ctx.notes
    os.makedirs(out_dir("evidence"), exist_ok=True)
    with open(os.path.join(out_dir("evidence"), ctx.pid + ".json"), "w") as f:
        json.dump(ev, f, indent=1)


def proof_layer(ctx):
    """L1 for this property. Returns dict(obligations, discharged, theorems, assumptions, ok, why)."""
    info = dict(obligations=0, discharged=0, theorems=[], ok=True, why="")
    bad = coq_lint(ctx.pid)
    if bad:
        info.update(ok=False, why="forbidden construct: " + "; ".join(bad[:5]))
        return info
    ok, log = coq_build(pid=ctx.pid)
    if not ok:
        info.update(ok=False, why="coq development does not build:\n" + log[-2500:])
        return info
    r = coq_check_property(ctx.pid)
    info["theorems"] = r["theorems"]
    info["assumptions"] = r["assumptions"]
    info["obligations"] = len(r["theorems"])
    info["discharged"] = len([t for t in r["theorems"] if r["assumptions"].get(t) == "closed" or isinstance(r["assumptions"].get(t), list)]) if r["ok"] else 0
    if not r["ok"]:
        info.update(ok=False, why="Properties/%s.v does not check:\n%s" % (ctx.pid, r["log"][-2500:]))
        return info
    if ctx.tier == "thorough" and not os.environ.get("VERIF_NO_COQCHK"):
        # independent re-check of the compiled property file and everything it depends on
        ok, out = coqchk(["Jiva.Properties." + ctx.pid])
        summary = out[out.find("CONTEXT SUMMARY"):] if "CONTEXT SUMMARY" in out else out[-1500:]
        clean = ok and all(re.search(k + r":\s*<none>", summary) for k in
                           ("Axioms", "type-in-type", "unsafe \\(co\\)fixpoints", "positivity is assumed"))
        info["coqchk"] = dict(ok=clean, summary=" ".join(summary.split())[:600])
        if not clean:
            info.update(ok=False, why="coqchk does not accept Properties/%s.vo or reports assumptions:\n%s" % (ctx.pid, summary[-1500:]))
    return info


def finish(ctx):
    ctx.cleanup()
    sys.exit(1 if ctx.violations else 0)
