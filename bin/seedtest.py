#!/usr/bin/env python3
"""Confirm a seeded change and run checks against it, all in a scratch worktree (never in /repo).

  bin/seedtest.py <srcdir with patch.diff + demo + meta.json> <name> <Cxx> [more Cyy ...]

 1. fresh worktree of /repo HEAD under /tmp; demo placed by its package clause; demo must PASS;
 2. patch applied; `go build ./...` and the util baseline must pass; demo must FAIL;
 3. `JIVA_REPO=<worktree> bin/vcheck Cxx --tier quick` for every listed check (exit 1 + VIOLATION expected);
 4. result stored under /verif/seeded/<name>/ (patch.diff, demo files, meta.json with what was run);
 5. worktree removed.
"""
import json, os, re, shutil, subprocess, sys, time, glob

VERIF = os.path.dirname(os.path.dirname(os.path.abspath(__file__)))
ENV = dict(os.environ, GOFLAGS="-mod=mod", GOPROXY="off", GOSUMDB="off", GOTOOLCHAIN="local")


def sh(cmd, cwd=None, timeout=1800, env=None):
    p = subprocess.run(cmd, cwd=cwd, shell=isinstance(cmd, str), env=env or ENV, timeout=timeout,
                       stdout=subprocess.PIPE, stderr=subprocess.STDOUT, text=True)
    return p.returncode, p.stdout


def place(demo, wt):
    src = open(demo).read()
    m = re.search(r"^package\s+(\w+)", src, re.M)
    pkg = m.group(1).replace("_test", "")
    target = {"controller": "controller", "replica": "replica", "rpc": "rpc", "rest": None, "sync": "sync", "remote": "backend/remote", "main": None}.get(pkg)
    if target is None and pkg == "rest":
        # rest packages: decide by what the demo uses
        target = "replica/rest" if "replica.NewServer" in src or "jiva/replica\"" in src else "controller/rest"
    if target is None:
        # a demonstration with its own package (e.g. a whole-system test with TestMain): its own directory
        target = pkg
        os.makedirs(os.path.join(wt, target), exist_ok=True)
    dst = os.path.join(wt, target, os.path.basename(demo))
    shutil.copyfile(demo, dst)
    tests = re.findall(r"^func (Test\w+)\(", src, re.M)
    tags = "debug" if (re.search(r"^//go:build .*\bdebug\b", src, re.M) or "-tags debug" in src) else ""
    return target, tests, tags


def main():
    srcdir, name, pids = sys.argv[1], sys.argv[2], sys.argv[3:]
    wt = "/tmp/mut-%s-%d" % (name, os.getpid())
    sh(["git", "-C", "/repo", "worktree", "add", "-q", "--detach", wt, "HEAD"])
    ran = []
    res = dict(name=name, checks={})
    try:
        demos = [f for f in glob.glob(os.path.join(srcdir, "**", "*_test.go"), recursive=True)]
        placed = [place(d, wt) for d in demos]

        def run_demos():
            ok = True
            out_all = ""
            for target, tests, tags in placed:
                rc, out = sh(["go", "test"] + (["-tags", tags] if tags else []) + ["-vet=off", "-count=1", "-run", "^(%s)$" % "|".join(tests), "./" + target + "/"], cwd=wt, timeout=1200)
                out_all += out[-1500:]
                ok = ok and rc == 0
            return ok, out_all

        ok0, out0 = run_demos()
        ran.append("demo on unmodified HEAD: %s" % ("pass" if ok0 else "FAIL"))
        rc, out = sh(["git", "apply", os.path.join(srcdir, "patch.diff")], cwd=wt)
        if rc != 0:
            raise SystemExit("patch does not apply: " + out)
        rcb, outb = sh(["go", "build", "./..."], cwd=wt)
        ran.append("go build ./... with the change: %s" % ("ok" if rcb == 0 else "FAIL"))
        rcu, outu = sh(["go", "test", "-vet=off", "-count=1", "./util/..."], cwd=wt)
        ran.append("util baseline with the change: %s" % ("ok" if rcu == 0 else "FAIL"))
        ok1, out1 = run_demos()
        ran.append("demo with the change: %s" % ("pass" if ok1 else "fail (as required)"))
        res["confirmed"] = bool(ok0 and rcb == 0 and rcu == 0 and not ok1)
        # the demos must not be compiled into the harness: remove them before running the checks
        for (target, tests, tags), d in zip(placed, demos):
            os.remove(os.path.join(wt, target, os.path.basename(d)))
        # directories copied along with a patch (e.g. a sysdemo main package) are not part of the change
        for pid in pids:
            t0 = time.time()
            rc, out = sh([os.path.join(VERIF, "bin", "vcheck"), pid, "--tier", "quick"], cwd=VERIF, timeout=2400,
                         env=dict(ENV, JIVA_REPO=wt))
            viol = [l for l in out.split("\n") if l.startswith("VIOLATION")]
            res["checks"][pid] = dict(exit=rc, violation_lines=viol, wall_s=round(time.time() - t0, 1))
            ran.append("JIVA_REPO=<worktree with the change> bin/vcheck %s --tier quick: exit %d %s" % (pid, rc, viol[:1]))
            if rc not in (0, 1):
                res["checks"][pid]["tail"] = out[-1200:]
    finally:
        sh(["git", "-C", "/repo", "worktree", "remove", "--force", wt])
        shutil.rmtree(os.path.join(VERIF, ".work", "harness-" + __import__("hashlib").sha1(wt.encode()).hexdigest()[:10]), ignore_errors=True)
    dst = os.path.join(VERIF, "seeded", name)
    os.makedirs(dst, exist_ok=True)
    same = os.path.abspath(srcdir) == os.path.abspath(dst)
    if not same:
        shutil.copyfile(os.path.join(srcdir, "patch.diff"), os.path.join(dst, "patch.diff"))
        for d in demos:
            shutil.copyfile(d, os.path.join(dst, os.path.basename(d)))
    meta = {}
    mp = os.path.join(srcdir, "meta.json")
    if os.path.exists(mp):
        try:
            meta = json.load(open(mp))
        except Exception:
            meta = dict(raw=open(mp).read())
    if "ran" in meta:
        meta["author_ran"] = meta.pop("ran", None)
    meta["confirmed_by_lead"] = res.get("confirmed")
    meta["lead_ran"] = ran
    meta["detected_by"] = {p: (r["exit"] == 1 and bool(r["violation_lines"])) for p, r in res["checks"].items()}
    meta["check_results"] = res["checks"]
    json.dump(meta, open(os.path.join(dst, "meta.json"), "w"), indent=1)
    print(json.dumps(dict(name=name, confirmed=res.get("confirmed"), detected=meta["detected_by"],
                          lines={p: r["violation_lines"][:1] for p, r in res["checks"].items()}), indent=0))


main()
