#!/usr/bin/env python3
"""Regenerates MANIFEST.json from the table below (kept in one place so it stays valid)."""
import json, os
HERE = os.path.dirname(os.path.abspath(__file__))
V = os.path.dirname(HERE)
BASE_OFF = "for m in $(cat /w/out/gomods.txt); do MF=$(cd /repo/$m && . /w/out/goenv.sh && gomodflag); (cd /repo/$m && go test $MF -json -vet=off -count=1 -timeout 25m ./...); done"

CTL_NOTE = "Trusted: Coq kernel, vm_compute, Go harness (scripted fake backends implementing the model's world, fake replica HTTP), python glue. Modelled not verified: each controller method is one atomic event (the RWMutex), AddReplica split where the code drops the lock, monitor goroutines fire when released, Go map orders taken from the observation and validated; WaitGroup fan-out, rpc and real replicas are outside (C15/C17/C01). Quorum replicas and Revert are not modelled."

CHECKS = {
 "C02": dict(
   text="Coq theorems over the Ctl model (controller.Controller as an event machine over scripted replicas): a write is acknowledged only if strictly more than half of the in-service (non-ERR) backends applied it; without such a majority it is reported failed; every backend that errored or timed out is out of the replica list when the operation returns. Oracle c02_step (also: every replica still in service holds the acknowledged write) evaluated on the real controller for exhaustive outcome assignments.",
   note=CTL_NOTE + " 'Attached at that moment' is read as in service (not marked ERR): an ERR-marked replica awaiting removal receives nothing.",
   technique="Coq proof (step theorems under the structural invariant) + exhaustive fault-assignment differential run against the real controller", ref="§3 C02"),
 "C03": dict(
   text="Coq theorems over the Ctl model: in every reachable state (induction over all 15 event kinds, any fault script, rf>=1) ReadOnly = (RW count < rf/2+1) and RWReplicaCount = number of RW entries; below the quorum a write/sync/unmap returns Refused with the entire state (incl. every replica's log) unchanged; with a quorum the gate does not refuse. Oracle c03_step evaluated on the real controller along every membership-changing path around the quorum boundary, with probe writes before and after monitor goroutines run.",
   note=CTL_NOTE, technique="Coq proof (invariant by induction over events) + differential run with schedule control of the monitor goroutines", ref="§3 C03"),
 "C04": dict(
   text="Coq theorems over the Ctl model: for every admissible order in which the reader list is tried, a successful read is served by a replica whose mode is RW in the controller's list; with no RW replica a read fails. Oracle c04_step additionally checks that failed readers are detached and that an in-range read fails only if every RW replica failed it; evaluated on the real controller for every failing-reader subset.",
   note=CTL_NOTE + " Freshness of the served data relies on C02 (in-service replicas hold acknowledged writes) and C07 (rebuilt replicas); the fake world does not copy data at promotion.",
   technique="Coq proof (step theorems) + exhaustive reader-fault differential run", ref="§3 C04"),
 "C05": dict(
   text="Coq theorems over the Ctl model: replicas that fail a write are out of the list when it returns; removal by any detector removes; a replica enters the list only through add-commit (itself, as WO) or a start on an empty list (theorem over all event kinds). Oracle c05_step additionally checks that a failing minority does not surface as an I/O error and that nobody outside the set receives I/O; every failing subset x detector order is run on the real controller.",
   note=CTL_NOTE + " Timeouts are the outcome 'applied-then-error'; the rpc side is C15.",
   technique="Coq proof (step theorems + keys-subset argument over all events) + differential run over failing subsets and detector orders", ref="§3 C05"),
 "C09": dict(
   text="Coq theorems over the Ctl model: a registration sends a start signal only with no replica attached and floor(RF/2)+1 registered, sends at most one, and the target has the maximal revision count among the registered non-rebuilding replicas; Start succeeds only for the signalled leader and a refused Start leaves the state unchanged. Oracle c09_step (also: lower-revision replicas are not RW after start) evaluated on the real controller over registration orders, ties, repetitions, signal/liveness failures.",
   note=CTL_NOTE + " Histories give every replica one fixed (revision, rebuilding) assignment, as the property's quantifier does. The election pick among equally good candidates is Go map order: observed and validated.",
   technique="Coq proof (step theorems) + enumerated/random registration-order differential run", ref="§3 C09"),
 "C13": dict(
   text="Coq theorems over the Ctl model: Snapshot is refused with nothing touched unless the RW count equals RF; a checkpoint is recorded only if exactly RF replicas are RW, all backends are RW, all report the same latest snapshot and all stored it; removing a replica withdraws it. Oracle c13_step (gate on the actual RW count; at quiescent points checkpoint => all RF RW, in every chain, persisted by each) evaluated on the real controller.",
   note=CTL_NOTE + " Point-in-time equality of snapshot content on real replicas follows from the controller lock held across the fan-out (modelled as atomic) and is exercised only with fakes here.",
   technique="Coq proof (step theorems) + per-replica snapshot/set-checkpoint fault differential run", ref="§3 C13"),
 "C18": dict(
   text="Coq theorems over the Ctl model: in every reachable state (induction over all events incl. duplicates, unknown addresses, interleaved admissions; start requests naming <=1 replica) no address twice, backend map = replica list (addresses and modes), at most RF replicas, at most one WO, RW count exact, registration map duplicate-free; replicas enter only via add-commit/start. Oracle c18_step evaluated on the real controller, including that replicas outside the list receive no calls.",
   note=CTL_NOTE + " Known limitation stated in the theorem: a REST start naming more replicas than RF is outside ev_wf.",
   technique="Coq proof (structural invariant by induction over events) + random/enumerated membership-history differential run", ref="§3 C18"),
 "C10": dict(
   text="Coq theorems over the Srv model (replica.Server + Replica.WriteAt + revision_counter.go): for every history of server calls, REST actions, attaches, closes, crashes (also between data write and counter write) and reopen events the persisted counter equals the initial one plus the number of writes acknowledged while RW; it never decreases; WO / refused writes leave it; SetRevisionCounter is refused unless RW. The executable trace oracle c10_oracle is proved to hold on every model trace and is evaluated on the implementation's observations.",
   note="Trusted: Coq kernel, vm_compute, the Go harness and python glue. Modelled not verified: data abstracted to write ids; crash = abandoning the Server object; mutex atomicity of increaseRevisionCounter only sampled (16 concurrent writers, exact final count). Promotion equality (VerifyRebuildReplica copies the source counter) is theorem verify_promotes_after_check of the Ctl model.",
   technique="Coq proof (induction over histories, invariant cache=disk) + differential run of model vs real replica.Server", ref="§3 C10"),
 "C14": dict(
   text="Lock discipline of every management-API handler, regenerated from the Go AST on each run and accepted by a Coq-verified checker (check_sound: no unlock of an unheld mutex, no relock, no send under a lock, nothing held at any exit including panic; for every execution / choice sequence); generated obligation handlers_ok re-checked by coqc; plus request fuzzing of the real routers (controller with fake backends, replica on a directory) in child processes: status, panic, hang, liveness probe, TryLock, child alive.",
   note="Proof covers lock discipline and action gating only. Runtime panics, hangs and process death are searched, not proved. Translator harness/cmd/restgen is in the trusted base (structural; unknown constructs become Unknown, which the checker rejects). Callees outside Controller/replica.Server/rest packages are assumed not to touch the tracked mutexes.",
   technique="Coq proof (verified checker + generated obligation by vm_compute, model regenerated from source) + request fuzzing", ref="§3 C14"),
 "C15": dict(
   text="Coq theorems over the Rpc model. Codec (rpc/wire.go over byte lists): decode(encode m ++ rest) = (m, rest) for every message within the Go field ranges; concatenated frames decode in order; bad magic and truncated frames rejected; accepted input re-encodes to the bytes consumed. Client (rpc/client.go loop + operation as an event machine, uint32 counter wrapping): each call returns at most once; a non-error result is the response carrying the number its frame was sent with; under the stated guard one pending entry per number; the guard is necessary (refutation on a small modulus); on a transport error every blocked caller gets the error in that step and every later call is refused at once. Trace oracles proved on all model traces and evaluated on the real rpc.Wire / rpc.Client.",
   note="Trusted: Coq kernel, vm_compute, Go harness (scripted TCP peer with its own frame codec), python glue, reconstruction of the loop's event order from the peer's log. Not proved: goroutine scheduling and channels; 'promptly' is a measured bound (rw timeout + fixed 2 s + slack); sync/unmap/ping deadlines are not configurable; counter wrap is not driven on the real client; detachment beyond the closeChan signal belongs to Ctl/C05.",
   technique="Coq proof (induction over event sequences with invariants; generic little-endian lemmas) + differential run against real rpc.Wire / rpc.Client with scripted reply permutations and faults", ref="§3 C15"),
 "C17": dict(
   text="Coq theorems over the Srv model: a write changes data only if the replica is open and RW/WO (otherwise refused with the whole state unchanged); a closed replica serves nothing; remove / prepare-remove / set-revision-counter refused unless RW; attach (remote.Factory.Create) only from closed and never twice without a close; every REST action outside the state's table is answered 404 with no effect (all 6x17 pairs, as one theorem over the transcribed table). Oracle c17_oracle proved on all model traces and evaluated on the implementation's traces; every (state, action) pair is driven through the real router.",
   note="Trusted: as C10. The table `allowed` is a transcription of replica/rest/model.go; its tie to the code is the exhaustive (state, action) run on every invocation. Actions start/resize/replacedisk/setlogging/updatecloneinfo are covered only up to the gate.",
   technique="Coq proof (case analysis on the step function, induction over traces) + exhaustive state x action differential run", ref="§3 C17"),
}

BLK_NOTE = 'Trusted: Coq kernel, vm_compute, Go harness, python glue. Assumed: ext4 extent/FIEMAP/hole semantics at 4 KiB granularity (an extent exists iff written and not punched); queued holes are applied or dropped before the next chain-changing operation; each replica.Server call is atomic (rmLock critical section not modelled as concurrent). Unmap, backing files and non-4KiB sizes are outside.'

CHECKS.update({
 "C01": dict(
   text="Coq refinement theorem block_refines_spec over the Block model (literal transcription of diff_disk.go lookup/fullWriteAt/readModifyWrite/WriteAt split, backup.go preload, UpdateLUNMap, createDisk/openLiveChain index conventions, RemoveIndex, revert, Resize, FoldFile): for every granularity K>0, volume size, history of write/read/snapshot/delete/revert/reopen/reload/set-punch/resize and every hole-application choice, results, read data and the full-volume image equal the flat spec (last write or zero per unit); the unaligned three-way split writes exactly [off, off+len). Controller half (out-of-range I/O refused, state unchanged) is theorem write_out_of_range / read_out_of_range of the Ctl model. Correspondence: generated histories on a real replica.Server (sector and odd-byte streams, chain files, reopen with/without preload, punching on/off) vs the model, oracle on the observed reads.",
   note=BLK_NOTE, technique="Coq proof (simulation relation, induction over histories, loop invariants for the literal fullWriteAt/preload loops) + differential run on a real replica directory", ref="§3 C01"),
 "C06": dict(
   text="Coq theorems over the Block model: c06_oracle (NewReadOnly image and revert-on-copy image of every retained user-created snapshot equal the image captured when it was taken, after every step) holds on every model trace; user_snapshot_immutable, revert_exact, punch safety (every emitted hole lies strictly between the newest user snapshot and the head and only covers blocks shadowed above). C06_refuted documents the pre-fix fullWriteAt (hole sent to the wrong file). Correspondence on real directories with punching on, images read through NewReadOnly on byte-exact sparse copies.",
   note=BLK_NOTE, technique="Coq proof (invariant over histories incl. hole soundness) + differential run with snapshot images extracted from directory copies", ref="§3 C06"),
 "C11": dict(
   text="Coq theorems over the Block model: delete (prepare -> fold child into parent -> remove) preserves the live image and every other retained user snapshot (shift lemma); head / latest / base are refused by PrepareRemoveDisk and RemoveDiffDisk with the state unchanged; every element of the cleaner's candidate list lies strictly between base and checkpoint, is not a retained user snapshot, nor is its parent, and the list is empty without a usable checkpoint; c11_oracle holds on every in-domain model trace. Correspondence: real sync.GetDeleteCandidateChain vs the model on random chain shapes; every deletion through PrepareRemoveDisk + sparse.FoldFile + RemoveDiffDisk with images before/after.",
   note=BLK_NOTE + " The user-deletion gate of the controller REST handler (rf RW, checkpoint set, not the checkpoint) is not modelled; candidate ordering by size is compared only as a set.",
   technique="Coq proof (shift lemma, filter characterisation) + differential run incl. the real candidate filter", ref="§3 C11"),
 "C16": dict(
   text="Coq theorems over the Block model: growing appends zeros to the live image and every snapshot image, the added range accepts writes, the size survives reopen; a smaller size is refused with the state unchanged; c16_oracle holds on every in-domain model trace. Controller half (smaller or equal size refused before any replica is called) is theorem resize_not_growing_refused of the Ctl model. Correspondence: Server.Resize interleaved with I/O, snapshots and reopen on a real directory.",
   note=BLK_NOTE, technique="Coq proof (corollaries of the refinement with Resize in the op type) + differential run", ref="§3 C16"),
 "C07": dict(
   text="PARTIAL proof + system exploration. Proved (Ctl model): promotion WO->RW by VerifyRebuildReplica happens only after the chains were compared from the checkpoint upward and copies the source's revision counter; at most one WO replica in every reachable state; whoever serves a read is RW (so a rebuilding or interrupted replica is never read). Not proved: that ssync's copy plus Reload/UpdateLUNMap under concurrent writes yields identical images; that half is exercised on the real jiva binaries: a replica is killed and rebuilt under a running writer (thorough: interrupted rebuilds, rf 2/3/5) and every RW replica's live image, each snapshot image, revision counter and checkpoint are compared, and the live image against all acknowledged writes.",
   note="Trusted: Coq kernel; Ctl correspondence (scripted replicas); for the data half the T3 harness, ssync/sparse-tools, ext4. The Block model's UpdateLUNMap is proved sequentially only (writes between its two critical sections are not modelled), so no theorem covers the data half.",
   technique="Coq proof of the control half + differential run on the real controller + whole-system scenarios (real replica processes, directory image comparison)", ref="§3 C07"),
 "C19": dict(
   text="PARTIAL proof + system exploration. Proved (Ctl model): during Start a replica is made RW only if its clone status could be read and is not 'error'; an error status or unreadable status removes it and fails the start (start_tail is shown to be the code path of addReplicaDuringStartNoLock). Not proved: CloneReplica's copy; exercised on the real binaries: source volume with history and two snapshots, a clone replica of a second controller; its status and the controller's view are sampled every 20 ms (never RW before 'completed'), then its live image is compared with the image of snapshot S on the source and its revision counter with the one recorded for S.",
   note="Trusted: Coq kernel; Ctl correspondence; T3 harness; ssync. Timing of the 2 s polls and interruption of the copy are not modelled (thorough tier repeats the scenario).",
   technique="Coq proof of the control half + differential run on the real controller + whole-system clone scenario", ref="§3 C19"),
})

CHECKS.update({
 "C08": dict(
   text="Coq theorems over the Meta model (replica/replica.go as trees of file-system calls with crash_at/fail_at). crash_prefix: the directory left by death after k calls is the k-th state of the fault-free run. From every state reachable by any history (including deaths inside operations), for open / close / write / snapshot / remove / mark-removed / revert / resize / set-checkpoint / set-rebuilding with any argument the code tolerates, and every k: the directory recovers to a view equal to the one before or after on chain names, inodes, Parent/Removed/UserCreated/Created and volume information (C08_crash_atomic), and a reopen succeeds showing that chain (C08_kill_reopen). C08_durable: every successful operation except initial creation ends every rename/link/unlink/creating open with a directory sync. PARTIAL: C08_fault_atomic is proved for SetCheckpoint (generic lemma for 'rewrite volume.meta, return' programs) and refuted by witness for createDisk with a failing directory sync after the commit rename (known finding createdisk-sync-after-commit); the other operations under a failing call are exercised, not proved. Correspondence (T1v): the real replica.Replica performs one operation under strace; its canonical syscall trace must equal the model's; the process is then killed at, and fed ENOSPC/EIO in, every call; every directory is reopened with the real replica.New and compared with the model's exec/recover; oracles on the implementation's own observations.",
   note="Trusted: Coq kernel, vm_compute, strace inject semantics (kill on entry; failed call not performed), Go harnesses, python glue, canonicalisation of strace output. Process death only, no page-cache loss; durability is the fsync lint. Image content abstracted to (inode, write count); data equality after reopen judged implementation-vs-implementation. stat/read/close/pread are untraced model calls. Arguments outside the disk-name space and the initial Create are not operations under test.",
   technique="Coq proof (per-operation symbolic execution with pointwise block specs, static footprint analysis, invariant over histories) + kill/fail-at-every-syscall differential run under strace", ref="§3 C08"),
 "C12": dict(
   text="Coq theorems over the Meta model. After every history (C12_wf_repaired: for the code with the argument repairs that are now in /repo): recover succeeds, the chain is a duplicate-free path from the head to the base, every member has image and metadata file holding its record, length <= MaxChainLength, and diskData / diskChildrenMap / activeDiskData / Info agree with the directory. C12_reopen_roundtrip (close or death, then open: same names, inodes, attributes; open succeeds). C12_refused_unchanged (any non-success result leaves recovered view and memory identical). The pre-repair code is refuted by two witnesses (kept as history). Correspondence (T1): random histories (30% invalid arguments) on the real replica.Server, comparing Chain(), ListDisks(), Info(), directory with hard-link structure, decoded metadata files and content fingerprints after every step; oracle on the implementation's and on the model's trace.",
   note="Trusted: as C08 without strace. Per-disk RevisionCounter excluded from the round trip. ReplaceDisk / UpdateCloneInfo / Reload not in the alphabet. The general lemma 'c12_oracle holds on every model trace' is not proved (the oracle is evaluated on the model's own trace of every executed history and two representative histories are proved by vm_compute).",
   technique="Coq proof (invariant by induction over histories via per-operation specs, list-surgery lemmas) + differential run on a real replica directory", ref="§3 C12"),
})

def main():
    checks = []
    for pid in sorted(CHECKS):
        c = CHECKS[pid]
        checks.append(dict(
            property_id=pid,
            quick_cmd="bin/vcheck %s --tier quick" % pid,
            thorough_cmd="bin/vcheck %s --tier thorough" % pid,
            evidence_file="/verif/evidence/%s.json" % pid,
            replay_cmd_template="bin/vcheck %s --replay {path}" % pid,
            engine="coq+harness",
            level_claimed=dict(category="proof", text=c["text"], design_ref=c["ref"]),
            level_note=c["note"],
            technique=c["technique"]))
    props = [json.loads(l)["id"] for l in open(os.path.join(V, "properties.jsonl"))]
    na = [dict(property_id=p, reason="not yet built in this round: check under construction (see DESIGN.md §8 build order); will be claimed once its model, theorems and correspondence run exist")
          for p in props if p not in CHECKS]
    m = dict(version=1, setup_cmd="bin/setup",
             hooks=dict(guard="verif", enable="go build -tags verif (no source hooks are needed so far; the harness uses exported API only)",
                        baseline_off_cmd=BASE_OFF, source_commits=[], add_only=True),
             engines=[dict(name="coq+harness", path="bin/vcheck", serves_properties=sorted(CHECKS),
                           kind_free_text="Coq 8.16 development (coq/) + Go harness (harness/) + python orchestration (bin/vlib.py, checks/)")],
             checks=checks, not_applicable=na,
             notes="All checks: L1 proofs re-made, L2 model-vs-implementation correspondence + Coq-evaluated trace oracles on the real code's observations. See DESIGN.md.")
    json.dump(m, open(os.path.join(V, "MANIFEST.json"), "w"), indent=1)

main()
