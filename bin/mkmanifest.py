#!/usr/bin/env python3
"""Regenerates MANIFEST.json from the table below (kept in one place so it stays valid)."""
import json, os
HERE = os.path.dirname(os.path.abspath(__file__))
V = os.path.dirname(HERE)
BASE_OFF = "for m in $(cat /w/out/gomods.txt); do MF=$(cd /repo/$m && . /w/out/goenv.sh && gomodflag); (cd /repo/$m && go test $MF -json -vet=off -count=1 -timeout 25m ./...); done"

CHECKS = {
 "C10": dict(
   text="Coq theorems over the Srv model (replica.Server + Replica.WriteAt + revision_counter.go): for every history of server calls, REST actions, attaches, closes, crashes (also between data write and counter write) and reopen events the persisted counter equals the initial one plus the number of writes acknowledged while RW; it never decreases; WO / refused writes leave it; SetRevisionCounter is refused unless RW. The executable trace oracle c10_oracle is proved to hold on every model trace and is evaluated on the implementation's observations.",
   note="Trusted: Coq kernel, vm_compute, the Go harness and python glue. Modelled not verified: data abstracted to write ids; crash = abandoning the Server object; mutex atomicity of increaseRevisionCounter only sampled (16 concurrent writers, exact final count). Promotion equality (VerifyRebuildReplica copies the source counter) is part of the Ctl model.",
   technique="Coq proof (induction over histories, invariant cache=disk) + differential run of model vs real replica.Server", ref="§3 C10"),
 "C17": dict(
   text="Coq theorems over the Srv model: a write changes data only if the replica is open and RW/WO (otherwise refused with the whole state unchanged); a closed replica serves nothing; remove / prepare-remove / set-revision-counter refused unless RW; attach (remote.Factory.Create) only from closed and never twice without a close; every REST action outside the state's table is answered 404 with no effect (all 6x17 pairs, as one theorem over the transcribed table). Oracle c17_oracle proved on all model traces and evaluated on the implementation's traces; every (state, action) pair is driven through the real router.",
   note="Trusted: as C10. The table `allowed` is a transcription of replica/rest/model.go; its tie to the code is the exhaustive (state, action) run on every invocation. Actions start/resize/replacedisk/setlogging/updatecloneinfo are covered only up to the gate.",
   technique="Coq proof (case analysis on the step function, induction over traces) + exhaustive state x action differential run", ref="§3 C17"),
}

def main():
    checks = []
    for pid in sorted(CHECKS):
        c = CHECKS[pid]
        checks.append(dict(
            property_id=pid,
            quick_cmd="bin/vcheck %s --tier quick" % pid,
            thorough_cmd="bin/vcheck %s --tier thorough" % pid,
            evidence_file="/verif/evidence/%s.json" % pid,
            replay_cmd_template="bin/vcheck %s --replay {path}" % pid,
            engine="coq+harness",
            level_claimed=dict(category="proof", text=c["text"], design_ref=c["ref"]),
            level_note=c["note"],
            technique=c["technique"]))
    props = [json.loads(l)["id"] for l in open(os.path.join(V, "properties.jsonl"))]
    na = [dict(property_id=p, reason="not yet built in this round: check under construction (see DESIGN.md §8 build order); will be claimed once its model, theorems and correspondence run exist")
          for p in props if p not in CHECKS]
    m = dict(version=1, setup_cmd="bin/setup",
             hooks=dict(guard="verif", enable="go build -tags verif (no source hooks are needed so far; the harness uses exported API only)",
                        baseline_off_cmd=BASE_OFF, source_commits=[], add_only=True),
             engines=[dict(name="coq+harness", path="bin/vcheck", serves_properties=sorted(CHECKS),
                           kind_free_text="Coq 8.16 development (coq/) + Go harness (harness/) + python orchestration (bin/vlib.py, checks/)")],
             checks=checks, not_applicable=na,
             notes="All checks: L1 proofs re-made, L2 model-vs-implementation correspondence + Coq-evaluated trace oracles on the real code's observations. See DESIGN.md.")
    json.dump(m, open(os.path.join(V, "MANIFEST.json"), "w"), indent=1)

main()
