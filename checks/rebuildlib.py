"""Data halves of C07 (rebuild) and C19 (clone): generators, Coq-term printers, run loop, shrinking and
`run_data_half` (model: coq/theories/Block/Rebuild.v + RebuildCorr.v, harness: harness/cmd/rebuild).

A case = the source's prehistory, how the destination got its directory (fresh, or forked from the source
at some point and then diverged), and the events of the rebuild / clone.  The harness runs two real
replica.Server instances; the same case is evaluated by the model inside Coq; `c07_oracle` / `c19_oracle`
(RebuildCorr.v) are evaluated on the implementation's observations."""
import copy, json, os, sys
sys.path.insert(0, os.path.join(os.path.dirname(os.path.abspath(__file__)), "..", "bin"))
import vlib
import blocklib
from blocklib import W, SNAP, DEL, RELOAD, nat, b, op_term, rle_term

IMPORTS = ["Block.Model", "Block.Corr", "Block.Rebuild", "Block.RebuildCorr"]
ADD = 900
DIFF = {0: "oracle only", 1: "source live image", 2: "source head via fresh open", 3: "source chain", 4: "source attributes",
        5: "source snapshot images", 6: "source extents", 7: "source size",
        11: "destination live image", 12: "destination head via fresh open", 13: "destination chain",
        14: "destination attributes", 15: "destination snapshot images", 16: "destination extents", 17: "destination size",
        21: "destination revision counter", 22: "a step's outcome: the flow stopped on one side and went on on the other", 30: "implementation error"}
COV_BITS = ["source_hole_during_rebuild", "preload_phase_hole", "merge_hole", "merge_filled_unknown_entry",
            "merge_kept_live_entry_over_preload", "writes_between_critical_sections", "forked_destination",
            "unaligned_write_before_reload", "unaligned_write_after_reload", "auto_snapshot_differs",
            "step_failed_flow_stopped", "step_failed_and_repeated"]
KEY_RMW = "wo-rmw-stale"
KEY_DIV = "diverged-hole-below-syncpoint"
DIV_TEXT = ("a destination that has written on its own since the sync point (data the source never got) has punched blocks out of "
            "automatic snapshots at or below the sync point -- they were shadowed by its head; the rebuild replaces the files that did "
            "the shadowing and never copies the punched ones: after promotion those blocks read zeros / older data")
RMW_TEXT = ("a write that is not aligned to the 4 KiB block, acknowledged while the destination is still WO and not yet "
            "reloaded, is completed by diffDisk.readModifyWrite from the destination's OWN (stale or empty) chain: after "
            "promotion the rest of that block differs from the source")


# ------------------------------------------------------------------------------------------ events

def BW(off, ln, tok): return dict(k="bw", off=off, len=ln, tok=tok)
def SW(off, ln, tok): return dict(k="sw", off=off, len=ln, tok=tok)
def COPY(i): return dict(k="copy", i=i)
REL = dict(k="reload")
CLONEINFO = dict(k="cloneinfo")
def ULM(mid=None, ffail=0, retry=False):
    e = dict(k="ulm", mid=list(mid or []))
    if ffail:
        e.update(ffail=ffail, retry=retry)     # the extent query of chain member `ffail` fails during the (first) call
    return e
def ULMRACE(ws, lead_us=0): return dict(k="ulmrace", race=list(ws), len=lead_us)


def closed_after(ops):
    """names of the closed members, base first, after block ops (valid flows only)"""
    return blocklib.chain_after(ops)


def aligned(K, o):
    return o["off"] % K == 0 and (o["off"] + o["len"]) % K == 0


class G:
    def __init__(self, rng, K=8, nb=None):
        self.rng = rng
        self.K = K
        self.nb = nb if nb is not None else rng.choice([4, 6, 8, 8, 12])
        self.tok = 0
        self.name = 0
        w = min(self.nb, rng.choice([2, 3, 4]))
        h0 = rng.randrange(self.nb - w + 1)
        self.hot = list(range(h0, h0 + w))

    def newtok(self):
        self.tok += 1
        return self.tok

    def blk(self):
        return self.rng.choice(self.hot) if self.rng.random() < 0.75 else self.rng.randrange(self.nb)

    def awrite(self, mk=W):
        bl = self.blk()
        n = self.rng.choice([1, 1, 1, 2, 2, 3])
        n = min(n, self.nb - bl)
        return mk(bl * self.K, n * self.K, self.newtok())

    def uwrite(self, mk=W):
        K, total = self.K, self.nb * self.K
        bl = self.blk()
        cls = self.rng.choice(["sub", "sub", "cross", "tail"])
        if cls == "sub":
            off = bl * K + self.rng.randrange(K)
            ln = self.rng.randint(1, K - off % K)
            if off % K == 0 and ln == K:
                ln -= 1
        elif cls == "cross":
            off = bl * K + self.rng.randrange(1, K)
            ln = (K - off % K) + self.rng.randint(1, 2 * K)
        else:
            off = bl * K
            ln = K * self.rng.randint(0, 1) + self.rng.randint(1, K - 1)
        off = min(off, total - 1)
        ln = max(1, min(ln, total - off))
        return mk(off, ln, self.newtok())

    def write(self, p_un, mk=W):
        return self.uwrite(mk) if self.rng.random() < p_un else self.awrite(mk)

    def snap(self, user=None):
        self.name += 1
        return SNAP(self.name, self.rng.random() < 0.45 if user is None else user)

    def prehistory(self, n, p_un=0.3, min_snaps=0, dels=True):
        rng = self.rng
        ops, snaps = [], []
        for _ in range(n):
            x = rng.random()
            if x < 0.24 and len(snaps) < 5:
                o = self.snap()
                snaps.append([o["name"], o["user"]])
                ops.append(o)
            elif x < 0.28 and dels and len(snaps) >= 3:
                cands = [i for i in range(1, len(snaps) - 1) if not snaps[i - 1][1]]
                if cands:
                    i = rng.choice(cands)
                    ops.append(DEL(snaps[i][0]))
                    del snaps[i]
            elif x < 0.32:
                ops.append(RELOAD(True))
            else:
                ops.append(self.write(p_un))
        while len(snaps) < min_snaps:
            ops.append(self.awrite())
            o = self.snap()
            snaps.append([o["name"], o["user"]])
            ops.append(o)
        return ops


def needed_copies(case):
    """chain positions (on the source, 1 = base) of the closed files the sync has to copy, oldest first"""
    if case["mode"] == "clone":
        ch = closed_after(case["pre"])
        return list(range(1, ch.index(case["snap"]) + 2)) if case["snap"] in ch else []
    n_closed = len(closed_after(case["pre"])) + 1                 # + the add-time snapshot
    c = len(closed_after(case["pre"][:case["fork"]])) if case["fork"] >= 0 else 0
    return list(range(c + 1, n_closed + 1))


def rebuild_case(rng, unaligned_pre=False, race=False, nb=None):
    """unaligned_pre: unaligned foreground writes may arrive before the Reload (the shape of wo-rmw-stale)"""
    g = G(rng, nb=nb)
    pre = g.prehistory(rng.randint(3, 9))
    nopunch = rng.random() < 0.2
    if nopunch:
        pre = [o for o in pre if o["k"] != "reload"]          # Server.Reload switches reclamation on
    fork = -1
    dpre = []
    if rng.random() < 0.6:
        # fork only where no deletion follows (the two chains then have the same members below the sync point)
        last_del = max([i for i, o in enumerate(pre) if o["k"] == "del"] + [-1])
        fork = rng.randint(last_del + 1, len(pre))
        dpre = [g.write(0.3) for _ in range(rng.randint(0, 3))]
    case = dict(mode="rebuild", K=g.K, nb=g.nb, pre=pre, fork=fork, dpre=dpre, ev=[], snap=0, nopunch=nopunch)
    need = needed_copies(case)
    ev = []
    p_un_pre = 0.5 if unaligned_pre else 0.0
    for i in need:
        for _ in range(rng.choice([0, 1, 1, 2])):
            ev.append(g.write(p_un_pre, BW))
        ev.append(COPY(i))
        if rng.random() < 0.15:
            ev.append(COPY(rng.choice(need[:need.index(i) + 1])))     # a file synced twice
    for _ in range(rng.choice([0, 1, 2])):
        ev.append(g.write(p_un_pre, BW))
    rl = dict(REL)
    if rng.random() < 0.1:
        rl.update(obst="volume", retry=rng.random() < 0.6)       # Server.Reload fails once (volume.meta not writable)
    ev.append(rl)
    for _ in range(rng.choice([0, 0, 1, 2])):
        ev.append(g.write(0.4, BW))
    if race:
        ws = [g.write(0.3, BW) for _ in range(rng.randint(6, 30))]
        ev.append(ULMRACE(ws, lead_us=rng.choice([0, 0, 50, 150, 400])))
    else:
        mid = [g.write(0.35, BW) for _ in range(rng.choice([0, 1, 2, 3, 4]))]
        if rng.random() < 0.12:
            n_members = len(closed_after(pre)) + 2
            ev.append(ULM(mid, ffail=rng.randint(1, n_members), retry=rng.random() < 0.5))
        else:
            ev.append(ULM(mid))
    for _ in range(rng.choice([0, 0, 1])):
        ev.append(g.write(0.4, BW))
    case["ev"] = ev
    return case


def clone_case(rng):
    g = G(rng)
    pre = g.prehistory(rng.randint(3, 8), dels=False)
    nopunch = rng.random() < 0.4
    if nopunch:
        pre = [o for o in pre if o["k"] != "reload"]
    pre.append(g.awrite())
    o = g.snap(user=True)
    pre.append(o)
    users = [x["name"] for x in pre if x["k"] == "snap" and x["user"]]
    for _ in range(rng.randint(0, 4)):
        pre.append(g.snap() if rng.random() < 0.3 and g.name < 6 else g.write(0.3))
    case = dict(mode="clone", K=g.K, nb=g.nb, pre=pre, fork=-1, dpre=[], ev=[], snap=rng.choice(users), nopunch=nopunch)
    ev = []
    for i in needed_copies(case):
        for _ in range(rng.choice([0, 0, 1, 2])):
            ev.append(g.write(0.3, SW))
        ev.append(COPY(i))
    ci, rl = dict(CLONEINFO), dict(REL)
    x = rng.random()
    if x < 0.35:
        ci.update(obst=rng.choice(["volume", "head", "counter"]), retry=rng.random() < 0.5)     # one metadata write of the step fails
    elif x < 0.5:
        rl.update(obst="volume", retry=rng.random() < 0.5)
    ev.append(ci)
    if rng.random() < 0.4:
        ev.append(g.write(0.3, SW))
    ev.append(rl)
    ev.append(ULM())
    case["ev"] = ev
    return case


# enumerated small cases: every relative order of {write, copy, reload, merge} for one hot block
def enum_cases():
    K, out = 8, []
    pre = [W(0, 4 * K, 1), SNAP(1, True), W(K, 2 * K, 2), SNAP(2, False), W(2 * K, K, 3)]
    for fork in (-1, 2, 5):
        need = needed_copies(dict(mode="rebuild", pre=pre, fork=fork))
        copies = [COPY(i) for i in need]
        for pos in range(len(copies) + 1):
            for mid in ([], [BW(2 * K, K, 9)], [BW(K, 2 * K, 9), BW(5 * K, K, 10)]):
                ev = copies[:pos] + [BW(2 * K, 2 * K, 7)] + copies[pos:] + [dict(REL), BW(0, K, 8), ULM(mid)]
                out.append(dict(mode="rebuild", K=K, nb=6, pre=pre, fork=fork, dpre=[W(3 * K, K, 5)] if fork >= 0 else [], ev=ev, snap=0))
    return out


# minimized histories of earlier detections; they run first
CORPUS_C19 = [
    # seeded C19-clone-rewire-head-meta: UpdateCloneInfo swallowed the failure of the write that rewires the head
    dict(mode="clone", K=8, nb=4, pre=[W(0, 16, 1), SNAP(1, True), W(8, 8, 2)], fork=-1, dpre=[], snap=1, nopunch=False,
         ev=[COPY(1), dict(CLONEINFO, obst="head"), dict(REL), ULM()]),
]


def clone_fault_cases():
    """every single failed metadata write of the clone flow, the flow stopping there or the step being repeated"""
    out = []
    pre = [W(0, 16, 1), SNAP(1, True), W(8, 8, 2), SNAP(2, False), W(0, 8, 3)]
    for step, obst in (("cloneinfo", "volume"), ("cloneinfo", "counter"), ("cloneinfo", "head"), ("reload", "volume")):
        for retry in (False, True):
            ci, rl = dict(CLONEINFO), dict(REL)
            (ci if step == "cloneinfo" else rl).update(obst=obst, retry=retry)
            out.append(dict(mode="clone", K=8, nb=4, pre=pre, fork=-1, dpre=[], snap=1, nopunch=False,
                            ev=[COPY(1), SW(8, 8, 7), ci, rl, ULM()]))
    for ff in (1, 2):                       # the extent query of S's file / of the head fails in UpdateLUNMap
        for retry in (False, True):
            out.append(dict(mode="clone", K=8, nb=4, pre=pre, fork=-1, dpre=[], snap=1, nopunch=False,
                            ev=[COPY(1), dict(CLONEINFO), dict(REL), ULM(ffail=ff, retry=retry)]))
    return out


def clone_enum_cases():
    """two automatic snapshots below S share a block (the clone's own preload reclaims it when the source never did),
    with and without the source's reclamation, the source writing during the copy"""
    K, out = 8, []
    pre = [W(0, K, 1), SNAP(1, False), W(0, K, 2), SNAP(2, False), W(K, K, 3), SNAP(3, True), W(0, K, 4)]
    for nopunch in (True, False):
        for sw_at in (0, 2, 3):
            ev = [COPY(1), COPY(2), COPY(3)]
            ev.insert(sw_at, SW(3, 2 * K, 9))
            out.append(dict(mode="clone", K=K, nb=4, pre=pre, fork=-1, dpre=[], snap=3, nopunch=nopunch,
                            ev=ev + [dict(CLONEINFO), dict(REL), ULM()]))
    return out


# minimized histories of earlier detections; they run first
CORPUS_C07 = [
    # seeded C07-lunmap-hole-wrong-file: the merge sent the hole of a finished run to the file of the NEXT run; block 1 is
    # owned by the (automatic) add-time snapshot, block 2 by user snapshot 1, which also holds an older block 1
    dict(mode="rebuild", K=8, nb=6, pre=[W(0, 32, 1), SNAP(1, True), W(8, 8, 2)], fork=-1, dpre=[], snap=0, nopunch=False,
         ev=[COPY(1), COPY(2), dict(REL), ULM([BW(8, 16, 9)])]),
    # seeded C07-preload-err: preload kept only the last file's extent-query error; member 2 (the add-time snapshot)
    # holds the newest block 0, user snapshot 1 an older one
    dict(mode="rebuild", K=8, nb=4, pre=[W(0, 8, 1), SNAP(1, True), W(0, 8, 2)], fork=-1, dpre=[], snap=0, nopunch=False,
         ev=[COPY(1), COPY(2), dict(REL), ULM(ffail=2)]),
]


def preload_fault_cases():
    """UpdateLUNMap after the sync, the extent query of one chain file failing: every member of the destination's chain
    (the head as control), the flow stopping or the step repeated.  Every closed file above the base holds the newest
    copy of a block of which an older file (the user-created snapshot) still holds an older copy: a table built
    without that file serves the older copy."""
    K, out = 8, []
    pre = [W(0, 3 * K, 1), SNAP(1, True), W(K, 2 * K, 2), SNAP(2, False), W(2 * K, K, 3)]
    for fork in (-1, 2):
        base = dict(mode="rebuild", K=K, nb=5, pre=pre, fork=fork, dpre=[], snap=0, nopunch=False, ev=[])
        need = needed_copies(base)
        n_members = len(closed_after(pre)) + 2                  # closed members + add-time snapshot + head
        for ff in range(1, n_members + 1):
            for retry in (False, True):
                c = copy.deepcopy(base)
                c["ev"] = [COPY(i) for i in need] + [BW(3 * K, K, 7), dict(REL), BW(4 * K, K, 8), ULM([BW(0, K, 9)], ffail=ff, retry=retry)]
                out.append(c)
    return out


def merge_enum_cases():
    """directed layouts for the merge loop of UpdateLUNMap: the writes land between its two critical sections and
    supersede, in ascending offset order, blocks whose preloaded owners differ -- an automatic snapshot above the
    newest user-created snapshot next to the user-created snapshot itself (which also holds an older copy of the
    neighbour), two automatic snapshots in a row, a run that ends at a block that is not superseded, a run at the
    end of the volume.  Every hole the merge sends must go to the file of the run it closes."""
    K, out = 8, []
    U4 = [W(0, 4 * K, 1), SNAP(1, True)]
    layouts = [
        # (prehistory, writes inside the window)
        (U4 + [W(K, K, 2), SNAP(2, False)], [BW(K, 2 * K, 9)]),                       # auto-owned k, then user-owned k+1: one write
        (U4 + [W(K, K, 2), SNAP(2, False)], [BW(K, K, 9), BW(2 * K, K, 10)]),         # the same as two writes
        (U4 + [W(K, K, 2), SNAP(2, False)], [BW(K, K, 9)]),                           # the run ends at a block that is not superseded
        ([W(0, 6 * K, 1), SNAP(1, True), W(5 * K, K, 2), SNAP(2, False)], [BW(4 * K, 2 * K, 9)]),   # user-owned, then auto-owned up to the end
        (U4 + [W(K, K, 2), SNAP(2, False), W(2 * K, K, 3), SNAP(3, False)], [BW(K, 3 * K, 9)]),     # auto, other auto, user
        (U4 + [W(2 * K, K, 2), SNAP(2, False)], [BW(K, 2 * K, 9)]),                   # user-owned k, then auto-owned k+1
        (U4 + [W(K, 2 * K, 2), SNAP(2, False), W(K, K, 3), SNAP(3, True), W(2 * K, K, 4), SNAP(4, False)],
         [BW(K, 3 * K, 9)]),                                                          # newer user snapshot, auto above it, old user below
    ]
    for pre, mid in layouts:
        for fork in (-1, len(pre)):
            case = dict(mode="rebuild", K=K, nb=6, pre=pre, fork=fork, dpre=[], snap=0, nopunch=False, ev=[])
            case["ev"] = [COPY(i) for i in needed_copies(case)] + [dict(REL), ULM(mid)]
            out.append(case)
    return out


RMW_CASE = dict(mode="rebuild", K=8, nb=8, pre=[W(0, 32, 1)], fork=-1, dpre=[], snap=0,
                ev=[BW(17, 2, 3), COPY(1), dict(REL), ULM()])


DIV_CASE = dict(mode="rebuild", K=8, nb=4, pre=[W(8, 8, 2), SNAP(2, False)], fork=2, dpre=[W(8, 8, 6)], snap=0,
                ev=[COPY(2), dict(REL), ULM()])


def is_div_shape(case):
    """the destination wrote on its own after the point at which it was in sync with the source"""
    return case["mode"] == "rebuild" and case["fork"] >= 0 and any(o["k"] == "w" for o in case["dpre"])


def neutral_div(case):
    c = copy.deepcopy(case)
    c["dpre"] = [o for o in c["dpre"] if o["k"] != "w"]
    return c


def neutral_rmw(case):
    """the same history with every foreground write that arrives before the Reload widened to whole blocks"""
    c = copy.deepcopy(case)
    K = c["K"]
    for e in c["ev"]:
        if e["k"] == "reload":
            break
        if e["k"] == "bw" and not aligned(K, e):
            lo = e["off"] // K * K
            hi = -(-(e["off"] + e["len"]) // K) * K
            e["off"], e["len"] = lo, hi - lo
    return c


def is_rmw_shape(case):
    """a foreground write that is not block-aligned arrives before the destination's Reload"""
    if case["mode"] != "rebuild":
        return False
    for e in case["ev"]:
        if e["k"] == "reload":
            return False
        if e["k"] == "bw" and not aligned(case["K"], e):
            return True
    return False


# ------------------------------------------------------------------------------------------ Coq printing

def data_term(o):
    return "(repeat %d%%N %s)" % (o["tok"], nat(o["len"]))


def wlist(ws):
    return "[%s]" % "; ".join("(%s, %s)" % (nat(o["off"]), data_term(o)) for o in ws)


def mev_term(e, out):
    k = e["k"]
    if k == "bw":
        return "MBoth %s %s" % (nat(e["off"]), data_term(e))
    if k == "sw":
        return "MSrc %s %s" % (nat(e["off"]), data_term(e))
    if k == "copy":
        return "MCopy %d" % e["i"]
    if k == "cloneinfo":
        return "MCloneInfo %d%%N" % out.get("snaprev", 0)
    if k == "reload":
        return "MReload"
    if k == "ulm":
        return "MUlm %s" % wlist(e.get("mid") or [])
    if k == "ulmrace":
        return "MUlmRace %s" % wlist(e.get("race") or [])
    raise ValueError(e)


def mev_terms(c, out):
    """the flow the MODEL predicts: an obstructed step fails; it is then repeated (retry) or the flow stops there"""
    terms = []
    for e in c["ev"]:
        if e.get("obst"):
            if e["k"] == "cloneinfo":
                # stage 0: a write before the counter is set fails (volume.meta, or the counter block itself); 1: the head's .meta
                terms.append("MCloneInfoFail %d %d%%N" % (1 if e["obst"] == "head" else 0, out.get("snaprev", 0)))
            else:
                terms.append("MReloadFail")
            if not e.get("retry"):
                break
        if e.get("ffail"):
            terms.append("MUlmFail %d" % e["ffail"])
            if not e.get("retry"):
                break
        terms.append(mev_term(e, out))
    return terms


def completed(out):
    """on the implementation: no step reported a failure that was not repaired, and the flow ran to its end"""
    return not out.get("err") and not out.get("stopped")


def side_term(s):
    chain = "[%s]" % "; ".join("%d%%N" % (n if n >= 0 else 888888) for n in s["chain"])
    attr = "[%s]" % "; ".join("(%s, %s)" % (b(u), b(r)) for u, r in s["attr"])
    snaps = "[%s]" % "; ".join(str(i) for i in s["snaps"])
    ext = "[%s]" % "; ".join("[%s]" % "; ".join(str(x) for x in e) for e in s["ext"])
    return "(mkrside %d %d %s %s %s %s %s)" % (s["live"], s["fresh"], chain, attr, snaps, ext, nat(s["nblk"]))


EMPTY_SIDE = dict(live=0, fresh=0, chain=[], attr=[], snaps=[], ext=[], nblk=0, rev=0)


def case_term(c, out):
    src = out.get("src") or EMPTY_SIDE
    dst = out.get("dst") or EMPTY_SIDE
    return "mkrcase %s %s %s %s\n [%s]\n %s [%s] %d%%N\n [%s]\n [%s]\n %s\n %s %s %d%%N %d%%N" % (
        nat(c["K"]), nat(c["nb"]), b(c["mode"] == "clone"), b(c.get("nopunch", False)),
        "; ".join(op_term(o) for o in c["pre"]),
        "None" if c["fork"] < 0 else "(Some %d)" % c["fork"],
        "; ".join(op_term(o) for o in c["dpre"]), c.get("snap", 0),
        ";\n  ".join(mev_terms(c, out)),
        ";\n  ".join(rle_term(r) for r in out.get("tbl", [])),
        side_term(src), side_term(dst), b(completed(out)), dst.get("rev", 0), out.get("snaprev", 0))


# ------------------------------------------------------------------------------------------ running

def run_cases(ctx, binpath, cases, tag="rb", workers=16, shard=12):
    """-> (bad, cov, outs); bad = list of dict(case, diff, oracle[, err])"""
    cs = []
    for i, c in enumerate(cases):
        d = dict(c)
        d["id"] = i
        cs.append(d)
    outs = vlib.run_harness(ctx, binpath, cs, tag=tag, workers=min(workers, max(1, len(cs))))
    terms, failed, skip = [], [], set()
    for c in cs:
        o = outs[c["id"]]
        if o.get("err"):
            if "missed the window" in o["err"]:
                skip.add(c["id"])          # the scheduling trick did not take: the case decides nothing
            else:
                failed.append(dict(case=c["id"], diff=30, oracle=False, err=o["err"]))
            terms.append(None)
            continue
        terms.append(case_term(c, o))
    live = [(i, t) for i, t in enumerate(terms) if t is not None]
    v = blocklib.variant()
    qs = (lambda l: ["rverdicts %s" % l]) if v is None else (lambda l: ["rverdicts_v %s %s" % (v, l)])
    res = vlib.coq_eval_sharded(ctx, tag, IMPORTS, [t for _, t in live], qs, shard=shard)
    bad = list(failed)
    cov = [0] * len(cs)
    for off, vals in res:
        for i, item in enumerate(vlib.parse_coq_list(vals[0])):
            f = vlib.flat(item)
            ci = live[off + i][0]
            cov[ci] = f[2]
            if f[0] != 0 or not f[1]:
                bad.append(dict(case=ci, diff=f[0], oracle=bool(f[1])))
    return bad, cov, outs, skip


def model_oracle(ctx, case, out, tag="mo"):
    """does the model of the current tree satisfy the oracle on this case?"""
    v = blocklib.variant() or "code_variant"
    vals = vlib.coq_eval(ctx, tag, IMPORTS, "Definition c0 := %s.\n" % case_term(case, out), ["model_oracle %s c0" % v])
    return vals[0].strip() == "true"


def normalize(case):
    """after an operation was dropped: keep the copy events consistent with the chain"""
    c = copy.deepcopy(case)
    if c["mode"] == "rebuild" and c["fork"] > len(c["pre"]):
        c["fork"] = len(c["pre"])
    if c["mode"] == "clone" and c["snap"] not in closed_after(c["pre"]):
        return None
    if c["fork"] >= 0 and any(o["k"] == "del" for o in c["pre"][c["fork"]:]):
        return None          # the two chains must have the same members below the sync point
    need = needed_copies(c)
    ev, seen = [], set()
    for e in c["ev"]:
        if e["k"] == "copy":
            if e["i"] not in need:
                continue
            seen.add(e["i"])
        if e["k"] in ("reload", "cloneinfo") and seen != set(need) and not any(x["k"] == "reload" for x in ev):
            for i in need:
                if i not in seen:
                    ev.append(COPY(i))
                    seen.add(i)
        ev.append(e)
    c["ev"] = ev
    if not any(e["k"] == "reload" for e in ev):
        return None
    return c


def shrink(ctx, binpath, case, still_bad, tag="rshr", rounds=16):
    cur = copy.deepcopy(case)
    for n in range(rounds):
        cands = []
        for key in ("pre", "dpre", "ev"):
            for i in range(len(cur[key])):
                if key == "ev" and cur[key][i]["k"] in ("reload", "cloneinfo"):
                    continue
                c = copy.deepcopy(cur)
                dropped = c[key].pop(i)
                if key == "pre" and c["fork"] > i:
                    c["fork"] -= 1
                c = normalize(c)
                if c is not None:
                    cands.append(c)
        for i, e in enumerate(cur["ev"]):
            for fld in ("mid", "race"):
                for j in range(len(e.get(fld) or [])):
                    c = copy.deepcopy(cur)
                    del c["ev"][i][fld][j]
                    cands.append(c)
        for i, e in enumerate(cur["ev"]):
            if e.get("obst") or e.get("ffail"):
                c = copy.deepcopy(cur)
                c["ev"][i].pop("obst", None)
                c["ev"][i].pop("ffail", None)
                c["ev"][i].pop("retry", None)
                cands.append(c)
        if cur["fork"] >= 0:
            c = copy.deepcopy(cur)
            c["fork"], c["dpre"] = -1, []
            c = normalize(c)
            if c is not None:
                cands.append(c)
        if not cands:
            break
        bad, _, _, _ = run_cases(ctx, binpath, cands, tag="%s%d" % (tag, n))
        idx = {x["case"]: x for x in bad}
        hit = [i for i in range(len(cands)) if i in idx and still_bad(idx[i])]
        if not hit:
            break
        # prefer the candidate with the fewest operations
        hit.sort(key=lambda i: len(cands[i]["pre"]) + len(cands[i]["ev"]) + len(cands[i]["dpre"]))
        cur = cands[hit[0]]
    return cur


def gen_cases(rng, pid, quick):
    cases = []
    if pid == "C07":
        cases += copy.deepcopy(CORPUS_C07)
        for retry in (False, True):
            c = copy.deepcopy(CORPUS_C07[0])
            [e for e in c["ev"] if e["k"] == "reload"][0].update(obst="volume", retry=retry)
            cases.append(c)
        cases += merge_enum_cases()
        cases += preload_fault_cases()
        cases += enum_cases()
        for _ in range(110 if quick else 3000):
            cases.append(rebuild_case(rng))
        for _ in range(24 if quick else 600):
            cases.append(rebuild_case(rng, race=True, nb=rng.choice([8, 16, 32])))
        cases.append(copy.deepcopy(RMW_CASE))
        cases.append(copy.deepcopy(DIV_CASE))
        for _ in range(20 if quick else 500):
            cases.append(rebuild_case(rng, unaligned_pre=True))
    else:
        cases += copy.deepcopy(CORPUS_C19)
        cases += clone_fault_cases()
        cases += clone_enum_cases()
        for _ in range(90 if quick else 2500):
            cases.append(clone_case(rng))
    return cases


def describe(case):
    return dict(case=case, reading="pre: the source's history (w off len tok in 512-byte units when K=8, snap name user, del, reload); "
                "fork/dpre: how the destination got its directory (fork=-1: fresh replica); ev: bw = write acknowledged by both, "
                "copy i = source member i (1 = base) synced with its .meta, reload = Server.Reload without preload, "
                "ulm = Server.UpdateLUNMap with `mid` written between its two critical sections, ulmrace = against a free writer; "
                "cloneinfo = Server.UpdateCloneInfo(S, counter recorded for S); obst on cloneinfo/reload = a directory stands at "
                "volume.meta.tmp (volume) or <head>.meta.tmp (head) while the call runs, so that this one metadata write fails; the step "
                "must report it: the flow then stops (no retry) or repeats the step (retry); ffail on ulm = the extent query (FIEMAP) of chain "
                "member ffail of the destination fails during the call (its descriptors are swapped for /dev/null)")


def run_data_half(ctx, pid, quick):
    """-> (violations, stats).  violations: list of dicts, each to be passed to
    vlib.violation(ctx, v["replay"], nofail=v["nofail"], suffix=v["suffix"]); stats: merged into the evidence."""
    binpath, log = vlib.harness_build("rebuild")
    if not binpath:
        return ([dict(replay=dict(property=pid, broken="harness/cmd/rebuild does not build against the repository", log=log[-3000:]),
                      nofail=True, suffix="-data")], dict(data_half_evaluations=0))
    rng = ctx.rng
    cases = gen_cases(rng, pid, quick)
    bad, cov, outs, skip = run_cases(ctx, binpath, cases, tag="rb" + pid)
    if skip:
        # the lock hand-over inside UpdateLUNMap did not take (rare): run those histories once more
        again = sorted(skip)
        bad2, cov2, outs2, skip2 = run_cases(ctx, binpath, [cases[i] for i in again], tag="rr" + pid)
        for j, i in enumerate(again):
            cov[i] = cov2[j]
            outs[i] = outs2[j]
        bad += [dict(y, case=again[y["case"]]) for y in bad2]
        skip = {again[j] for j in skip2}
    known = dict(vlib.load_known(pid))
    violations = []
    n_known = 0
    key = "c07_oracle" if pid == "C07" else "c19_oracle"

    def racy(c):
        return any(e["k"] == "ulmrace" for e in c["ev"])

    concrete = [x for x in bad if not x["oracle"]]
    # with a free-running writer the extents of automatic snapshots depend on the interleaving: not a difference
    drift = [x for x in bad if x["oracle"] and x["diff"] != 0 and not (racy(cases[x["case"]]) and x["diff"] in (5, 6, 15, 16))]
    KNOWN = [(KEY_RMW, is_rmw_shape, RMW_TEXT, neutral_rmw, RMW_CASE), (KEY_DIV, is_div_shape, DIV_TEXT, neutral_div, DIV_CASE)] if pid == "C07" else []
    # a failure is attributed to a recorded finding when (a) the implementation behaved exactly like the model of
    # the current tree, (b) the history has the finding's stated shape, and (c) the same history with that one
    # ingredient neutralised (writes aligned / no divergent writes) satisfies the oracle on the implementation
    attributed = {}
    cand = []
    for x in concrete:
        case = cases[x["case"]]
        if x["diff"] != 0:
            continue
        ks = [k for k in KNOWN if k[0] in known and k[1](case)]
        if ks:
            c2 = case
            for k in ks:
                c2 = k[3](c2)
            cand.append((x["case"], ks, c2))
    if cand:
        bad2, _, _, skip2 = run_cases(ctx, binpath, [c for _, _, c in cand], tag="rn" + pid)
        failing2 = {y["case"] for y in bad2 if not y["oracle"]} | set(skip2)
        for j, (ci, ks, _) in enumerate(cand):
            if j not in failing2:
                attributed[ci] = ks
    printed = set()
    reported = 0
    for x in concrete:
        case = cases[x["case"]]
        if x["case"] in attributed:
            n_known += 1
            for k in attributed[x["case"]]:
                if k[0] not in printed and json.dumps(case, sort_keys=True) == json.dumps(k[4], sort_keys=True):
                    printed.add(k[0])
                    vlib.known_finding(ctx, k[0], k[2] + "; minimal history: " + json.dumps(dict(pre=case["pre"], fork=case["fork"], dpre=case["dpre"], ev=case["ev"])))
                    ctx.notes.append(dict(known_finding=k[0], minimal_case=case))
            continue
        if reported < 2:
            small = shrink(ctx, binpath, case, lambda y: not y["oracle"], tag="rs%d" % reported)
            bb, _, oo, _ = run_cases(ctx, binpath, [small], tag="rf%d" % reported)
            obj = dict(property=pid, data_half=True, kind="%s fails on the implementation's observations (two real replica.Server instances)" % key,
                       observed=dict(src=oo[0].get("src"), dst=oo[0].get("dst"), image_table=oo[0].get("tbl"), error=oo[0].get("err")),
                       model_vs_impl=[dict(y, field=DIFF.get(y["diff"], y["diff"])) for y in bb],
                       replay_cmd="bin/vcheck %s --replay <this file>" % pid)
            obj.update(describe(small))
            violations.append(dict(replay=obj, nofail=False, suffix="-data" + ("" if reported == 0 else "-%d" % reported)))
            reported += 1
    for ci, ks in attributed.items():
        for k in ks:
            if k[0] not in printed:
                printed.add(k[0])
                c = cases[ci]
                vlib.known_finding(ctx, k[0], k[2] + "; history: " + json.dumps(dict(pre=c["pre"], fork=c["fork"], dpre=c["dpre"], ev=c["ev"])))
    if drift and not violations:
        x = drift[0]
        small = shrink(ctx, binpath, cases[x["case"]], lambda y: y["diff"] != 0, tag="rd")
        bb, _, oo, _ = run_cases(ctx, binpath, [small], tag="rdf")
        obj = dict(property=pid, data_half=True,
                   broken="correspondence Block.RebuildCorr.check_rcase_v (model coq/theories/Block/Rebuild.v vs two replica.Server instances)",
                   first_difference=DIFF.get(bb[0]["diff"], bb[0]["diff"]) if bb else None,
                   observed=dict(src=oo[0].get("src"), dst=oo[0].get("dst"), image_table=oo[0].get("tbl"), error=oo[0].get("err")))
        obj.update(describe(small))
        violations.append(dict(replay=obj, nofail=True, suffix="-data"))

    seen = {}
    for c, f in zip(cases, cov):
        seen[json.dumps([c["pre"], c["fork"], c["dpre"], c["ev"]])] = f
    nontriv = sum(1 for f in seen.values() if f & (1 | 2 | 4 | 8 | 16))
    raced = sum(outs[i].get("raced", 0) for i in range(len(cases)))
    stats = dict(data_half_evaluations=len(cases), data_half_distinct_nontrivial=nontriv,
                 data_half_rule="two real replica.Server instances in one process: prehistory on the source, destination fresh or forked+diverged, "
                                "foreground writes applied to both, closed files copied extent-exactly in place, real Reload(no preload) + real UpdateLUNMap "
                                "with writes placed between its two critical sections (through the server's own RWMutex) or racing freely; "
                                "non-trivial (model side) = a hole was queued by the source / the preload / the merge, or the merge filled an unknown entry or "
                                "kept a live entry over the preloaded one; distinct by (prehistory, fork, events)",
                 data_half_coverage={name: sum(1 for f in cov if f & (1 << i)) for i, name in enumerate(COV_BITS)},
                 data_half_model_impl_differences=len(drift), data_half_oracle_failures=len(concrete),
                 data_half_oracle_failures_matching_known_finding=n_known,
                 data_half_cases_without_verdict=len(skip),
                 data_half_writes_overlapping_updatelunmap=raced,
                 data_half_sample=cases[len(cases) // 2])
    return violations, stats


def replay(ctx, pid, obj):
    """replay of a data-half file written by run_data_half; returns the exit code"""
    binpath, log = vlib.harness_build("rebuild")
    if not binpath:
        print("ERROR: harness does not build:\n" + log[-3000:])
        return 2
    case = obj.get("case", obj)
    bad, cov, outs, skip = run_cases(ctx, binpath, [case], tag="replay")
    o = outs[0]
    print("events:", json.dumps(case["ev"]))
    print("source     :", json.dumps(o.get("src")))
    print("destination:", json.dumps(o.get("dst")))
    print("image table:", json.dumps(o.get("tbl")), "error:", o.get("err"))
    print("verdict:", [dict(y, field=DIFF.get(y["diff"], y["diff"])) for y in bad] if bad else "model and implementation agree; the oracle holds")
    return 1 if any(not y["oracle"] for y in bad) else 0
