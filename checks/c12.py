"""C12 — the snapshot chain stays a well-formed path and survives reopen (model: coq/theories/Meta, tier T1).

Histories of snapshot / remove / mark-removed / revert / resize / set-checkpoint / set-rebuilding / write /
close / open / process death between operations, ~30% with invalid arguments, run on the real
replica.Server; after every step Chain(), ListDisks(), Info(), the directory (names, hard-link structure,
decoded metadata files) and content fingerprints are recorded.  Meta.Corr.check_case evaluates the C12
oracle on the implementation's observations and compares every observation with the model's.
"""
import json, os, sys
sys.path.insert(0, os.path.join(os.path.dirname(os.path.abspath(__file__)), "..", "bin"))
import vlib, metalib

KNOWN_TEXT = {
    "children-stale-after-remove": "removeDiskNode leaves the removed snapshot's diskChildrenMap entry: a snapshot created later with the "
                                   "same name is listed with a stale second child (and cannot be removed) until the replica is reopened",
    "revert-target": "Revert to a name that is not a non-head chain member (the head itself / an off-chain file) destroys the directory",
    "remove-data-bearing-snapshot-read": "RemoveDiffDisk (raw removedisk, no merge) of a snapshot that holds the newest copy of a block: the running "
                                         "process reads that block as zeros (RemoveIndex clears the location entry), after close + open the "
                                         "block shows the older copy a lower snapshot holds: reopening does not reproduce the same data",
}


def shape_of(case, outs, failstep):
    """key of the known-finding shape of the step at which the oracle fails, or None.
    Stated on the operation and the chain observed just before it."""
    ops = case["ops"]
    if failstep is None or failstep >= len(ops) or failstep == 0:
        return None
    o = ops[failstep]
    prev = outs["obs"][failstep - 1]
    chain = prev.get("chain") or []
    if o["op"] == "snap":
        # the name was removed from the chain earlier in this session (no reopen since)
        name = metalib.dname_str(("s", o["s"]))
        for k in range(failstep - 1, -1, -1):
            q = ops[k]
            if q["op"] in ("open", "revert") and outs["obs"][k]["res"] == "ok":
                break
            if q["op"] == "rm" and metalib.dname_str(tuple(q["d"])) == name and outs["obs"][k]["res"] == "ok" \
                    and k > 0 and name in (outs["obs"][k - 1].get("chain") or []):
                return "children-stale-after-remove"
    if o["op"] == "revert":
        name = metalib.dname_str(tuple(o["d"]))
        if name not in chain[1:] and name in prev["dir"]:
            return "revert-target"
    cur = outs["obs"][failstep]
    if o["op"] == "open" and cur["res"] == "ok" and not prev.get("open"):
        # the reopen shows other data than the process that was closed: was a data-bearing snapshot removed (raw
        # RemoveDiffDisk, no merge) in that session, changing what the running process read?
        for k in range(failstep - 1, 0, -1):
            q, ob, pb = ops[k], outs["obs"][k], outs["obs"][k - 1]
            if q["op"] in ("open", "revert") and ob["res"] == "ok" and q is not o:
                break
            if q["op"] == "rm" and ob["res"] == "ok" and pb.get("chain") and ob.get("chain") and len(ob["chain"]) < len(pb["chain"]) \
                    and pb.get("live") != ob.get("live"):
                return "remove-data-bearing-snapshot-read"
    return None


def gen_cases(ctx, n_random):
    rng = ctx.rng
    cases = metalib.fixed_cases() + metalib.known_cases()
    for i in range(n_random):
        kb = 0.08 if i % 10 == 0 else 0.0
        g = metalib.Gen(rng, invalid=0.3, known_bad=kb)
        cases.append(dict(ops=g.history(rng.randint(8, 22)), maxchain=rng.choice([0, 0, 0, 0, 6])))
    return cases


def main(ctx, replay=None):
    okc, why = metalib.ensure_meta_compiled()
    proof = vlib.proof_layer(ctx) if okc else dict(ok=False, why=why, obligations=0, discharged=0, theorems=[], assumptions={})
    binpath, log = vlib.harness_build("meta")
    if not binpath:
        print("ERROR: harness does not build against the repository:\n" + log[-3000:])
        sys.exit(2)
    known_keys = dict(vlib.load_known(ctx.pid))

    if replay:
        rp = json.load(open(replay))
        case = dict(ops=rp["ops"], maxchain=rp.get("maxchain", 0))
        bad, cov, outs = metalib.run_cases(ctx, binpath, [case], tag="replay")
        for o, ob in zip(case["ops"], outs[0]["obs"]):
            print(json.dumps(o), "->", ob["res"], (ob.get("err") or "")[:80], "chain=", ob.get("chain"))
        print("verdict:", bad if bad else "model and implementation agree; oracle holds")
        if bad and not bad[0]["c12"]:
            print("known shape:", shape_of(case, outs[0], bad[0]["failstep"]))
        ctx.cleanup()
        sys.exit(1 if bad else 0)

    quick = ctx.tier == "quick"
    cases = gen_cases(ctx, 380 if quick else 6000)
    bad, cov, outs = metalib.run_cases(ctx, binpath, cases)

    concrete, known, drift = [], [], []
    for b in bad:
        if not b["c12"]:
            sh = shape_of(cases[b["case"]], outs[b["case"]], b["failstep"])
            if sh and sh in known_keys:
                known.append((b, sh))
            else:
                concrete.append(b)
            # the model has to predict the same observations up to and including the step at which the oracle fails
            # (after a known finding destroyed the directory the rest of the history is not compared)
            if b["field"] != 0 and b["step"] <= b["failstep"]:
                drift.append(b)
        else:
            drift.append(b)

    def minimise(b, case, pred, pred3=None):
        small = metalib.shrink(ctx, binpath, case, pred, pred3=pred3)
        bb, _, oo = metalib.run_cases(ctx, binpath, [small], tag="fin")
        return small, bb, oo

    def unknown_failure(b, cand, couts):
        """the oracle fails on the implementation's trace and the failing step does not have the shape of a known finding"""
        return (not b["c12"]) and shape_of(cand, couts, b["failstep"]) not in known_keys

    seen = set()
    known.sort(key=lambda x: len(cases[x[0]["case"]]["ops"]))          # minimise the shortest representative of each shape
    nfixed = len(metalib.fixed_cases()) + len(metalib.known_cases())
    for b, sh in known:
        if sh in seen:
            continue
        seen.add(sh)
        if b["case"] < nfixed or sh == "remove-data-bearing-snapshot-read":
            # one of the hand-minimised histories of metalib.known_cases(): nothing to shrink
            vlib.known_finding(ctx, sh, KNOWN_TEXT[sh])
            continue
        # the predicate is evaluated on the minimised history
        small, bb, oo = minimise(b, cases[b["case"]], lambda x: not x["c12"])
        sh2 = shape_of(small, oo[0], bb[0]["failstep"]) if bb and not bb[0]["c12"] else None
        if sh2 in known_keys:
            vlib.known_finding(ctx, sh2, KNOWN_TEXT[sh2])
        else:
            concrete.append(b)

    def report_concrete(b, case):
        # the minimised history must still fail in a way that is not a known finding
        small, bb, oo = minimise(b, case, lambda x: not x["c12"], pred3=unknown_failure)
        fs = bb[0]["failstep"] if bb else None
        vlib.violation(ctx, dict(property="C12", kind="C12 oracle fails on the implementation's trace", ops=small["ops"],
                                 maxchain=small.get("maxchain", 0), failing_step=fs,
                                 observed=[dict(res=o["res"], err=(o.get("err") or "")[:120], chain=o.get("chain"),
                                                dir=sorted(o["dir"].keys())) for o in oo[0]["obs"]],
                                 model_vs_impl=bb, replay_cmd="bin/vcheck C12 --replay <this file>"))

    if concrete:
        b = concrete[0]
        report_concrete(b, cases[b["case"]])
    elif drift or not proof["ok"]:
        extra = [dict(ops=metalib.Gen(ctx.rng, invalid=0.35).history(ctx.rng.randint(8, 30)), maxchain=ctx.rng.choice([0, 0, 6]))
                 for _ in range(1500 if quick else 4000)]
        conc2 = []
        try:
            bad2, _, outs2 = metalib.run_cases(ctx, binpath, extra, tag="search")
            conc2 = [b for b in bad2 if not b["c12"] and shape_of(extra[b["case"]], outs2[b["case"]], b["failstep"]) not in known_keys]
        except Exception as e:
            ctx.notes.append("wider search failed: %s" % e)
        if conc2:
            report_concrete(conc2[0], extra[conc2[0]["case"]])
        else:
            if drift:
                b = drift[0]
                small, bb, oo = minimise(b, cases[b["case"]], lambda x: x["field"] != 0)
                what = dict(broken="correspondence Meta.Corr.check_case (model coq/theories/Meta/Model.v vs replica.Server)",
                            first_difference=dict(step=bb[0]["step"] if bb else None, field=metalib.FIELD.get(bb[0]["field"]) if bb else None),
                            ops=small["ops"], maxchain=small.get("maxchain", 0),
                            observed=[dict(res=o["res"], err=(o.get("err") or "")[:120], chain=o.get("chain")) for o in oo[0]["obs"]])
            else:
                what = dict(broken="proof layer", why=proof["why"])
            what.update(property="C12", searched=len(cases) + len(extra))
            vlib.violation(ctx, what, nofail=True)

    flags = {}
    for c, f in zip(cases, cov):
        flags[json.dumps(c["ops"])] = f
    nontriv = sum(1 for f in flags.values() if (f & 1) and (f & 2) and (f & 4))
    kinds = {}
    for c in cases:
        for o in c["ops"]:
            kinds[o["op"]] = kinds.get(o["op"], 0) + 1
    refused = sum(1 for o in outs.values() for ob in o["obs"] if ob["res"] == "err")
    extra = dict(evaluations=len(cases), distinct_nontrivial=nontriv,
                 rule="one evaluation = one history on the real replica.Server compared step by step with the model; non-trivial = the model "
                      "says the history contains a successful snapshot/remove/revert on a chain of >= 2, a refusal with the replica open, "
                      "and a close or process death followed by a successful reopen; distinct by operation list",
                 traces_validated_against_impl=len(cases), operations=sum(len(c["ops"]) for c in cases), refused_or_failed_steps=refused,
                 model_impl_differences=len(drift), oracle_failures=len(concrete), known_finding_histories=len(known),
                 input_distribution=kinds,
                 coverage_flags=dict(chain_mutation=sum(1 for f in cov if f & 1), refusal=sum(1 for f in cov if f & 2),
                                     reopen=sum(1 for f in cov if f & 4), mark_removed=sum(1 for f in cov if f & 8),
                                     failed_by_obstacle=sum(1 for f in cov if f & 32)),
                 theorems=proof.get("theorems", []), exhaustive=False)
    for k, v in extra["coverage_flags"].items():
        if v == 0:
            ctx.notes.append("coverage predicate with zero hits: " + k)
    samples = [dict(ops=cases[i]["ops"], last=dict(res=outs[i]["obs"][-1]["res"], chain=outs[i]["obs"][-1].get("chain")))
               for i in (1, len(cases) // 2, len(cases) - 1)]
    vlib.write_evidence(ctx, proof, extra, [
        "names are disk-shaped strings (volume-head-NNN.img, volume-snap-<x>.img) or strings that name no file; an argument such as "
        "'volume.meta' or 'revision.counter' is outside the model's argument space",
        "image content is abstracted to (inode, number of data writes); 'same data' is judged on the implementation's own fingerprints "
        "(raw image files, full volume read) before close and after open",
        "the only failures in these histories are opens of volume.meta.tmp / <new head>.meta.tmp made to fail by a directory placed at that "
        "name (every call of every operation failing once is C08); RemoveDiffDisk / PrepareRemoveDisk / WriteAt are never made to fail here "
        "(a failing metadata write in removeDiskNode is logrus.Fatalf)",
        "ReplaceDisk arguments: (snapshot, its child snapshot), unknown source, head as target, a source that is no file, wrong mode; not "
        "generated: source = head, source = target, a source that is not the target's child; UpdateCloneInfo / Reload are not in the alphabet",
        "the per-disk RevisionCounter is excluded from the reopen round trip (readDiskData rewrites values <= 1 on open)",
    ], samples)
    vlib.finish(ctx)
