"""C15 — data-path RPC matches replies to requests, round-trips frames, never hangs (model: coq/theories/Rpc)."""
import glob, json, os, sys
sys.path.insert(0, os.path.join(os.path.dirname(os.path.abspath(__file__)), "..", "bin"))
import vlib, rpclib

RULE = ("codec: structured Message values (extremes per field, payload sizes around the 8096-byte bufio buffer, random) through the real "
        "Wire.Write, and byte streams (valid frame sequences; separately: truncated, bad magic, garbage tail, huge announced length) through "
        "the real Wire.Read loop; client: 1..64 concurrent ReadAt/WriteAt/Sync/Ping/Unmap calls on one real rpc.Client against a scripted TCP "
        "peer replying in a scripted permutation with request-derived content, duplicates and unknown numbers, then close / corrupt / "
        "half frame / stall, then a second wave of calls. non-trivial (client, judged on the model): a response overtakes an older "
        "outstanding request, or the connection fails with callers waiting; (codec read): at least one message decoded or a malformed end. "
        "distinct by case content. server: the real rpc.NewServer(conn, processor).Handle() over TCP loopback with a scripted types.DataProcessor "
        "(read data derived from offset, a per-case token and the call index; scripted errors, io.EOF with counts 0..len, partly filled buffers, "
        "delays) and a raw client writing frames with chosen Seq values (a wrapping counter, all equal, duplicates, descending, random) "
        "sequentially, pipelined (one write of all frames, the processor is held until it is done) or in chunks of 1..100 bytes, optionally "
        "followed by a cut frame / a frame with a wrong magic / garbage; enumerated: every (handled type, outcome) alone and every ordered pair "
        "of them pipelined under one Seq, every unhandled type; the model's replies are compared frame by frame and c15_server_ok is evaluated "
        "on the implementation's replies. non-trivial (server, judged on the model): pipelined, at least two frames, at least one TypeError or "
        "TypeEOF reply")


def corpus():
    out = []
    for p in sorted(glob.glob(os.path.join(vlib.VERIF, "corpus", "C15", "*.json"))):
        obj = json.load(open(p))
        out.append(dict(obj.get("case", obj)))
    return out


def gen(ctx, quick):
    rng = ctx.rng
    cases = corpus()
    cases += rpclib.write_cases(rng, 220 if quick else 3000)
    cases += rpclib.read_cases(rng, 220 if quick else 3000)
    cases += rpclib.serve_cases(rng, 600 if quick else 12000)
    if quick:
        cases += rpclib.loop_cases(rng, 100, 100, 64)
        cases += [rpclib.gen_raced(rng, n) for n in (1, 2, 5, 16)]
        cases.append(dict(k="race", workers=16, each=40, after=150))
    else:
        cases += rpclib.loop_cases(rng, 700, 900, 500)
        cases += [rpclib.gen_raced(rng, rng.randint(1, 32)) for _ in range(60)]
        for a in (10, 100, 400, 1500):
            cases.append(dict(k="race", workers=32, each=80, after=a))
    return cases


def report(ctx, binpath, case, finding, searched):
    kind = finding["kind"]
    small = rpclib.shrink(ctx, binpath, case, kind, what=finding["what"])
    f2, _, o2 = rpclib.evaluate(ctx, binpath, [dict(small)], tag="fin")
    obj = dict(property="C15", kind=("oracle / measured bound fails on the implementation" if kind == "concrete"
                                     else "correspondence Rpc.Corr / Rpc.Server broken (model coq/theories/Rpc/Model.v, Server.v vs rpc/wire.go, rpc/client.go, rpc/server.go)"),
               what=finding["what"], detail=finding["detail"], case=rpclib.clean(small),
               observed=o2.get(0), findings_on_minimized=[dict(what=f["what"], detail=f["detail"], kind=f["kind"]) for f in f2],
               searched=searched, replay_cmd="bin/vcheck C15 --replay <this file>")
    vlib.violation(ctx, obj, nofail=(kind != "concrete"))


def report_monitor(ctx):
    """last clause of C15 ("the failure is reported so that the replica is detached"): the real backend/remote
    on top of the real rpc.Client against the real replica REST + rpc servers: an idle data connection is
    dropped or corrupted by the replica's side; the failure must arrive on the backend's monitor channel (that
    message makes Controller.monitoring detach the replica). Exploration, not a theorem."""
    srv, log = vlib.harness_build("srv")
    if not srv:
        print("ERROR: harness does not build against the repository:\n" + log[-3000:])
        sys.exit(2)
    E = lambda op, **kw: dict(dict(k="eng", op=op), **kw)
    cases = []
    for mode in ("drop", "garbage"):
        for idle in (50, 2500):
            cases.append(dict(id=len(cases), ops=[E("create"), dict(k="attachmon", mode=mode, n=idle)]))
    outs = vlib.run_harness(ctx, srv, cases, netns=True, tag="mon", workers=4, extra_args=[9502])
    bad = [(c, outs[c["id"]]["obs"][-1]) for c in cases if outs[c["id"]]["obs"][-1]["res"] != "ok"]
    if bad:
        c, ob = bad[0]
        vlib.violation(ctx, dict(property="C15", kind="a transport failure of the data connection is not reported on the backend's monitor channel",
                                 harness="harness/cmd/srv (real remote.Factory.Create, real replica REST + rpc server)", ops=c["ops"], observed=ob),
                       suffix="-monitor")
    ctx.notes.append("monitor reporting (backend/remote.monitorPing over the real rpc client): %d cases, %d not reported; notes: %s"
                     % (len(cases), len(bad), [outs[c["id"]]["obs"][-1].get("note", "") for c in cases]))


def main(ctx, replay=None):
    ok, log = rpclib.ensure_compiled()
    proof = vlib.proof_layer(ctx) if ok else dict(ok=False, why=log, obligations=0, discharged=0, theorems=[])
    binpath, blog = vlib.harness_build("rpc")
    if not binpath:
        print("ERROR: harness does not build against the repository:\n" + blog[-3000:])
        sys.exit(2)

    if replay:
        obj = json.load(open(replay))
        case = obj.get("case", obj)
        findings, cov, outs = rpclib.evaluate(ctx, binpath, [dict(case)], tag="replay")
        print(json.dumps(rpclib.clean(case))[:3000])
        print("observed:", json.dumps(outs.get(0))[:3000])
        for f in findings:
            print("finding:", f["kind"], f["what"], f["detail"])
        print("verdict:", "FAIL" if findings else "model and implementation agree; oracle holds")
        ctx.cleanup()
        sys.exit(1 if findings else 0)

    quick = ctx.tier == "quick"
    report_monitor(ctx)
    cases = gen(ctx, quick)
    findings, cov, outs = rpclib.evaluate(ctx, binpath, cases)
    # a finding has to reproduce: the case is executed again (up to twice) and the finding is kept only if the same
    # kind of finding shows again; the client loop's event order is reconstructed from timestamps of two processes,
    # and a loaded machine can make a single run ambiguous (seen once in eleven full runs of all checks)
    kept, transient = [], []
    for f in findings:
        again = False
        for t in range(2):
            f2, _, _ = rpclib.evaluate(ctx, binpath, [json.loads(json.dumps(rpclib.clean(cases[f["case"]])))], tag="cf%d" % t)
            if any(x["kind"] == f["kind"] for x in f2):
                again = True
                break
        (kept if again else transient).append(f)
    if transient:
        ctx.notes.append("findings that did not reproduce when their case was executed again (not reported): %s"
                         % [dict(case=f["case"], kind=f["kind"], what=f["what"]) for f in transient][:5])
    findings = kept
    known = dict(vlib.load_known("C15"))
    concrete, known_hits = [], []
    for f in findings:
        if f["kind"] == "concrete":
            if f.get("known_key") in known:
                known_hits.append(f)
                vlib.known_finding(ctx, f["known_key"], known[f["known_key"]])
            else:
                concrete.append(f)
    drift = [f for f in findings if f["kind"] == "drift"]
    searched = len(cases)
    if concrete:
        f = concrete[0]
        report(ctx, binpath, cases[f["case"]], f, searched)
    elif drift or not proof["ok"]:
        # the proof or the correspondence no longer checks: search wider for an input on which the
        # property itself fails on the implementation
        extra = (rpclib.write_cases(ctx.rng, 600) + rpclib.read_cases(ctx.rng, 600) + rpclib.loop_cases(ctx.rng, 60, 90, 40)
                 + [rpclib.gen_serve(ctx.rng) for _ in range(1500)])
        f2, _, _ = rpclib.evaluate(ctx, binpath, extra, tag="search")
        searched += len(extra)
        c2 = [f for f in f2 if f["kind"] == "concrete" and f.get("known_key") not in known]
        if c2:
            report(ctx, binpath, extra[c2[0]["case"]], c2[0], searched)
        elif drift:
            report(ctx, binpath, cases[drift[0]["case"]], drift[0], searched)
        else:
            vlib.violation(ctx, dict(property="C15", broken="proof layer", why=proof["why"], searched=searched), nofail=True)

    # ---- evidence
    lflags = cov["l"]
    rflags = cov["r"]
    sflags = cov["s"]
    seen = set()
    nontriv = 0
    s_nontriv = 0
    for i, c in enumerate(cases):
        key = json.dumps(rpclib.clean(c), sort_keys=True)
        if key in seen:
            continue
        seen.add(key)
        if c["k"] == "loop" and (lflags.get(i, 0) & 5):
            nontriv += 1
        elif c["k"] == "read" and (rflags.get(i, 0) & 7):
            nontriv += 1
        elif c["k"] == "write":
            nontriv += 1 if (c["msg"]["data"] or c["msg"]["seq"] > 9 or c["msg"]["off"] not in (0, 1)) else 0
        elif c["k"] == "serve" and (sflags.get(i, 0) & 3) and c["mode"] == "pipe" and len(c["reqs"]) >= 2:
            nontriv += 1
            s_nontriv += 1
    dist = dict(case_kinds={}, read_stream_shapes={}, client_faults={}, client_calls={}, client_concurrency={},
                reply_types={}, event_kinds={}, server_modes={}, server_tails={}, server_request_types={}, server_outcomes={},
                server_frames_per_case={})

    def bump(d, k, n=1):
        d[k] = d.get(k, 0) + n

    ncalls = 0
    sframes = 0
    sreplies = 0
    for ci, c in enumerate(cases):
        bump(dist["case_kinds"], c["k"])
        if c["k"] == "serve":
            bump(dist["server_modes"], c["mode"])
            bump(dist["server_tails"], c["tailkind"])
            n = len(c["reqs"])
            sframes += n
            sreplies += len((outs.get(ci) or {}).get("replies") or [])
            bump(dist["server_frames_per_case"], "1" if n == 1 else "2" if n == 2 else "3-8" if n <= 8 else "9-24" if n <= 24 else "25-64")
            for f, a in zip(c["reqs"], c["oscript"]):
                bump(dist["server_request_types"], rpclib.TYPE_NAME.get(f["type"], "unhandled"))
                if f["type"] in rpclib.HANDLED:
                    bump(dist["server_outcomes"], a["r"] + ("+delay" if a["delay"] else ""))
        if c["k"] == "read":
            bump(dist["read_stream_shapes"], c.get("shape", "?"))
        if c["k"] == "loop":
            bump(dist["client_faults"], c["fault"])
            n = len(c["calls"])
            bump(dist["client_concurrency"], "1" if n == 1 else "2-4" if n <= 4 else "5-16" if n <= 16 else "17-32" if n <= 32 else "33-64")
            for x in c["calls"] + c.get("wave2", []):
                bump(dist["client_calls"], x["kind"])
                ncalls += 1
            for a in c["script"]:
                if a["a"] == "reply":
                    bump(dist["reply_types"], str(a["ty"]))
                elif a["a"] in ("dup", "bogus"):
                    bump(dist["reply_types"], a["a"])
            for e in c.get("_events", []):
                bump(dist["event_kinds"], e[0])
    lc = list(lflags.values())
    rc = list(rflags.values())
    sc = list(sflags.values())
    covflags = dict(
        client_out_of_order_delivery=sum(1 for f in lc if f & 1),
        client_unknown_or_duplicate_dropped=sum(1 for f in lc if f & 2),
        client_failure_with_waiting_callers=sum(1 for f in lc if f & 4),
        client_call_refused_after_failure=sum(1 for f in lc if f & 8),
        client_timer_fired=sum(1 for f in lc if f & 16),
        client_remote_error_or_eof_delivered=sum(1 for f in lc if f & 32),
        read_some_message=sum(1 for f in rc if f & 1), read_bad_magic=sum(1 for f in rc if f & 2),
        read_ended_inside_frame=sum(1 for f in rc if f & 4), read_payload=sum(1 for f in rc if f & 8),
        server_error_reply=sum(1 for f in sc if f & 1), server_eof_reply=sum(1 for f in sc if f & 2),
        server_unhandled_type_answered_unchanged=sum(1 for f in sc if f & 4), server_duplicate_seq=sum(1 for f in sc if f & 8),
        server_stream_ends_in_non_frame=sum(1 for f in sc if f & 16), server_reply_with_payload=sum(1 for f in sc if f & 32),
        server_write_size_field_differs_from_payload=sum(1 for f in sc if f & 64), server_eof_shorter_than_buffer=sum(1 for f in sc if f & 128))
    for k, v in covflags.items():
        if v == 0:
            ctx.notes.append("coverage predicate with zero hits: " + k)
    races = [outs[i] for i, c in enumerate(cases) if c["k"] == "race" and i in outs]
    maxms = 0
    for i, c in enumerate(cases):
        if c["k"] == "loop" and i in outs and c["fault"] != "none":
            for cp in outs[i].get("comps") or []:
                maxms = max(maxms, cp["ms"])
    extra = dict(evaluations=len(cases), distinct_nontrivial=nontriv, rule=RULE,
                 traces_validated_against_impl=len(cases), client_calls=ncalls,
                 server_cases=sum(1 for c in cases if c["k"] == "serve"), server_request_frames=sframes, server_reply_frames=sreplies,
                 server_distinct_nontrivial=s_nontriv,
                 model_impl_differences=len(drift), oracle_failures=len(concrete),
                 known_finding_cases=[dict(case=rpclib.clean(cases[f["case"]]) if cases[f["case"]]["k"] == "race" else
                                           dict(calls=len(cases[f["case"]]["calls"]), wave2=len(cases[f["case"]]["wave2"])),
                                           detail=f["detail"]) for f in known_hits][:6],
                 input_distribution=dist, coverage_flags=covflags,
                 timing=dict(rw_timeout_ms=dict(stall_cases=rpclib.STALL_MS, other_cases=rpclib.FAULT_MS),
                             fixed_sleep_in_handleResponse_ms=rpclib.LOOP_SLEEP_MS, slack_ms=rpclib.SLACK_MS,
                             own_deadline_slack_ms=rpclib.OWN_SLACK_MS,
                             slowest_call_in_a_fault_case_ms=maxms,
                             race=[dict(total=r.get("total"), ok=r.get("ok_calls"), slow_over_500ms=r.get("slow"), max_ms=r.get("max_ms"),
                                        hung=bool(r.get("hung"))) for r in races]),
                 theorems=proof.get("theorems", []), exhaustive=False)
    samples = []
    for k in ("write", "read", "loop", "serve"):
        best = None
        for i, c in enumerate(cases):
            if k == "serve" and not (c["k"] == "serve" and c["mode"] == "pipe" and c["tail"] and 3 <= len(c["reqs"]) <= 6 and (sflags.get(i, 0) & 3)):
                continue
            if c["k"] == k and (k != "loop" or (c["fault"] != "none" and not c.get("nowait"))):
                size = len(json.dumps(rpclib.clean(c)))
                if best is None or size < best[0]:
                    best = (size, i)
        if best:
            i = best[1]
            o = outs.get(i, {})
            samples.append(dict(case=rpclib.clean(cases[i]),
                                observed={kk: o.get(kk) for kk in ("bytes", "msgs", "end", "closed", "peerlog", "comps", "hung", "replies", "hret", "rend") if kk in o}))
    vlib.write_evidence(ctx, proof, extra, [
        "the model is the loop goroutine's sequential view plus the caller side of operation(); goroutine scheduling, channel capacity "
        "(1024) and the order in which the loop takes requests and responses that are ready at the same time are Go runtime: the harness "
        "fixes the order by construction (requests in sequence-number order as seen by the peer, faults only after all first-wave requests "
        "were received) and the model's result does not depend on the remaining freedom",
        "'promptly' is a measured bound: rw timeout + the fixed 2 s sleep in handleResponse + slack, and rw timeout + 0.8 s for the call "
        "whose own deadline expired (it returns at the deadline; nothing else is on that path); sync/unmap (30 s) and ping (40 s) "
        "deadlines are not configurable from outside, a stall with only such calls waiting is not driven",
        "sequence-number wrap (2^32 requests with one outstanding) is proved to break matching on the model (C15_matching_without_guard_refuted) "
        "and is not reproduced on the implementation (c.seq is unexported)",
        "a request that passes operation's c.err test before the failure and reaches c.requests after the loop returned is released only by "
        "its own timer (model event ReqRaced; measured by the race case)",
        "C15_reported beyond closeChan (monitorPing -> monitorChan -> controller detaches the replica) belongs to the Ctl model (C05)",
        "io.EOF returned by a call is read as TypeEOF only if the peer sent that call a TypeEOF frame, otherwise as the connection's error",
        "server: read requests with a negative Size and io.EOF counts outside 0..len(buf) make rpc/server.go panic (make / slice bounds) and an "
        "*os.PathError with EIO makes it call logrus.Fatal: the model ends the run there (SPanic) and the harness never generates them; read "
        "sizes are at most 9000 bytes",
        "server: the end-to-end theorem composes the client machine and the server model over FIFO pipes of whole frames (the byte level is "
        "the codec theorems); the real client and the real server are driven separately, each against a scripted raw peer",
        "server: replica/rpc/server.go's accept loop (one connection at a time, logrus.Fatalf when Handle returns) is not driven; Handle's "
        "5 s ping ticker is outside the time scale of the cases",
    ], samples)
    vlib.finish(ctx)
