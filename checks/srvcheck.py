"""C10 and C17 share the Srv model; this is their common check body."""
import json, os, sys, glob
sys.path.insert(0, os.path.join(os.path.dirname(os.path.abspath(__file__)), "..", "bin"))
import vlib, srvlib

FIELDS = {"C10": {1, 2, 3, 4, 9}, "C17": {1, 2, 3, 5, 9}}
ORACLE = {"C10": "c10", "C17": "c17"}
NONTRIVIAL = {
    # C10: an RW write was counted and something else happened around it (refusal / reopen)
    "C10": lambda f: (f & 1) and (f & 6),
    # C17: some gate fired
    "C17": lambda f: (f & 2) or (f & 8),
}
RULE = {
    "C10": "histories of replica.Server calls / REST actions / attach / crash generated from one PRNG stream plus the corpus; "
           "non-trivial = the model counts at least one RW-acknowledged write and the history also contains a refusal or a close/crash/reopen; distinct by operation list",
    "C17": "every (REST state, action) pair through the real router (2 pre-state variants), attach sequences through the real remote.Factory.Create, "
           "random histories; non-trivial = at least one operation was refused (engine gate or REST 404); distinct by operation list",
}


def corpus():
    out = []
    for p in sorted(glob.glob(os.path.join(vlib.VERIF, "corpus", "srv", "*.json"))):
        out.append(json.load(open(p))["ops"])
    return out


def gen_cases(ctx, pid, n_random, variants):
    rng = ctx.rng
    ops = corpus()
    ops += srvlib.attach_cases()
    ops += srvlib.closefail_cases()
    ops += srvlib.counter_cases()
    ops += srvlib.writefail_cases()
    ops += srvlib.openfail_cases()
    ops += srvlib.getrevfail_cases()
    ops += srvlib.counterfault_cases()
    ops += srvlib.matrix_cases(rng, variants)
    for _ in range(n_random):
        ops.append(srvlib.Gen(rng).history(rng.randint(6, 18)))
    if pid == "C10":
        # concurrent writers are covered by 'conc' (see run_conc)
        pass
    return ops


def run_conc(ctx, binpath, n, m):
    """16 concurrent writers on one RW replica: the persisted counter must be exact afterwards."""
    pre = [srvlib.E("create"), srvlib.E("open"), srvlib.E("setmode", mode="RW")]
    case = dict(id=0, ops=pre + [dict(k="conc", id=3, n=n, m=m)])
    outs = vlib.run_harness(ctx, binpath, [case], netns=True, tag="conc", extra_args=[9502])
    obs = outs[0]["obs"]
    final = obs[-1]
    term_pre = "[%s]" % "; ".join(srvlib.op_term(o) for o in pre)
    q = ("let tr := trace init (%s ++ repeat (Eng (OWrite 3%%N)) (N.to_nat %d%%N)) in "
         "match rev tr with o :: _ => obs_diff o (%s) | [] => 9%%nat end") % (term_pre, n * m, srvlib.obs_term(final))
    v = vlib.coq_eval(ctx, "conc", ["Srv.Model", "Srv.Corr"], "", [q])[0]
    expected = 1 + n * m
    ok = (v.strip().startswith("0")) and final["res"] == "ok" and final["count"] == expected
    return ok, dict(writers=n, writes_each=m, final_count=final["count"], expected=expected, model_diff_field=v)


def main(ctx, replay=None):
    pid = ctx.pid
    proof = vlib.proof_layer(ctx)
    binpath, log = vlib.harness_build("srv")
    if not binpath:
        print("ERROR: harness does not build against /repo:\n" + log[-3000:])
        sys.exit(2)

    if replay:
        ops = json.load(open(replay))["ops"]
        bad, cov, outs = srvlib.run_cases(ctx, binpath, [ops], tag="replay")
        for o, ob in zip(ops, outs[0]["obs"]):
            print(json.dumps(o), "->", json.dumps(ob))
        print("verdict:", bad if bad else "model and implementation agree; oracle holds")
        ctx.cleanup()
        sys.exit(1 if bad else 0)

    quick = ctx.tier == "quick"
    oplists = gen_cases(ctx, pid, 120 if quick else 3000, 2 if quick else 6)
    bad, cov, outs = srvlib.run_cases(ctx, binpath, oplists)
    key = ORACLE[pid]
    concrete = [b for b in bad if not b[key]]
    drift = [b for b in bad if b[key] and b["field"] in FIELDS[pid]]
    conc_info = None
    if pid == "C10":
        ok, conc_info = run_conc(ctx, binpath, 16, 200 if quick else 2000)
        if not ok:
            vlib.violation(ctx, dict(property=pid, kind="concurrent writers: persisted counter not exact",
                                     detail=conc_info), suffix="-conc")

    def report_concrete(b, ops):
        small = srvlib.shrink(ctx, binpath, ops, lambda x: not x[key])
        bb, _, oo = srvlib.run_cases(ctx, binpath, [small], tag="fin")
        vlib.violation(ctx, dict(property=pid, kind="oracle %s fails on the implementation's trace" % key,
                                 ops=small, observed=oo[0]["obs"], model_vs_impl=bb,
                                 replay_cmd="bin/vcheck %s --replay <this file>" % pid))

    if concrete:
        b = concrete[0]
        report_concrete(b, oplists[b["case"]])
    elif drift or not proof["ok"]:
        # the proof or the correspondence no longer checks: search wider for a history on which the
        # property itself fails on the implementation
        extra = [srvlib.Gen(ctx.rng).history(ctx.rng.randint(6, 24)) for _ in range(1500)]
        extra += srvlib.matrix_cases(ctx.rng, 6)
        bad2, _, _ = srvlib.run_cases(ctx, binpath, extra, tag="search")
        conc2 = [b for b in bad2 if not b[key]]
        if conc2:
            report_concrete(conc2[0], extra[conc2[0]["case"]])
        else:
            if drift:
                b = drift[0]
                ops = oplists[b["case"]]
                small = srvlib.shrink(ctx, binpath, ops, lambda x: x["field"] in FIELDS[pid])
                bb, _, oo = srvlib.run_cases(ctx, binpath, [small], tag="fin")
                what = dict(broken="correspondence Srv.Corr.check_case (model coq/theories/Srv/Model.v vs replica.Server)",
                            first_difference=dict(step=bb[0]["step"] if bb else None,
                                                  field=srvlib.FIELD.get(bb[0]["field"]) if bb else None),
                            ops=small, observed=oo[0]["obs"])
            else:
                what = dict(broken="proof layer", why=proof["why"])
            what.update(property=pid, searched=len(oplists) + len(extra))
            vlib.violation(ctx, what, nofail=True)

    flags = {}
    for ops, f in zip(oplists, cov):
        flags[json.dumps(ops)] = f
    nontriv = sum(1 for f in flags.values() if NONTRIVIAL[pid](f))
    nops = sum(len(o) for o in oplists)
    kinds = {}
    for ops in oplists:
        for o in ops:
            k = o["k"] + ":" + o.get("op", "")
            kinds[k] = kinds.get(k, 0) + 1
    extra = dict(evaluations=len(oplists), distinct_nontrivial=nontriv, rule=RULE[pid],
                 traces_validated_against_impl=len(oplists), operations=nops,
                 model_impl_differences=len(bad), oracle_failures=len(concrete),
                 input_distribution=kinds,
                 coverage_flags=dict(rw_write=sum(1 for f in cov if f & 1), refusal=sum(1 for f in cov if f & 2),
                                     reopen=sum(1 for f in cov if f & 4), rest_404=sum(1 for f in cov if f & 8)),
                 theorems=proof.get("theorems", []), exhaustive=False)
    if conc_info:
        extra["concurrent_writers"] = conc_info
    samples = [dict(ops=oplists[i], observed=outs[i]["obs"][-1]) for i in (0, len(oplists) // 2, len(oplists) - 1)]
    vlib.write_evidence(ctx, proof, extra, [
        "model Srv abstracts data to per-block write ids on an 8-block volume; snapshot content to the applied-write list",
        "a failing data write = every descriptor of the head image swapped for a read-only one during the call (pwrite fails with EBADF before anything is written)",
        "crash = abandoning the Server object (process death without close); OWriteCrash (death between data and counter write) is proved in the model but not driven on the implementation in this tier",
        "atomicity of increaseRevisionCounter under revisionLock is Go runtime: sampled by the 16-writer run, not proved",
        "REST actions start/resize/replacedisk/setlogging/updatecloneinfo are modelled only up to the checkAction gate",
    ], samples)
    vlib.finish(ctx)
