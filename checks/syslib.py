"""T3: whole-system scenarios (real jiva replica processes + embedded real controller) for C07 / C19 (and
reused by thorough tiers of C05 / C13)."""
import json, os, sys
sys.path.insert(0, os.path.join(os.path.dirname(os.path.abspath(__file__)), "..", "bin"))
import vlib


def build_jiva():
    """the real jiva binary from /repo's working tree"""
    out = os.path.join(vlib.HARNESS, "bin", "jiva")
    os.makedirs(os.path.dirname(out), exist_ok=True)
    rc, log = vlib.sh(["go", "build", "-o", out, "."], cwd=vlib.REPO, env=vlib.GOENV, timeout=900)
    return (out if rc == 0 else None), log


def st(op, **kw):
    d = dict(op=op)
    d.update(kw)
    return d


def boot3(rf=3):
    """rf replicas register, the leader starts, the others add + rebuild: all RW"""
    steps = [st("replica", r=r) for r in range(rf)]
    steps.append(st("wait_rw", n=rf, timeout=90))
    return steps


def rebuild_under_writer(rf=3, kill_ms=0, pre_writes=40, snaps=1, kill_src=False):
    """history, then a replica dies and comes back while a writer runs: after promotion it must be identical"""
    s = [st("replica", r=r) for r in range(rf)]
    s += [st("wait_rw", n=rf, timeout=90), st("write", count=pre_writes)]
    for i in range(snaps):
        s += [st("snapshot", name="s%d" % (i + 1)), st("write", count=15)]
    victim = rf - 1
    s += [st("writer_start", ms=3), st("kill", r=victim), st("sleep", ms=1500), st("replica", r=victim)]
    if kill_ms:
        # interrupt the rebuild once, then let it come back again
        s += [st("sleep", ms=kill_ms), st("kill", r=victim), st("sleep", ms=500), st("modes"), st("read_verify"), st("replica", r=victim)]
    s += [st("wait_rw", n=rf, timeout=150), st("sleep", ms=300), st("writer_stop"), st("sleep", ms=300),
          st("modes"), st("read_verify"), st("check_identical", n=rf)]
    return s


def rebuild_with_failing_copy(rf=3):
    """the file copy of the rebuild fails (receivers for snapshot data cannot start): the replica must not be
    promoted; if it is, it must be identical"""
    victim = rf - 1
    return [st("replica", r=r) for r in range(rf)] + [
        st("wait_rw", n=rf, timeout=90), st("write", count=30), st("snapshot", name="s1"), st("write", count=20),
        st("kill", r=victim), st("write", count=40), st("block_ports"), st("replica", r=victim),
        st("wait_rw", n=rf, timeout=35, optional=True), st("modes"), st("read_verify"), st("check_identical", n=rf - 1)]


def clone_with_stalled_source():
    """the source replica stops answering before the copy starts: the clone must not be served, or be exact"""
    return [st("replica", r=0, vol=1), st("wait_rw", vol=1, n=1, timeout=60),
            st("write", vol=1, count=40), st("snapshot", vol=1, name="base"), st("write", vol=1, count=25),
            st("stop", r=0),
            st("clone_replica", r=1, vol=0, src=1, name="base"),
            st("poll_clone", r=1, vol=0, timeout=42), st("modes", vol=0),
            st("compare_clone", r=1, src=0, name="base", vol=0, if_rw=True), st("cont", r=0)]


def clone_with_failing_reload():
    """the clone's reload after the copy fails (its chain limit is lower than the number of files it must hold):
    the clone must not be served, or be exact"""
    return [st("replica", r=0, vol=1), st("wait_rw", vol=1, n=1, timeout=60),
            st("write", vol=1, count=30), st("snapshot", vol=1, name="a"), st("write", vol=1, count=20),
            st("snapshot", vol=1, name="b"), st("write", vol=1, count=20), st("snapshot", vol=1, name="base"),
            st("write", vol=1, count=10),
            st("clone_replica", r=1, vol=0, src=1, name="base", env=["MAX_CHAIN_LENGTH=3"]),
            st("poll_clone", r=1, vol=0, timeout=40), st("modes", vol=0),
            st("compare_clone", r=1, src=0, name="base", vol=0, if_rw=True)]


def clone_with_failing_copy():
    """the transfer of the snapshot data files fails (their receivers cannot start): the clone must not be served,
    or be exact"""
    return [st("replica", r=0, vol=1), st("wait_rw", vol=1, n=1, timeout=60),
            st("write", vol=1, count=40), st("snapshot", vol=1, name="a"), st("write", vol=1, count=25),
            st("snapshot", vol=1, name="base"), st("write", vol=1, count=10),
            st("block_ports"),
            st("clone_replica", r=1, vol=0, src=1, name="base"),
            st("poll_clone", r=1, vol=0, timeout=40), st("modes", vol=0),
            st("compare_clone", r=1, src=0, name="base", vol=0, if_rw=True), st("unblock_ports")]


def clone_process_dies_during_copy():
    """the clone replica process dies while its status is inProgress (the source is stalled, so the copy cannot have
    finished) and is started again: it must clone again, not declare itself completed"""
    return [st("replica", r=0, vol=1), st("wait_rw", vol=1, n=1, timeout=60),
            st("write", vol=1, count=40), st("snapshot", vol=1, name="base"), st("write", vol=1, count=25),
            st("stop", r=0),
            st("clone_replica", r=1, vol=0, src=1, name="base"),
            st("sleep", ms=6000), st("crash", r=1), st("sleep", ms=1500), st("cont", r=0),
            st("poll_clone", r=1, vol=0, timeout=90), st("modes", vol=0),
            st("compare_clone", r=1, src=0, name="base", vol=0, if_rw=True)]


def clone_scenario(interrupt=False):
    """source volume (controller 1) with history and snapshot S; a clone replica of a new volume (controller 0)"""
    s = [st("replica", r=0, vol=1), st("wait_rw", vol=1, n=1, timeout=60),
         st("write", vol=1, count=40), st("snapshot", vol=1, name="base"), st("write", vol=1, count=25),
         st("snapshot", vol=1, name="later"), st("write", vol=1, count=10),
         st("clone_replica", r=1, vol=0, src=1, name="base"),
         st("poll_clone", r=1, vol=0, timeout=120)]
    s += [st("wait_rw", vol=0, n=1, timeout=120), st("clone_status", r=1), st("modes", vol=0),
          st("compare_clone", r=1, src=0, name="base")]
    return s


def run(ctx, scenarios, tag="sys"):
    """scenarios: list of dict(rf, steps, name). Each runs in its own process and network namespace."""
    binpath, log = vlib.harness_build("sys")
    if not binpath:
        raise RuntimeError("harness does not build against /repo:\n" + log[-3000:])
    jiva, log = build_jiva()
    if not jiva:
        raise RuntimeError("jiva does not build:\n" + log[-3000:])
    cases = [dict(id=i, rf=s["rf"], steps=s["steps"]) for i, s in enumerate(scenarios)]
    outs = vlib.run_harness(ctx, binpath, cases, extra_args=[jiva], netns=True, tag=tag, workers=max(1, min(8, len(cases))), timeout=2400)
    return [outs[c["id"]] for c in cases]
