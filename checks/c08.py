"""C08 — crash consistency of the replica directory (model: coq/theories/Meta, tier T1v).

For every operation under test and every pre-state: pass 1 records the system calls of the operation
window under strace and compares them with the model's canonical trace; then the victim is killed at
each call, and each call is made to fail (ENOSPC / EIO); every resulting directory is reopened with
the real replica.New.  After a kill inside a snapshot / revert the restarted process is asked
for a Snapshot and for a Revert (on copies of the directory); both must succeed.  A victim whose call failed goes on: the directory is kept aside, Info() / Chain() /
ListDisks() are recorded, a regular Close follows, and the directory is reopened again.  Meta.Corr.check_vcase evaluates, per run, the C08 oracles on the
implementation's observations and compares directory, result and reopen observation with the model.
"""
import json, os, sys
sys.path.insert(0, os.path.join(os.path.dirname(os.path.abspath(__file__)), "..", "bin"))
import vlib, metalib

P = [dict(op="create"), dict(op="open"), dict(op="mode", mode="RW")]
W = lambda t: dict(op="write", tok=t)
S = lambda s, u=False: dict(op="snap", s=s, user=u, cr=s)

# pre-states (histories run on the real code; the directory is copied for every victim)
PRE = {
    "fresh": P + [W(1), dict(op="crash")],
    "one": P + [W(1), S(1, True), W(2), dict(op="close")],
    "three": P + [W(1), S(1, True), W(2), S(2), W(3), S(3), W(4), dict(op="crash")],
    "four-marked": P + [W(1), S(1), W(2), S(2, True), W(3), S(3), S(4), dict(op="prep", d=("s", 2)), W(5), dict(op="crash")],
    "reverted": P + [W(1), S(1), W(2), S(2), W(3), S(3), dict(op="revert", d=("s", 2), cr=8), W(4), dict(op="close")],
}
# stale leftovers of an earlier process death: snapshot killed after the links (12) / after the commit (24)
STAGES = {
    "stale-links": ("three", dict(op=dict(op="snap", s=7, user=False, cr=7), j=12)),
    "stale-oldhead": ("three", dict(op=dict(op="snap", s=7, user=False, cr=7), j=24)),
}


def op_for(kind, prename):
    """the operation under test, with an argument that is valid in that pre-state"""
    mid = {"one": 1, "three": 2, "four-marked": 2, "reverted": 1, "stale-links": 2, "stale-oldhead": 2, "fresh": 1}[prename]
    return {
        "snap": dict(op="snap", s=9, user=True, cr=9),
        "rm": dict(op="rm", d=("s", mid)),
        "revert": dict(op="revert", d=("s", mid), cr=9),
        "prep": dict(op="prep", d=("s", mid)),
        "resize": dict(op="resize", size=2 * metalib.SIZE),
        "checkpoint": dict(op="checkpoint", d=("s", mid)),
        "rebuilding": dict(op="rebuilding", b=True),
        "close": dict(op="close"),
        "open": dict(op="open"),
        "write": dict(op="write", tok=9),
    }[kind]


def mk_vcase(kind, prename):
    if prename in STAGES:
        base, st = STAGES[prename]
        return dict(pre=list(PRE[base]), stage=st, op=op_for(kind, prename), prename=prename, kind=kind)
    return dict(pre=list(PRE[prename]), op=op_for(kind, prename), prename=prename, kind=kind)


def plan(tier):
    if tier == "quick":
        kinds = ["snap", "rm", "revert"]
        pres = ["three", "four-marked", "stale-links"]
        out = [mk_vcase(k, p) for k in kinds for p in pres]
        out += [mk_vcase("snap", "fresh"), mk_vcase("checkpoint", "one")]
        out += [mk_vcase(k, "three") for k in ("prep", "resize", "rebuilding", "close", "open", "write")]
        return out
    kinds = ["snap", "rm", "revert", "prep", "resize", "checkpoint", "rebuilding", "close", "open", "write"]
    pres = ["fresh", "one", "three", "four-marked", "reverted", "stale-links", "stale-oldhead"]
    out = []
    for k in kinds:
        for p in pres:
            if p == "fresh" and k in ("rm", "revert", "prep", "checkpoint"):
                continue
            if p in ("one", "reverted") and k in ("rm", "prep"):
                continue          # no removable member: only head / latest / base (all refused without a system call)
            out.append(mk_vcase(k, p))
    return out


# ---- the shapes of the known findings (see known_findings.txt), stated on one faulty run
def shape_of(vc, run):
    """key of the known-finding shape this run has, or None"""
    if run["errno"] is None:
        return None
    ents = vc["winents"]
    e = ents[run["j"]]["canon"]
    if e[0] == 4:
        # the failed call is the write(2) of a metadata temp file inside encodeToFile
        return "encode-write-error"
    if vc["op"]["op"] == "snap" and e[0] in (1, 9):
        # the failed call belongs to the directory sync that follows rename(volume.meta.tmp, volume.meta)
        k = run["j"]
        while k > 0 and ents[k]["canon"][0] in (1, 9):
            k -= 1
        if ents[k]["canon"] == (5, 5, 4):
            return "createdisk-sync-after-commit"
    return None


def shape_of_cont(vc, run):
    """known-finding shape of a run whose process went on after the failing call (the oracle failed after the Close)"""
    if run["errno"] is None or vc["op"]["op"] != "revert":
        return None
    ents = vc["winents"]
    j = run["j"]
    committed = any(ents[k]["canon"] == (5, 5, 4) for k in range(j))           # rename(volume.meta.tmp, volume.meta) before it
    if committed and run["res"].get("res") == "err":
        # the failed call comes after the commit of the new head: rmDisk(oldHead) or the Reload
        return "revert-fails-after-commit"
    return None


KNOWN_TEXT = {
    "encode-write-error": "encodeToFile ignores a failed write of <file>.tmp (tests err instead of lastErr): the operation "
                          "goes on and renames an empty metadata file into place",
    "createdisk-sync-after-commit": "createDisk: when the directory sync after rename(volume.meta.tmp, volume.meta) fails, the "
                                    "deferred clean-up removes the new head that volume.meta already names",
    "revert-fails-after-commit": "revertDisk: when a call fails after volume.meta was switched to the new head (in rmDisk(oldHead) or in the "
                                 "Reload), Revert returns an error and the Server keeps the old Replica; its next metadata update (Close) "
                                 "points volume.meta back at the old head, whose files are (partly) unlinked: the reopen fails or creates an "
                                 "empty head, acknowledged writes are gone",
}


def describe(vc, run):
    e = vc["winents"][run["j"]]
    return dict(pre=vc["pre"], stage=vc.get("stage"), op=vc["op"], prename=vc.get("prename"),
                fault=("kill before" if run["errno"] is None else "fail with " + run["errno"]),
                call_index=run["j"], call=e["text"][:160], model_call_index=run["mi"],
                result=run["res"].get("res"), error=run["res"].get("err", "")[:200],
                reopen=dict(res=run["obs"][1].get("res"), err=run["obs"][1].get("err", "")[:200], chain=run["obs"][1].get("chain")),
                follow_up=None if not run.get("follow") else {
                    kind: dict(ops=metalib.FOLLOW[kind],
                               steps=[dict(res=ob.get("res"), err=(ob.get("err") or "")[:200], chain=ob.get("chain")) for ob in obs],
                               oracle=(run.get("f_res") or {}).get(kind, {}).get("oracle"),
                               model_vs_impl=(run.get("f_res") or {}).get(kind))
                    for kind, obs in run["follow"].items()},
                went_on=None if not run.get("obs2") else dict(
                    memory=dict(chain=run["res"]["mem"].get("chain"), chainerr=run["res"]["mem"].get("chainerr", False),
                                info=run["res"]["mem"].get("info")),
                    close=run["res"].get("cres"), close_err=run["res"].get("cerr", "")[:160],
                    reopen=dict(res=run["obs2"][1].get("res"), err=run["obs2"][1].get("err", "")[:200], chain=run["obs2"][1].get("chain")),
                    oracle=run.get("c_oracle"),
                    model_vs_impl=dict(memory=metalib.FIELD.get(run.get("c_memdiff")), directory_after_close=metalib.FIELD.get(run.get("c_ddiff")),
                                       reopen=metalib.FIELD.get(run.get("c_odiff")), results_agree=run.get("c_res_agree"))),
                model_vs_impl=dict(directory_after_fault=metalib.FIELD.get(run.get("ddiff")), reopen=metalib.FIELD.get(run.get("odiff")),
                                   result_agrees=run.get("res_agree"), model_side=run.get("mside"), impl_side=run.get("iside")))


def lint_durable(ctx, vcases, results):
    """C08_durable on the implementation's trace of every successful fault-free run"""
    qs, idx = [], []
    for i, (vc, info) in enumerate(zip(vcases, results)):
        if info["full"].get("res") == "ok":
            qs.append("durable_codes [%s]" % "; ".join("(%d, %d, %d)%%N" % tuple(c) for c in info["impl_trace"]))
            idx.append(i)
    if not qs:
        return {}
    vals = vlib.coq_eval(ctx, "durable", ["Meta.Model", "Meta.Corr"], "", qs)
    return {i: v.strip().startswith("true") for i, v in zip(idx, vals)}


def run_plan(ctx, metabin, victim, vcases, tag="v", only=None, follow_step=1):
    results = metalib.run_vcases(ctx, metabin, victim, vcases, tag=tag, only=only, follow_step=follow_step)
    metalib.eval_vcases(ctx, vcases, results, tag=tag + "e")
    dur = lint_durable(ctx, vcases, results)
    concrete, known, drift = [], [], []
    for i, (vc, info) in enumerate(zip(vcases, results)):
        if not info["trace_ok"]:
            drift.append(dict(kind="trace", vc=vc, info=info))
        if vc.get("stage_note"):
            drift.append(dict(kind="trace", vc=vc, info=dict(info, note=vc["stage_note"])))
        if dur.get(i) is False:
            concrete.append(dict(kind="durable", vc=vc, info=info))
        if info["trace_ok"] and not info.get("evaluated") and only is None and info["nsys"] > 0:
            # (an operation refused before its first system call has nothing to kill or fail: model and implementation
            # agree on the empty trace and on the result of the complete run)
            drift.append(dict(kind="not-evaluated", vc=vc, info=info))
        for r in info["runs"]:
            # after a kill inside a snapshot / revert: the restarted process must be able to take a snapshot and to revert
            for kind, fr in (r.get("f_res") or {}).items():
                if not fr["oracle"]:
                    concrete.append(dict(kind="oracle", vc=vc, run=r, shape=None, follow=kind))
                elif fr["aligned"] and (fr["step"] != 999 or not fr["model_oracle"]):
                    drift.append(dict(kind="run", vc=vc, run=r, follow=kind))
            if "oracle" not in r:
                continue
            if not r["oracle"]:
                sh = shape_of(vc, r)
                (known if sh else concrete).append(dict(kind="oracle", vc=vc, run=r, shape=sh))
            elif r.get("c_oracle") is False:
                # the process went on after the failed call: its Close failed, or what a restarted process finds afterwards
                # is neither the old nor the new view
                sh = shape_of_cont(vc, r)
                (known if sh else concrete).append(dict(kind="oracle", vc=vc, run=r, shape=sh, cont=True))
            elif info["trace_ok"] and (r["ddiff"] or r["odiff"] or not r["res_agree"] or r["mside"] != r["iside"]):
                drift.append(dict(kind="run", vc=vc, run=r))
            elif info["trace_ok"] and "c_oracle" in r and (r["c_memdiff"] or r["c_ddiff"] or r["c_odiff"] or not r["c_res_agree"]):
                drift.append(dict(kind="run", vc=vc, run=r, cont=True))
    return results, concrete, known, drift


def shrink_pre(ctx, metabin, victim, item):
    """drop operations of the pre-history while the same faulty run still violates the oracle"""
    vc, run = item["vc"], item["run"]
    if vc.get("stage"):
        return vc, run
    cur = list(vc["pre"])
    j, en = run["j"], run["errno"]
    best = (vc, run)
    for rounds in range(4):
        changed = False
        for i in range(3, len(cur) - 1):                      # keep create/open/mode and the final close/crash
            cand = cur[:i] + cur[i + 1:]
            v2 = dict(pre=cand, op=vc["op"], prename=vc.get("prename"), kind=vc.get("kind"), maxchain=vc.get("maxchain", 0))
            try:
                res = metalib.run_vcases(ctx, metabin, victim, [v2], tag="shr%d_%d" % (rounds, i), only=None,
                                         kill=(en is None), fail=(en is not None))
                metalib.eval_vcases(ctx, [v2], res, tag="shre%d_%d" % (rounds, i))
            except Exception:
                continue
            def follow_bad(r):
                return any(not fr["oracle"] for fr in (r.get("f_res") or {}).values())
            if item.get("follow"):
                same = [r for r in res[0]["runs"] if follow_bad(r)]
            else:
                same = [r for r in res[0]["runs"] if "oracle" in r and (not r["oracle"] or r.get("c_oracle") is False)
                        and (r["errno"] is None) == (en is None) and shape_of(v2, r) is None and shape_of_cont(v2, r) is None]
            if same:
                cur = cand
                best = (v2, same[0])
                changed = True
                break
        if not changed:
            break
    return best


def main(ctx, replay=None):
    okc, why = metalib.ensure_meta_compiled()
    proof = vlib.proof_layer(ctx) if okc else dict(ok=False, why=why, obligations=0, discharged=0, theorems=[], assumptions={})
    metabin, log1 = vlib.harness_build("meta")
    victim, log2 = vlib.harness_build("victim")
    if not metabin or not victim:
        print("ERROR: harness does not build against the repository:\n" + (log1 + log2)[-3000:])
        sys.exit(2)
    known_keys = dict(vlib.load_known(ctx.pid))

    if replay:
        rp = json.load(open(replay))
        vc = dict(pre=rp["pre"], op=rp["op"], stage=rp.get("stage"), prename=rp.get("prename"))
        if vc["stage"] is None:
            vc.pop("stage")
        only = sorted(set([0, rp["call_index"]])) if rp.get("call_index") is not None else None
        res = metalib.run_vcases(ctx, metabin, victim, [vc], tag="rp", only=only, kill=True, fail=True)
        metalib.eval_vcases(ctx, [vc], res, tag="rpe")
        bad = False
        print("trace agrees with the model:", res[0]["trace_ok"], res[0].get("trace_diff", ""))
        for r in sorted(res[0]["runs"], key=lambda r: (r["errno"] is not None, r["j"])):
            print(json.dumps(describe(vc, r)))
            print("   oracle:", r.get("oracle"), " after going on:", r.get("c_oracle"), " known shape:", shape_of(vc, r) or shape_of_cont(vc, r))
            for kind, fr in (r.get("f_res") or {}).items():
                print("   follow-up %s by the restarted process: oracle %s" % (kind, fr["oracle"]))
                if not fr["oracle"]:
                    bad = True
            if r.get("oracle") is False or r.get("c_oracle") is False:
                bad = True
        print("verdict:", "oracle fails" if bad else "oracle holds")
        ctx.cleanup()
        sys.exit(1 if bad else 0)

    vcases = plan(ctx.tier)
    # quick: the follow-up histories after every third kill point (and the last); thorough: after every one
    results, concrete, known, drift = run_plan(ctx, metabin, victim, vcases, follow_step=3 if ctx.tier == "quick" else 1)

    for k in known:
        if k["shape"] in known_keys:
            vlib.known_finding(ctx, k["shape"], KNOWN_TEXT[k["shape"]])
        else:
            concrete.append(k)

    if concrete:
        it = concrete[0]
        if it["kind"] == "durable":
            vlib.violation(ctx, dict(property="C08", kind="C08_durable fails on the implementation's system-call trace: a directory "
                                     "update of a successful operation is not followed by a directory sync",
                                     pre=it["vc"]["pre"], op=it["vc"]["op"], stage=it["vc"].get("stage"), call_index=None,
                                     impl_trace=[list(c) for c in it["info"]["impl_trace"]],
                                     model_trace=[list(c) for c in it["info"]["model_trace"]],
                                     replay_cmd="bin/vcheck C08 --replay <this file>"))
        else:
            v2, r2 = shrink_pre(ctx, metabin, victim, it)
            d = describe(v2, r2)
            d.update(property="C08", kind="C08 oracle (%s) fails on the implementation" % (
                         ("kill, then a follow-up %s by the restarted process" % it["follow"]) if it.get("follow") else
                         ("kill" if r2["errno"] is None else "fail")),
                     shape=it.get("shape"), replay_cmd="bin/vcheck C08 --replay <this file>")
            vlib.violation(ctx, d)
    elif drift or not proof["ok"]:
        # the proof or the correspondence no longer checks: search all operations / pre-states for a concrete failure
        found = None
        if ctx.tier == "quick":
            wide = plan("thorough")
            try:
                _, conc2, known2, _ = run_plan(ctx, metabin, victim, wide, tag="w")
                conc2 += [k for k in known2 if k["shape"] not in known_keys]
                if conc2:
                    found = conc2[0]
            except Exception as e:
                ctx.notes.append("wider search failed: %s" % e)
        if found and found["kind"] == "oracle":
            d = describe(found["vc"], found["run"])
            d.update(property="C08", kind="C08 oracle fails on the implementation", replay_cmd="bin/vcheck C08 --replay <this file>")
            vlib.violation(ctx, d)
        elif found:
            vlib.violation(ctx, dict(property="C08", kind="C08_durable fails on the implementation's trace", pre=found["vc"]["pre"],
                                     op=found["vc"]["op"], call_index=None))
        else:
            if drift:
                it = drift[0]
                what = dict(broken="correspondence Meta.Corr.check_vcase (model coq/theories/Meta/Model.v vs replica/replica.go)",
                            pre=it["vc"]["pre"], op=it["vc"]["op"], stage=it["vc"].get("stage"))
                if it["kind"] == "trace":
                    what["first_difference"] = dict(what="canonical system-call trace of the operation", **it["info"].get("trace_diff", {}))
                    what["note"] = it["info"].get("note")
                    what["impl_trace"] = [list(c) for c in it["info"]["impl_trace"]]
                    what["model_trace"] = [list(c) for c in it["info"]["model_trace"]]
                elif it["kind"] == "run":
                    what["first_difference"] = describe(it["vc"], it["run"])
                    what["call_index"] = it["run"]["j"]
                else:
                    what["first_difference"] = "the case could not be evaluated (no kill before the first call)"
            else:
                what = dict(broken="proof layer", why=proof["why"])
            what.update(property="C08", drift_items=len(drift))
            vlib.violation(ctx, what, nofail=True)

    nruns = sum(len(i["runs"]) for i in results)
    kinds = {}
    for vc, info in zip(vcases, results):
        k = "%s@%s" % (vc["kind"], vc["prename"])
        kinds[k] = len(info["runs"])
    # model-side coverage: a kill fell between the first directory change and the commit / after the commit before the
    # clean-up ended; a failure was injected into a call after which the model takes a clean-up path
    between = sum(1 for i in results for r in i["runs"] if r["errno"] is None and r.get("mside") == 1 and r.get("ddiff") == 0 and r["j"] > 2)
    after = sum(1 for i in results for r in i["runs"] if r["errno"] is None and r.get("mside") == 2)
    errpost = sum(1 for i in results for r in i["runs"] if r["errno"] and r.get("oracle") and not r.get("strict"))
    nontriv = len(set((json.dumps(vc["op"]), vc["prename"], r["j"], r["errno"]) for vc, i in zip(vcases, results) for r in i["runs"]
                      if r.get("mside") in (1, 2) and r["j"] > 0))
    extra = dict(evaluations=nruns, distinct_nontrivial=nontriv,
                 rule="one evaluation = one victim process (real replica.Replica under strace) killed at, or with an injected errno in, one "
                      "system call of one operation on one pre-state, then reopened with the real replica.New and compared with the model's "
                      "exec/recover of the same prefix; non-trivial = the model places the resulting directory strictly inside the operation "
                      "(not before its first call) on the pre or post side; distinct by (operation, pre-state, call index, fault kind)",
                 operations_under_test=len(vcases), traces_validated_against_impl=sum(1 for i in results if i["trace_ok"]),
                 model_impl_differences=len(drift), oracle_failures=len(concrete), known_finding_runs=len(known),
                 input_distribution=kinds,
                 coverage_flags=dict(kill_before_commit=between, kill_after_commit=after, error_reported_over_new_state=errpost,
                                     went_on_after_failure=sum(1 for i in results for r in i["runs"] if "c_oracle" in r),
                                     follow_up_after_kill=sum(len(r.get("f_res") or {}) for i in results for r in i["runs"]),
                                     calls_per_operation={("%s@%s" % (vc["kind"], vc["prename"])): i["nsys"] for vc, i in zip(vcases, results)}),
                 theorems=proof.get("theorems", []), exhaustive=False)
    samples = []
    for vc, info in list(zip(vcases, results))[:3]:
        if info["runs"]:
            samples.append(describe(vc, info["runs"][len(info["runs"]) // 2]))
    vlib.write_evidence(ctx, proof, extra, [
        "process death = SIGKILL on entry to a system call (strace inject); page-cache loss (power failure) is not modelled: durability is the "
        "fsync lint C08_durable over the system-call trace",
        "an injected errno means the call is not performed (no partial write)",
        "image content is abstracted to (inode, number of data writes); the comparison of data after reopen is implementation against "
        "implementation (full read and every snapshot view before/after), the model predicts which side",
        "argument strings outside the disk-name space (e.g. 'volume.meta' as a snapshot name) are not generated",
        "stat / read / close / pread are not traced: the model's calls of these kinds are validated only through the branches they decide",
    ], samples)
    vlib.finish(ctx)
