"""Generators, name tables, Coq-term printers and run loops shared by C08 and C12 (model: coq/theories/Meta)."""
import json, os, re, sys, subprocess, shutil, time
sys.path.insert(0, os.path.join(os.path.dirname(os.path.abspath(__file__)), "..", "bin"))
import vlib

BLK = 4096
NBLK = 4
SIZE = BLK * NBLK
META_FILES = ["Model", "Corr", "Proofs", "Fault", "Oracle"]

# ------------------------------------------------------------------------------------------------ Coq build

def ensure_meta_compiled():
    """The Meta files are compiled one by one (they may not yet be listed in _CoqProject)."""
    prev_new = False
    newest = 0.0                        # the latest .vo among the files this one depends on (they form a chain)
    for f in META_FILES:
        v = os.path.join(vlib.COQ, "theories", "Meta", f + ".v")
        vo = v + "o"
        if not os.path.exists(v):
            continue
        if prev_new or not os.path.exists(vo) or os.path.getmtime(vo) < os.path.getmtime(v) or os.path.getmtime(vo) < newest:
            rc, out = vlib.sh(["coqc", "-Q", "theories", "Jiva", "-w", "-notation-overridden,-deprecated-hint-without-locality",
                               "theories/Meta/%s.v" % f], cwd=vlib.COQ, timeout=1500)
            if rc != 0:
                return False, "theories/Meta/%s.v does not compile:\n%s" % (f, out[-2500:])
            prev_new = True
        newest = max(newest, os.path.getmtime(vo))
    return True, ""


# ------------------------------------------------------------------------------------------------ names

def dname_str(d):
    """d = ('h', n) | ('s', k) | ('o', k)  ->  the string the implementation sees"""
    k, v = d
    if k == "h":
        return "volume-head-%03d.img" % v
    if k == "s":
        return "volume-snap-s%d.img" % v
    return "s%d" % v


def dname_parse(s):
    m = re.fullmatch(r"volume-head-(\d+)\.img", s)
    if m:
        return ("h", int(m.group(1)))
    m = re.fullmatch(r"volume-snap-s(\d+)\.img", s)
    if m:
        return ("s", int(m.group(1)))
    m = re.fullmatch(r"s(\d+)", s)
    if m:
        return ("o", int(m.group(1)))
    raise ValueError("name outside the model's name space: %r" % s)


def dname_term(d):
    k, v = d
    return {"h": "Head %d", "s": "Snap %d%%N", "o": "Odd %d%%N"}[k] % v


def odname_term(s):
    if s == "" or s is None:
        return "None"
    return "(Some (%s))" % dname_term(dname_parse(s))


def name_parse(s):
    if s == "volume.meta":
        return ("vol",)
    if s == "volume.meta.tmp":
        return ("voltmp",)
    if s == "revision.counter":
        return ("counter",)
    if s.endswith(".meta.tmp"):
        return ("metatmp", dname_parse(s[:-9]))
    if s.endswith(".meta"):
        return ("meta", dname_parse(s[:-5]))
    return ("img", dname_parse(s))


def name_term(n):
    if n[0] == "vol":
        return "Vol"
    if n[0] == "voltmp":
        return "VolTmp"
    if n[0] == "counter":
        return "Counter"
    return "%s (%s)" % ({"img": "Img", "meta": "Meta", "metatmp": "MetaTmp"}[n[0]], dname_term(n[1]))


def name_str(n):
    if n[0] == "vol":
        return "volume.meta"
    if n[0] == "voltmp":
        return "volume.meta.tmp"
    if n[0] == "counter":
        return "revision.counter"
    return dname_str(n[1]) + {"img": "", "meta": ".meta", "metatmp": ".meta.tmp"}[n[0]]


def cfg_term(maxchain):
    """The model configuration.  Normally Meta.Corr.code_cfg (the repairs /repo has, recorded in Corr.v);
    JIVA_META_FIXES=f5,f9,f10,f11,f12,f13 overrides it for trying a patch in a scratch worktree."""
    fx = os.environ.get("JIVA_META_FIXES")
    n = maxchain or 1024
    if fx is None:
        return "code_cfg %d" % n
    have = set(x.strip() for x in fx.split(",") if x.strip())
    return "mkcfg %d %s %s %s %s %s %s" % (n, bt("f5" in have), bt("f9" in have), bt("f10" in have), bt("f11" in have), bt("f12" in have),
                                          bt("f13" in have))


class Tables:
    """created strings and content hashes are interned per case"""

    def __init__(self):
        self.created = {"": 0}
        self.tok = {}

    def cr(self, s):
        m = re.fullmatch(r"c(\d+)", s or "")
        if m:
            return int(m.group(1))
        if s not in self.created:
            self.created[s] = 100000 + len(self.created)
        return self.created[s]

    def token(self, h):
        if h not in self.tok:
            self.tok[h] = 1 + len(self.tok)
        return self.tok[h]


def zt(v):
    return "(%d)%%Z" % v


def bt(b):
    return "true" if b else "false"


# ------------------------------------------------------------------------------------------------ operations

def op_json(o):
    """o: python dict with model-level arguments -> the harness's op"""
    j = op_json0(o)
    if o.get("blk"):
        j["blocked"] = [name_str(tuple(tuple(x) if isinstance(x, list) else x for x in n)) for n in o["blk"]]
    return j


def blk_names(o):
    return [tuple(tuple(x) if isinstance(x, list) else x for x in n) for n in (o.get("blk") or [])]


def op_json0(o):
    k = o["op"]
    if k in ("create", "open", "close", "crash"):
        return dict(op=k)
    if k == "replace":
        return dict(op="replace", name=dname_str(tuple(o["d"])), source=dname_str(tuple(o["src"])))
    if k == "mode":
        return dict(op="mode", mode=o["mode"])
    if k == "write":
        return dict(op="write", tok=o["tok"])
    if k == "snap":
        return dict(op="snap", name="s%d" % o["s"], user=o["user"], created="c%d" % o["cr"])
    if k in ("rm", "prep"):
        return dict(op=k, name=dname_str(tuple(o["d"])))
    if k == "revert":
        return dict(op="revert", name=dname_str(tuple(o["d"])), created="c%d" % o["cr"])
    if k == "resize":
        return dict(op="resize", size=o["size"])
    if k == "checkpoint":
        return dict(op="checkpoint", name=dname_str(tuple(o["d"])) if o.get("d") else "")
    if k == "rebuilding":
        return dict(op="rebuilding", b=o["b"])
    raise ValueError(o)


def op_term(o, now=0):
    k = o["op"]
    if k == "create":
        return "OCreate %d%%N %d%%N" % (SIZE, now)
    if k == "open":
        return "OOpen"
    if k == "close":
        return "OClose"
    if k == "crash":
        return "OCrash"
    if k == "mode":
        return "OSetMode %s" % ({"RW": "(Some RW)", "WO": "(Some WO)"}.get(o["mode"], "None"))
    if k == "write":
        return "OWrite"
    if k == "snap":
        return "OSnap %d%%N %s %d%%N" % (o["s"], bt(o["user"]), o["cr"])
    if k == "rm":
        return "ORemove (%s)" % dname_term(tuple(o["d"]))
    if k == "prep":
        return "OPrep (%s)" % dname_term(tuple(o["d"]))
    if k == "revert":
        return "ORevert (%s) %d%%N" % (dname_term(tuple(o["d"])), o["cr"])
    if k == "resize":
        return "OResize %d%%N" % o["size"]
    if k == "checkpoint":
        return "OCheckpoint %s" % ("(Some (%s))" % dname_term(tuple(o["d"])) if o.get("d") else "None")
    if k == "rebuilding":
        return "ORebuilding %s" % bt(o["b"])
    if k == "replace":
        return "OReplace (%s) (%s)" % (dname_term(tuple(o["d"])), dname_term(tuple(o["src"])))
    if k == "crashin":
        return "OCrashIn %d (%s)" % (o["k"], op_term(o["inner"], now))
    raise ValueError(o)


def universe(ops, extra_heads=2):
    ops = [o["inner"] if o["op"] == "crashin" else o for o in ops]
    heads = 1 + extra_heads + sum(1 for o in ops if o["op"] in ("snap", "revert", "create"))
    snaps, odds = [0], []
    for o in ops:
        if o["op"] == "snap" and o["s"] not in snaps:
            snaps.append(o["s"])
        for d in [o.get("d"), o.get("src")] + [n[1] for n in blk_names(o) if len(n) > 1]:
            if not d:
                continue
            d = tuple(d)
            if d[0] == "s" and d[1] not in snaps:
                snaps.append(d[1])
            if d[0] == "o":
                if d[1] not in odds:
                    odds.append(d[1])
                if d[1] not in snaps:
                    snaps.append(d[1])
            if d[0] == "h":
                heads = max(heads, d[1] + 1)
    return [("h", i) for i in range(heads)] + [("s", k) for k in snaps] + [("o", k) for k in odds]


# ------------------------------------------------------------------------------------------------ observations -> Coq

def disk_term(d, tb):
    return "mkdisk %s %s %s %d%%N %s" % (odname_term(d["parent"]), bt(d["removed"]), bt(d["user"]), tb.cr(d["created"]), zt(d["rev"]))


def info_term(i):
    return "mkinfo %d%%N %s %s %s %s %s %s" % (i["size"], odname_term(i["head"]), bt(i["dirty"]), bt(i["rebuilding"]),
                                              odname_term(i["parent"]), odname_term(i["checkpoint"]), zt(i["rev"]))


class Unmodelled(Exception):
    pass


def obs_term(ob, univ, tb):
    res = {"ok": "COk", "err": "CErr", "died": "CDied"}[ob["res"]]
    mode = "None"
    if ob.get("open"):
        mode = "(Some %s)" % ob["mode"]
    chain = "None"
    if ob.get("chain") is not None and ob.get("open") and not ob.get("chainerr"):
        chain = "(Some [%s])" % "; ".join(dname_term(dname_parse(x)) for x in ob["chain"])
    disks = []
    dd = ob.get("disks") or {}
    known = set()
    for d in univ:
        s = dname_str(d)
        if s in dd:
            known.add(s)
            ch = [c for c in univ if dname_str(c) in dd[s]["children"]]
            if len(ch) != len(dd[s]["children"]):
                raise Unmodelled("child outside the universe: %r" % dd[s]["children"])
            disks.append("(%s, %s, [%s])" % (dname_term(d), disk_term(dd[s], tb), "; ".join(dname_term(c) for c in ch)))
    if len(known) != len(dd):
        raise Unmodelled("ListDisks entry outside the universe: %r" % sorted(set(dd) - known))
    info = "None"
    if ob.get("info") and ob.get("open"):
        info = "(Some (%s))" % info_term(ob["info"])
    # directory
    files = dict(ob["dir"])
    files.pop("tmpFile.tmp", None)
    ents = []
    seen = set()
    names = []
    for d in univ:
        names += [("img", d), ("meta", d), ("metatmp", d)]
    names += [("vol",), ("voltmp",), ("counter",)]
    for n in names:
        s = name_str(n)
        if s not in files:
            continue
        seen.add(s)
        f = files[s]
        if n[0] in ("vol", "voltmp"):
            kind = "KVol (%s)" % info_term(f["vol"]) if f.get("vol") else "KBad"
        elif n[0] in ("meta", "metatmp"):
            kind = "KDisk (%s)" % disk_term(f["disk"], tb) if f.get("disk") else "KBad"
        elif n[0] == "counter":
            kind = "KCounter %s" % zt(ob.get("counter", -1))
        else:
            canon = None
            for c in univ:
                cs = dname_str(c)
                if cs in files and files[cs]["ino"] == f["ino"]:
                    canon = c
                    break
            toks = [tb.token(f.get("hash", "?"))]
            if ob.get("snaps") and s in ob["snaps"]:
                toks.append(tb.token("snap:" + ob["snaps"][s]))
            kind = "KImg (%s) %s [%s]" % (dname_term(canon), bt(f["blocks"] > 0), "; ".join("%d%%N" % t for t in toks))
        ents.append("(%s, %s)" % (name_term(n), kind))
    if len(seen) != len(files):
        raise Unmodelled("file outside the universe: %r" % sorted(set(files) - seen))
    live = "[%d%%N]" % tb.token("live:" + ob["live"]) if ob.get("live") else "[]"
    return "mkobs %s %d %s %s [%s] %s [%s] %s" % (res, ob.get("actions", 0), mode, chain, "; ".join(disks), info,
                                                   "; ".join(ents), live)


def now_of(outobs, tb):
    """the Created string util.Now() gave the initial head: read from the directory after create"""
    for ob in outobs:
        f = ob["dir"].get("volume-head-000.img.meta")
        if f and f.get("disk"):
            return tb.cr(f["disk"]["created"])
    return 0


def case_term(ops, outobs, maxchain):
    tb = Tables()
    univ = universe(ops)
    now = now_of(outobs, tb)
    ot = [op_term(o, now) for o in ops]
    bt_ = [obs_term(ob, univ, tb) for ob in outobs]
    blks = "; ".join("[%s]" % "; ".join(name_term(n) for n in blk_names(o)) for o in ops)
    return "mkcase (%s) [%s] [%s] [%s] [%s]" % (cfg_term(maxchain), "; ".join(dname_term(d) for d in univ),
                                                "; ".join(ot), blks, ";\n ".join(bt_))


# ------------------------------------------------------------------------------------------------ T1 run loop

def run_cases(ctx, binpath, cases, tag="meta"):
    """cases: list of dict(ops=[...], maxchain=int).  Returns (bad, cov, outs).
    bad: list of dict(case, step, field, c12, failstep)"""
    hc = [dict(id=i, ops=[op_json(o) for o in c["ops"]], maxchain=c.get("maxchain", 0)) for i, c in enumerate(cases)]
    # Server.Close and RemoveDiffDisk poll with a 1 s sleep (holeDrainer): the run is sleep-bound, not CPU-bound
    outs = vlib.run_harness(ctx, binpath, hc, tag=tag, workers=min(40, max(1, len(hc) // 3)))
    terms = []
    for i, c in enumerate(cases):
        o = outs[i]
        if o.get("err"):
            raise RuntimeError("harness error on case %d: %s" % (i, o["err"]))
        # a panic of the implementation ends the history: the oracle is judged up to and including that step
        terms.append(case_term(c["ops"][:len(o["obs"])], o["obs"], c.get("maxchain", 0)))
    res = vlib.coq_eval_sharded(ctx, tag, ["Meta.Model", "Meta.Corr"], terms,
                                lambda l: ["bad_cases 0 %s" % l, "coverage %s" % l, "model_oracle %s" % l], shard=40)
    bad = []
    cov = [0] * len(cases)
    morc = [True] * len(cases)
    for off, vals in res:
        for item in vlib.parse_coq_list(vals[0]):
            f = vlib.flat(item)
            bad.append(dict(case=off + f[0], step=f[1], field=f[2], c12=f[3], failstep=f[4]))
        for i, v in enumerate(vlib.parse_coq_list(vals[1])):
            cov[off + i] = v
        for i, v in enumerate(vlib.parse_coq_list(vals[2])):
            morc[off + i] = v
    # the oracle must hold on the model's own trace wherever it holds on the implementation's
    badidx = {b["case"]: b for b in bad}
    for i, ok in enumerate(morc):
        if not ok and (i not in badidx or badidx[i]["c12"]):
            bad.append(dict(case=i, step=0, field=8, c12=True, failstep=999))
    return bad, cov, outs


FIELD = {0: "oracle only", 1: "result", 2: "number of actions", 3: "mode", 4: "Chain()", 5: "ListDisks()", 6: "Info()",
         7: "directory", 8: "C12 oracle false on the model's own trace", 9: "length"}


# ------------------------------------------------------------------------------------------------ generator

class Gen:
    """Keeps a light abstract state to aim at ~70% valid arguments; the verdict never depends on it."""

    def __init__(self, rng, invalid=0.3, known_bad=0.0):
        self.rng = rng
        self.invalid = invalid
        self.known_bad = known_bad      # rate of the two argument shapes of the known findings
        self.open = False
        self.created = False
        self.mode = "INIT"
        self.chain = []                 # snapshot ids, latest first
        self.offchain = []              # snapshot ids whose files exist but are not in the chain
        self.head = 0
        self.next_snap = 1
        self.next_cr = 1
        self.tok = 0
        self.size = SIZE
        self.rebuilding = False
        self.removed = []               # snapshot ids removed from the chain in this session
        self.dirty = False              # a write may have reached the head since the last snapshot
        self.hasdata = {}               # snapshot id -> may hold data
        self.block_rate = 0.07          # rate of operations made to fail by an obstacle
        self.replace_rate = 0.05        # rate of ReplaceDisk requests

    def replace_op(self):
        """ReplaceDisk(target, source): valid = a snapshot and its child snapshot (the coalesce path); invalid = unknown
        source, target = head, target not in the chain.  (Not generated: source = head, source = target, a source that
        is not the target's child: the code accepts them and destroys data; see the report.)"""
        rng = self.rng
        x = rng.random()
        i = rng.randrange(0, len(self.chain) - 1)
        src, tgt = self.chain[i], self.chain[i + 1]
        # the coalesce path is only asked for two snapshots that hold no data: ReplaceDisk presupposes that the caller has
        # merged the target's blocks into the source; without that the target's data is gone by contract, and the running
        # process (stale location table) and a reopened one read different data
        empty = self.hasdata.get(src) is False and self.hasdata.get(tgt) is False
        if x < 0.45 and not empty:
            x = 0.45 + 0.55 * rng.random()
        if x < 0.45:
            self.chain.remove(src)
            self.removed.append(src)
            return dict(op="replace", d=("s", tgt), src=("s", src))
        if x < 0.75:
            return dict(op="replace", d=("s", tgt), src=("s", 90 + rng.randint(0, 3)))        # unknown source: refused
        if x < 0.9:
            return dict(op="replace", d=("h", self.head), src=("s", src))                     # the head as target: refused
        return dict(op="replace", d=("s", tgt), src=("o", 70 + rng.randint(0, 2)))            # a name that is no file

    def cr(self):
        self.next_cr += 1
        return self.next_cr

    def fresh_snap(self):
        self.next_snap += 1
        return self.next_snap

    def prefix(self):
        self.created = True
        self.open = True
        self.mode = "RW"
        return [dict(op="create"), dict(op="open"), dict(op="mode", mode="RW")]

    def some_name(self, valid_pool):
        """a disk-name argument: from the pool, or (invalid) unknown / head / odd"""
        rng = self.rng
        if valid_pool and rng.random() > self.invalid:
            return ("s", rng.choice(valid_pool))
        x = rng.random()
        if x < 0.35:
            return ("s", 90 + rng.randint(0, 3))                     # unknown snapshot
        if x < 0.55:
            return ("o", rng.choice(self.chain) if self.chain and rng.random() < 0.5 else 70 + rng.randint(0, 2))  # short / odd name
        if x < 0.75 and self.chain:
            return ("s", self.chain[0] if rng.random() < 0.5 else self.chain[-1])   # latest / base
        if x < 0.9:
            return ("h", self.head)                                   # the head itself
        return ("h", self.head + rng.randint(1, 2))

    BLOCKABLE = ("snap", "revert", "resize", "checkpoint", "rebuilding", "close", "open")

    def step(self):
        """one generator step; now and then the operation is made to FAIL by an obstacle at volume.meta.tmp (or at the
        new head's .meta.tmp): a directory at that name, so that encodeToFile's open fails"""
        snapshot = (self.open, self.mode, list(self.chain), list(self.offchain), self.head, self.size, self.rebuilding, list(self.removed))
        was_open = self.open
        ops = self.step0()
        for o in ops:
            # which snapshots hold data (conservatively): ReplaceDisk is only asked to swap two snapshots that hold none,
            # see replace_op
            if o["op"] == "write":
                self.dirty = True
            elif o["op"] == "snap":
                sure = was_open and self.mode in ("RW", "WO") and o["s"] == self.next_snap and len(self.chain) <= 3
                self.hasdata[o["s"]] = self.dirty or not sure
                if sure:
                    self.dirty = False
        if len(ops) == 1 and ops[0]["op"] in self.BLOCKABLE and self.created and self.rng.random() < self.block_rate:
            o = ops[0]
            blk = [("voltmp",)]
            if o["op"] in ("snap", "revert") and self.rng.random() < 0.3:
                blk = [("metatmp", ("h", snapshot[4] + 1))]
            o["blk"] = blk
            if o["op"] == "snap":
                self.hasdata[o["s"]] = True
                self.dirty = True
            # the operation fails: the abstract state stays as it was (close: the replica stays open)
            (self.open, self.mode, self.chain, self.offchain, self.head, self.size, self.rebuilding, self.removed) = snapshot
            if o["op"] == "close":
                # a Close that failed has closed the image files and left the mode CLOSED; the Server still holds the
                # replica and accepts operations on it (a later ReplaceDisk / RemoveDiffDisk ends in logrus.Fatalf on the
                # closed descriptors): the history goes on with the retry of the Close or with the death of the process
                self.open = False
                ops.append(dict(op="close" if self.rng.random() < 0.7 else "crash"))
        return ops

    def step0(self):
        rng = self.rng
        x = rng.random()
        if self.open and self.mode == "RW" and len(self.chain) >= 2 and rng.random() < self.replace_rate:
            return [self.replace_op()]
        if not self.open:
            if x < 0.75:
                self.open = True
                self.mode = "INIT"
                return [dict(op="open")] + ([dict(op="mode", mode="RW")] if rng.random() < 0.85 else [])
            if x < 0.85:
                return [dict(op="create")]
            # an operation on a closed server: refused
            return [rng.choice([dict(op="snap", s=self.fresh_snap(), user=False, cr=self.cr()), dict(op="write", tok=1),
                                dict(op="checkpoint", d=None), dict(op="close"), dict(op="resize", size=self.size)])]
        if x < 0.18:
            self.tok += 1
            return [dict(op="write", tok=self.tok)]
        if x < 0.42:
            if self.removed and rng.random() < self.known_bad:
                s = self.removed.pop()                                # reuse of a removed name (known finding: stale children entry)
                self.chain.insert(0, s)
                self.head += 1
            elif self.chain and rng.random() < 0.04:
                s = rng.choice(self.chain)                            # duplicate of a chain member: refused up front
            elif self.offchain and rng.random() < 0.15:
                s = rng.choice(self.offchain)                         # duplicate of a stale off-chain snapshot
                self.offchain.remove(s)                               # refused, and the stale files are removed
                return [dict(op="snap", s=s, user=rng.random() < 0.4, cr=self.cr())]
            else:
                s = self.fresh_snap()
                self.chain.insert(0, s)
                self.head += 1
            return [dict(op="snap", s=s, user=rng.random() < 0.4, cr=self.cr())]
        if x < 0.54:
            pool = self.chain[1:] if self.mode == "RW" else []
            d = self.some_name(pool)
            if d[0] == "s" and d[1] in self.chain[1:] and self.mode == "RW":
                self.chain.remove(d[1])
                self.removed.append(d[1])
            if d[0] == "s" and d[1] in self.offchain:
                self.offchain.remove(d[1])
            return [dict(op="rm", d=d)]
        if x < 0.62:
            if len(self.chain) < 3 and self.mode == "RW" and rng.random() < 0.6:
                s = self.fresh_snap()                                 # grow the chain so that a mark-removed can succeed later
                self.chain.insert(0, s)
                self.head += 1
                return [dict(op="snap", s=s, user=False, cr=self.cr())]
            pool = self.chain[1:-1] if self.mode == "RW" else []
            d = self.some_name(pool)
            if d[0] == "s" and rng.random() < 0.3:
                d = ("o", d[1])                                       # the short snapshot name form
            return [dict(op="prep", d=d)]
        if x < 0.70:
            if rng.random() < self.known_bad:
                d = ("h", self.head) if rng.random() < 0.5 or not self.offchain else ("s", rng.choice(self.offchain))
                return [dict(op="revert", d=d, cr=self.cr())]
            pool = list(self.chain)
            d = self.some_name(pool)
            if d[0] == "h" or (d[0] == "s" and d[1] in self.offchain):
                d = ("s", 95)                                         # keep away from the known-finding shapes here
            if d[0] == "s" and d[1] in self.chain:
                i = self.chain.index(d[1])
                self.offchain += self.chain[:i]
                self.chain = self.chain[i:]
                self.head += 1
            return [dict(op="revert", d=d, cr=self.cr())]
        if x < 0.75:
            if rng.random() > self.invalid:
                self.size += BLK * rng.randint(0, 2)
                return [dict(op="resize", size=self.size)]
            return [dict(op="resize", size=max(0, self.size - BLK * rng.randint(1, 2)))]
        if x < 0.80:
            d = ("s", rng.choice(self.chain)) if self.chain and rng.random() < 0.8 else (None if rng.random() < 0.5 else ("s", 97))
            return [dict(op="checkpoint", d=d)]
        if x < 0.84:
            b = (not self.rebuilding) if rng.random() > self.invalid else self.rebuilding
            if b != self.rebuilding:
                self.rebuilding = b
            return [dict(op="rebuilding", b=b)]
        if x < 0.88:
            m = rng.choice(["RW", "RW", "WO", "XX"])
            if m in ("RW", "WO"):
                self.mode = m
            return [dict(op="mode", mode=m)]
        if x < 0.90:
            return [dict(op="open")] if rng.random() < 0.5 else [dict(op="create")]
        self.open = False
        return [dict(op="close" if rng.random() < 0.6 else "crash")]

    def history(self, n):
        ops = self.prefix()
        while len(ops) < n:
            ops += self.step()
        if not self.open or self.rng.random() < 0.7:
            # always end with a reopen so that the last state is checked too
            if self.open:
                ops.append(dict(op="close" if self.rng.random() < 0.5 else "crash"))
            ops.append(dict(op="open"))
        return ops


def fixed_cases():
    """small structurally important histories, always run"""
    P = [dict(op="create"), dict(op="open"), dict(op="mode", mode="RW")]
    W = lambda t: dict(op="write", tok=t)
    S = lambda s, u=False: dict(op="snap", s=s, user=u, cr=s)
    RO = [dict(op="close"), dict(op="open")]
    CR = [dict(op="crash"), dict(op="open")]
    B = lambda o, n=("voltmp",): dict(o, blk=[n])
    return [
        dict(ops=P + RO),
        dict(ops=P + [W(1), S(1, True), W(2), S(2), W(3), S(3)] + RO + [dict(op="mode", mode="RW"), dict(op="rm", d=("s", 2))] + CR),
        dict(ops=P + [W(1), S(1), S(2), S(3), dict(op="prep", d=("s", 2)), dict(op="prep", d=("o", 2)), dict(op="prep", d=("s", 1)),
                      dict(op="prep", d=("s", 3)), dict(op="prep", d=("s", 9)), dict(op="rm", d=("s", 1))] + RO),
        dict(ops=P + [W(1), S(1), W(2), S(2), dict(op="revert", d=("s", 1), cr=7), W(3), S(3), dict(op="snap", s=2, user=False, cr=8),
                      dict(op="rm", d=("s", 2))] + CR),
        dict(ops=P + [S(1), S(2), S(3), S(4), S(5)], maxchain=5),
        dict(ops=P + [S(1), dict(op="resize", size=2 * SIZE), dict(op="resize", size=SIZE), dict(op="checkpoint", d=("s", 1)),
                      dict(op="rebuilding", b=True), dict(op="rebuilding", b=True), dict(op="rebuilding", b=False)] + RO),
        dict(ops=P + [dict(op="mode", mode="WO"), S(1), dict(op="rm", d=("s", 1)), dict(op="prep", d=("s", 1)), W(1)] + RO),
        # ReplaceDisk: refused shapes, the wrong mode, then the coalesce path
        dict(ops=P + [W(1), S(1), W(2), S(2), W(3), S(3), dict(op="replace", d=("s", 2), src=("s", 91)),
                      dict(op="replace", d=("h", 3), src=("s", 2)), dict(op="mode", mode="WO"), dict(op="replace", d=("s", 1), src=("s", 2)),
                      dict(op="mode", mode="RW"), dict(op="replace", d=("s", 1), src=("s", 2))] + RO),
    ] + blocked_cases()


def blocked_cases():
    """every operation that rewrites metadata FAILS once (an obstacle at volume.meta.tmp / at the new head's .meta.tmp),
    then the same process goes on: write, close, reopen, snapshot, close, reopen"""
    P = [dict(op="create"), dict(op="open"), dict(op="mode", mode="RW")]
    W = lambda t: dict(op="write", tok=t)
    S = lambda s, u=False: dict(op="snap", s=s, user=u, cr=s)
    RO = [dict(op="close"), dict(op="open")]
    B = lambda o, n=("voltmp",): dict(o, blk=[n])
    base = P + [W(1), S(1), W(2), S(2), W(3)]
    kinds = [B(S(3)), B(S(3), ("metatmp", ("h", 3))), B(dict(op="revert", d=("s", 1), cr=5)),
             B(dict(op="revert", d=("s", 1), cr=5), ("metatmp", ("h", 3))), B(dict(op="resize", size=2 * SIZE)),
             B(dict(op="checkpoint", d=("s", 1))), B(dict(op="rebuilding", b=True)), B(dict(op="close"))]
    out = [dict(ops=base + [t, W(4)] + RO + [dict(op="mode", mode="RW"), S(4), W(5)] + RO) for t in kinds]
    out.append(dict(ops=base + [dict(op="close"), B(dict(op="open")), dict(op="open"), dict(op="mode", mode="RW"), S(4)] + RO))
    return out


def known_cases():
    """argument shapes that are (or were) findings, one history each: a duplicate snapshot name (repaired in /repo
    3b20437: now a clean refusal) and a revert to the head's own name (known_findings.txt: revert-target)"""
    P = [dict(op="create"), dict(op="open"), dict(op="mode", mode="RW")]
    S = lambda s, u=False: dict(op="snap", s=s, user=u, cr=s)
    return [
        dict(ops=P + [dict(op="write", tok=1), S(1, True), S(2), S(1)] + [dict(op="close"), dict(op="open")]),
        dict(ops=P + [dict(op="write", tok=1), S(1), dict(op="revert", d=("h", 1), cr=5)] + [dict(op="close"), dict(op="open")]),
        dict(ops=P + [S(1), S(2), S(3), dict(op="rm", d=("s", 2)), S(2), dict(op="rm", d=("s", 3))] + [dict(op="close"), dict(op="open")]),
    ]


def shrink(ctx, binpath, case, still_bad, tag="shr", pred3=None):
    """pred3(b, candidate_case, candidate_outs), when given, decides instead of still_bad(b)"""
    cur = list(case["ops"])
    rounds = 0
    changed = True
    while changed and rounds < 8:
        changed = False
        rounds += 1
        cands = [cur[:i] + cur[i + 1:] for i in range(len(cur))]
        cands = [c for c in cands if c]
        if not cands:
            break
        try:
            bad, _, couts = run_cases(ctx, binpath, [dict(ops=c, maxchain=case.get("maxchain", 0)) for c in cands], tag="%s%d" % (tag, rounds))
        except (Unmodelled, RuntimeError):
            break
        badidx = {}
        for b in bad:
            badidx.setdefault(b["case"], b)
        for i, c in enumerate(cands):
            if i in badidx and (pred3(badidx[i], dict(ops=c, maxchain=case.get("maxchain", 0)), couts[i]) if pred3 else still_bad(badidx[i])):
                cur = c
                changed = True
                break
    return dict(ops=cur, maxchain=case.get("maxchain", 0))


# ================================================================================================ T1v (C08)

TRACE_SET = ("openat,rename,renameat,renameat2,link,linkat,unlink,unlinkat,fsync,fdatasync,truncate,ftruncate,"
             "write,pwrite64,fallocate,mkdir,mkdirat")


def dcode(d):
    k, v = d
    return {"h": 3 * v, "s": 3 * v + 1, "o": 3 * v + 2}[k]


def ncode(n):
    if n[0] == "vol":
        return 4
    if n[0] == "voltmp":
        return 5
    if n[0] == "counter":
        return 6
    return 8 * dcode(n[1]) + {"img": 1, "meta": 2, "metatmp": 3}[n[0]]


SYS_NAMES = {1: "open(dir)", 2: "open(ro)", 3: "open(rw)", 4: "write", 5: "rename", 6: "link", 7: "unlink", 8: "truncate",
             9: "fsync", 10: "pwrite", 11: "mkdir(dir)"}


def parse_strace(path, rundir, markdir):
    """System calls of the main thread.  Returns list of dict(name, ord, canon, ret, win) in entry order;
    canon = (tag, a, b) as Meta.Corr.sys_code, None for calls that are dropped (rmdir attempt of os.Remove),
    'B'/'E' for the markers.  ord = ordinal of this syscall name on the main thread (what strace's when= counts)."""
    lines = open(path, errors="replace").read().split("\n")
    mainpid = None
    pending = {}
    seq = []
    for ln in lines:
        m = re.match(r"(\d+)\s+(.*)$", ln)
        if not m:
            continue
        pid, rest = m.group(1), m.group(2)
        if mainpid is None:
            mainpid = pid
        if rest.startswith("---") or rest.startswith("+++"):
            continue
        if rest.endswith("<unfinished ...>"):
            pending[pid] = len(seq)
            seq.append([pid, rest[:-len("<unfinished ...>")].rstrip(), False])
            continue
        m2 = re.match(r"<\.\.\. (\w+) resumed>(.*)$", rest)
        if m2:
            if pid in pending:
                seq[pending[pid]][1] += m2.group(2)
                seq[pending[pid]][2] = True
                del pending[pid]
            continue
        seq.append([pid, rest, True])
    out = []
    ords = {}
    fds = {}
    win = 0
    rd = rundir.rstrip("/")

    def nm(p):
        if os.path.dirname(p) != rd:
            raise Unmodelled("path outside the replica directory: %r" % p)
        return name_parse(os.path.basename(p))

    for pid, text, done in seq:
        if pid != mainpid:
            m = re.match(r"(\w+)\(", text)
            if m and win == 1 and (rd in text or m.group(1) not in ("openat",)):
                raise Unmodelled("traced system call on another thread: %s" % text)
            continue
        m = re.match(r"(\w+)\((.*?)\)?\s*(?:=\s*(-?\d+|\?)(.*))?$", text)
        if not m:
            continue
        name, args, ret = m.group(1), m.group(2), m.group(3)
        ords[name] = ords.get(name, 0) + 1
        ent = dict(name=name, ord=ords[name], ret=ret, canon=None, win=False, text=text)
        strs = re.findall(r'"((?:[^"\\]|\\.)*)"', args)
        if name in ("mkdirat", "mkdir") and strs and os.path.dirname(strs[0]) == markdir.rstrip("/"):
            ent["canon"] = os.path.basename(strs[0])
            win = 1 if ent["canon"] == "B" else 2
            out.append(ent)
            continue
        if win != 1 and name == "openat" and strs and ret and ret.lstrip("-").isdigit() and int(ret) >= 0:
            # descriptors opened before the window (head image, revision.counter) are written inside it
            if strs[0] == rd:
                fds[int(ret)] = ("dir",)
            elif os.path.dirname(strs[0]) == rd:
                try:
                    fds[int(ret)] = name_parse(os.path.basename(strs[0]))
                except ValueError:
                    fds.pop(int(ret), None)
            else:
                fds.pop(int(ret), None)
        if win == 1:
            ent["win"] = True
            try:
                if name == "openat":
                    p = strs[0]
                    fl = args.split(",")[2] if len(args.split(",")) > 2 else ""
                    if p == rd:
                        ent["canon"] = (1, 0, 0)
                        if ret and ret.lstrip("-").isdigit() and int(ret) >= 0:
                            fds[int(ret)] = ("dir",)
                    else:
                        n = nm(p)
                        if "O_RDWR" in fl or "O_WRONLY" in fl:
                            ent["canon"] = (3, ncode(n), (2 if "O_CREAT" in fl else 0) + (1 if "O_TRUNC" in fl else 0))
                        else:
                            ent["canon"] = (2, ncode(n), 0)
                        if ret and ret.lstrip("-").isdigit() and int(ret) >= 0:
                            fds[int(ret)] = n
                elif name in ("write", "pwrite64"):
                    fd = int(args.split(",")[0])
                    n = fds.get(fd)
                    if n is None or n == ("dir",):
                        raise Unmodelled("write to an unknown descriptor: %s" % text)
                    ent["canon"] = (4 if name == "write" else 10, ncode(n), 0)
                elif name in ("renameat", "rename", "renameat2"):
                    ent["canon"] = (5, ncode(nm(strs[0])), ncode(nm(strs[1])))
                elif name in ("linkat", "link"):
                    ent["canon"] = (6, ncode(nm(strs[0])), ncode(nm(strs[1])))
                elif name in ("unlinkat", "unlink"):
                    if "AT_REMOVEDIR" in args:
                        ent["canon"] = None
                    else:
                        ent["canon"] = (7, ncode(nm(strs[0])), 0)
                elif name in ("truncate",):
                    ent["canon"] = (8, ncode(nm(strs[0])), 0)
                elif name in ("fsync", "fdatasync"):
                    ent["canon"] = (9, 0, 0)
                elif name in ("mkdirat", "mkdir"):
                    if strs and strs[0].rstrip("/") == rd:
                        ent["canon"] = (11, 0, 0)
                    else:
                        raise Unmodelled("mkdir of %r" % strs)
                else:
                    raise Unmodelled("system call not in the model's alphabet: %s" % text)
            except (ValueError, IndexError) as e:
                raise Unmodelled("cannot canonicalise %r: %s" % (text, e))
        out.append(ent)
    return out


def strace_victim(victim, predir, rundir, markdir, opj, tracefile, inject=None, timeout=60):
    shutil.rmtree(rundir, ignore_errors=True)
    shutil.rmtree(markdir, ignore_errors=True)
    subprocess.run(["cp", "-a", "--sparse=always", predir, rundir], check=True)
    os.makedirs(markdir)
    argv = ["strace", "-f", "-o", tracefile, "-e", "trace=" + TRACE_SET]
    if inject:
        argv += ["-e", "inject=" + inject]
    argv += [victim, rundir, markdir, json.dumps(opj)]
    try:
        p = subprocess.run(argv, stdout=subprocess.PIPE, stderr=subprocess.PIPE, timeout=timeout, text=True)
    except subprocess.TimeoutExpired:
        return dict(res="hang", rc=-1)
    res = dict(rc=p.returncode, res="died", stderr=p.stderr[-300:])
    for ln in p.stdout.split("\n"):
        ln = ln.strip()
        if ln.startswith("{"):
            try:
                j = json.loads(ln)
                res["res"] = j["res"]
                res["err"] = j.get("err", "")
                res["actions"] = j.get("actions", 0)
                for k in ("mem", "cres", "cerr", "conterr"):
                    if k in j:
                        res[k] = j[k]
            except ValueError:
                pass
    return res


ERRNO_OF_TAG = {1: "EIO", 2: "EIO", 3: "ENOSPC", 4: "ENOSPC", 5: "ENOSPC", 6: "ENOSPC", 7: "EIO", 8: "ENOSPC", 9: "EIO",
                10: "ENOSPC", 11: "ENOSPC"}


def victim_op_json(o, maxchain=0):
    j = op_json(o)
    if maxchain:
        j["maxchain"] = maxchain
    return j


# what a restarted process is asked to do with the directory a kill inside a snapshot / revert left
FOLLOW_PREFIX = [dict(op="open"), dict(op="mode", mode="RW")]
FOLLOW = {"snap": FOLLOW_PREFIX + [dict(op="snap", s=8, user=False, cr=8)],
          "revert": FOLLOW_PREFIX + [dict(op="revert", d=("s", 1), cr=8)]}


def follow_kinds(vc):
    """the follow-up histories that apply: a Snapshot always; a Revert (to the base snapshot s1, retained by every
    operation under test) when the pre-state has that snapshot"""
    if vc["op"]["op"] not in ("snap", "revert"):
        return []
    has_s1 = any(o["op"] == "snap" and o["s"] == 1 for o in vc["pre"])
    return ["snap"] + (["revert"] if has_s1 else [])


def vcase_term(vc, now):
    univ = universe(vc["pre"] + [vc["op"]] + FOLLOW["snap"] + FOLLOW["revert"], extra_heads=3)
    return "mkvcase (%s) [%s] [%s] (%s)" % (
        cfg_term(vc.get("maxchain")), "; ".join(dname_term(d) for d in univ),
        "; ".join(op_term(o, now) for o in vc["pre"]), op_term(vc["op"], now)), univ


def run_vcases(ctx, metabin, victim, vcases, tag="v", fail=True, kill=True, workers=16, only=None, follow_step=1):
    """vcases: list of dict(pre=[ops], op=op, maxchain=int).
    Returns list (per vcase) of dict(trace_ok, trace_diff, runs=[...], ncalls, nsys, pre, post, skipped)."""
    import concurrent.futures as cf
    base = os.path.join(ctx.work, tag)
    os.makedirs(base, exist_ok=True)
    # 1. pre-state directories from the real code
    hc = []
    for i, vc in enumerate(vcases):
        vc["predir"] = os.path.join(base, "pre%d" % i)
        hc.append(dict(id=i, ops=[op_json(o) for o in vc["pre"]], maxchain=vc.get("maxchain", 0), keep=vc["predir"]))
    outs = vlib.run_harness(ctx, metabin, hc, tag=tag + "pre", workers=min(8, max(1, len(hc))))
    for i, vc in enumerate(vcases):
        if outs[i].get("err"):
            raise RuntimeError("pre-state %d: %s" % (i, outs[i]["err"]))
        vc["tb"] = Tables()
        vc["now"] = now_of(outs[i]["obs"], vc["tb"])
    # 1b. staged pre-states: the directory left by an earlier process death inside an operation
    staged = [vc for vc in vcases if vc.get("stage")]
    if staged:
        svals = vlib.coq_eval(ctx, tag + "_st", ["Meta.Model", "Meta.Corr"], "",
                              ["vic_trace (%s)" % vcase_term(dict(pre=vc["pre"], op=vc["stage"]["op"], maxchain=vc.get("maxchain")), vc["now"])[0]
                               for vc in staged])
        for k, (vc, v) in enumerate(zip(staged, svals)):
            mtr = [tuple(vlib.flat(x)) for x in vlib.parse_coq_list(v)]
            sd = os.path.join(base, "stage%d" % k)
            os.makedirs(sd, exist_ok=True)
            opj = victim_op_json(vc["stage"]["op"], vc.get("maxchain", 0))
            strace_victim(victim, vc["predir"], os.path.join(sd, "full"), os.path.join(sd, "mk-full"), opj, os.path.join(sd, "full.trace"))
            ents = [e for e in parse_strace(os.path.join(sd, "full.trace"), os.path.join(sd, "full"), os.path.join(sd, "mk-full"))
                    if e["win"] and e["canon"] is not None]
            j = vc["stage"]["j"]
            if [e["canon"] for e in ents] != [t[1:] for t in mtr] or j >= len(ents):
                # the staging operation itself no longer matches the model: run this case from the unstaged directory
                # and report the difference (the same operation is also a case under test)
                vc["stage_note"] = "staged pre-state: trace of %r differs from the model" % (vc["stage"]["op"],)
                continue
            strace_victim(victim, vc["predir"], os.path.join(sd, "dir"), os.path.join(sd, "mk"), opj, os.path.join(sd, "k.trace"),
                          inject="%s:signal=SIGKILL:when=%d" % (ents[j]["name"], ents[j]["ord"]))
            vc["predir"] = os.path.join(sd, "dir")
            vc["pre_model"] = vc["pre"] + [dict(op="open"), dict(op="mode", mode="RW"),
                                           dict(op="crashin", k=mtr[j][0], inner=vc["stage"]["op"])]
    for i, vc in enumerate(vcases):
        vc["term"], vc["univ"] = vcase_term(dict(pre=vc.get("pre_model", vc["pre"]), op=vc["op"], maxchain=vc.get("maxchain")), vc["now"])
    # 2. the model's canonical system-call trace of every operation
    vals = vlib.coq_eval(ctx, tag + "_tr", ["Meta.Model", "Meta.Corr"], "",
                         ["(vic_trace (%s), vic_ncalls (%s))" % (vc["term"], vc["term"]) for vc in vcases])
    for vc, v in zip(vcases, vals):
        tr, n = vlib.parse_coq_list(v)
        vc["mtrace"] = [tuple(vlib.flat(x)) for x in tr]      # (model index, tag, a, b)
        vc["ncalls"] = n
    # 3. pass 1: the complete run under strace
    results = []

    def pass1(arg):
        i, vc = arg
        d = os.path.join(base, "c%d" % i)
        os.makedirs(d, exist_ok=True)
        vc["dir"] = d
        vc["opj"] = victim_op_json(vc["op"], vc.get("maxchain", 0))
        r = strace_victim(victim, vc["predir"], os.path.join(d, "full"), os.path.join(d, "mk-full"), vc["opj"],
                          os.path.join(d, "full.trace"))
        ents = parse_strace(os.path.join(d, "full.trace"), os.path.join(d, "full"), os.path.join(d, "mk-full"))
        return r, ents

    with cf.ThreadPoolExecutor(max_workers=workers) as ex:
        p1 = list(ex.map(pass1, enumerate(vcases)))
    jobs = []
    for i, (vc, (r, ents)) in enumerate(zip(vcases, p1)):
        winents = [e for e in ents if e["win"] and e["canon"] is not None]
        impl = [e["canon"] for e in winents]
        model = [t[1:] for t in vc["mtrace"]]
        info = dict(case=i, full=r, impl_trace=impl, model_trace=model, trace_ok=(impl == model), runs=[],
                    nsys=len(impl), ncalls=vc["ncalls"])
        if not any(e["canon"] == "E" for e in ents):
            info["trace_ok"] = False
            info["note"] = "the operation window did not end (result %s)" % r.get("res")
        if not info["trace_ok"]:
            k = 0
            while k < len(impl) and k < len(model) and impl[k] == model[k]:
                k += 1
            info["trace_diff"] = dict(at=k, impl=impl[k] if k < len(impl) else None, model=model[k] if k < len(model) else None)
        results.append(info)
        vc["winents"] = winents
        # kill / fail plans: align by position when the traces agree; otherwise only kills by raw position
        for j, e in enumerate(winents):
            mi = vc["mtrace"][j][0] if info["trace_ok"] else None
            if only is not None and j not in only:
                continue
            if kill:
                jobs.append((i, j, mi, None, "%s:signal=SIGKILL:when=%d" % (e["name"], e["ord"])))
            if fail:
                en = ERRNO_OF_TAG[e["canon"][0]]
                jobs.append((i, j, mi, en, "%s:error=%s:when=%d" % (e["name"], en, e["ord"])))

    # 4. the faulty runs
    def faulty(job):
        i, j, mi, en, inj = job
        vc = vcases[i]
        key = "%s%d" % ("f" if en else "k", j)
        rd = os.path.join(vc["dir"], key)
        shutil.rmtree(rd + ".atE", ignore_errors=True)
        # a run with a failing call goes on after the operation: the directory is kept aside (<rd>.atE), the memory is
        # observed, and a regular Close rewrites volume.meta from memory
        opj = dict(vc["opj"], cont=True) if en else vc["opj"]
        r = strace_victim(victim, vc["predir"], rd, os.path.join(vc["dir"], "mk-" + key), opj,
                          os.path.join(vc["dir"], key + ".trace"), inject=inj)
        cont = bool(en) and os.path.isdir(rd + ".atE") and "mem" in r and not r.get("conterr")
        return dict(case=i, j=j, mi=mi, errno=en, res=r, dir=(rd + ".atE") if cont else rd, dir2=rd if cont else None, inject=inj)

    with cf.ThreadPoolExecutor(max_workers=workers) as ex:
        runs = list(ex.map(faulty, jobs))
    # 4b. after a kill inside a snapshot / revert: the follow-up histories of a restarted process, on copies of the directory
    #     (before step 5, which opens the directories in place)
    fjobs = []
    for k, r in enumerate(runs):
        vc = vcases[r["case"]]
        if r["errno"] is None and (r["j"] % follow_step == 0 or r["j"] == len(vc["winents"]) - 1):
            for kind in follow_kinds(vc):
                fjobs.append((k, kind))
    if fjobs:
        fc = [dict(id=n, ops=[op_json(o) for o in FOLLOW[kind]], maxchain=vcases[runs[k]["case"]].get("maxchain", 0),
                   **{"from": runs[k]["dir"]}) for n, (k, kind) in enumerate(fjobs)]
        fo = vlib.run_harness(ctx, metabin, fc, tag=tag + "fol", workers=16, timeout=1800)
        for n, (k, kind) in enumerate(fjobs):
            if fo[n].get("err"):
                raise RuntimeError("follow-up %s: %s" % (kind, fo[n]["err"]))
            runs[k].setdefault("follow", {})[kind] = fo[n]["obs"]
    # 5. reopen every resulting directory with the real replica.New (fresh process per batch)
    insp = [dict(id=k, inspect=r["dir"]) for k, r in enumerate(runs)]
    for i, vc in enumerate(vcases):
        insp.append(dict(id=len(runs) + i, inspect=os.path.join(vc["dir"], "full")))
    conts = [k for k, r in enumerate(runs) if r["dir2"]]
    base2 = len(insp)
    for n, k in enumerate(conts):
        insp.append(dict(id=base2 + n, inspect=runs[k]["dir2"]))
    io = vlib.run_harness(ctx, metabin, insp, tag=tag + "insp", workers=8, timeout=1800)
    for n, k in enumerate(conts):
        runs[k]["obs2"] = io[base2 + n]["obs"]
    for k, r in enumerate(runs):
        r["obs"] = io[k]["obs"]
        results[r["case"]]["runs"].append(r)
    for i, vc in enumerate(vcases):
        results[i]["post_obs"] = io[len(runs) + i]["obs"]
    return results


def reopen_term(ob2, univ, tb):
    """inspect output (directory as left, after replica.New) -> two obs terms"""
    d = dict(ob2[0])
    d.setdefault("res", "ok")
    return obs_term(d, univ, tb), obs_term(ob2[1], univ, tb)


def eval_vcases(ctx, vcases, results, tag="ve"):
    """Evaluate Meta.Corr.check_vcase on every case.  Adds per run: ddiff, odiff, res_agree, oracle, strict,
    mside, iside."""
    import concurrent.futures as cf

    def one(arg):
        i, (vc, info) = arg
        if not info["runs"]:
            return
        tb, univ = vc["tb"], vc["univ"]
        # pre = the kill before the first call of the window; post = the complete run
        kills = [r for r in info["runs"] if r["errno"] is None]
        first = min(kills, key=lambda r: r["j"]) if kills else None
        if first is None or first["j"] != 0:
            return
        _, ipre = reopen_term(first["obs"], univ, tb)
        _, ipost = reopen_term(info["post_obs"], univ, tb)
        xs = []
        for r in info["runs"]:
            dterm, oterm = reopen_term(r["obs"], univ, tb)
            cls = {"ok": "COk", "err": "CErr"}.get(r["res"]["res"], "CDied")
            xs.append("mkvrun %d %s %s (%s) (%s)" % (r["mi"] if r["mi"] is not None else 0,
                                                       "(Some %s)" % r["errno"] if r["errno"] else "None", cls, dterm, oterm))
        defs = "Definition v := %s.\nDefinition ipre := %s.\nDefinition ipost := %s.\nDefinition xs := [\n%s\n].\n" % (
            vc["term"], ipre, ipost, ";\n".join(xs))
        # the runs that went on: memory + directory when the operation returned, Close, directory after, reopen
        cruns = [r for r in info["runs"] if r.get("obs2")]
        ys = []
        for r in cruns:
            mem = dict(r["res"]["mem"])
            mem["res"] = r["res"]["res"] if r["res"]["res"] in ("ok", "err") else "died"
            mem["actions"] = r["res"].get("actions", 0)
            mem["dir"] = r["obs"][0]["dir"]
            mem["counter"] = r["obs"][0].get("counter", -1)
            d2, o2 = reopen_term(r["obs2"], univ, tb)
            ys.append("mkvcrun %d %s %s (%s) %s (%s) (%s)" % (
                r["mi"] if r["mi"] is not None else 0, r["errno"], {"ok": "COk", "err": "CErr"}.get(r["res"]["res"], "CDied"),
                obs_term(mem, univ, tb), {"ok": "COk", "err": "CErr"}.get(r["res"].get("cres"), "CDied"), d2, o2))
        defs += "Definition ys := [\n%s\n].\n" % ";\n".join(ys)
        if info["trace_ok"]:
            vals = vlib.coq_eval(ctx, "%s_%d" % (tag, i), ["Meta.Model", "Meta.Corr"], defs,
                                 ["check_vcase v ipre ipost xs", "check_vconts v ipre ipost ys"])
            rows = vlib.parse_coq_list(vals[0])
            for r, row in zip(info["runs"], rows):
                f = vlib.flat(row)
                r.update(ddiff=f[1], odiff=f[2], res_agree=f[3], oracle=f[4], strict=f[5], mside=f[6], iside=f[7])
            for r, row in zip(cruns, vlib.parse_coq_list(vals[1])):
                f = vlib.flat(row)
                r.update(c_memdiff=f[1], c_res_agree=f[2], c_ddiff=f[3], c_odiff=f[4], c_oracle=f[5])
        elif ys:
            vals = vlib.coq_eval(ctx, "%s_%dc" % (tag, i), ["Meta.Model", "Meta.Corr"], defs, ["cont_oracle_only ipre ipost ys"])
            for r, row in zip(cruns, vlib.parse_coq_list(vals[0])):
                r.update(c_memdiff=None, c_res_agree=None, c_ddiff=None, c_odiff=None, c_oracle=row)
        # the follow-up histories after a kill
        for kind in FOLLOW:
            fruns = [r for r in info["runs"] if kind in (r.get("follow") or {})]
            if not fruns:
                continue
            ops_t = "[%s]" % "; ".join(op_term(o, vc["now"]) for o in FOLLOW[kind])
            zs = ["(%d, [%s])" % (r["mi"] if (info["trace_ok"] and r["mi"] is not None) else 0,
                                  "; ".join(obs_term(ob, univ, tb) for ob in r["follow"][kind])) for r in fruns]
            fdefs = "Definition v := %s.\nDefinition zs := [\n%s\n].\n" % (vc["term"], ";\n".join(zs))
            vals = vlib.coq_eval(ctx, "%s_%df%s" % (tag, i, kind), ["Meta.Model", "Meta.Corr"], fdefs, ["check_follows v %s zs" % ops_t])
            for r, row in zip(fruns, vlib.parse_coq_list(vals[0])):
                f = vlib.flat(row)
                ok_len = len(r["follow"][kind]) == len(FOLLOW[kind])
                r.setdefault("f_res", {})[kind] = dict(step=f[1], field=f[2], oracle=bool(f[3]) and ok_len, model_oracle=f[4],
                                                        aligned=info["trace_ok"] and r["mi"] is not None)
        if not info["trace_ok"]:
            # the operation's system calls differ from the model's: the model cannot be aligned call by call, but the
            # oracles are predicates on the implementation's own observations
            vals = vlib.coq_eval(ctx, "%s_%d" % (tag, i), ["Meta.Model", "Meta.Corr"], defs, ["oracle_only ipre ipost xs"])
            rows = vlib.parse_coq_list(vals[0])
            for r, row in zip(info["runs"], rows):
                r.update(ddiff=None, odiff=None, res_agree=None, oracle=row, strict=row, mside=None, iside=None)
        info["evaluated"] = True

    with cf.ThreadPoolExecutor(max_workers=12) as ex:
        list(ex.map(one, enumerate(zip(vcases, results))))
    return results
