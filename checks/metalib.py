"""Generators, name tables, Coq-term printers and run loops shared by C08 and C12 (model: coq/theories/Meta)."""
import json, os, re, sys, subprocess, shutil, time
sys.path.insert(0, os.path.join(os.path.dirname(os.path.abspath(__file__)), "..", "bin"))
import vlib

BLK = 4096
NBLK = 4
SIZE = BLK * NBLK
META_FILES = ["Model", "Corr", "Proofs"]

# ------------------------------------------------------------------------------------------------ Coq build

def ensure_meta_compiled():
    """The Meta files are compiled one by one (they may not yet be listed in _CoqProject)."""
    prev_new = False
    for f in META_FILES:
        v = os.path.join(vlib.COQ, "theories", "Meta", f + ".v")
        vo = v + "o"
        if not os.path.exists(v):
            continue
        if prev_new or not os.path.exists(vo) or os.path.getmtime(vo) < os.path.getmtime(v):
            rc, out = vlib.sh(["coqc", "-Q", "theories", "Jiva", "-w", "-notation-overridden,-deprecated-hint-without-locality",
                               "theories/Meta/%s.v" % f], cwd=vlib.COQ, timeout=1500)
            if rc != 0:
                return False, "theories/Meta/%s.v does not compile:\n%s" % (f, out[-2500:])
            prev_new = True
    return True, ""


# ------------------------------------------------------------------------------------------------ names

def dname_str(d):
    """d = ('h', n) | ('s', k) | ('o', k)  ->  the string the implementation sees"""
    k, v = d
    if k == "h":
        return "volume-head-%03d.img" % v
    if k == "s":
        return "volume-snap-s%d.img" % v
    return "s%d" % v


def dname_parse(s):
    m = re.fullmatch(r"volume-head-(\d+)\.img", s)
    if m:
        return ("h", int(m.group(1)))
    m = re.fullmatch(r"volume-snap-s(\d+)\.img", s)
    if m:
        return ("s", int(m.group(1)))
    m = re.fullmatch(r"s(\d+)", s)
    if m:
        return ("o", int(m.group(1)))
    raise ValueError("name outside the model's name space: %r" % s)


def dname_term(d):
    k, v = d
    return {"h": "Head %d", "s": "Snap %d%%N", "o": "Odd %d%%N"}[k] % v


def odname_term(s):
    if s == "" or s is None:
        return "None"
    return "(Some (%s))" % dname_term(dname_parse(s))


def name_parse(s):
    if s == "volume.meta":
        return ("vol",)
    if s == "volume.meta.tmp":
        return ("voltmp",)
    if s == "revision.counter":
        return ("counter",)
    if s.endswith(".meta.tmp"):
        return ("metatmp", dname_parse(s[:-9]))
    if s.endswith(".meta"):
        return ("meta", dname_parse(s[:-5]))
    return ("img", dname_parse(s))


def name_term(n):
    if n[0] == "vol":
        return "Vol"
    if n[0] == "voltmp":
        return "VolTmp"
    if n[0] == "counter":
        return "Counter"
    return "%s (%s)" % ({"img": "Img", "meta": "Meta", "metatmp": "MetaTmp"}[n[0]], dname_term(n[1]))


def name_str(n):
    if n[0] == "vol":
        return "volume.meta"
    if n[0] == "voltmp":
        return "volume.meta.tmp"
    if n[0] == "counter":
        return "revision.counter"
    return dname_str(n[1]) + {"img": "", "meta": ".meta", "metatmp": ".meta.tmp"}[n[0]]


class Tables:
    """created strings and content hashes are interned per case"""

    def __init__(self):
        self.created = {"": 0}
        self.tok = {}

    def cr(self, s):
        m = re.fullmatch(r"c(\d+)", s or "")
        if m:
            return int(m.group(1))
        if s not in self.created:
            self.created[s] = 100000 + len(self.created)
        return self.created[s]

    def token(self, h):
        if h not in self.tok:
            self.tok[h] = 1 + len(self.tok)
        return self.tok[h]


def zt(v):
    return "(%d)%%Z" % v


def bt(b):
    return "true" if b else "false"


# ------------------------------------------------------------------------------------------------ operations

def op_json(o):
    """o: python dict with model-level arguments -> the harness's op"""
    k = o["op"]
    if k in ("create", "open", "close", "crash"):
        return dict(op=k)
    if k == "mode":
        return dict(op="mode", mode=o["mode"])
    if k == "write":
        return dict(op="write", tok=o["tok"])
    if k == "snap":
        return dict(op="snap", name="s%d" % o["s"], user=o["user"], created="c%d" % o["cr"])
    if k in ("rm", "prep"):
        return dict(op=k, name=dname_str(tuple(o["d"])))
    if k == "revert":
        return dict(op="revert", name=dname_str(tuple(o["d"])), created="c%d" % o["cr"])
    if k == "resize":
        return dict(op="resize", size=o["size"])
    if k == "checkpoint":
        return dict(op="checkpoint", name=dname_str(tuple(o["d"])) if o.get("d") else "")
    if k == "rebuilding":
        return dict(op="rebuilding", b=o["b"])
    raise ValueError(o)


def op_term(o, now=0):
    k = o["op"]
    if k == "create":
        return "OCreate %d%%N %d%%N" % (SIZE, now)
    if k == "open":
        return "OOpen"
    if k == "close":
        return "OClose"
    if k == "crash":
        return "OCrash"
    if k == "mode":
        return "OSetMode %s" % ({"RW": "(Some RW)", "WO": "(Some WO)"}.get(o["mode"], "None"))
    if k == "write":
        return "OWrite"
    if k == "snap":
        return "OSnap %d%%N %s %d%%N" % (o["s"], bt(o["user"]), o["cr"])
    if k == "rm":
        return "ORemove (%s)" % dname_term(tuple(o["d"]))
    if k == "prep":
        return "OPrep (%s)" % dname_term(tuple(o["d"]))
    if k == "revert":
        return "ORevert (%s) %d%%N" % (dname_term(tuple(o["d"])), o["cr"])
    if k == "resize":
        return "OResize %d%%N" % o["size"]
    if k == "checkpoint":
        return "OCheckpoint %s" % ("(Some (%s))" % dname_term(tuple(o["d"])) if o.get("d") else "None")
    if k == "rebuilding":
        return "ORebuilding %s" % bt(o["b"])
    raise ValueError(o)


def universe(ops, extra_heads=2):
    heads = 1 + extra_heads + sum(1 for o in ops if o["op"] in ("snap", "revert", "create"))
    snaps, odds = [0], []
    for o in ops:
        if o["op"] == "snap" and o["s"] not in snaps:
            snaps.append(o["s"])
        d = o.get("d")
        if d:
            d = tuple(d)
            if d[0] == "s" and d[1] not in snaps:
                snaps.append(d[1])
            if d[0] == "o":
                if d[1] not in odds:
                    odds.append(d[1])
                if d[1] not in snaps:
                    snaps.append(d[1])
            if d[0] == "h":
                heads = max(heads, d[1] + 1)
    return [("h", i) for i in range(heads)] + [("s", k) for k in snaps] + [("o", k) for k in odds]


# ------------------------------------------------------------------------------------------------ observations -> Coq

def disk_term(d, tb):
    return "mkdisk %s %s %s %d%%N %s" % (odname_term(d["parent"]), bt(d["removed"]), bt(d["user"]), tb.cr(d["created"]), zt(d["rev"]))


def info_term(i):
    return "mkinfo %d%%N %s %s %s %s %s %s" % (i["size"], odname_term(i["head"]), bt(i["dirty"]), bt(i["rebuilding"]),
                                              odname_term(i["parent"]), odname_term(i["checkpoint"]), zt(i["rev"]))


class Unmodelled(Exception):
    pass


def obs_term(ob, univ, tb):
    res = {"ok": "COk", "err": "CErr", "died": "CDied"}[ob["res"]]
    mode = "None"
    if ob.get("open"):
        mode = "(Some %s)" % ob["mode"]
    chain = "None"
    if ob.get("chain") is not None and ob.get("open") and not ob.get("chainerr"):
        chain = "(Some [%s])" % "; ".join(dname_term(dname_parse(x)) for x in ob["chain"])
    disks = []
    dd = ob.get("disks") or {}
    known = set()
    for d in univ:
        s = dname_str(d)
        if s in dd:
            known.add(s)
            ch = [c for c in univ if dname_str(c) in dd[s]["children"]]
            if len(ch) != len(dd[s]["children"]):
                raise Unmodelled("child outside the universe: %r" % dd[s]["children"])
            disks.append("(%s, %s, [%s])" % (dname_term(d), disk_term(dd[s], tb), "; ".join(dname_term(c) for c in ch)))
    if len(known) != len(dd):
        raise Unmodelled("ListDisks entry outside the universe: %r" % sorted(set(dd) - known))
    info = "None"
    if ob.get("info") and ob.get("open"):
        info = "(Some (%s))" % info_term(ob["info"])
    # directory
    files = dict(ob["dir"])
    files.pop("tmpFile.tmp", None)
    ents = []
    seen = set()
    names = []
    for d in univ:
        names += [("img", d), ("meta", d), ("metatmp", d)]
    names += [("vol",), ("voltmp",), ("counter",)]
    for n in names:
        s = name_str(n)
        if s not in files:
            continue
        seen.add(s)
        f = files[s]
        if n[0] in ("vol", "voltmp"):
            kind = "KVol (%s)" % info_term(f["vol"]) if f.get("vol") else "KBad"
        elif n[0] in ("meta", "metatmp"):
            kind = "KDisk (%s)" % disk_term(f["disk"], tb) if f.get("disk") else "KBad"
        elif n[0] == "counter":
            kind = "KCounter %s" % zt(ob.get("counter", -1))
        else:
            canon = None
            for c in univ:
                cs = dname_str(c)
                if cs in files and files[cs]["ino"] == f["ino"]:
                    canon = c
                    break
            kind = "KImg (%s) %s [%d%%N]" % (dname_term(canon), bt(f["blocks"] > 0), tb.token(f.get("hash", "?")))
        ents.append("(%s, %s)" % (name_term(n), kind))
    if len(seen) != len(files):
        raise Unmodelled("file outside the universe: %r" % sorted(set(files) - seen))
    live = "[%d%%N]" % tb.token("live:" + ob["live"]) if ob.get("live") else "[]"
    return "mkobs %s %d %s %s [%s] %s [%s] %s" % (res, ob.get("actions", 0), mode, chain, "; ".join(disks), info,
                                                   "; ".join(ents), live)


def now_of(outobs, tb):
    """the Created string util.Now() gave the initial head: read from the directory after create"""
    for ob in outobs:
        f = ob["dir"].get("volume-head-000.img.meta")
        if f and f.get("disk"):
            return tb.cr(f["disk"]["created"])
    return 0


def case_term(ops, outobs, maxchain):
    tb = Tables()
    univ = universe(ops)
    now = now_of(outobs, tb)
    ot = [op_term(o, now) for o in ops]
    bt_ = [obs_term(ob, univ, tb) for ob in outobs]
    return "mkcase (mkcfg %d code_fixed) [%s] [%s] [%s]" % (maxchain or 1024, "; ".join(dname_term(d) for d in univ),
                                                             "; ".join(ot), ";\n ".join(bt_))


# ------------------------------------------------------------------------------------------------ T1 run loop

def run_cases(ctx, binpath, cases, tag="meta"):
    """cases: list of dict(ops=[...], maxchain=int).  Returns (bad, cov, outs).
    bad: list of dict(case, step, field, c12, failstep)"""
    hc = [dict(id=i, ops=[op_json(o) for o in c["ops"]], maxchain=c.get("maxchain", 0)) for i, c in enumerate(cases)]
    outs = vlib.run_harness(ctx, binpath, hc, tag=tag, workers=8)
    terms = []
    for i, c in enumerate(cases):
        o = outs[i]
        if o.get("err"):
            raise RuntimeError("harness error on case %d: %s" % (i, o["err"]))
        terms.append(case_term(c["ops"], o["obs"], c.get("maxchain", 0)))
    res = vlib.coq_eval_sharded(ctx, tag, ["Meta.Model", "Meta.Corr"], terms,
                                lambda l: ["bad_cases 0 %s" % l, "coverage %s" % l], shard=40)
    bad = []
    cov = [0] * len(cases)
    for off, vals in res:
        for item in vlib.parse_coq_list(vals[0]):
            f = vlib.flat(item)
            bad.append(dict(case=off + f[0], step=f[1], field=f[2], c12=f[3], failstep=f[4]))
        for i, v in enumerate(vlib.parse_coq_list(vals[1])):
            cov[off + i] = v
    return bad, cov, outs


FIELD = {0: "oracle only", 1: "result", 2: "number of actions", 3: "mode", 4: "Chain()", 5: "ListDisks()", 6: "Info()",
         7: "directory", 9: "length"}


# ------------------------------------------------------------------------------------------------ generator

class Gen:
    """Keeps a light abstract state to aim at ~70% valid arguments; the verdict never depends on it."""

    def __init__(self, rng, invalid=0.3, known_bad=0.0):
        self.rng = rng
        self.invalid = invalid
        self.known_bad = known_bad      # rate of the two argument shapes of the known findings
        self.open = False
        self.created = False
        self.mode = "INIT"
        self.chain = []                 # snapshot ids, latest first
        self.offchain = []              # snapshot ids whose files exist but are not in the chain
        self.head = 0
        self.next_snap = 1
        self.next_cr = 1
        self.tok = 0
        self.size = SIZE
        self.rebuilding = False

    def cr(self):
        self.next_cr += 1
        return self.next_cr

    def fresh_snap(self):
        self.next_snap += 1
        return self.next_snap

    def prefix(self):
        self.created = True
        self.open = True
        self.mode = "RW"
        return [dict(op="create"), dict(op="open"), dict(op="mode", mode="RW")]

    def some_name(self, valid_pool):
        """a disk-name argument: from the pool, or (invalid) unknown / head / odd"""
        rng = self.rng
        if valid_pool and rng.random() > self.invalid:
            return ("s", rng.choice(valid_pool))
        x = rng.random()
        if x < 0.35:
            return ("s", 90 + rng.randint(0, 3))                     # unknown snapshot
        if x < 0.55:
            return ("o", rng.choice(self.chain) if self.chain and rng.random() < 0.5 else 70 + rng.randint(0, 2))  # short / odd name
        if x < 0.75 and self.chain:
            return ("s", self.chain[0] if rng.random() < 0.5 else self.chain[-1])   # latest / base
        if x < 0.9:
            return ("h", self.head)                                   # the head itself
        return ("h", self.head + rng.randint(1, 2))

    def step(self):
        rng = self.rng
        x = rng.random()
        if not self.open:
            if x < 0.75:
                self.open = True
                self.mode = "INIT"
                return [dict(op="open")] + ([dict(op="mode", mode="RW")] if rng.random() < 0.85 else [])
            if x < 0.85:
                return [dict(op="create")]
            # an operation on a closed server: refused
            return [rng.choice([dict(op="snap", s=self.fresh_snap(), user=False, cr=self.cr()), dict(op="write", tok=1),
                                dict(op="checkpoint", d=None), dict(op="close"), dict(op="resize", size=self.size)])]
        if x < 0.18:
            self.tok += 1
            return [dict(op="write", tok=self.tok)]
        if x < 0.42:
            if self.chain and rng.random() < self.known_bad:
                s = rng.choice(self.chain)                            # duplicate of a chain member (known finding)
            elif self.offchain and rng.random() < 0.15:
                s = rng.choice(self.offchain)                         # duplicate of a stale off-chain snapshot
                self.offchain.remove(s)                               # refused, and the stale files are removed
                return [dict(op="snap", s=s, user=rng.random() < 0.4, cr=self.cr())]
            else:
                s = self.fresh_snap()
                self.chain.insert(0, s)
                self.head += 1
            return [dict(op="snap", s=s, user=rng.random() < 0.4, cr=self.cr())]
        if x < 0.54:
            pool = self.chain[1:] if self.mode == "RW" else []
            d = self.some_name(pool)
            if d[0] == "s" and d[1] in self.chain[1:] and self.mode == "RW":
                self.chain.remove(d[1])
            if d[0] == "s" and d[1] in self.offchain:
                self.offchain.remove(d[1])
            return [dict(op="rm", d=d)]
        if x < 0.62:
            pool = self.chain[1:-1] if self.mode == "RW" else []
            d = self.some_name(pool)
            if d[0] == "s" and rng.random() < 0.3:
                d = ("o", d[1])                                       # the short snapshot name form
            return [dict(op="prep", d=d)]
        if x < 0.70:
            if rng.random() < self.known_bad:
                d = ("h", self.head) if rng.random() < 0.5 or not self.offchain else ("s", rng.choice(self.offchain))
                return [dict(op="revert", d=d, cr=self.cr())]
            pool = list(self.chain)
            d = self.some_name(pool)
            if d[0] == "h" or (d[0] == "s" and d[1] in self.offchain):
                d = ("s", 95)                                         # keep away from the known-finding shapes here
            if d[0] == "s" and d[1] in self.chain:
                i = self.chain.index(d[1])
                self.offchain += self.chain[:i]
                self.chain = self.chain[i:]
                self.head += 1
            return [dict(op="revert", d=d, cr=self.cr())]
        if x < 0.75:
            if rng.random() > self.invalid:
                self.size += BLK * rng.randint(0, 2)
                return [dict(op="resize", size=self.size)]
            return [dict(op="resize", size=max(0, self.size - BLK * rng.randint(1, 2)))]
        if x < 0.80:
            d = ("s", rng.choice(self.chain)) if self.chain and rng.random() < 0.8 else (None if rng.random() < 0.5 else ("s", 97))
            return [dict(op="checkpoint", d=d)]
        if x < 0.84:
            b = (not self.rebuilding) if rng.random() > self.invalid else self.rebuilding
            if b != self.rebuilding:
                self.rebuilding = b
            return [dict(op="rebuilding", b=b)]
        if x < 0.88:
            m = rng.choice(["RW", "RW", "WO", "XX"])
            if m in ("RW", "WO"):
                self.mode = m
            return [dict(op="mode", mode=m)]
        if x < 0.90:
            return [dict(op="open")] if rng.random() < 0.5 else [dict(op="create")]
        self.open = False
        return [dict(op="close" if rng.random() < 0.6 else "crash")]

    def history(self, n):
        ops = self.prefix()
        while len(ops) < n:
            ops += self.step()
        if not self.open or self.rng.random() < 0.7:
            # always end with a reopen so that the last state is checked too
            if self.open:
                ops.append(dict(op="close" if self.rng.random() < 0.5 else "crash"))
            ops.append(dict(op="open"))
        return ops


def fixed_cases():
    """small structurally important histories, always run"""
    P = [dict(op="create"), dict(op="open"), dict(op="mode", mode="RW")]
    W = lambda t: dict(op="write", tok=t)
    S = lambda s, u=False: dict(op="snap", s=s, user=u, cr=s)
    RO = [dict(op="close"), dict(op="open")]
    CR = [dict(op="crash"), dict(op="open")]
    return [
        dict(ops=P + RO),
        dict(ops=P + [W(1), S(1, True), W(2), S(2), W(3), S(3)] + RO + [dict(op="mode", mode="RW"), dict(op="rm", d=("s", 2))] + CR),
        dict(ops=P + [W(1), S(1), S(2), S(3), dict(op="prep", d=("s", 2)), dict(op="prep", d=("o", 2)), dict(op="prep", d=("s", 1)),
                      dict(op="prep", d=("s", 3)), dict(op="prep", d=("s", 9)), dict(op="rm", d=("s", 1))] + RO),
        dict(ops=P + [W(1), S(1), W(2), S(2), dict(op="revert", d=("s", 1), cr=7), W(3), S(3), dict(op="snap", s=2, user=False, cr=8),
                      dict(op="rm", d=("s", 2))] + CR),
        dict(ops=P + [S(1), S(2), S(3), S(4), S(5)], maxchain=5),
        dict(ops=P + [S(1), dict(op="resize", size=2 * SIZE), dict(op="resize", size=SIZE), dict(op="checkpoint", d=("s", 1)),
                      dict(op="rebuilding", b=True), dict(op="rebuilding", b=True), dict(op="rebuilding", b=False)] + RO),
        dict(ops=P + [dict(op="mode", mode="WO"), S(1), dict(op="rm", d=("s", 1)), dict(op="prep", d=("s", 1)), W(1)] + RO),
    ]


def known_cases():
    """the argument shapes of the known findings (see known_findings.txt), one history each"""
    P = [dict(op="create"), dict(op="open"), dict(op="mode", mode="RW")]
    S = lambda s, u=False: dict(op="snap", s=s, user=u, cr=s)
    return [
        dict(ops=P + [dict(op="write", tok=1), S(1, True), S(2), S(1)] + [dict(op="close"), dict(op="open")]),
        dict(ops=P + [dict(op="write", tok=1), S(1), dict(op="revert", d=("h", 1), cr=5)] + [dict(op="close"), dict(op="open")]),
    ]


def shrink(ctx, binpath, case, still_bad, tag="shr"):
    cur = list(case["ops"])
    rounds = 0
    changed = True
    while changed and rounds < 8:
        changed = False
        rounds += 1
        cands = [cur[:i] + cur[i + 1:] for i in range(len(cur))]
        cands = [c for c in cands if c]
        if not cands:
            break
        try:
            bad, _, _ = run_cases(ctx, binpath, [dict(ops=c, maxchain=case.get("maxchain", 0)) for c in cands], tag="%s%d" % (tag, rounds))
        except (Unmodelled, RuntimeError):
            break
        badidx = {b["case"]: b for b in bad}
        for i, c in enumerate(cands):
            if i in badidx and still_bad(badidx[i]):
                cur = c
                changed = True
                break
    return dict(ops=cur, maxchain=case.get("maxchain", 0))
