"""C01: see checks/blocklib.py (model coq/theories/Block, harness harness/cmd/block)."""
import os, sys
sys.path.insert(0, os.path.dirname(os.path.abspath(__file__)))
import blocklib


def main(ctx, replay=None):
    if not replay:
        import ctlhalf
        ctlhalf.run(ctx, ctx.pid)          # controller half first; violations are collected in ctx
    blocklib.main_for(ctx, replay)
