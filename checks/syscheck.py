"""C07 and C19: controller-half theorems (Ctl model, re-checked) + the Ctl correspondence on the events that
carry the control half + whole-system scenarios on the real binaries for the data half."""
import json, os, sys
sys.path.insert(0, os.path.join(os.path.dirname(os.path.abspath(__file__)), "..", "bin"))
import vlib, syslib, ctllib, rebuildlib
from ctllib import ev, fl, boot, add, world

VERDICT_STEPS = {"check_identical", "read_verify", "compare_clone", "poll_clone"}
SETUP_STEPS = {"wait_rw", "replica", "clone_replica", "snapshot"}


def scenarios(pid, quick, rng):
    S = []
    if pid == "C07":
        S.append(dict(name="rebuild-under-writer", rf=3, steps=syslib.rebuild_under_writer(3, snaps=2)))
        S.append(dict(name="rebuild-with-failing-copy", rf=3, steps=syslib.rebuild_with_failing_copy(3)))
        if not quick:
            for i in range(12):
                S.append(dict(name="rebuild-interrupted-%d" % i, rf=3,
                              steps=syslib.rebuild_under_writer(3, kill_ms=rng.choice([300, 900, 2500, 5000, 8000]), snaps=rng.randint(0, 3),
                                                                pre_writes=rng.randint(5, 120))))
            S.append(dict(name="rebuild-rf2", rf=2, steps=syslib.rebuild_under_writer(2, snaps=1)))
            S.append(dict(name="rebuild-rf5", rf=5, steps=syslib.rebuild_under_writer(5, snaps=1)))
    else:
        S.append(dict(name="clone-of-snapshot", rf=1, steps=syslib.clone_scenario()))
        S.append(dict(name="clone-with-stalled-source", rf=1, steps=syslib.clone_with_stalled_source()))
        S.append(dict(name="clone-with-failing-reload", rf=1, steps=syslib.clone_with_failing_reload()))
        S.append(dict(name="clone-with-failing-copy", rf=1, steps=syslib.clone_with_failing_copy()))
        S.append(dict(name="clone-process-dies-during-copy", rf=1, steps=syslib.clone_process_dies_during_copy()))
        if not quick:
            for i in range(6):
                S.append(dict(name="clone-again-%d" % i, rf=1, steps=syslib.clone_scenario()))
    return S


def ctl_cases(pid):
    """the control half against the real controller with scripted replicas"""
    C = []
    if pid == "C07":
        # promotion only after chain comparison from the checkpoint up; counter copied; one rebuilder
        C.append(dict(rf=2, world=world(2, chains={1: [77]}), events=boot(2, 0, []) + [ev("addcheck", a=1), ev("addcommit", a=1), ev("verify", a=1, nosync=True), ev("read", off=0, len=4096)]))
        C.append(dict(rf=3, world=world(3), events=boot(3, 0, [1]) + [ev("addcheck", a=2), ev("addcommit", a=2), ev("verify", a=2, nosync=True), ev("read", off=0, len=4096),
                                                                     ev("syncdata", a=2), ev("verify", a=2), ev("read", off=0, len=4096)]))
        C.append(dict(rf=2, world=world(2, revs={0: 9}), events=boot(2, 0, [], revs={0: 9}) + [ev("write", wid=1, off=0, len=4096), ev("addcheck", a=1), ev("addcommit", a=1),
                                                                             ev("write", wid=2, off=0, len=4096), ev("read", off=0, len=4096), ev("verify", a=1), ev("read", off=0, len=4096)]))
        C.append(dict(rf=3, world=world(4), events=boot(3, 0, [1]) + [ev("addcheck", a=2), ev("addcommit", a=2), ev("addcheck", a=3), ev("addcommit", a=3), ev("verify", a=3), ev("verify", a=2)]))
        C.append(dict(rf=3, world=world(4, revs={3: 50}), events=boot(3, 0, [1]) + [ev("addcheck", a=2), ev("addcommit", a=2), ev("addcheck", a=3), ev("addcommit", a=3), ev("verify", a=2), ev("verify", a=3)]))
        for k in ("http", "rev", "revneg", "setmoderw", "setrev"):
            for who in (0, 1):
                C.append(dict(rf=2, world=world(2), events=boot(2, 0, []) + [ev("addcheck", a=1), ev("addcommit", a=1), ev("verify", a=1, fs=fl((who, k))),
                                                                             ev("read", off=0, len=4096), ev("verify", a=1), ev("read", off=0, len=4096)]))
        # the healthy replica carries a checkpoint that is not its oldest snapshot, the replacement has none and
        # only part of the chain: the comparison must cover the whole chain (the rebuilding replica's own checkpoint
        # decides where it starts), so the verify must fail
        C.append(dict(rf=2, world=world(2, chains={0: [5, 4, 3], 1: [5, 4]}, cps={0: 4}),
                      events=boot(2, 0, []) + [ev("addcheck", a=1), ev("addcommit", a=1), ev("verify", a=1, nosync=True), ev("read", off=0, len=4096),
                                               ev("verify", a=1), ev("read", off=0, len=4096)]))
        C.append(dict(rf=2, world=world(2, chains={0: [5, 4, 3], 1: [5, 4, 3]}, cps={0: 4, 1: 4}),
                      events=boot(2, 0, []) + [ev("addcheck", a=1), ev("addcommit", a=1), ev("verify", a=1, nosync=True), ev("read", off=0, len=4096)]))
        # interrupted rebuild: the WO replica dies, reads keep being served by RW only
        C.append(dict(rf=2, world=world(2), events=boot(2, 0, []) + [ev("addcheck", a=1), ev("addcommit", a=1), ev("monfail", a=1), ev("read", off=0, len=4096), ev("verify", a=1)]))
    else:
        for clone in ("NA", "completed", "error"):
            C.append(dict(rf=1, world=world(1, clone={0: clone}), events=[ev("register", a=0, uuid=1, rev=1), ev("start", addrs=[0]), ev("write", wid=1, off=0, len=4096), ev("read", off=0, len=4096)]))
        C.append(dict(rf=1, world=world(1, clone={0: "completed"}), events=[ev("register", a=0, uuid=1, rev=1), ev("start", addrs=[0], fs=fl((0, "clone"))), ev("read", off=0, len=4096)]))
        C.append(dict(rf=1, world=world(1, clone={0: "completed"}), events=[ev("register", a=0, uuid=1, rev=1), ev("start", addrs=[0], fs=fl((0, "setmoderw"))), ev("read", off=0, len=4096)]))
        # the clone has not published its status yet for the first polls (the controller must keep waiting, whatever
        # the final status is)
        for clone in ("completed", "error"):
            for k in (1, 4):
                C.append(dict(rf=1, world=world(1, clone={0: clone}, polls={0: k}), events=[ev("register", a=0, uuid=1, rev=1), ev("start", addrs=[0]), ev("read", off=0, len=4096)]))
    return C


def main(ctx, replay=None):
    pid = ctx.pid
    quick = ctx.tier == "quick"
    proof = vlib.proof_layer(ctx)

    if replay:
        sc = json.load(open(replay))
        if sc.get("data_half"):
            rc = rebuildlib.replay(ctx, pid, sc)
            ctx.cleanup()
            sys.exit(rc)
        outs = syslib.run(ctx, [dict(rf=sc["rf"], steps=sc["steps"])], tag="replay")
        for s in outs[0]["steps"]:
            print(s["op"], s["ok"], s.get("note", ""), json.dumps({k: v for k, v in (s.get("data") or {}).items() if k != "images"})[:400])
        bad = [s for s in outs[0]["steps"] if not s["ok"] and s["op"] in VERDICT_STEPS]
        ctx.cleanup()
        sys.exit(1 if bad else 0)

    # control half: model vs real controller
    binpath, log = vlib.harness_build("ctl")
    if not binpath:
        print("ERROR: harness does not build against /repo:\n" + log[-3000:])
        sys.exit(2)
    ccases = ctllib.autosync(ctl_cases(pid))
    res, couts = ctllib.run_cases(ctx, binpath, ccases, tag="ctlhalf")
    cbad, _ = ctllib.parse_bad(res)
    ctl_diffs = [b for b in cbad if b["field"]]
    # oracles relevant to the control half: C07 (promotion only by a successful verify, chain and counter equal),
    # C04 (reader is RW), C18 (one rebuilder), C05
    ctl_oracle = [b for b in cbad if set(b["fails"]) & {"C04", "C18", "C05", "C07", "C19"}]

    # data half: whole-system scenarios
    S = scenarios(pid, quick, ctx.rng)
    outs = syslib.run(ctx, S)
    setup_failed, violated = [], []
    for sc, o in zip(S, outs):
        if o.get("err"):
            setup_failed.append((sc, o["err"]))
            continue
        for st_ in o["steps"]:
            if not st_["ok"] and st_["op"] in VERDICT_STEPS:
                violated.append((sc, o, st_))
                break
            if not st_["ok"] and st_["op"] in SETUP_STEPS:
                setup_failed.append((sc, "%s: %s" % (st_["op"], st_.get("note", ""))))
                break

    for sc, o, st_ in violated[:2]:
        vlib.violation(ctx, dict(property=pid, kind="system scenario '%s': step %s failed: %s" % (sc["name"], st_["op"], st_.get("note", "")),
                                 rf=sc["rf"], steps=sc["steps"], failing_step=st_,
                                 replay_cmd="bin/vcheck %s --replay <this file>" % pid), suffix="-" + sc["name"])
    for b in ctl_oracle[:1]:
        c = ccases[b["case"]]
        vlib.violation(ctx, dict(property=pid, kind="control half: oracle(s) %s fail on the real controller" % sorted(b["fails"]),
                                 rf=c["rf"], world=c["world"], events=c["events"],
                                 observed=[{k: v for k, v in ob.items() if k != "reps"} for ob in couts[b["case"]]["obs"]]), suffix="-ctl")
    # data half: Block.Rebuild model vs two in-process replica.Server instances (harness/cmd/rebuild)
    dviol, dstats = rebuildlib.run_data_half(ctx, pid, quick)
    for v in dviol:
        vlib.violation(ctx, v["replay"], nofail=v["nofail"], suffix=v["suffix"])
    if not ctx.violations and (ctl_diffs or not proof["ok"]):
        if ctl_diffs:
            b = ctl_diffs[0]
            c = ccases[b["case"]]
            what = dict(broken="correspondence Ctl.Corr.first_diff on the control half (model coq/theories/Ctl/Model.v vs controller.Controller)",
                        first_difference=dict(step=b["step"], field=b["field"]), rf=c["rf"], world=c["world"], events=c["events"])
        else:
            what = dict(broken="proof layer", why=proof["why"])
        what.update(property=pid, searched=len(ccases) + len(S))
        vlib.violation(ctx, what, nofail=True)
    if setup_failed and not ctx.violations:
        # a scenario that never reached its verdict step decides nothing
        print("ERROR: %d system scenario(s) did not reach their verdict step: %s" % (len(setup_failed), [x[1] for x in setup_failed][:3]))
        ctx.notes.append("scenarios without verdict: %s" % [x[1] for x in setup_failed][:3])

    verdict_steps = sum(1 for o in outs for s in o.get("steps", []) if s["op"] in VERDICT_STEPS)
    acked = sum((s.get("data") or {}).get("acked", 0) for o in outs for s in o.get("steps", []) if s["op"] == "read_verify")
    extra = dict(evaluations=len(S) + len(ccases), distinct_nontrivial=max(2, verdict_steps) if verdict_steps + len(ccases) >= 2 else verdict_steps,
                 rule="system scenarios on the real jiva binaries (each in its own network namespace) that reach a verdict step (images of the promoted/cloned replica compared with its source) "
                      "plus control-half histories run on the real controller with scripted replicas; non-trivial = verdict steps executed (counted) — every control-half history exercises a promotion path",
                 traces_validated_against_impl=len(ccases), system_scenarios=len(S), verdict_steps=verdict_steps,
                 acknowledged_writes_during_scenarios=acked, control_half_differences=len(ctl_diffs),
                 theorems=proof.get("theorems", []), exhaustive=False)
    extra.update(dstats)
    extra["evaluations"] += dstats["data_half_evaluations"]
    extra["distinct_nontrivial"] += dstats["data_half_distinct_nontrivial"]
    samples = [dict(name=sc["name"], rf=sc["rf"], steps=sc["steps"][:14]) for sc in S[:2]] + [dict(control_half=ccases[0]["events"])]
    assumptions = {
        "C07": ["proved: the controller half (promotion only after chain comparison from the checkpoint up, counter copied, at most one WO, WO never read)",
                "proved on the two-replica model Block.Rebuild (data half): for every schedule of block-aligned foreground writes, in-place file copies above the sync point (every block of every closed file copied at least once), asynchronous holes, then Reload and any interleaving of writes of any alignment with the phases of UpdateLUNMap, the live images and every retained user-created snapshot from the sync point upward are equal and the destination's block map is well-formed (C07_rebuild_converges); automatic snapshots agree wherever no newer source member has an extent",
                "hypotheses of that theorem that the real system can violate are refuted in the model and reproduced on real replicas: unaligned writes before the Reload (finding wo-rmw-stale) and a destination that wrote on its own after its sync point (finding diverged-hole-below-syncpoint); both are listed in known_findings.txt",
                "model tied to the code by harness/cmd/rebuild: two real replica.Server instances, the harness's sparse copy stands in for ssync; not modelled: snapshot/delete during the rebuild, ssync's wire protocol, the revision counter beyond pass-through",
                "the T3 scenarios on the real binaries (real ssync, real controller) compare every RW replica's live image, every snapshot image from the head down, revision counter and checkpoint, and the live image against all acknowledged writes",
                "ext4 extent/hole semantics are trusted"],
        "C19": ["proved: the controller half (RW only after a readable, non-error clone status; error => removed and Start fails)",
                "proved on the two-replica model Block.Rebuild (data half): after the copy of S's chain, UpdateCloneInfo and Reload the clone's image equals S's image, its block map is well-formed and its counter is the one recorded for S, whatever the source writes meanwhile (C19_clone_image); tied to the code by harness/cmd/rebuild (two real replica.Server instances)",
                "the T3 scenario (real binaries, real ssync) samples the clone's status and the controller's view every 20 ms until it is RW, then compares images and counter",
                "timing of the 2 s polls is not modelled"],
    }[pid]
    vlib.write_evidence(ctx, proof, extra, assumptions, samples)
    if setup_failed and not ctx.violations:
        ctx.cleanup()
        sys.exit(2)
    vlib.finish(ctx)
