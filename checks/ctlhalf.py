"""Controller halves of C01 (range check) and C16 (resize rule) on the real controller with scripted replicas:
model vs implementation on the Ctl model plus the oracles c01_step / c16_step of Ctl/Oracles.v."""
import json, os, sys
sys.path.insert(0, os.path.join(os.path.dirname(os.path.abspath(__file__)), "..", "bin"))
import vlib, ctllib
from ctllib import ev, fl, boot, add, world, SIZE


def cases_for(pid):
    C = []
    if pid == "C01":
        for rf in (1, 2, 3):
            full = boot(rf, 0, list(range(1, rf)))
            io = []
            for off in (-4096, -1, 0, SIZE - 4096, SIZE - 4095, SIZE - 1, SIZE, SIZE + 4096):
                for ln in (1, 4096, 8192):
                    io.append(ev("write", wid=len(io) + 1, off=off, len=max(ln, 8)))
                    io.append(ev("read", off=off, len=ln))
            C.append(dict(rf=rf, world=world(rf), events=full + io))
            # after a grow the new range is accepted, the old bound is gone
            C.append(dict(rf=rf, world=world(rf), events=full + [ev("write", wid=1, off=SIZE, len=4096), ev("resize", size=2 * SIZE),
                                                                 ev("write", wid=2, off=SIZE, len=4096), ev("read", off=2 * SIZE - 4096, len=4096),
                                                                 ev("write", wid=3, off=2 * SIZE, len=4096), ev("read", off=2 * SIZE - 4095, len=4096)]))
    else:
        for rf in (1, 2, 3):
            full = boot(rf, 0, list(range(1, rf)))
            C.append(dict(rf=rf, world=world(rf), events=full + [ev("resize", size=SIZE), ev("resize", size=SIZE - 4096), ev("resize", size=0),
                                                                 ev("resize", size=2 * SIZE), ev("write", wid=1, off=SIZE, len=4096),
                                                                 ev("resize", size=2 * SIZE), ev("resize", size=SIZE), ev("resize", size=4 * SIZE)]))
            for a in range(rf):
                C.append(dict(rf=rf, world=world(rf), events=full + [ev("resize", size=2 * SIZE, fs=fl((a, "resize"))), ev("write", wid=1, off=SIZE, len=4096),
                                                                     ev("monfire", a=a), ev("write", wid=2, off=SIZE, len=4096)]))
            C.append(dict(rf=rf, world=world(rf), events=full + [ev("resize", size=2 * SIZE, fs=fl((0, "feresize"))), ev("write", wid=1, off=SIZE, len=4096)]))
        # a grow while a replica is rebuilding reaches it too; it is promoted afterwards and serves the new range
        for rf in (2, 3):
            es = boot(rf, 0, list(range(1, rf - 1))) + add(rf - 1, verify=False) + [
                ev("resize", size=2 * SIZE), ev("write", wid=1, off=SIZE, len=4096), ev("syncdata", a=rf - 1), ev("verify", a=rf - 1, nosync=True),
                ev("write", wid=2, off=SIZE + 4096, len=4096), ev("read", off=SIZE, len=4096), ev("read", off=SIZE, len=4096)]
            C.append(dict(rf=rf, world=world(rf), events=es))
    return ctllib.autosync(C)


def run(ctx, pid):
    """reports violations through vlib; returns a dict of numbers for the evidence file"""
    binpath, log = vlib.harness_build("ctl")
    if not binpath:
        print("ERROR: harness does not build against /repo:\n" + log[-3000:])
        sys.exit(2)
    cases = cases_for(pid)
    res, outs = ctllib.run_cases(ctx, binpath, cases, tag="ctlhalf")
    bad, _ = ctllib.parse_bad(res)
    concrete = [b for b in bad if pid in b["fails"]]
    drift = [b for b in bad if b["field"] and pid not in b["fails"]]
    for b in concrete[:1]:
        c = cases[b["case"]]
        k = b["fails"][pid]
        vlib.violation(ctx, dict(property=pid, kind="controller half: oracle %s fails on the real controller at step %d" % (pid, k),
                                 rf=c["rf"], world=c["world"], events=c["events"][:k + 1],
                                 observed=[{x: y for x, y in ob.items() if x != "reps"} for ob in outs[b["case"]]["obs"][:k + 1]],
                                 replicas_at_that_step=outs[b["case"]]["obs"][k]["reps"]), suffix="-ctl")
    if drift and not concrete:
        b = drift[0]
        c = cases[b["case"]]
        vlib.violation(ctx, dict(property=pid, broken="correspondence Ctl.Corr.first_diff on the controller half (model coq/theories/Ctl/Model.v vs controller.Controller)",
                                 first_difference=dict(step=b["step"], field=b["field"]), rf=c["rf"], world=c["world"], events=c["events"]),
                       nofail=True, suffix="-ctl")
    stats = dict(controller_half_cases=len(cases), controller_half_events=sum(len(c["events"]) for c in cases),
                 controller_half_differences=len([b for b in bad if b["field"]]), controller_half_oracle_failures=len(concrete))
    ctx.notes.append("controller half (Ctl model, real controller with scripted replicas): %s" % json.dumps(stats))
    return stats
