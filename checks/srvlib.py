"""Generators, Coq-term printers and the run loop shared by C10 and C17 (model: coq/theories/Srv)."""
import json, os, sys
sys.path.insert(0, os.path.join(os.path.dirname(os.path.abspath(__file__)), "..", "bin"))
import vlib

ACTIONS = ["start", "create", "open", "close", "resize", "snapshot", "reload", "removedisk", "replacedisk",
           "revert", "prepareremovedisk", "setreplicamode", "setrevisioncounter", "setrebuilding",
           "setlogging", "updatecloneinfo", "setcheckpoint"]
MODELLED = {"create", "open", "close", "snapshot", "reload", "removedisk", "revert", "prepareremovedisk",
            "setreplicamode", "setrevisioncounter", "setrebuilding", "setcheckpoint"}
ALLOWED = {
    "initial": {"start", "create", "resize", "updatecloneinfo"},
    "open": {"start", "resize", "close", "setrebuilding", "setlogging", "snapshot", "reload", "removedisk",
             "replacedisk", "revert", "prepareremovedisk", "setreplicamode", "setrevisioncounter",
             "updatecloneinfo", "setcheckpoint"},
    "closed": {"start", "open", "resize", "removedisk", "replacedisk", "revert", "updatecloneinfo",
               "prepareremovedisk"},
    "dirty": {"start", "resize", "setrebuilding", "setlogging", "close", "snapshot", "reload", "removedisk",
              "replacedisk", "revert", "setreplicamode", "prepareremovedisk", "updatecloneinfo", "setcheckpoint"},
    "rebuilding": {"setrebuilding", "setlogging", "close", "reload", "setreplicamode", "setrevisioncounter",
                   "updatecloneinfo", "setcheckpoint"},
}
# NB: ALLOWED is only used by the *generator* to stay away from allowed-but-unmodelled actions
# (start blocks on a channel, resize/replacedisk/setlogging/updatecloneinfo are not in this model);
# the verdict comes from the Coq model's own table.

PREFIX = {
    "initial": [],
    "closed": [("eng", "create")],
    "open": [("eng", "create"), ("eng", "open")],
    "dirty": [("eng", "create"), ("eng", "open"), ("eng", "setmode", "RW"), ("eng", "write")],
    "rebuilding": [("eng", "create"), ("eng", "open"), ("eng", "setrebuilding", True)],
}


def E(op, **kw):
    d = dict(k="eng", op=op)
    d.update(kw)
    return d


def R(op, **kw):
    d = dict(k="rest", op=op)
    d.update(kw)
    return d


class Gen:
    """Tracks a light abstract state only to keep histories mostly valid and ids fresh."""

    def __init__(self, rng):
        self.rng = rng
        self.wid = 0

    def write(self):
        self.wid += 1
        return E("write", id=self.wid)

    def prefix(self, st):
        ops = []
        for p in PREFIX[st]:
            if p[1] == "write":
                ops.append(self.write())
            elif p[1] == "setmode":
                ops.append(E("setmode", mode=p[2]))
            elif p[1] == "setrebuilding":
                ops.append(E("setrebuilding", b=p[2]))
            else:
                ops.append(E(p[1]))
        return ops

    def rest_op(self, a):
        rng = self.rng
        if a == "setreplicamode":
            return R(a, mode=rng.choice(["RW", "WO", "RW", "XX"]))
        if a == "setrevisioncounter":
            return R(a, v=rng.randint(1, 50))
        if a == "setrebuilding":
            return R(a, b=rng.random() < 0.5)
        return R(a)

    def random_eng(self):
        rng = self.rng
        x = rng.random()
        if x < 0.27:
            return self.write()
        if x < 0.30:
            w = self.write()
            return E("writefail", id=w["id"])
        if x < 0.38:
            return E("setmode", mode=rng.choice(["RW", "RW", "WO", "XX"]))
        if x < 0.46:
            return E("snapshot")
        if x < 0.52:
            return E("remove")
        if x < 0.56:
            return E("prepremove")
        if x < 0.62:
            return E("close")
        if x < 0.645:
            return E("open")
        if x < 0.653:
            return E("openbadcounter")
        if x < 0.66:
            return E("setrevfail", v=rng.randint(1, 60))
        if x < 0.68:
            return E("getrevfail")
        if x < 0.70:
            return E("openfail")
        if x < 0.75:
            return E("crash")
        if x < 0.79:
            return E("setrev", v=rng.randint(1, 60))
        if x < 0.83:
            return E("reload")
        if x < 0.87:
            return E("revert")
        if x < 0.90:
            return E("setrebuilding", b=rng.random() < 0.5)
        if x < 0.93:
            return E("setcheckpoint")
        if x < 0.96:
            return E("read")
        if x < 0.98:
            return E("create")
        return dict(k="attach")

    def history(self, n):
        rng = self.rng
        ops = [E("create"), E("open")]
        if rng.random() < 0.85:
            ops.append(E("setmode", mode=rng.choice(["RW", "RW", "RW", "WO"])))
        for _ in range(n):
            if rng.random() < 0.12:
                a = rng.choice(ACTIONS)
                # stay away from allowed-but-unmodelled actions: only issue unmodelled ones where no
                # state allows them ... they are allowed somewhere, so issue unmodelled actions only
                # in the matrix (where the state is known)
                if a in MODELLED:
                    ops.append(self.rest_op(a))
                    continue
            ops.append(self.random_eng())
        return ops


def matrix_cases(rng, variants=1):
    """every (state, action): disallowed actions must be refused with 404 and no effect; allowed and
    modelled ones run the engine operation."""
    cases = []
    for st in ["initial", "closed", "open", "dirty", "rebuilding"]:
        for a in ACTIONS:
            if a in ALLOWED[st] and a not in MODELLED:
                continue
            for v in range(variants):
                g = Gen(rng)
                ops = g.prefix(st)
                if v > 0 and st in ("open", "dirty", "rebuilding"):
                    # richer pre-state: a few snapshots and writes (keeps the REST state)
                    extra = []
                    if st != "open":
                        for _ in range(rng.randint(1, 3)):
                            extra.append(E("snapshot") if st == "dirty" else E("setcheckpoint"))
                    ops = ops + extra
                ops.append(g.rest_op(a))
                ops.append(E("open"))        # observe the data again if it was closed
                cases.append(ops)
    return cases


def closefail_cases():
    """Close whose last metadata write fails, followed by every gated operation, then a working close"""
    pre = [E("create"), E("open"), E("setmode", mode="RW"), E("write", id=1), E("snapshot"), E("write", id=2), E("snapshot"),
           E("write", id=3), E("snapshot"), E("write", id=4)]
    tails = [
        [E("setrev", v=4242)], [E("prepremove")], [E("write", id=9)],
        [E("setrev", v=7), E("prepremove"), E("write", id=9)],
    ]
    out = []
    for t in tails:
        out.append(pre + [E("closefail")] + t + [E("close"), E("open"), E("setmode", mode="RW"), E("write", id=10)])
    out.append([E("create"), E("closefail"), E("open"), E("closefail"), E("close")])
    return out


def openfail_cases():
    """Open whose final metadata write fails (in every state), followed by I/O, gated operations, an attach and a
    working open: a failed open leaves the replica closed and nothing is served"""
    out = []
    pres = [[E("create")],
            [E("create"), E("open"), E("setmode", mode="RW"), E("write", id=1), E("close")],
            [E("create"), E("open"), E("setmode", mode="RW"), E("write", id=1), E("snapshot"), E("write", id=2), E("crash")],
            [E("create"), E("open")], []]
    tails = [[E("write", id=7), E("read")], [E("setmode", mode="RW"), E("write", id=7)], [E("setrev", v=9), E("prepremove")],
             [dict(k="attach")], [E("openfail"), E("open"), E("setmode", mode="RW"), E("write", id=7)]]
    for p in pres:
        for t in tails:
            out.append(p + [E("openfail")] + t + [E("open"), E("setmode", mode="RW"), E("write", id=8), E("close")])
    return out


def getrevfail_cases():
    """a failing read of the counter block (GetRevisionCounter answers -1) followed by writes, promotion, reopen:
    the cached and the persisted counter keep counting from the old value"""
    out = []
    base = [E("create"), E("open"), E("setmode", mode="RW")] + [E("write", id=i) for i in range(1, 5)]
    for tail in ([E("write", id=9)], [E("write", id=9), E("close"), E("open"), E("setmode", mode="RW"), E("write", id=10)],
                 [E("snapshot"), E("write", id=9)], [E("setrev", v=3), E("write", id=9)], [E("getrevfail"), E("crash"), E("open")],
                 [E("setmode", mode="WO"), E("write", id=9), E("setmode", mode="RW"), E("write", id=10)]):
        out.append(base + [E("getrevfail")] + tail)
    out.append([E("create"), E("getrevfail"), E("open"), E("getrevfail"), E("setmode", mode="RW"), E("write", id=1)])
    return out


def counterfault_cases():
    """the counter block unparsable at open (refused, nothing reinitialised) and unwritable at a set (refused, the
    next write counts from the old value)"""
    out = []
    base = [E("create"), E("open"), E("setmode", mode="RW")] + [E("write", id=i) for i in range(1, 6)]
    for tail in ([E("open"), E("setmode", mode="RW"), E("write", id=9)], [E("openbadcounter"), E("open"), E("setmode", mode="RW"), E("write", id=9)],
                 [dict(k="attach")], [E("read")]):
        out.append(base + [E("close"), E("openbadcounter")] + tail)
        out.append(base + [E("crash"), E("openbadcounter")] + tail)
    for v in (3, 40):
        for tail in ([E("write", id=9)], [E("write", id=9), E("close"), E("open"), E("setmode", mode="RW"), E("write", id=10)],
                     [E("setrev", v=v + 1), E("write", id=9)], [E("crash"), E("open"), E("setmode", mode="RW"), E("write", id=9)]):
            out.append(base + [E("setrevfail", v=v)] + tail)
    out.append([E("create"), E("open"), E("setrevfail", v=5), E("setmode", mode="WO"), E("setrevfail", v=5), E("write", id=1)])
    return out


def writefail_cases():
    """a write whose data write fails in the file system (every mode, clean and dirty, before and after good
    writes, followed by reopen / crash): refused, nothing applied, counter (memory and disk) unchanged"""
    out = []
    for mode in ("RW", "WO", None):
        pre = [E("create"), E("open")] + ([E("setmode", mode=mode)] if mode else [])
        for mid in ([], [E("write", id=1), E("write", id=2)], [E("write", id=1), E("snapshot"), E("write", id=3)]):
            for tail in ([E("write", id=5)], [E("close"), E("open"), E("setmode", mode="RW"), E("write", id=5)],
                         [E("crash"), E("open"), E("setmode", mode="RW"), E("write", id=5)], [E("writefail", id=6), E("reload"), E("write", id=7)]):
                out.append(pre + mid + [E("writefail", id=4)] + tail)
    return out


def counter_cases():
    """C10: promotions set the counter to the source's value, which may be lower or higher than the own one;
    writes before and after, with and without reopen in between"""
    out = []
    base = [E("create"), E("open"), E("setmode", mode="RW")] + [E("write", id=i) for i in range(1, 6)]
    for v in (2, 6, 40):
        for mid in ([], [E("close"), E("open"), E("setmode", mode="RW")], [E("crash"), E("open"), E("setmode", mode="RW")], [E("reload")]):
            out.append(base + [E("setrev", v=v), E("write", id=10)] + mid + [E("write", id=11), E("setrev", v=v + 3), E("write", id=12),
                                                                            E("setmode", mode="WO"), E("write", id=13), E("setrev", v=1),
                                                                            E("setmode", mode="RW"), E("setrev", v=1), E("write", id=14)])
    return out


def attach_cases():
    base = [E("create")]
    return [
        base + [dict(k="attach"), dict(k="attach")],
        base + [dict(k="attach"), E("close"), dict(k="attach")],
        [dict(k="attach")],
        base + [E("open"), dict(k="attach"), E("close"), dict(k="attach"), dict(k="attach")],
        base + [dict(k="attach"), E("crash"), dict(k="attach")],
    ]


# ---- Coq printing

MODE = {"RW": "RW", "WO": "WO", "INIT": "INIT", "CLOSED": "CLOSED"}
STATE = {"initial": "SInitial", "open": "SOpen", "closed": "SClosed", "dirty": "SDirty",
         "rebuilding": "SRebuilding", "error": "SError"}
ACT = {a: "A" + a[0].upper() + a[1:] for a in ACTIONS}
ENG = {"openbadcounter": "OOpenBadCounter", "getrevfail": "OGetRevFail", "openfail": "OOpenFail", "closefail": "OCloseFail", "create": "OCreate", "open": "OOpen", "close": "OClose", "crash": "OCrash", "read": "ORead",
       "snapshot": "OSnapshot", "remove": "ORemove", "prepremove": "OPrepRemove", "reload": "OReload",
       "revert": "ORevert", "setcheckpoint": "OSetCheckpoint"}


def z(v):
    return "(%d)%%Z" % v


def op_term(o):
    if o["k"] == "attach":
        return "Attach"
    if o["k"] == "eng":
        op = o["op"]
        if op == "write":
            return "Eng (OWrite %d%%N)" % o["id"]
        if op == "writefail":
            return "Eng (OWriteFail %d%%N)" % o["id"]
        if op == "setmode":
            return "Eng (OSetMode %s)" % MODE.get(o["mode"], "INIT")
        if op == "setrev":
            return "Eng (OSetRev %s)" % z(o["v"])
        if op == "setrevfail":
            return "Eng (OSetRevFail %s)" % z(o["v"])
        if op == "setrebuilding":
            return "Eng (OSetRebuilding %s)" % ("true" if o.get("b") else "false")
        return "Eng %s" % ENG[op]
    if o["k"] == "rest":
        return "Rest %s %s %s %s" % (ACT[o["op"]], MODE.get(o.get("mode", "INIT"), "INIT"), z(o.get("v", 0)),
                                     "true" if o.get("b") else "false")
    raise ValueError(o)


def obs_term(ob):
    res = {"ok": "ROk", "err": "RErr", "404": "R404"}[ob["res"]]
    mode = "None" if not ob.get("mode") else "(Some %s)" % MODE.get(ob["mode"], "CLOSED")
    if ob.get("img") is None:
        img = "None"
    else:
        img = "(Some [%s])" % "; ".join("%d%%N" % (v if v >= 0 else 999999) for v in ob["img"])
    return "mkobs %s %s %s %s %s" % (res, STATE.get(ob["state"], "SError"), mode, z(ob["count"]), img)


def case_term(ops, obs):
    return "mkcase [%s] [%s]" % ("; ".join(op_term(o) for o in ops), "; ".join(obs_term(o) for o in obs))


def run_cases(ctx, binpath, oplists, tag="srv"):
    """Run op lists on the implementation and through the model.
    Returns (bad, coverage, outs): bad = list of dict(case, step, field, c10, c17)."""
    cases = [dict(id=i, ops=ops) for i, ops in enumerate(oplists)]
    outs = vlib.run_harness(ctx, binpath, cases, netns=True, tag=tag, workers=8, extra_args=[9502])
    terms = []
    for c in cases:
        o = outs[c["id"]]
        if o.get("err"):
            raise RuntimeError("harness error on case %d: %s" % (c["id"], o["err"]))
        terms.append(case_term(c["ops"], o["obs"]))
    res = vlib.coq_eval_sharded(ctx, tag, ["Srv.Model", "Srv.Corr"], terms,
                                lambda l: ["bad_cases 0 %s" % l, "coverage %s" % l])
    bad = []
    cov = [0] * len(cases)
    for off, vals in res:
        for item in vlib.parse_coq_list(vals[0]):
            f = vlib.flat(item)
            bad.append(dict(case=off + f[0], step=f[1], field=f[2], c10=f[3], c17=f[4]))
        for i, v in enumerate(vlib.parse_coq_list(vals[1])):
            cov[off + i] = v
    return bad, cov, outs


def shrink(ctx, binpath, ops, still_bad, tag="shr"):
    """greedy delta-debugging on one op list; still_bad(bad_entry_or_None) -> bool"""
    cur = list(ops)
    rounds = 0
    changed = True
    while changed and rounds < 6:
        changed = False
        rounds += 1
        cands = [cur[:i] + cur[i + 1:] for i in range(len(cur))]
        cands = [c for c in cands if c]
        if not cands:
            break
        bad, _, _ = run_cases(ctx, binpath, cands, tag="%s%d" % (tag, rounds))
        badidx = {b["case"]: b for b in bad}
        for i, c in enumerate(cands):
            if i in badidx and still_bad(badidx[i]):
                cur = c
                changed = True
                break
    return cur


FIELD = {0: "oracle only", 1: "result", 2: "state", 3: "mode", 4: "revision counter", 5: "data image", 9: "length"}
