"""Generators, Coq-term printers, the correspondence functions and the run loop of C15 (model: coq/theories/Rpc)."""
import json, os, struct, sys, concurrent.futures as cf
sys.path.insert(0, os.path.join(os.path.dirname(os.path.abspath(__file__)), "..", "bin"))
import vlib

MAGIC = 0x1b03
T_READ, T_WRITE, T_RESPONSE, T_ERROR, T_EOF, T_CLOSE, T_PING, T_UPDATE, T_SYNC, T_UNMAP = range(10)
KIND_TYPE = {"read": T_READ, "write": T_WRITE, "sync": T_SYNC, "ping": T_PING, "unmap": T_UNMAP}
KIND_COQ = {"read": "KRead", "write": "KWrite", "sync": "KSync", "ping": "KPing", "unmap": "KUnmap"}
RPC_FILES = ["Rpc/Model.v", "Rpc/CodecProofs.v", "Rpc/LoopProofs.v", "Rpc/Corr.v", "Rpc/Proofs.v"]
IMPORTS = ["Rpc.Model", "Rpc.Corr"]
STALL_MS = 1000          # rw timeout of the process that runs the stall cases
FAULT_MS = 4000          # rw timeout of the process that runs everything else (> the loop's fixed 2 s)
LOOP_SLEEP_MS = 2000     # time.Sleep(2 * time.Second) in handleResponse
SLACK_MS = 2500
KNOWN_RACED = "raced-request-waits-for-own-deadline"
RACED_MS = 500         # a call issued after the failure must be refused at once


def ensure_compiled():
    """The Rpc files are compiled here when they are not (yet) part of _CoqProject / stale.
    Returns (ok, log)."""
    th = os.path.join(vlib.COQ, "theories")
    newest = 0
    for f in RPC_FILES:
        v = os.path.join(th, f)
        vo = v + "o"
        newest = max(newest, os.path.getmtime(v))
        if os.path.exists(vo) and os.path.getmtime(vo) >= newest:
            continue
        rc, out = vlib.sh(["coqc", "-Q", "theories", "Jiva", "-w", "-notation-overridden,-deprecated-hint-without-locality",
                           os.path.join("theories", f)], cwd=vlib.COQ, timeout=1500)
        if rc != 0:
            return False, "coqc %s failed:\n%s" % (f, out[-2500:])
        newest = max(newest, os.path.getmtime(vo))
    return True, ""


# --------------------------------------------------------------------------- own frame encoder (for streams)

def enc_frame(magic, seq, ty, off, size, data, length=None):
    if length is None:
        length = len(data)
    return struct.pack("<HIIqqI", magic & 0xffff, seq & 0xffffffff, ty & 0xffffffff, off, size, length & 0xffffffff) + bytes(data)


def parse_frame(raw):
    if len(raw) < 30:
        return None
    magic, seq, ty, off, size, length = struct.unpack("<HIIqqI", raw[:30])
    return dict(magic=magic, seq=seq, type=ty, off=off, size=size, length=length, data=raw[30:])


# --------------------------------------------------------------------------- generators

EXT_U32 = [0, 1, 2, 255, 256, 65535, 65536, 2 ** 31 - 1, 2 ** 31, 2 ** 32 - 2, 2 ** 32 - 1]
EXT_I64 = [0, 1, -1, 4096, -4096, 2 ** 31, -2 ** 31, 2 ** 32, 2 ** 63 - 1, -2 ** 63, -2 ** 63 + 1, 2 ** 62]
# bufio.NewWriterSize(conn, 8096): payload sizes around the point where header+payload fill the buffer
EXT_LEN = [0, 1, 2, 3, 7, 29, 30, 31, 255, 256, 4096, 8065, 8066, 8067, 8096, 8097]


def rnd_u32(rng):
    x = rng.random()
    if x < 0.35:
        return rng.choice(EXT_U32)
    if x < 0.6:
        return rng.randint(0, 9)
    return rng.getrandbits(32)


def rnd_i64(rng):
    x = rng.random()
    if x < 0.35:
        return rng.choice(EXT_I64)
    if x < 0.6:
        return rng.randint(0, 1 << 20) * 4096
    return rng.getrandbits(64) - 2 ** 63


def rnd_data(rng, big_ok=True):
    x = rng.random()
    if x < 0.25:
        n = 0
    elif x < 0.85 or not big_ok:
        n = rng.randint(1, 48)
    elif x < 0.97:
        n = rng.choice(EXT_LEN)
    else:
        n = rng.randint(8000, 9000)
    return bytes(rng.getrandbits(8) for _ in range(n))


def rnd_msg(rng, big_ok=True):
    magic = MAGIC
    if rng.random() < 0.04:
        magic = rng.choice([0, 0x1b02, 0x031b, 0xffff, 0x1c03])
    return dict(magic=magic, seq=rnd_u32(rng), type=rnd_u32(rng), off=rnd_i64(rng), size=rnd_i64(rng),
                data=rnd_data(rng, big_ok).hex())


def write_cases(rng, n):
    cases = []
    # extremes first, one field at a time
    for v in EXT_U32:
        cases.append(dict(magic=MAGIC, seq=v, type=T_READ, off=0, size=0, data=""))
        cases.append(dict(magic=MAGIC, seq=1, type=v, off=0, size=0, data=""))
    for v in EXT_I64:
        cases.append(dict(magic=MAGIC, seq=1, type=T_WRITE, off=v, size=0, data="00"))
        cases.append(dict(magic=MAGIC, seq=1, type=T_WRITE, off=0, size=v, data=""))
    for ln in EXT_LEN:
        cases.append(dict(magic=MAGIC, seq=3, type=T_WRITE, off=8192, size=ln, data=bytes((i * 13 + 5) & 255 for i in range(ln)).hex()))
    # distinct values in every field so that swapped / narrowed fields show
    cases.append(dict(magic=MAGIC, seq=0x01020304, type=0x05060708, off=0x1112131415161718, size=-0x2122232425262728, data="aabbccdd"))
    while len(cases) < n:
        cases.append(rnd_msg(rng))
    return [dict(k="write", msg=m) for m in cases[:max(n, 60)]]


def msg_bytes(m, length=None):
    return enc_frame(m["magic"], m["seq"], m["type"], m["off"], m["size"], bytes.fromhex(m["data"]), length)


def read_cases(rng, n):
    """mostly valid streams (1-5 frames) and a separate family of malformed ones"""
    out = []

    def valid_msgs(k):
        ms = []
        for _ in range(k):
            m = rnd_msg(rng, big_ok=rng.random() < 0.1)
            m["magic"] = MAGIC
            ms.append(m)
        return ms

    out.append(dict(stream="", shape="empty"))
    for cut in (1, 2, 3, 6, 10, 18, 26, 29, 30, 31):
        m = dict(magic=MAGIC, seq=9, type=T_RESPONSE, off=-7, size=5, data="0102030405")
        out.append(dict(stream=msg_bytes(m)[:cut].hex(), shape="truncated"))
    # huge announced length with a short payload (64 MiB: the reader allocates it before reading)
    m = dict(magic=MAGIC, seq=1, type=T_RESPONSE, off=0, size=0, data="010203")
    out.append(dict(stream=msg_bytes(m, length=64 << 20).hex(), shape="hugelen"))
    out.append(dict(stream=(msg_bytes(valid_msgs(1)[0]) + msg_bytes(m, length=(1 << 24) + 1)).hex(), shape="hugelen"))
    while len(out) < n:
        x = rng.random()
        ms = valid_msgs(rng.randint(1, 5))
        s = b"".join(msg_bytes(mm) for mm in ms)
        if x < 0.45:
            out.append(dict(stream=s.hex(), shape="valid"))
        elif x < 0.65:
            out.append(dict(stream=s[:rng.randint(0, len(s) - 1)].hex(), shape="truncated"))
        elif x < 0.80:
            bad = rnd_msg(rng, big_ok=False)
            bad["magic"] = rng.choice([0, 0x1b02, 0x031b, 0xffff, 0x1a03, rng.getrandbits(16)])
            k = rng.randint(0, len(ms))
            s2 = b"".join(msg_bytes(mm) for mm in ms[:k]) + msg_bytes(bad) + b"".join(msg_bytes(mm) for mm in ms[k:])
            out.append(dict(stream=s2.hex(), shape="badmagic"))
        elif x < 0.90:
            g = bytes(rng.getrandbits(8) for _ in range(rng.randint(1, 80)))
            out.append(dict(stream=(s + g).hex(), shape="garbage-tail"))
        else:
            mm = dict(magic=MAGIC, seq=rnd_u32(rng), type=T_RESPONSE, off=0, size=0, data=rnd_data(rng, False).hex())
            ln = len(bytes.fromhex(mm["data"])) + rng.choice([1, 2, 100, 1 << 16, (1 << 22) + 5])
            out.append(dict(stream=(s + msg_bytes(mm, length=ln)).hex(), shape="hugelen"))
    return [dict(k="read", stream=c["stream"], shape=c["shape"]) for c in out]


def gen_calls(rng, n, first_id=1, base_off=0):
    """n distinct calls; at most one sync and one ping (their frames carry no distinguishing field)"""
    calls = []
    kinds = []
    if n >= 3 and rng.random() < 0.7:
        kinds.append("sync")
    if n >= 3 and rng.random() < 0.7:
        kinds.append("ping")
    while len(kinds) < n:
        kinds.append(rng.choice(["read", "read", "write", "write", "unmap"]))
    rng.shuffle(kinds)
    for i, k in enumerate(kinds):
        cid = first_id + i
        off = (base_off + cid) * 4096
        c = dict(id=cid, kind=k, off=0, len=0, data="")
        if k == "read":
            c.update(off=off, len=rng.choice([0, 1, 4, 8, 16, 16, 32]))
        elif k == "write":
            c.update(off=off, data=bytes(rng.getrandbits(8) for _ in range(rng.choice([0, 1, 5, 16, 16, 40]))).hex())
        elif k == "unmap":
            c.update(off=off, len=rng.randint(0, 1 << 20))
        calls.append(c)
    return calls


def rnd_reply(rng, j, calls_kinds=None):
    x = rng.random()
    if x < 0.70:
        return dict(a="reply", j=j, ty=T_RESPONSE, dlen=-1, szadd=rng.randint(0, 50))
    if x < 0.80:
        return dict(a="reply", j=j, ty=T_ERROR, dlen=0, szadd=0)
    if x < 0.88:
        return dict(a="reply", j=j, ty=T_EOF, dlen=rng.choice([0, 2, 5]), szadd=rng.randint(1, 9))
    if x < 0.95:
        # payload shorter / longer than the caller's buffer
        return dict(a="reply", j=j, ty=T_RESPONSE, dlen=rng.choice([0, 3, 20, 40]), szadd=rng.randint(0, 50))
    return dict(a="reply", j=j, ty=rng.choice([T_UPDATE, T_CLOSE, 77]), dlen=2, szadd=1)


def gen_loop(rng, n, fault):
    """fault: None | close | corrupt | halfframe | stall"""
    calls = gen_calls(rng, n)
    order = list(range(n))
    rng.shuffle(order)
    if rng.random() < 0.15:
        order.sort()
    if fault is None:
        answered = n
    elif fault == "stall":
        # Only the read/write deadline can be configured (sync/unmap 30 s, ping 40 s are fixed in
        # rpc/client.go), and the arrival order of the requests is not known in advance: leave more
        # calls unanswered than there are calls without a short deadline.
        if not any(c["kind"] in ("read", "write") for c in calls):
            calls[0].update(kind="read", off=calls[0]["id"] * 4096, len=8, data="")
        slow = sum(1 for c in calls if c["kind"] not in ("read", "write"))
        answered = rng.randint(0, max(0, n - slow - 1))
    else:
        answered = rng.randint(0, n)
    script = []
    # requests arrive in an unknown order, so "j" is an arrival index
    if fault is not None or rng.random() < 0.5:
        script.append(dict(a="recv", n=n))
        got = n
    else:
        got = 0
    nsent = 0
    for k, j in enumerate(order[:answered]):
        if j >= got:
            got = min(n, max(j + 1, got + rng.randint(1, 4)))
            script.append(dict(a="recv", n=got))
        script.append(rnd_reply(rng, j))
        nsent += 1
        if rng.random() < 0.08:
            script.append(dict(a="dup", j=rng.randint(0, nsent - 1)))
            nsent += 1
        if rng.random() < 0.05:
            script.append(dict(a="bogus", seq=rng.choice([0, 1000, 2 ** 32 - 1, n + 1])))
            nsent += 1
    if got < n:
        script.append(dict(a="recv", n=n))
    wave2 = []
    if fault == "close":
        script.append(dict(a="close"))
    elif fault == "corrupt":
        bad = rng.choice(["0000", "021b", "031a" + "00" * 28, "ffff" + "00" * 40, bytes(rng.getrandbits(8) | 4 for _ in range(33)).hex()])
        script.append(dict(a="corrupt", bytes=bad))
    elif fault == "halfframe":
        fr = enc_frame(MAGIC, 1, T_RESPONSE, 0, 0, b"\x01\x02\x03\x04")
        script.append(dict(a="halfframe", bytes=fr[:rng.randint(1, len(fr) - 1)].hex()))
    elif fault == "stall":
        script.append(dict(a="stall"))
    if fault is not None and rng.random() < 0.8:
        wave2 = gen_calls(rng, rng.randint(1, 6), first_id=n + 1, base_off=100)
    return dict(k="loop", calls=calls, wave2=wave2, script=script, fault=fault or "none")


def gen_raced(rng, n):
    """every first-wave call has the short deadline and none is answered: all of them return from their
    own timer, before the loop has taken the SetError; the second wave is issued at that moment"""
    calls = gen_calls(rng, n)
    for c in calls:
        if c["kind"] not in ("read", "write"):
            c.update(kind="read", off=c["id"] * 4096, len=8, data="")
    wave2 = gen_calls(rng, rng.randint(2, 8), first_id=n + 1, base_off=100)
    for c in wave2:
        if c["kind"] not in ("read", "write"):
            c.update(kind="write", off=(100 + c["id"]) * 4096, len=0, data="0a0b")
    return dict(k="loop", calls=calls, wave2=wave2, script=[dict(a="recv", n=n), dict(a="stall")], fault="stall", nowait=True)


def loop_cases(rng, n_plain, n_fault, n_stall):
    cases = []
    sizes = [1, 2, 3, 4, 5, 8, 13, 16, 24, 32, 48, 64]
    for i in range(n_plain):
        cases.append(gen_loop(rng, sizes[i % len(sizes)] if i < 2 * len(sizes) else rng.randint(1, 64), None))
    for i in range(n_fault):
        cases.append(gen_loop(rng, sizes[i % len(sizes)] if i < len(sizes) else rng.randint(1, 64),
                              ["close", "corrupt", "halfframe"][i % 3]))
    for i in range(n_stall):
        cases.append(gen_loop(rng, rng.choice([2, 3, 5, 8, 16, 33, 64]), "stall"))
    return cases


# --------------------------------------------------------------------------- Coq terms

def zt(v):
    return "(%d)%%Z" % v


def bl(b):
    return "[" + ";".join(str(x) for x in b) + "]"


def msg_term(m):
    return "(mkmsg %d %d %d %s %s %s)" % (m["magic"], m["seq"], m["type"], zt(m["off"]), zt(m["size"]), bl(bytes.fromhex(m["data"])))


def req_term(c):
    return "(mkreq %d %s %s %d %s)" % (c["id"], KIND_COQ[c["kind"]], zt(c["off"]), c["len"], bl(bytes.fromhex(c["data"])))


def result_term(r):
    e = r["err"]
    if e[0] == "none":
        et = "ENone"
    elif e[0] == "eof":
        et = "EEOF"
    elif e[0] == "remote":
        et = "(ERemote %s)" % bl(e[1])
    else:
        et = "(ELocal %s)" % e[1]
    return "(mkres %s %s %s)" % (zt(r["n"]), et, bl(r["buf"]))


def event_term(e):
    if e[0] == "req":
        return "Req " + req_term(e[1])
    if e[0] == "raced":
        return "ReqRaced " + req_term(e[1])
    if e[0] == "resp":
        return "Resp %d %d %s %s" % (e[1], e[2], zt(e[3]), bl(e[4]))
    if e[0] == "terr":
        return "TransportErr " + e[1]
    if e[0] == "timeout":
        return "Timeout %d" % e[1]
    raise ValueError(e)


def wcase_term(case, out):
    return "mkw %s %s" % (msg_term(case["msg"]), bl(bytes.fromhex(out["bytes"])))


def rcase_term(case, out):
    end = {"clean": "EndClean", "short": "EndShort"}.get(out["end"]) or ("(EndBadMagic %d)" % out.get("got", 0))
    return "mkr %s [%s] %s" % (bl(bytes.fromhex(case["stream"])), ";".join(msg_term(m) for m in out.get("msgs") or []), end)


# --------------------------------------------------------------------------- correspondence: observations -> model inputs

def classify(comp, eof_sent):
    """the error a call returned, as the model's rerr"""
    if comp["nil"]:
        return ("none",)
    if comp["ptr"] == "rwtimeout" or comp["text"] == "r/w timeout":
        return ("local", "CRWTimeout")
    if comp["ptr"] == "pingtimeout" or comp["text"] == "Ping timeout":
        return ("local", "CPingTimeout")
    if comp["text"].startswith("remote-error:"):
        return ("remote", comp["text"].encode())
    if comp["ptr"] == "eof" and comp["id"] in eof_sent:
        return ("eof",)
    return ("local", "CTransport")


def build_lcase(case, out):
    """events in the loop's order, reconstructed from the peer's log (see DESIGN C15 / Rpc/Corr.v).
    Returns (events, frames, comps, closed, notes) or raises ValueError when the frames cannot be read."""
    calls = {c["id"]: c for c in case["calls"] + case.get("wave2", [])}
    by_key = {(KIND_TYPE[c["kind"]], c["off"] if c["kind"] not in ("sync", "ping") else 0): c for c in case["calls"]}
    frames = [bytes.fromhex(f) for f in out.get("frames") or []]
    sents = out.get("sents") or []
    seq_call = {}
    arrival = []
    for raw in frames:
        f = parse_frame(raw)
        c = by_key.get((f["type"], f["off"])) if f else None
        if c is None:
            raise ValueError("a frame received by the peer does not belong to any call: %s" % raw[:30].hex())
        arrival.append(c)
        seq_call[f["seq"]] = c["id"]
    eof_sent = set(seq_call[s["seq"]] for s in sents if s["ty"] == T_EOF and s["seq"] in seq_call)
    comps = {}
    for cp in out.get("comps") or []:
        comps[cp["id"]] = dict(n=cp["n"], err=classify(cp, eof_sent),
                               buf=bytes.fromhex(cp["buf"]) if calls[cp["id"]]["kind"] == "read" else b"")
    events = []
    fault = None
    for entry in out.get("peerlog") or []:
        if entry[0] == "R":
            events.append(("req", arrival[int(entry[1:])]))
        elif entry[0] == "S":
            s = sents[int(entry[1:])]
            events.append(("resp", s["seq"], s["ty"], s["size"], bytes.fromhex(s["data"])))
        elif entry.startswith("F:"):
            fault = entry[2:]
            break
    notes = []
    wave1 = [cp for cp in out.get("comps") or [] if cp["wave"] == 1]
    # whose own timer fired: the call returned a timeout error after its own deadline (only read/write have
    # a deadline this harness can reach; sync/unmap 30 s and ping 40 s are fixed)
    rw_ms = STALL_MS if case.get("fault") == "stall" else FAULT_MS
    timed = sorted(cp["id"] for cp in wave1 if cp["ptr"] in ("rwtimeout", "pingtimeout")
                   and calls[cp["id"]]["kind"] in ("read", "write") and cp["ms"] >= rw_ms - 100)
    for i in timed:
        events.append(("timeout", i))
    if fault in ("close", "corrupt", "halfframe"):
        events.append(("terr", "CTransport"))
    elif timed:
        nonping = [i for i in timed if calls[i]["kind"] != "ping"]
        events.append(("terr", "CRWTimeout" if nonping else "CPingTimeout"))
    done2 = {cp["id"]: cp for cp in out.get("comps") or [] if cp["wave"] == 2}
    for c in case.get("wave2", []):
        cp = done2.get(c["id"])
        if cp is None or cp["ms"] > RACED_MS:
            # not refused at operation's c.err test: its message went to c.requests, which nobody reads any more
            events.append(("raced", c))
            if cp is not None and cp["ptr"] in ("rwtimeout", "pingtimeout"):
                events.append(("timeout", c["id"]))
            notes.append("raced:%d" % c["id"])
        else:
            events.append(("req", c))
    return events, frames, comps, out.get("closed", 0), notes


def lcase_term(events, frames, comps, closed):
    return "mkl [%s] [%s] [%s] %d" % (
        ";".join(event_term(e) for e in events),
        ";".join(bl(f) for f in frames),
        ";".join("(%d, %s)" % (i, result_term(comps[i])) for i in sorted(comps)),
        closed)


# --------------------------------------------------------------------------- running

def run_impl(ctx, binpath, cases, tag):
    """stall cases run in a process with a 1 s rw timeout, the others with 4 s; both at once."""
    for i, c in enumerate(cases):
        c["id"] = i
    stall = [c for c in cases if c["k"] in ("loop", "race") and (c.get("fault") == "stall" or c["k"] == "race")]
    rest = [c for c in cases if c not in stall]
    outs = {}

    def go(arg):
        part, ms, t = arg
        if not part:
            return {}
        return vlib.run_harness(ctx, binpath, part, netns=True, tag=tag + t, workers=1, extra_args=[ms, 64], timeout=3000)

    with cf.ThreadPoolExecutor(max_workers=2) as ex:
        for r in ex.map(go, [(stall, STALL_MS, "s"), (rest, FAULT_MS, "f")]):
            outs.update(r)
    return outs


def timing_problems(case, out):
    """the measured part of 'never hangs / fails promptly'"""
    probs = []
    w2 = set(c["id"] for c in case.get("wave2", []))
    for h in out.get("hung") or []:
        probs.append(("later-call: " if h in w2 else "") + "call %d did not return within the bound" % h)
    rw = STALL_MS if case.get("fault") == "stall" else FAULT_MS
    for cp in out.get("comps") or []:
        if cp["wave"] == 2 and cp["ms"] > RACED_MS:
            probs.append("later-call: call %d issued after the failure took %d ms" % (cp["id"], cp["ms"]))
        if cp["wave"] == 1 and cp["ms"] > rw + LOOP_SLEEP_MS + SLACK_MS:
            probs.append("call %d took %d ms" % (cp["id"], cp["ms"]))
        if case.get("fault") == "none" and cp["ms"] > 3000:
            probs.append("call %d took %d ms without any fault" % (cp["id"], cp["ms"]))
    return probs


def evaluate(ctx, binpath, cases, tag="rpc"):
    """Run cases on the implementation and through the model.
    Returns list of findings: dict(case=i, kind='concrete'|'drift', what=..., detail=...), coverage dict, outs."""
    outs = run_impl(ctx, binpath, cases, tag)
    findings = []
    w_idx, w_terms, r_idx, r_terms, l_idx, l_terms = [], [], [], [], [], []
    for i, c in enumerate(cases):
        o = outs.get(i)
        if o is None or o.get("err"):
            findings.append(dict(case=i, kind="drift", what="harness error", detail=(o or {}).get("err", "no output")))
            continue
        if c["k"] == "write":
            if not o.get("rt_same"):
                findings.append(dict(case=i, kind="concrete", what="Wire.Write then Wire.Read does not return the message",
                                     detail=o.get("rt_note", "")))
            w_idx.append(i)
            w_terms.append(wcase_term(c, o))
        elif c["k"] == "read":
            # a decoder cannot deliver more payload bytes than the stream carried: decided here so that a
            # decoder gone astray (garbage length fields) does not produce terms of hundreds of megabytes
            got = sum(len(m.get("data") or "") // 2 for m in (o.get("msgs") or []))
            if got > len(c["stream"]) // 2:
                findings.append(dict(case=i, kind="concrete", what="Wire.Read delivered %d payload bytes from a stream of %d bytes (frames do not survive decoding)" % (got, len(c["stream"]) // 2),
                                     detail=dict(messages=len(o.get("msgs") or []), end=o.get("end"))))
                continue
            r_idx.append(i)
            r_terms.append(rcase_term(c, o))
        elif c["k"] == "race":
            bound = STALL_MS + LOOP_SLEEP_MS + SLACK_MS
            if o.get("hung") or o.get("max_ms", 0) > bound:
                findings.append(dict(case=i, kind="concrete", what="a call outlived its deadline while the peer closed",
                                     detail=dict(max_ms=o.get("max_ms"), hung=o.get("hung"), bound_ms=bound)))
            elif o.get("slow", 0) > 0:
                findings.append(dict(case=i, kind="concrete", known_key=KNOWN_RACED,
                                     what="calls issued while the connection failed were released only by their own deadline",
                                     detail=dict(slow_calls=o.get("slow"), max_ms=o.get("max_ms"), total=o.get("total"))))
        elif c["k"] == "loop":
            probs = timing_problems(c, o)
            if probs:
                f = dict(case=i, kind="concrete", what="a call hangs or is not failed promptly", detail=probs[:5])
                if c.get("nowait") and all(p.startswith("later-call:") for p in probs):
                    # exactly the shape of the known finding: the second wave was issued before the loop had
                    # taken the transport error, and only calls of that wave are late
                    f["known_key"] = KNOWN_RACED
                findings.append(f)
            if o.get("peer_err"):
                findings.append(dict(case=i, kind="drift", what="the scripted peer could not follow the client's frames",
                                     detail=o["peer_err"]))
            try:
                ev, fr, cp, cl, _ = build_lcase(c, o)
            except ValueError as e:
                findings.append(dict(case=i, kind="drift", what="frames on the wire", detail=str(e)))
                continue
            c["_events"] = ev
            l_idx.append(i)
            l_terms.append(lcase_term(ev, fr, cp, cl))
    cov = dict(l={}, r={})
    hdr = "Open Scope N_scope.\n"

    def shard_eval(name, terms, queries, shard):
        import re
        res = []
        shards = [(o, terms[o:o + shard]) for o in range(0, len(terms), shard)]

        def one(arg):
            k, (off, ts) = arg
            defs = hdr + "Definition cs := [\n%s\n].\n" % ";\n".join(ts)
            return off, vlib.coq_eval(ctx, "%s_%s_%d" % (tag, name, k), IMPORTS, defs, queries)

        with cf.ThreadPoolExecutor(max_workers=12) as ex:
            return list(ex.map(one, enumerate(shards)))

    if w_terms:
        for off, vals in shard_eval("w", w_terms, ["bad_wcases 0%nat cs"], 60):
            for item in vlib.parse_coq_list(vals[0]):
                f = vlib.flat(item)
                i = w_idx[off + f[0]]
                if not f[2]:
                    findings.append(dict(case=i, kind="concrete", what="c15_write_oracle: the bytes written do not decode to the message", detail=""))
                else:
                    findings.append(dict(case=i, kind="drift", what="Wire.Write bytes differ from encode", detail=""))
    if r_terms:
        for off, vals in shard_eval("r", r_terms, ["bad_rcases 0%nat cs", "rcoverage cs"], 60):
            for item in vlib.parse_coq_list(vals[0]):
                f = vlib.flat(item)
                i = r_idx[off + f[0]]
                if not f[2]:
                    findings.append(dict(case=i, kind="concrete", what="c15_read_oracle: what Wire.Read returned does not re-encode to the bytes it consumed", detail=""))
                else:
                    findings.append(dict(case=i, kind="drift", what="Wire.Read differs from decode_stream", detail=""))
            for k, v in enumerate(vlib.parse_coq_list(vals[1])):
                cov["r"][r_idx[off + k]] = v
    if l_terms:
        diffs = {1: "frames on the wire", 2: "results of the calls", 3: "number of failure reports", 9: "trace not well-formed (duplicate ids)"}
        for off, vals in shard_eval("l", l_terms, ["bad_lcases 0%nat cs", "lcoverage cs"], 12):
            for item in vlib.parse_coq_list(vals[0]):
                f = vlib.flat(item)
                i = l_idx[off + f[0]]
                if not f[2]:
                    findings.append(dict(case=i, kind="concrete", what="c15_oracle fails on the implementation's trace",
                                         detail="model/impl difference: %s" % diffs.get(f[1], "none")))
                else:
                    findings.append(dict(case=i, kind="drift", what="client differs from the model: " + diffs.get(f[1], str(f[1])), detail=""))
            for k, v in enumerate(vlib.parse_coq_list(vals[1])):
                cov["l"][l_idx[off + k]] = v
    return findings, cov, outs


# --------------------------------------------------------------------------- shrinking

def clean(case):
    return {k: v for k, v in case.items() if not k.startswith("_") and k != "id"}


def loop_candidates(case):
    out = []
    n = len(case["calls"])
    sc = case["script"]
    # drop one scripted action that is not the fault and not the last full recv
    # (without a fault every request must keep its one reply, otherwise the case itself is a stall)
    droppable = ("dup", "bogus") if case.get("fault", "none") == "none" else ("reply", "dup", "bogus")
    for i, a in enumerate(sc):
        if a["a"] in droppable:
            if a["a"] == "reply" and any(b["a"] == "dup" for b in sc):
                continue        # dup refers to the index of an earlier send
            out.append(dict(case, script=sc[:i] + sc[i + 1:]))
    # drop the second wave / one of its calls
    if case.get("wave2"):
        out.append(dict(case, wave2=[]))
        out.append(dict(case, wave2=case["wave2"][:-1]))
    # drop the last call (arrival indices >= n-1 disappear from the script)
    if n > 1:
        sc2 = []
        for a in sc:
            a = dict(a)
            if a["a"] == "recv":
                a["n"] = min(a["n"], n - 1)
            if a["a"] == "reply" and a["j"] >= n - 1:
                continue
            if a["a"] == "dup":
                continue
            sc2.append(a)
        c2 = dict(case, calls=case["calls"][:-1], script=sc2)
        slow = sum(1 for x in c2["calls"] if x["kind"] not in ("read", "write"))
        nrep = sum(1 for a in sc2 if a["a"] == "reply")
        if case.get("fault") != "stall" or nrep <= len(c2["calls"]) - slow - 1:
            out.append(c2)
    return [clean(c) for c in out]


def codec_candidates(case):
    out = []
    if case["k"] == "write":
        m = case["msg"]
        d = bytes.fromhex(m["data"])
        if len(d) > 0:
            out.append(dict(case, msg=dict(m, data=d[:len(d) // 2].hex())))
        for f in ("seq", "type", "off", "size"):
            if m[f] not in (0, 1):
                out.append(dict(case, msg=dict(m, **{f: 1})))
    else:
        s = bytes.fromhex(case["stream"])
        if len(s) > 1:
            out.append(dict(case, stream=s[:len(s) // 2].hex()))
            out.append(dict(case, stream=s[:-1].hex()))
            out.append(dict(case, stream=s[len(s) // 2:].hex()))
    return [clean(c) for c in out]


def shrink(ctx, binpath, case, kind, rounds=5, what=None):
    cur = clean(case)
    for r in range(rounds):
        cands = loop_candidates(cur) if cur["k"] == "loop" else codec_candidates(cur) if cur["k"] in ("write", "read") else []
        if not cands:
            break
        cands = cands[:40]
        findings, _, _ = evaluate(ctx, binpath, cands, tag="shr%d" % r)
        hit = sorted(set(f["case"] for f in findings if f["kind"] == kind and (what is None or f["what"] == what)
                         and not f.get("known_key")))
        if not hit:
            break
        cur = clean(cands[hit[0]])
    return cur
