"""Generators, Coq-term printers, the correspondence functions and the run loop of C15 (model: coq/theories/Rpc)."""
import json, os, struct, sys, concurrent.futures as cf
sys.path.insert(0, os.path.join(os.path.dirname(os.path.abspath(__file__)), "..", "bin"))
import vlib

MAGIC = 0x1b03
T_READ, T_WRITE, T_RESPONSE, T_ERROR, T_EOF, T_CLOSE, T_PING, T_UPDATE, T_SYNC, T_UNMAP = range(10)
KIND_TYPE = {"read": T_READ, "write": T_WRITE, "sync": T_SYNC, "ping": T_PING, "unmap": T_UNMAP}
KIND_COQ = {"read": "KRead", "write": "KWrite", "sync": "KSync", "ping": "KPing", "unmap": "KUnmap"}
RPC_FILES = ["Rpc/Model.v", "Rpc/CodecProofs.v", "Rpc/LoopProofs.v", "Rpc/Corr.v", "Rpc/Proofs.v", "Rpc/Server.v", "Rpc/ServerProofs.v"]
IMPORTS = ["Rpc.Model", "Rpc.Corr", "Rpc.Server"]
STALL_MS = 1000          # rw timeout of the process that runs the stall cases
FAULT_MS = 4000          # rw timeout of the process that runs everything else (> the loop's fixed 2 s)
LOOP_SLEEP_MS = 2000     # time.Sleep(2 * time.Second) in handleResponse
SLACK_MS = 2500
OWN_SLACK_MS = 800       # a call failed by its own deadline returns at the deadline: nothing else is on that path
KNOWN_RACED = "raced-request-waits-for-own-deadline"
RACED_MS = 500         # a call issued after the failure must be refused at once


def ensure_compiled():
    """The Rpc files are compiled here when they are not (yet) part of _CoqProject / stale.
    Returns (ok, log)."""
    th = os.path.join(vlib.COQ, "theories")
    newest = 0
    for f in RPC_FILES:
        v = os.path.join(th, f)
        vo = v + "o"
        newest = max(newest, os.path.getmtime(v))
        if os.path.exists(vo) and os.path.getmtime(vo) >= newest:
            continue
        rc, out = vlib.sh(["coqc", "-Q", "theories", "Jiva", "-w", "-notation-overridden,-deprecated-hint-without-locality",
                           os.path.join("theories", f)], cwd=vlib.COQ, timeout=1500)
        if rc != 0:
            return False, "coqc %s failed:\n%s" % (f, out[-2500:])
        newest = max(newest, os.path.getmtime(vo))
    return True, ""


# --------------------------------------------------------------------------- own frame encoder (for streams)

def enc_frame(magic, seq, ty, off, size, data, length=None):
    if length is None:
        length = len(data)
    return struct.pack("<HIIqqI", magic & 0xffff, seq & 0xffffffff, ty & 0xffffffff, off, size, length & 0xffffffff) + bytes(data)


def parse_frame(raw):
    if len(raw) < 30:
        return None
    magic, seq, ty, off, size, length = struct.unpack("<HIIqqI", raw[:30])
    return dict(magic=magic, seq=seq, type=ty, off=off, size=size, length=length, data=raw[30:])


# --------------------------------------------------------------------------- generators

EXT_U32 = [0, 1, 2, 255, 256, 65535, 65536, 2 ** 31 - 1, 2 ** 31, 2 ** 32 - 2, 2 ** 32 - 1]
EXT_I64 = [0, 1, -1, 4096, -4096, 2 ** 31, -2 ** 31, 2 ** 32, 2 ** 63 - 1, -2 ** 63, -2 ** 63 + 1, 2 ** 62]
# bufio.NewWriterSize(conn, 8096): payload sizes around the point where header+payload fill the buffer
EXT_LEN = [0, 1, 2, 3, 7, 29, 30, 31, 255, 256, 4096, 8065, 8066, 8067, 8096, 8097]


def rnd_u32(rng):
    x = rng.random()
    if x < 0.35:
        return rng.choice(EXT_U32)
    if x < 0.6:
        return rng.randint(0, 9)
    return rng.getrandbits(32)


def rnd_i64(rng):
    x = rng.random()
    if x < 0.35:
        return rng.choice(EXT_I64)
    if x < 0.6:
        return rng.randint(0, 1 << 20) * 4096
    return rng.getrandbits(64) - 2 ** 63


def rnd_data(rng, big_ok=True):
    x = rng.random()
    if x < 0.25:
        n = 0
    elif x < 0.85 or not big_ok:
        n = rng.randint(1, 48)
    elif x < 0.97:
        n = rng.choice(EXT_LEN)
    else:
        n = rng.randint(8000, 9000)
    return bytes(rng.getrandbits(8) for _ in range(n))


def rnd_msg(rng, big_ok=True):
    magic = MAGIC
    if rng.random() < 0.04:
        magic = rng.choice([0, 0x1b02, 0x031b, 0xffff, 0x1c03])
    return dict(magic=magic, seq=rnd_u32(rng), type=rnd_u32(rng), off=rnd_i64(rng), size=rnd_i64(rng),
                data=rnd_data(rng, big_ok).hex())


def write_cases(rng, n):
    cases = []
    # extremes first, one field at a time
    for v in EXT_U32:
        cases.append(dict(magic=MAGIC, seq=v, type=T_READ, off=0, size=0, data=""))
        cases.append(dict(magic=MAGIC, seq=1, type=v, off=0, size=0, data=""))
    for v in EXT_I64:
        cases.append(dict(magic=MAGIC, seq=1, type=T_WRITE, off=v, size=0, data="00"))
        cases.append(dict(magic=MAGIC, seq=1, type=T_WRITE, off=0, size=v, data=""))
    for ln in EXT_LEN:
        cases.append(dict(magic=MAGIC, seq=3, type=T_WRITE, off=8192, size=ln, data=bytes((i * 13 + 5) & 255 for i in range(ln)).hex()))
    # distinct values in every field so that swapped / narrowed fields show
    cases.append(dict(magic=MAGIC, seq=0x01020304, type=0x05060708, off=0x1112131415161718, size=-0x2122232425262728, data="aabbccdd"))
    while len(cases) < n:
        cases.append(rnd_msg(rng))
    return [dict(k="write", msg=m) for m in cases[:max(n, 60)]]


def msg_bytes(m, length=None):
    return enc_frame(m["magic"], m["seq"], m["type"], m["off"], m["size"], bytes.fromhex(m["data"]), length)


def read_cases(rng, n):
    """mostly valid streams (1-5 frames) and a separate family of malformed ones"""
    out = []

    def valid_msgs(k):
        ms = []
        for _ in range(k):
            m = rnd_msg(rng, big_ok=rng.random() < 0.1)
            m["magic"] = MAGIC
            ms.append(m)
        return ms

    out.append(dict(stream="", shape="empty"))
    for cut in (1, 2, 3, 6, 10, 18, 26, 29, 30, 31):
        m = dict(magic=MAGIC, seq=9, type=T_RESPONSE, off=-7, size=5, data="0102030405")
        out.append(dict(stream=msg_bytes(m)[:cut].hex(), shape="truncated"))
    # huge announced length with a short payload (64 MiB: the reader allocates it before reading)
    m = dict(magic=MAGIC, seq=1, type=T_RESPONSE, off=0, size=0, data="010203")
    out.append(dict(stream=msg_bytes(m, length=64 << 20).hex(), shape="hugelen"))
    out.append(dict(stream=(msg_bytes(valid_msgs(1)[0]) + msg_bytes(m, length=(1 << 24) + 1)).hex(), shape="hugelen"))
    while len(out) < n:
        x = rng.random()
        ms = valid_msgs(rng.randint(1, 5))
        s = b"".join(msg_bytes(mm) for mm in ms)
        if x < 0.45:
            out.append(dict(stream=s.hex(), shape="valid"))
        elif x < 0.65:
            out.append(dict(stream=s[:rng.randint(0, len(s) - 1)].hex(), shape="truncated"))
        elif x < 0.80:
            bad = rnd_msg(rng, big_ok=False)
            bad["magic"] = rng.choice([0, 0x1b02, 0x031b, 0xffff, 0x1a03, rng.getrandbits(16)])
            k = rng.randint(0, len(ms))
            s2 = b"".join(msg_bytes(mm) for mm in ms[:k]) + msg_bytes(bad) + b"".join(msg_bytes(mm) for mm in ms[k:])
            out.append(dict(stream=s2.hex(), shape="badmagic"))
        elif x < 0.90:
            g = bytes(rng.getrandbits(8) for _ in range(rng.randint(1, 80)))
            out.append(dict(stream=(s + g).hex(), shape="garbage-tail"))
        else:
            mm = dict(magic=MAGIC, seq=rnd_u32(rng), type=T_RESPONSE, off=0, size=0, data=rnd_data(rng, False).hex())
            ln = len(bytes.fromhex(mm["data"])) + rng.choice([1, 2, 100, 1 << 16, (1 << 22) + 5])
            out.append(dict(stream=(s + msg_bytes(mm, length=ln)).hex(), shape="hugelen"))
    return [dict(k="read", stream=c["stream"], shape=c["shape"]) for c in out]


def gen_calls(rng, n, first_id=1, base_off=0):
    """n distinct calls; at most one sync and one ping (their frames carry no distinguishing field)"""
    calls = []
    kinds = []
    if n >= 3 and rng.random() < 0.7:
        kinds.append("sync")
    if n >= 3 and rng.random() < 0.7:
        kinds.append("ping")
    while len(kinds) < n:
        kinds.append(rng.choice(["read", "read", "write", "write", "unmap"]))
    rng.shuffle(kinds)
    for i, k in enumerate(kinds):
        cid = first_id + i
        off = (base_off + cid) * 4096
        c = dict(id=cid, kind=k, off=0, len=0, data="")
        if k == "read":
            c.update(off=off, len=rng.choice([0, 1, 4, 8, 16, 16, 32]))
        elif k == "write":
            c.update(off=off, data=bytes(rng.getrandbits(8) for _ in range(rng.choice([0, 1, 5, 16, 16, 40]))).hex())
        elif k == "unmap":
            c.update(off=off, len=rng.randint(0, 1 << 20))
        calls.append(c)
    return calls


def rnd_reply(rng, j, calls_kinds=None):
    x = rng.random()
    if x < 0.70:
        return dict(a="reply", j=j, ty=T_RESPONSE, dlen=-1, szadd=rng.randint(0, 50))
    if x < 0.80:
        return dict(a="reply", j=j, ty=T_ERROR, dlen=0, szadd=0)
    if x < 0.88:
        return dict(a="reply", j=j, ty=T_EOF, dlen=rng.choice([0, 2, 5]), szadd=rng.randint(1, 9))
    if x < 0.95:
        # payload shorter / longer than the caller's buffer
        return dict(a="reply", j=j, ty=T_RESPONSE, dlen=rng.choice([0, 3, 20, 40]), szadd=rng.randint(0, 50))
    return dict(a="reply", j=j, ty=rng.choice([T_UPDATE, T_CLOSE, 77]), dlen=2, szadd=1)


def gen_loop(rng, n, fault):
    """fault: None | close | corrupt | halfframe | stall"""
    calls = gen_calls(rng, n)
    order = list(range(n))
    rng.shuffle(order)
    if rng.random() < 0.15:
        order.sort()
    if fault is None:
        answered = n
    elif fault == "stall":
        # Only the read/write deadline can be configured (sync/unmap 30 s, ping 40 s are fixed in
        # rpc/client.go), and the arrival order of the requests is not known in advance: leave more
        # calls unanswered than there are calls without a short deadline.
        if not any(c["kind"] in ("read", "write") for c in calls):
            calls[0].update(kind="read", off=calls[0]["id"] * 4096, len=8, data="")
        slow = sum(1 for c in calls if c["kind"] not in ("read", "write"))
        answered = rng.randint(0, max(0, n - slow - 1))
    else:
        answered = rng.randint(0, n)
    script = []
    # requests arrive in an unknown order, so "j" is an arrival index
    if fault is not None or rng.random() < 0.5:
        script.append(dict(a="recv", n=n))
        got = n
    else:
        got = 0
    nsent = 0
    for k, j in enumerate(order[:answered]):
        if j >= got:
            got = min(n, max(j + 1, got + rng.randint(1, 4)))
            script.append(dict(a="recv", n=got))
        script.append(rnd_reply(rng, j))
        nsent += 1
        if rng.random() < 0.08:
            script.append(dict(a="dup", j=rng.randint(0, nsent - 1)))
            nsent += 1
        if rng.random() < 0.05:
            script.append(dict(a="bogus", seq=rng.choice([0, 1000, 2 ** 32 - 1, n + 1])))
            nsent += 1
    if got < n:
        script.append(dict(a="recv", n=n))
    wave2 = []
    if fault == "close":
        script.append(dict(a="close"))
    elif fault == "corrupt":
        bad = rng.choice(["0000", "021b", "031a" + "00" * 28, "ffff" + "00" * 40, bytes(rng.getrandbits(8) | 4 for _ in range(33)).hex()])
        script.append(dict(a="corrupt", bytes=bad))
    elif fault == "halfframe":
        fr = enc_frame(MAGIC, 1, T_RESPONSE, 0, 0, b"\x01\x02\x03\x04")
        script.append(dict(a="halfframe", bytes=fr[:rng.randint(1, len(fr) - 1)].hex()))
    elif fault == "stall":
        script.append(dict(a="stall"))
    if fault is not None and rng.random() < 0.8:
        wave2 = gen_calls(rng, rng.randint(1, 6), first_id=n + 1, base_off=100)
    return dict(k="loop", calls=calls, wave2=wave2, script=script, fault=fault or "none")


def gen_raced(rng, n):
    """every first-wave call has the short deadline and none is answered: all of them return from their
    own timer, before the loop has taken the SetError; the second wave is issued at that moment"""
    calls = gen_calls(rng, n)
    for c in calls:
        if c["kind"] not in ("read", "write"):
            c.update(kind="read", off=c["id"] * 4096, len=8, data="")
    wave2 = gen_calls(rng, rng.randint(2, 8), first_id=n + 1, base_off=100)
    for c in wave2:
        if c["kind"] not in ("read", "write"):
            c.update(kind="write", off=(100 + c["id"]) * 4096, len=0, data="0a0b")
    return dict(k="loop", calls=calls, wave2=wave2, script=[dict(a="recv", n=n), dict(a="stall")], fault="stall", nowait=True)


def loop_cases(rng, n_plain, n_fault, n_stall):
    cases = []
    sizes = [1, 2, 3, 4, 5, 8, 13, 16, 24, 32, 48, 64]
    for i in range(n_plain):
        cases.append(gen_loop(rng, sizes[i % len(sizes)] if i < 2 * len(sizes) else rng.randint(1, 64), None))
    for i in range(n_fault):
        cases.append(gen_loop(rng, sizes[i % len(sizes)] if i < len(sizes) else rng.randint(1, 64),
                              ["close", "corrupt", "halfframe"][i % 3]))
    for i in range(n_stall):
        cases.append(gen_loop(rng, rng.choice([2, 3, 5, 8, 16, 33, 64]), "stall"))
    return cases



# --------------------------------------------------------------------------- server cases (rpc/server.go)

HANDLED = (T_READ, T_WRITE, T_PING, T_SYNC, T_UNMAP)
UNHANDLED = (T_RESPONSE, T_ERROR, T_EOF, T_CLOSE, T_UPDATE, 10, 77, 2 ** 32 - 1)
TYPE_NAME = {T_READ: "read", T_WRITE: "write", T_PING: "ping", T_SYNC: "sync", T_UNMAP: "unmap"}
MAX_READ = 9000          # read sizes the generator uses (a negative or huge Size makes the code panic / allocate)


def spattern(off, token, k, n):
    """harness/cmd/rpc spattern: the bytes the scripted processor puts into a read buffer"""
    base = (off >> 9) * 31 + token * 17 + k * 13 + 1
    return bytes((base + i * 7) & 0xff for i in range(n))


def srv_frame(rng, ty=None, seq=None):
    if ty is None:
        x = rng.random()
        ty = rng.choice(HANDLED) if x < 0.88 else rng.choice(UNHANDLED)
    f = dict(magic=MAGIC, seq=rnd_u32(rng) if seq is None else seq, type=ty, off=rnd_i64(rng), size=0, data="")
    if ty == T_READ:
        x = rng.random()
        f["size"] = rng.choice([0, 1, 4, 8, 16, 32, 64]) if x < 0.9 else rng.choice([255, 4096, 8065, 8066, 8067, MAX_READ])
        if rng.random() < 0.1:
            f["data"] = rnd_data(rng, False).hex()        # a payload on a read request is dropped
    elif ty == T_WRITE:
        d = rnd_data(rng, rng.random() < 0.08)
        f["data"] = d.hex()
        # the codec does not tie Size to the payload: the server must not trust it
        f["size"] = len(d) if rng.random() < 0.7 else rnd_i64(rng)
    elif ty == T_UNMAP:
        f["size"] = rnd_i64(rng)
    else:
        if rng.random() < 0.25:
            f["data"] = rnd_data(rng, False).hex()
        f["size"] = 0 if rng.random() < 0.6 else rnd_i64(rng)
    return f


def srv_outcome(rng, f, force=None):
    """what the processor is told to do for frame f"""
    r = force or ("ok" if rng.random() < 0.6 else rng.choice(["eof", "err"]))
    a = dict(r=r, count=0, text="", fill=-1, delay=0)
    if f["type"] == T_READ:
        if rng.random() < 0.15:
            a["fill"] = rng.randint(0, f["size"] + 3)
        if r == "eof":
            a["count"] = rng.choice([0, f["size"], rng.randint(0, f["size"])])     # 0 <= count <= len(buf), else the code panics
            if rng.random() < 0.7:
                a["fill"] = a["count"]
    elif f["type"] == T_WRITE and r == "eof":
        a["count"] = rng.randint(0, len(f["data"]) // 2)
    if r == "err":
        a["text"] = rng.choice(["", "EOF", "scripted-error-%d" % rng.randint(0, 999),
                                "input/output error", "x" * rng.choice([1, 30, 300])])
    if rng.random() < 0.04:
        a["delay"] = rng.randint(1, 15)
    return a


def srv_tail(rng, kind):
    if kind == "none":
        return b""
    if kind == "half":
        fr = msg_bytes(srv_frame(rng, rng.choice([T_WRITE, T_WRITE, T_READ, T_PING])))
        return fr[:rng.randint(1, len(fr) - 1)]
    if kind == "badmagic":
        bad = srv_frame(rng)
        bad["magic"] = rng.choice([0, 0x1b02, 0x031b, 0xffff, 0x1a03])
        t = msg_bytes(bad)
        if rng.random() < 0.5:
            t += msg_bytes(srv_frame(rng, T_PING))      # a well-formed frame after it must not be answered
        return t
    g = bytes(rng.getrandbits(8) for _ in range(rng.randint(2, 60)))
    if g[:2] == b"\x03\x1b":
        g = b"\x00" + g[1:]
    return g


def seq_plan(rng, n):
    x = rng.random()
    if x < 0.3:
        start = rng.choice([1, 0, 2 ** 32 - 1 - rng.randint(0, max(0, n - 1)), rng.getrandbits(32)])
        return [(start + i) % 2 ** 32 for i in range(n)]          # a client's counter, wrapping included
    if x < 0.5:
        s = rnd_u32(rng)
        return [s] * n                                            # all the same
    if x < 0.7:
        pool = [rnd_u32(rng) for _ in range(max(1, n // 3))]
        return [rng.choice(pool) for _ in range(n)]               # duplicates
    if x < 0.8:
        return [(n - i) for i in range(n)]                        # descending
    return [rnd_u32(rng) for _ in range(n)]


def gen_serve(rng, n=None, mode=None, tail=None):
    if n is None:
        n = rng.choice([1, 2, 2, 3, 3, 4, 5, 6, 8, 12, 16, 24]) if rng.random() < 0.95 else rng.randint(25, 64)
    seqs = seq_plan(rng, n)
    reqs = [srv_frame(rng, seq=seqs[i]) for i in range(n)]
    script = [srv_outcome(rng, f) for f in reqs]
    mode = mode or rng.choice(["pipe", "pipe", "seq", "chunk"])
    tk = tail or rng.choice(["none"] * 6 + ["half", "half", "badmagic", "garbage"])
    c = dict(k="serve", reqs=reqs, oscript=script, mode=mode, token=rng.randint(0, 255), tailkind=tk, tail=srv_tail(rng, tk).hex())
    if mode == "chunk":
        c["chunk"] = rng.choice([1, 2, 3, 7, 29, 30, 31, 100])
    return c


def serve_enumerated():
    """small scopes: every (type, outcome) alone, and every ordered pair of handled (type, outcome) pipelined
    under one and the same Seq"""
    import random as _r
    rng = _r.Random(15)
    out = []
    kinds = []
    for ty in HANDLED:
        for r in ("ok", "eof", "err"):
            kinds.append((ty, r))

    def mk(ty, r, seq, variant=0):
        f = dict(magic=MAGIC, seq=seq, type=ty, off=(3 + variant) * 4096, size=0, data="")
        if ty == T_READ:
            f["size"] = 8
        elif ty == T_WRITE:
            f.update(data="0a0b0c0d0e", size=5)
        elif ty == T_UNMAP:
            f["size"] = 4096
        a = dict(r=r, count=0, text="", fill=-1, delay=0)
        if r == "eof" and ty == T_READ:
            a["count"] = (0, 3, 8)[variant % 3]
            a["fill"] = a["count"]
        if r == "eof" and ty == T_WRITE:
            a["count"] = 2
        if r == "err":
            a["text"] = ("", "scripted-error-%d-%d" % (ty, variant))[variant % 2]
        return f, a

    for ty, r in kinds:
        for variant in range(3 if r == "eof" else 2 if r == "err" else 1):
            f, a = mk(ty, r, 41, variant)
            out.append(dict(k="serve", reqs=[f], oscript=[a], mode="seq", token=9, tailkind="none", tail=""))
    for ty in (T_RESPONSE, T_ERROR, T_EOF, T_CLOSE, T_UPDATE, 10, 2 ** 32 - 1):
        f = dict(magic=MAGIC, seq=2 ** 32 - 1, type=ty, off=-4096, size=17, data="010203")
        out.append(dict(k="serve", reqs=[f], oscript=[dict(r="ok", count=0, text="", fill=-1, delay=0)], mode="seq", token=9,
                        tailkind="none", tail=""))
    for i, (t1, r1) in enumerate(kinds):
        for j, (t2, r2) in enumerate(kinds):
            f1, a1 = mk(t1, r1, 7, 1)
            f2, a2 = mk(t2, r2, 7, 2)
            out.append(dict(k="serve", reqs=[f1, f2], oscript=[a1, a2], mode="pipe", token=(i * 15 + j) & 255, tailkind="none", tail=""))
    return out


def serve_cases(rng, n):
    cases = serve_enumerated()
    # every mode with every tail at least once, then random
    for mode in ("seq", "pipe", "chunk"):
        for tk in ("none", "half", "badmagic", "garbage"):
            cases.append(gen_serve(rng, n=4, mode=mode, tail=tk))
    for sz in (MAX_READ, 8066, 4096):
        f = dict(magic=MAGIC, seq=sz, type=T_READ, off=sz * 512, size=sz, data="")
        g = dict(magic=MAGIC, seq=sz, type=T_WRITE, off=0, size=1, data=bytes((i * 5) & 255 for i in range(sz)).hex())
        cases.append(dict(k="serve", reqs=[f, g, f], mode="pipe", token=sz & 255, tailkind="none", tail="",
                          oscript=[dict(r="ok", count=0, text="", fill=-1, delay=0), dict(r="ok", count=0, text="", fill=-1, delay=0),
                                   dict(r="eof", count=sz - 1, text="", fill=sz - 1, delay=0)]))
    while len(cases) < n:
        cases.append(gen_serve(rng))
    return cases


def serve_proc_calls(case):
    """(index of the processor call for each frame | None, the calls the processor must see)"""
    idx, calls = [], []
    for f in case["reqs"]:
        if f["type"] not in HANDLED:
            idx.append(None)
            continue
        idx.append(len(calls))
        nm = TYPE_NAME[f["type"]]
        if nm == "read":
            calls.append(dict(op="read", off=f["off"], len=f["size"]))
        elif nm == "write":
            calls.append(dict(op="write", off=f["off"], len=len(f["data"]) // 2, data=f["data"]))
        elif nm == "unmap":
            calls.append(dict(op="unmap", off=f["off"], len=f["size"]))
        else:
            calls.append(dict(op=nm, off=0, len=0))
    return idx, calls


def serve_wire(case):
    """the case as harness/cmd/rpc reads it"""
    idx, _ = serve_proc_calls(case)
    proc = [dict(r=a["r"], count=a["count"], text=a["text"], fill=a["fill"], delay=a["delay"])
            for a, k in zip(case["oscript"], idx) if k is not None]
    return dict(id=case["id"], k="serve", frames=[msg_bytes(f).hex() for f in case["reqs"]], tail=case["tail"],
                mode=case["mode"], chunk=case.get("chunk", 0), token=case["token"], proc=proc)


def outcome_term(case, i, k):
    f, a = case["reqs"][i], case["oscript"][i]
    data = b""
    if f["type"] == T_READ and k is not None:
        n = f["size"] if a["fill"] < 0 else a["fill"]
        data = spattern(f["off"], case["token"], k, n)
    if a["r"] == "ok":
        return "OOk %s" % bl(data)
    if a["r"] == "eof":
        return "OEof %s %s" % (zt(a["count"]), bl(data))
    return "OErr %s" % bl(a["text"].encode())


def scase_term(case, out):
    idx, _ = serve_proc_calls(case)
    inp = b"".join(msg_bytes(f) for f in case["reqs"]) + bytes.fromhex(case["tail"])
    return "mksv %s [%s] [%s] [%s]" % (
        bl(inp), ";".join(msg_term(f) for f in case["reqs"]),
        ";".join(outcome_term(case, i, idx[i]) for i in range(len(case["reqs"]))),
        ";".join(msg_term(m) for m in out.get("replies") or []))


SERVE_CLAUSES = {1: "Seq is not the request's", 2: "magic", 4: "type", 8: "Size", 16: "payload", 32: "reply missing",
                 64: "reply without request", 128: "reply where the runtime stops"}


def clause_names(mask):
    return [v for k, v in sorted(SERVE_CLAUSES.items()) if mask & k]


# --------------------------------------------------------------------------- Coq terms

def zt(v):
    return "(%d)%%Z" % v


def bl(b):
    return "[" + ";".join(str(x) for x in b) + "]"


def msg_term(m):
    return "(mkmsg %d %d %d %s %s %s)" % (m["magic"], m["seq"], m["type"], zt(m["off"]), zt(m["size"]), bl(bytes.fromhex(m["data"])))


def req_term(c):
    return "(mkreq %d %s %s %d %s)" % (c["id"], KIND_COQ[c["kind"]], zt(c["off"]), c["len"], bl(bytes.fromhex(c["data"])))


def result_term(r):
    e = r["err"]
    if e[0] == "none":
        et = "ENone"
    elif e[0] == "eof":
        et = "EEOF"
    elif e[0] == "remote":
        et = "(ERemote %s)" % bl(e[1])
    else:
        et = "(ELocal %s)" % e[1]
    return "(mkres %s %s %s)" % (zt(r["n"]), et, bl(r["buf"]))


def event_term(e):
    if e[0] == "req":
        return "Req " + req_term(e[1])
    if e[0] == "raced":
        return "ReqRaced " + req_term(e[1])
    if e[0] == "resp":
        return "Resp %d %d %s %s" % (e[1], e[2], zt(e[3]), bl(e[4]))
    if e[0] == "terr":
        return "TransportErr " + e[1]
    if e[0] == "timeout":
        return "Timeout %d" % e[1]
    raise ValueError(e)


def wcase_term(case, out):
    return "mkw %s %s" % (msg_term(case["msg"]), bl(bytes.fromhex(out["bytes"])))


def rcase_term(case, out):
    end = {"clean": "EndClean", "short": "EndShort"}.get(out["end"]) or ("(EndBadMagic %d)" % out.get("got", 0))
    return "mkr %s [%s] %s" % (bl(bytes.fromhex(case["stream"])), ";".join(msg_term(m) for m in out.get("msgs") or []), end)


# --------------------------------------------------------------------------- correspondence: observations -> model inputs

def classify(comp, eof_sent):
    """the error a call returned, as the model's rerr"""
    if comp["nil"]:
        return ("none",)
    if comp["ptr"] == "rwtimeout" or comp["text"] == "r/w timeout":
        return ("local", "CRWTimeout")
    if comp["ptr"] == "pingtimeout" or comp["text"] == "Ping timeout":
        return ("local", "CPingTimeout")
    if comp["text"].startswith("remote-error:"):
        return ("remote", comp["text"].encode())
    if comp["ptr"] == "eof" and comp["id"] in eof_sent:
        return ("eof",)
    return ("local", "CTransport")


def build_lcase(case, out):
    """events in the loop's order, reconstructed from the peer's log (see DESIGN C15 / Rpc/Corr.v).
    Returns (events, frames, comps, closed, notes) or raises ValueError when the frames cannot be read."""
    calls = {c["id"]: c for c in case["calls"] + case.get("wave2", [])}
    by_key = {(KIND_TYPE[c["kind"]], c["off"] if c["kind"] not in ("sync", "ping") else 0): c for c in case["calls"]}
    frames = [bytes.fromhex(f) for f in out.get("frames") or []]
    sents = out.get("sents") or []
    seq_call = {}
    arrival = []
    for raw in frames:
        f = parse_frame(raw)
        c = by_key.get((f["type"], f["off"])) if f else None
        if c is None:
            raise ValueError("a frame received by the peer does not belong to any call: %s" % raw[:30].hex())
        arrival.append(c)
        seq_call[f["seq"]] = c["id"]
    eof_sent = set(seq_call[s["seq"]] for s in sents if s["ty"] == T_EOF and s["seq"] in seq_call)
    comps = {}
    for cp in out.get("comps") or []:
        comps[cp["id"]] = dict(n=cp["n"], err=classify(cp, eof_sent),
                               buf=bytes.fromhex(cp["buf"]) if calls[cp["id"]]["kind"] == "read" else b"")
    events = []
    fault = None
    for entry in out.get("peerlog") or []:
        if entry[0] == "R":
            events.append(("req", arrival[int(entry[1:])]))
        elif entry[0] == "S":
            s = sents[int(entry[1:])]
            events.append(("resp", s["seq"], s["ty"], s["size"], bytes.fromhex(s["data"])))
        elif entry.startswith("F:"):
            fault = entry[2:]
            break
    notes = []
    wave1 = [cp for cp in out.get("comps") or [] if cp["wave"] == 1]
    # whose own timer fired: the call returned a timeout error after its own deadline (only read/write have
    # a deadline this harness can reach; sync/unmap 30 s and ping 40 s are fixed)
    rw_ms = STALL_MS if case.get("fault") == "stall" else FAULT_MS
    timed = sorted(cp["id"] for cp in wave1 if cp["ptr"] in ("rwtimeout", "pingtimeout")
                   and calls[cp["id"]]["kind"] in ("read", "write") and cp["ms"] >= rw_ms - 100)
    for i in timed:
        events.append(("timeout", i))
    if fault in ("close", "corrupt", "halfframe"):
        events.append(("terr", "CTransport"))
    elif timed:
        nonping = [i for i in timed if calls[i]["kind"] != "ping"]
        events.append(("terr", "CRWTimeout" if nonping else "CPingTimeout"))
    done2 = {cp["id"]: cp for cp in out.get("comps") or [] if cp["wave"] == 2}
    for c in case.get("wave2", []):
        cp = done2.get(c["id"])
        if cp is None or cp["ms"] > RACED_MS:
            # not refused at operation's c.err test: its message went to c.requests, which nobody reads any more
            events.append(("raced", c))
            if cp is not None and cp["ptr"] in ("rwtimeout", "pingtimeout"):
                events.append(("timeout", c["id"]))
            notes.append("raced:%d" % c["id"])
        else:
            events.append(("req", c))
    return events, frames, comps, out.get("closed", 0), notes


def lcase_term(events, frames, comps, closed):
    return "mkl [%s] [%s] [%s] %d" % (
        ";".join(event_term(e) for e in events),
        ";".join(bl(f) for f in frames),
        ";".join("(%d, %s)" % (i, result_term(comps[i])) for i in sorted(comps)),
        closed)


# --------------------------------------------------------------------------- running

def run_impl(ctx, binpath, cases, tag):
    """stall cases run in a process with a 1 s rw timeout, the others with 4 s, the server cases in a third one
    (a panic of the served goroutine ends the process); all at once."""
    for i, c in enumerate(cases):
        c["id"] = i
    stall = [c for c in cases if c["k"] in ("loop", "race") and (c.get("fault") == "stall" or c["k"] == "race")]
    serve = [serve_wire(c) for c in cases if c["k"] == "serve"]
    rest = [c for c in cases if c not in stall and c["k"] != "serve"]
    outs = {}

    def go(arg):
        part, ms, t = arg
        if not part:
            return {}
        if t != "v":
            return vlib.run_harness(ctx, binpath, part, netns=True, tag=tag + t, workers=1, extra_args=[ms, 64], timeout=3000)
        try:
            return vlib.run_harness(ctx, binpath, part, netns=True, tag=tag + t, workers=2, extra_args=[ms, 64], timeout=600)
        except RuntimeError as e:
            # find the case(s) on which the process dies
            res = {}
            for c in part:
                try:
                    res.update(vlib.run_harness(ctx, binpath, [c], netns=True, tag=tag + "v1", workers=1, extra_args=[ms, 1], timeout=120))
                except RuntimeError as e1:
                    res[c["id"]] = dict(id=c["id"], k="serve", died=str(e1)[-1500:])
            return res

    with cf.ThreadPoolExecutor(max_workers=3) as ex:
        for r in ex.map(go, [(stall, STALL_MS, "s"), (rest, FAULT_MS, "f"), (serve, FAULT_MS, "v")]):
            outs.update(r)
    return outs


def timing_problems(case, out):
    """the measured part of 'never hangs / fails promptly'"""
    probs = []
    w2 = set(c["id"] for c in case.get("wave2", []))
    for h in out.get("hung") or []:
        probs.append(("later-call: " if h in w2 else "") + "call %d did not return within the bound" % h)
    rw = STALL_MS if case.get("fault") == "stall" else FAULT_MS
    for cp in out.get("comps") or []:
        if cp["wave"] == 2 and cp["ms"] > RACED_MS:
            probs.append("later-call: call %d issued after the failure took %d ms" % (cp["id"], cp["ms"]))
        if cp["wave"] == 1 and cp["ms"] > rw + LOOP_SLEEP_MS + SLACK_MS:
            probs.append("call %d took %d ms" % (cp["id"], cp["ms"]))
        if cp["wave"] == 1 and cp["ptr"] == "rwtimeout" and cp["ms"] > rw + OWN_SLACK_MS:
            probs.append("call %d was failed by its own deadline of %d ms only after %d ms" % (cp["id"], rw, cp["ms"]))
        if case.get("fault") == "none" and cp["ms"] > 3000:
            probs.append("call %d took %d ms without any fault" % (cp["id"], cp["ms"]))
    return probs


def evaluate(ctx, binpath, cases, tag="rpc"):
    """Run cases on the implementation and through the model.
    Returns list of findings: dict(case=i, kind='concrete'|'drift', what=..., detail=...), coverage dict, outs."""
    outs = run_impl(ctx, binpath, cases, tag)
    findings = []
    w_idx, w_terms, r_idx, r_terms, l_idx, l_terms = [], [], [], [], [], []
    s_idx, s_terms = [], []
    for i, c in enumerate(cases):
        o = outs.get(i)
        if o is None or o.get("err"):
            findings.append(dict(case=i, kind="drift", what="harness error", detail=(o or {}).get("err", "no output")))
            continue
        if c["k"] == "write":
            if not o.get("rt_same"):
                findings.append(dict(case=i, kind="concrete", what="Wire.Write then Wire.Read does not return the message",
                                     detail=o.get("rt_note", "")))
            w_idx.append(i)
            w_terms.append(wcase_term(c, o))
        elif c["k"] == "read":
            # a decoder cannot deliver more payload bytes than the stream carried: decided here so that a
            # decoder gone astray (garbage length fields) does not produce terms of hundreds of megabytes
            got = sum(len(m.get("data") or "") // 2 for m in (o.get("msgs") or []))
            if got > len(c["stream"]) // 2:
                findings.append(dict(case=i, kind="concrete", what="Wire.Read delivered %d payload bytes from a stream of %d bytes (frames do not survive decoding)" % (got, len(c["stream"]) // 2),
                                     detail=dict(messages=len(o.get("msgs") or []), end=o.get("end"))))
                continue
            r_idx.append(i)
            r_terms.append(rcase_term(c, o))
        elif c["k"] == "race":
            bound = STALL_MS + LOOP_SLEEP_MS + SLACK_MS
            if o.get("hung") or o.get("max_ms", 0) > bound:
                findings.append(dict(case=i, kind="concrete", what="a call outlived its deadline while the peer closed",
                                     detail=dict(max_ms=o.get("max_ms"), hung=o.get("hung"), bound_ms=bound)))
            elif o.get("slow", 0) > 0:
                findings.append(dict(case=i, kind="concrete", known_key=KNOWN_RACED,
                                     what="calls issued while the connection failed were released only by their own deadline",
                                     detail=dict(slow_calls=o.get("slow"), max_ms=o.get("max_ms"), total=o.get("total"))))
        elif c["k"] == "serve":
            if o.get("died"):
                findings.append(dict(case=i, kind="concrete", what="the process died while rpc.Server.Handle served well-formed requests (no reply to them or to any later request)",
                                     detail=o["died"][-600:]))
                continue
            # bounded terms: a server gone astray must not make the evaluation explode
            if sum(len(m.get("data") or "") for m in (o.get("replies") or [])) // 2 > 4 * (1 << 20):
                findings.append(dict(case=i, kind="concrete", what="replies carry more than 4 MiB of payload although no request asked for more than %d bytes" % MAX_READ,
                                     detail=dict(replies=len(o.get("replies") or []))))
                continue
            _, want_calls = serve_proc_calls(c)
            got_calls = [dict(op=x["op"], off=x["off"], len=x["len"], **({"data": x.get("data", "")} if x["op"] == "write" else {}))
                         for x in (o.get("pcalls") or [])]
            if got_calls != want_calls:
                k = next((j for j in range(min(len(got_calls), len(want_calls))) if got_calls[j] != want_calls[j]), min(len(got_calls), len(want_calls)))
                findings.append(dict(case=i, kind="drift", what="the data processor was not called with the requests' own arguments (Rpc/Server.v srv_step, handleX)",
                                     detail=dict(call=k, want=(want_calls[k:k + 1] or ["(none)"])[0], got=(got_calls[k:k + 1] or ["(none)"])[0])))
            want_ret = {"none": ("eof",), "half": ("eof", "unexpected-eof"), "badmagic": ("badmagic",), "garbage": ("badmagic", "unexpected-eof")}[c["tailkind"]]
            if o.get("hret") not in want_ret or o.get("rend") != "eof":
                findings.append(dict(case=i, kind="drift", what="the serve loop did not end as the model's does (Rpc/Server.v serve_stream)",
                                     detail=dict(handle_returned=o.get("hret"), expected=want_ret, reply_stream_end=o.get("rend"), note=o.get("note", ""))))
            s_idx.append(i)
            s_terms.append(scase_term(c, o))
        elif c["k"] == "loop":
            probs = timing_problems(c, o)
            if probs:
                f = dict(case=i, kind="concrete", what="a call hangs or is not failed promptly", detail=probs[:5])
                if c.get("nowait") and all(p.startswith("later-call:") for p in probs):
                    # exactly the shape of the known finding: the second wave was issued before the loop had
                    # taken the transport error, and only calls of that wave are late
                    f["known_key"] = KNOWN_RACED
                findings.append(f)
            if o.get("peer_err"):
                findings.append(dict(case=i, kind="drift", what="the scripted peer could not follow the client's frames",
                                     detail=o["peer_err"]))
            try:
                ev, fr, cp, cl, _ = build_lcase(c, o)
            except ValueError as e:
                findings.append(dict(case=i, kind="drift", what="frames on the wire", detail=str(e)))
                continue
            c["_events"] = ev
            l_idx.append(i)
            l_terms.append(lcase_term(ev, fr, cp, cl))
    cov = dict(l={}, r={}, s={})
    hdr = "Open Scope N_scope.\n"

    def shard_eval(name, terms, queries, shard):
        import re
        res = []
        shards = [(o, terms[o:o + shard]) for o in range(0, len(terms), shard)]

        def one(arg):
            k, (off, ts) = arg
            defs = hdr + "Definition cs := [\n%s\n].\n" % ";\n".join(ts)
            return off, vlib.coq_eval(ctx, "%s_%s_%d" % (tag, name, k), IMPORTS, defs, queries)

        with cf.ThreadPoolExecutor(max_workers=12) as ex:
            return list(ex.map(one, enumerate(shards)))

    if w_terms:
        for off, vals in shard_eval("w", w_terms, ["bad_wcases 0%nat cs"], 60):
            for item in vlib.parse_coq_list(vals[0]):
                f = vlib.flat(item)
                i = w_idx[off + f[0]]
                if not f[2]:
                    findings.append(dict(case=i, kind="concrete", what="c15_write_oracle: the bytes written do not decode to the message", detail=""))
                else:
                    findings.append(dict(case=i, kind="drift", what="Wire.Write bytes differ from encode", detail=""))
    if r_terms:
        for off, vals in shard_eval("r", r_terms, ["bad_rcases 0%nat cs", "rcoverage cs"], 60):
            for item in vlib.parse_coq_list(vals[0]):
                f = vlib.flat(item)
                i = r_idx[off + f[0]]
                if not f[2]:
                    findings.append(dict(case=i, kind="concrete", what="c15_read_oracle: what Wire.Read returned does not re-encode to the bytes it consumed", detail=""))
                else:
                    findings.append(dict(case=i, kind="drift", what="Wire.Read differs from decode_stream", detail=""))
            for k, v in enumerate(vlib.parse_coq_list(vals[1])):
                cov["r"][r_idx[off + k]] = v
    if l_terms:
        diffs = {1: "frames on the wire", 2: "results of the calls", 3: "number of failure reports", 9: "trace not well-formed (duplicate ids)"}
        for off, vals in shard_eval("l", l_terms, ["bad_lcases 0%nat cs", "lcoverage cs"], 12):
            for item in vlib.parse_coq_list(vals[0]):
                f = vlib.flat(item)
                i = l_idx[off + f[0]]
                if not f[2]:
                    findings.append(dict(case=i, kind="concrete", what="c15_oracle fails on the implementation's trace",
                                         detail="model/impl difference: %s" % diffs.get(f[1], "none")))
                else:
                    findings.append(dict(case=i, kind="drift", what="client differs from the model: " + diffs.get(f[1], str(f[1])), detail=""))
            for k, v in enumerate(vlib.parse_coq_list(vals[1])):
                cov["l"][l_idx[off + k]] = v
    if s_terms:
        res = vlib.coq_eval_sharded(ctx, tag + "_s", IMPORTS, s_terms, lambda cs: ["bad_scases 0%%nat %s" % cs, "scoverage %s" % cs],
                                    shard=40, max_chars=300000)
        for off, vals in res:
            for item in vlib.parse_coq_list(vals[0]):
                f = vlib.flat(item)
                i = s_idx[off + f[0]]
                if not f[2]:
                    findings.append(dict(case=i, kind="concrete", what="c15_server_ok fails on the replies of the implementation's rpc.Server",
                                         detail=dict(reply_index=f[3], clauses=clause_names(f[4]),
                                                     model_vs_impl=("replies differ from the model's" if f[1] == 1 else "same as the model" if f[1] == 0 else "generator/decoder mismatch"))))
                elif f[1] == 9:
                    findings.append(dict(case=i, kind="drift", what="the generator's frames are not what the model's decoder reads from the bytes (defect of the check)", detail=""))
                else:
                    findings.append(dict(case=i, kind="drift", what="server replies differ from the model (Rpc/Server.v srv_step / createResponse)", detail=""))
            for k, v in enumerate(vlib.parse_coq_list(vals[1])):
                cov["s"][s_idx[off + k]] = v
    return findings, cov, outs


# --------------------------------------------------------------------------- shrinking

def clean(case):
    return {k: v for k, v in case.items() if not k.startswith("_") and k != "id"}


def loop_candidates(case):
    out = []
    n = len(case["calls"])
    sc = case["script"]
    # drop one scripted action that is not the fault and not the last full recv
    # (without a fault every request must keep its one reply, otherwise the case itself is a stall)
    droppable = ("dup", "bogus") if case.get("fault", "none") == "none" else ("reply", "dup", "bogus")
    for i, a in enumerate(sc):
        if a["a"] in droppable:
            if a["a"] == "reply" and any(b["a"] == "dup" for b in sc):
                continue        # dup refers to the index of an earlier send
            out.append(dict(case, script=sc[:i] + sc[i + 1:]))
    # drop the second wave / one of its calls
    if case.get("wave2"):
        out.append(dict(case, wave2=[]))
        out.append(dict(case, wave2=case["wave2"][:-1]))
    # drop the last call (arrival indices >= n-1 disappear from the script)
    if n > 1:
        sc2 = []
        for a in sc:
            a = dict(a)
            if a["a"] == "recv":
                a["n"] = min(a["n"], n - 1)
            if a["a"] == "reply" and a["j"] >= n - 1:
                continue
            if a["a"] == "dup":
                continue
            sc2.append(a)
        c2 = dict(case, calls=case["calls"][:-1], script=sc2)
        slow = sum(1 for x in c2["calls"] if x["kind"] not in ("read", "write"))
        nrep = sum(1 for a in sc2 if a["a"] == "reply")
        if case.get("fault") != "stall" or nrep <= len(c2["calls"]) - slow - 1:
            out.append(c2)
    return [clean(c) for c in out]


def codec_candidates(case):
    out = []
    if case["k"] == "write":
        m = case["msg"]
        d = bytes.fromhex(m["data"])
        if len(d) > 0:
            out.append(dict(case, msg=dict(m, data=d[:len(d) // 2].hex())))
        for f in ("seq", "type", "off", "size"):
            if m[f] not in (0, 1):
                out.append(dict(case, msg=dict(m, **{f: 1})))
    else:
        s = bytes.fromhex(case["stream"])
        if len(s) > 1:
            out.append(dict(case, stream=s[:len(s) // 2].hex()))
            out.append(dict(case, stream=s[:-1].hex()))
            out.append(dict(case, stream=s[len(s) // 2:].hex()))
    return [clean(c) for c in out]


def serve_candidates(case):
    out = []
    n = len(case["reqs"])
    base = dict(case)
    if case["tail"]:
        out.append(dict(base, tail="", tailkind="none"))
    if case["mode"] != "seq":
        out.append(dict(base, mode="seq"))
    if n > 1:
        out.append(dict(base, reqs=case["reqs"][:n // 2], oscript=case["oscript"][:n // 2]))
        out.append(dict(base, reqs=case["reqs"][n // 2:], oscript=case["oscript"][n // 2:]))
        for i in range(min(n, 24)):
            out.append(dict(base, reqs=case["reqs"][:i] + case["reqs"][i + 1:], oscript=case["oscript"][:i] + case["oscript"][i + 1:]))
    if any(a["delay"] for a in case["oscript"]):
        out.append(dict(base, oscript=[dict(a, delay=0) for a in case["oscript"]]))
    for i, f in enumerate(case["reqs"][:8]):
        d = bytes.fromhex(f["data"])
        if len(d) > 2:
            g = dict(f, data=d[:2].hex())
            if f["type"] == T_WRITE and f["size"] == len(d):
                g["size"] = 2
            a = dict(case["oscript"][i])
            a["count"] = min(a["count"], 1) if f["type"] == T_WRITE else a["count"]
            out.append(dict(base, reqs=case["reqs"][:i] + [g] + case["reqs"][i + 1:], oscript=case["oscript"][:i] + [a] + case["oscript"][i + 1:]))
        if f["type"] == T_READ and f["size"] > 4:
            g = dict(f, size=4)
            a = dict(case["oscript"][i])
            a["count"] = min(a["count"], 4)
            a["fill"] = min(a["fill"], 4)
            out.append(dict(base, reqs=case["reqs"][:i] + [g] + case["reqs"][i + 1:], oscript=case["oscript"][:i] + [a] + case["oscript"][i + 1:]))
        if f["off"] not in (0, 4096):
            out.append(dict(base, reqs=case["reqs"][:i] + [dict(f, off=4096)] + case["reqs"][i + 1:]))
    return [clean(c) for c in out]


def shrink(ctx, binpath, case, kind, rounds=5, what=None):
    cur = clean(case)
    if cur["k"] == "serve":
        rounds = 12
    for r in range(rounds):
        cands = (loop_candidates(cur) if cur["k"] == "loop" else codec_candidates(cur) if cur["k"] in ("write", "read")
                 else serve_candidates(cur) if cur["k"] == "serve" else [])
        if not cands:
            break
        cands = cands[:40]
        findings, _, _ = evaluate(ctx, binpath, cands, tag="shr%d" % r)
        hit = sorted(set(f["case"] for f in findings if f["kind"] == kind and (what is None or f["what"] == what)
                         and not f.get("known_key")))
        if not hit:
            break
        cur = clean(cands[hit[0]])
    return cur
