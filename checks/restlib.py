"""C14 machinery (model: coq/theories/Rest): proof layer restricted to the Rest files, the
translator run (harness/cmd/restgen -> generated Handlers.v -> coqc), the request generator for
harness/cmd/restfuzz, shrinking and the matching of known findings."""
import base64, json, os, re, sys
sys.path.insert(0, os.path.join(os.path.dirname(os.path.abspath(__file__)), "..", "bin"))
import vlib

COQ_FILES = ["Rest/Lang.v", "Rest/Proofs.v"]          # in dependency order; Properties/C14.v follows
GEN_TAIL = """
(* every translated handler with the checker's verdict (None = accepted) *)
Definition verdicts := Eval vm_compute in map (fun h => (fst h, why (snd h))) named_handlers.
Redirect "%(out)s" Print verdicts.
"""
GEN_LEMMA = """
(* the proof obligation regenerated from the source: the verified checker accepts every handler *)
Lemma handlers_ok : forallb check handlers = true.
Proof. vm_compute; reflexivity. Qed.

(* hence (C14_handlers_lock_safe) every execution of every translated handler is lock-safe *)
Theorem all_handlers_lock_safe : forall p, In p handlers -> forall o H', handler_exec p o H' -> nofault o /\\ H' = [].
Proof. exact (handlers_safe handlers handlers_ok). Qed.
Print Assumptions all_handlers_lock_safe.
"""
GEN_LEMMA_EXCEPT = """
(* handlers rejected by the checker on this tree (reported separately): *)
Definition rejected : list string := [%(names)s].
Definition accepted_handlers : list stmt :=
  map snd (filter (fun h => negb (existsb (String.eqb (fst h)) rejected)) named_handlers).
Lemma accepted_handlers_ok : forallb check accepted_handlers = true.
Proof. vm_compute; reflexivity. Qed.
Theorem accepted_handlers_lock_safe : forall p, In p accepted_handlers -> forall o H', handler_exec p o H' -> nofault o /\\ H' = [].
Proof. exact (handlers_safe accepted_handlers accepted_handlers_ok). Qed.
Print Assumptions accepted_handlers_lock_safe.
"""


# --------------------------------------------------------------------------- proof layer

def lint_own():
    bad = []
    files = [os.path.join(vlib.COQ, "theories", f) for f in COQ_FILES] + [vlib.coq_property_file("C14")]
    for path in files:
        txt = vlib.strip_coq_comments(open(path).read())
        for i, line in enumerate(txt.split("\n"), 1):
            m = vlib.FORBIDDEN.search(line)
            if m:
                bad.append("%s:%d: %s" % (os.path.relpath(path, vlib.VERIF), i, m.group(0)))
    return bad


def _stale(v):
    vo = v[:-2] + ".vo"
    return (not os.path.exists(vo)) or os.path.getmtime(vo) < os.path.getmtime(v)


def proof_layer(ctx):
    """L1 for C14 without `make` (compiles only Rest/*.v when stale, then re-checks Properties/C14.v)."""
    info = dict(obligations=0, discharged=0, theorems=[], ok=True, why="", assumptions={})
    bad = lint_own()
    if bad:
        info.update(ok=False, why="forbidden construct: " + "; ".join(bad[:5]))
        return info
    stale = False
    for f in COQ_FILES:
        v = os.path.join(vlib.COQ, "theories", f)
        if stale or _stale(v) or ctx.tier == "thorough":
            stale = True
            rc, out = vlib.sh(["coqc", "-Q", "theories", "Jiva", "-w", "-notation-overridden,-deprecated-hint-without-locality",
                               os.path.join("theories", f)], cwd=vlib.COQ, timeout=900)
            if rc != 0:
                info.update(ok=False, why="%s does not compile:\n%s" % (f, out[-2500:]))
                return info
    for dep in ("Srv/Model.v", "Srv/Proofs.v"):
        if not os.path.exists(os.path.join(vlib.COQ, "theories", dep[:-2] + ".vo")):
            ok, log = vlib.coq_build(pid="C14")
            if not ok:
                info.update(ok=False, why="coq development does not build:\n" + log[-2500:])
                return info
            break
    r = vlib.coq_check_property("C14")
    info["theorems"] = r["theorems"]
    info["assumptions"] = r["assumptions"]
    info["obligations"] = len(r["theorems"])
    info["discharged"] = len([t for t in r["theorems"] if r["assumptions"].get(t) == "closed"]) if r["ok"] else 0
    if not r["ok"]:
        info.update(ok=False, why="Properties/C14.v does not check:\n%s" % r["log"][-2500:])
    return info


# --------------------------------------------------------------------------- translator + coqc

def translate(ctx, genbin):
    """Run the translator on vlib.REPO, compile the generated file. Returns dict(ok, why, meta,
    verdicts={name: None|reason}, lemma_ok, n)."""
    vfile = os.path.join(ctx.work, "Handlers.v")
    jfile = os.path.join(ctx.work, "handlers.json")
    rc, out = vlib.sh([genbin, vfile, jfile], env=dict(vlib.GOENV, JIVA_REPO=vlib.REPO), timeout=300)
    if rc != 0:
        return dict(ok=False, why="translator failed (rc=%d): %s" % (rc, out[-2000:]))
    meta = json.load(open(jfile))
    base = open(vfile).read()
    vout = os.path.join(ctx.work, "verdicts")
    with open(vfile, "w") as f:
        f.write(base + GEN_TAIL % dict(out=vout) + GEN_LEMMA)
    rc, out = vlib.sh(["coqc", "-Q", os.path.join(vlib.COQ, "theories"), "Jiva", "-w", "-all", vfile], cwd=ctx.work, timeout=900)
    if not os.path.exists(vout + ".out"):
        return dict(ok=False, why="generated Handlers.v does not compile:\n" + out[-2500:], meta=meta)
    txt = " ".join(open(vout + ".out").read().split())
    verdicts = {}
    for m in re.finditer(r'\("((?:[^"]|"")*)",\s*(None|Some\s*\(?((?:[^()]|\([^()]*\))*)\)?)\)', txt):
        name = m.group(1).replace('""', '"')
        verdicts[name] = None if m.group(2) == "None" else " ".join(m.group(3).split())
    res = dict(ok=True, why="", meta=meta, verdicts=verdicts, lemma_ok=(rc == 0), n=len(verdicts), file=vfile,
               assumptions_closed=("Closed under the global context" in out), log=out[-1500:])
    rejected = sorted(k for k, v in verdicts.items() if v is not None)
    if len(verdicts) != len(meta["roots"]):
        res.update(ok=False, why="verdict list (%d) does not match the translated roots (%d)" % (len(verdicts), len(meta["roots"])))
        return res
    if rejected and not res["lemma_ok"]:
        # keep the proof for the handlers the checker accepts
        v2 = os.path.join(ctx.work, "HandlersAccepted.v")
        names = "; ".join('"%s"' % n.replace('"', '""') for n in rejected)
        with open(v2, "w") as f:
            f.write(base + GEN_LEMMA_EXCEPT % dict(names=names))
        rc2, out2 = vlib.sh(["coqc", "-Q", os.path.join(vlib.COQ, "theories"), "Jiva", "-w", "-all", v2], cwd=ctx.work, timeout=900)
        res["accepted_lemma_ok"] = (rc2 == 0 and "Closed under the global context" in out2)
        if rc2 != 0:
            res["log"] = out2[-1500:]
    elif not rejected and not res["lemma_ok"]:
        res.update(ok=False, why="handlers_ok fails although no handler is rejected:\n" + out[-2000:])
    return res


# --------------------------------------------------------------------------- request generator

METHODS = ["GET", "POST", "PUT", "DELETE", "PATCH"]
BODY_KINDS = ["valid", "empty", "truncated", "wrongtype", "degenerate", "big", "deep"]
ID_KINDS = ["valid", "invalid", "wrong", "empty"]

REPLICA_STATES = [dict(kind="initial"), dict(kind="closed"), dict(kind="open"), dict(kind="dirty", snaps=0),
                  dict(kind="dirty", snaps=2), dict(kind="rebuilding")]

CREATED = "2026-01-01T00:00:00Z"


def controller_states(rng):
    def chain(n):
        return ["volume-head-009.img"] + ["volume-snap-c%d.img" % i for i in range(n - 1, 0, -1)]
    sts = [
        dict(kind="no-replica", rf=3, spare=2),
        dict(kind="no-replica-rf1", rf=1, spare=2),
        dict(kind="rf1-attached", rf=1, spare=2, replicas=[dict(mode="RW")]),
        dict(kind="rf3-attached", rf=3, spare=1, snaps=2, replicas=[dict(mode="RW"), dict(mode="RW"), dict(mode="RW")]),
        dict(kind="degraded", rf=3, spare=1, replicas=[dict(mode="RW"), dict(mode="RW")]),
        dict(kind="degraded-err", rf=3, spare=1, replicas=[dict(mode="RW"), dict(mode="RW"), dict(mode="ERR")]),
        dict(kind="rebuilding", rf=3, spare=1, replicas=[dict(mode="RW"), dict(mode="WO")]),
        # a replica whose address is an IPv6 literal (accepted by the controller; code that builds URLs from
        # replica addresses has to cope with it)
        dict(kind="rf1-ipv6-address", rf=1, spare=1, replicas=[dict(mode="RW", ip="[::1]")]),
    ]
    # rebuilding with the chains the two replicas report at the moment the request arrives
    for _ in range(2):
        a, b = rng.randint(1, 4), rng.randint(1, 4)
        sts.append(dict(kind="rebuilding-chains-%d-%d" % (a, b), rf=3, spare=1,
                        replicas=[dict(mode="RW", chain=chain(a)), dict(mode="WO", chain=chain(b))]))
    return sts


def action_of(q):
    m = re.search(r"action=([A-Za-z]+)", q or "")
    return m.group(1) if m else ""


def valid_body(target, path, query, rng, nrep=2):
    a = action_of(query)
    k = rng.randint(0, 3)
    if target == "controller":
        if a == "start":
            return {"replicas": ["{addr0}"]}
        if a in ("snapshot", "deleteSnapshot"):
            return {"name": "c%d" % k}
        if a == "revert":
            return {"name": "c%d" % k}
        if a == "resize":
            return {"name": "vol", "size": str((k + 1) << 30)}
        if a == "setlogging":
            return {"logtofile": {"enable": False, "maxlogfilesize": 10, "retentionperiod": 1, "maxbackups": 1}}
        if path == "/v1/register":
            return {"Address": "{ip%d}" % rng.randint(0, 1), "UUID": "u%d" % k, "RevCount": str(k), "RepType": "Backend",
                    "RepState": "closed", "UpTime": 1000}
        if path in ("/v1/replicas", "/v1/quorumreplicas"):
            return {"address": "{addr%d}" % rng.randint(0, 3)}
        if path.startswith("/v1/replicas/"):
            return {"mode": rng.choice(["RW", "ERR", "WO"])} if not a else {}
        if path == "/v1/journal":
            return {"limit": 10}
        if path == "/timeout":
            return {"timeout": "3"}
        return {}
    snap = "volume-snap-s%d.img" % (k % 2)
    return {
        "create": {"size": "32768"}, "setrebuilding": {"rebuilding": bool(k % 2)},
        "snapshot": {"name": "n%d" % k, "usercreated": True, "created": CREATED},
        "revert": {"name": snap, "created": CREATED}, "removedisk": {"name": snap},
        "replacedisk": {"target": snap, "source": "volume-snap-x.img"}, "prepareremovedisk": {"name": snap},
        "setreplicamode": {"mode": rng.choice(["RW", "WO"])}, "setrevisioncounter": {"counter": str(5 + k)},
        "setcheckpoint": {"snapshotName": snap}, "resize": {"name": "x", "size": str(65536 * (k + 1))},
        "updatecloneinfo": {"snapname": "s0", "revisioncounter": "3"},
        "setlogging": {"logtofile": {"enable": False, "maxlogfilesize": 10, "retentionperiod": 1, "maxbackups": 1}},
        "start": {"Action": "start"},
    }.get(a, {})


def wrong_types(v, rng):
    if isinstance(v, dict):
        if not v or rng.random() < 0.15:
            return rng.choice([[], "x", None, 7, [[]]])
        return {k: wrong_types(x, rng) for k, x in v.items()}
    if isinstance(v, str):
        return rng.choice([5, [], {}, None, True, -1.5e300])
    if isinstance(v, bool):
        return rng.choice(["yes", 3, []])
    if isinstance(v, (int, float)):
        return rng.choice(["n", [], {"a": 1}, None])
    if isinstance(v, list):
        return rng.choice(["x", 1, {}, [1, None, {}]])
    return "x"


HUGE = 9223372036854775808          # 2^63: overflows int64


def _set(v, path, x):
    """copy of v with the value at path (list of keys) replaced by x"""
    if not path:
        return x
    c = dict(v)
    c[path[0]] = _set(v[path[0]], path[1:], x)
    return c


def _fields(v, pre=()):
    if isinstance(v, dict):
        for k in sorted(v):
            yield pre + (k,), v[k]
            for f in _fields(v[k], pre + (k,)):
                yield f


def degenerate_variants(valid):
    """Bodies of the VALID shape (decodable into the handler's input type, or differing from it in one
    field only) with degenerate values: every list field [], [""] and [null]; every string field "" (and,
    where the API carries a number in a string, "0", "-1", a 24-digit number, "abc", "-4096", 2^62); every number 0, -1,
    2^63, -2^63; every boolean flipped; every field null; every field dropped; all fields null; the empty
    object; unknown extra fields. Deterministic, in a fixed order."""
    out = []
    if not isinstance(valid, dict):
        return [valid]
    for path, x in _fields(valid):
        path = list(path)
        vs = [None]
        if isinstance(x, list):
            vs += [[], [""], [None]]
        elif isinstance(x, bool):
            vs += [not x]
        elif isinstance(x, (int, float)):
            vs += [0, -1, HUGE, -HUGE]
        elif isinstance(x, str):
            vs += [""]
            if x.lstrip("-").isdigit():
                # also values that pass a "multiple of the sector size" test: negative, and beyond any allocation
                vs += ["0", "-1", "9" * 24, "abc", "-4096", str(1 << 62)]
            else:
                vs += [" ", "/", "../" + x]
        elif isinstance(x, dict):
            vs += [{}]
        for nv in vs:
            out.append(_set(valid, path, nv))
        if len(path) == 1:
            out.append({k: v for k, v in valid.items() if k != path[0]})       # field absent
    out.append({k: None for k in valid})
    out.append({})
    out.append(dict(valid, zzUnknownField=1, zzNested={"a": [1, None, {"b": ""}]}))               # unknown extra fields
    out.append(dict(valid, id="x", type="y", actions={"x": "y"}, links={}))                       # the embedded Resource's own fields
    seen, uniq = set(), []
    for o in out:
        k = json.dumps(o, sort_keys=True)
        if k not in seen:
            seen.add(k)
            uniq.append(o)
    return uniq


def make_body(kind, valid, rng, big_n=1 << 20, deep_n=100000, variant=None):
    """returns dict(b=...) or dict(bgen=...)"""
    js = json.dumps(valid)
    if kind == "valid":
        return dict(b=js)
    if kind == "degenerate":
        vs = degenerate_variants(valid)
        return dict(b=json.dumps(vs[(rng.randrange(len(vs)) if variant is None else variant) % len(vs)]))
    if kind == "empty":
        return dict(b="")
    if kind == "truncated":
        if len(js) <= 2:
            return dict(b=rng.choice(["{", "{\"a\":", "[", "\""]))
        return dict(b=js[:rng.randint(1, len(js) - 1)])
    if kind == "wrongtype":
        return dict(b=json.dumps(wrong_types(valid, rng)))
    if kind == "big":
        skeys = [k for k, v in valid.items() if isinstance(v, str)] if isinstance(valid, dict) else []
        if skeys and rng.random() < 0.7:
            k = rng.choice(skeys)
            rest = {a: b for a, b in valid.items() if a != k}
            pre = json.dumps(rest)[:-1] + (", " if rest else "") + json.dumps(k) + ": \""
            return dict(bgen=dict(kind="big", n=big_n, pre=pre, post="\"}"))
        return dict(bgen=dict(kind="big", n=big_n, pre="", post=""))
    if kind == "deep":
        return dict(bgen=dict(kind=rng.choice(["deep", "deepobj"]), n=deep_n, pre="", post=""))
    raise ValueError(kind)


def make_id(kind, target, path, rng, idx=None):
    isrep = "/replicas/" in path
    if kind == "valid":
        if target == "replica":
            return "1"
        return "{rep%d}" % (rng.randint(0, 2) if idx is None else idx) if isrep else "{vol}"
    if kind == "invalid":
        return rng.choice(["%zz", "!!!", "a" * 5000, "%00", "..%2f..%2fetc", "dm9s=", "é".encode().hex()])
    if kind == "wrong":
        if target == "replica":
            return rng.choice(["2", "0", "-1", "vol"])
        return base64.b64encode(rng.choice([b"other", b"tcp://10.9.9.9:9502", b"", b"tcp://127.0.0.1:1"])).decode() or "AA=="
    return ""


class Gen:
    def __init__(self, rng, routes, quick=True):
        self.rng = rng
        self.routes = {}
        for t in ("controller", "replica"):
            rs = [r for r in routes[t] if not r["path"].startswith("/debug/")]
            rs.sort(key=lambda r: (r["path"], ",".join(r["queries"] or []), ",".join(r["methods"] or [])))
            self.routes[t] = rs
            for r in rs:
                for m in (r["methods"] or []):
                    REGISTERED.add((t, m, r["path"], "&".join(r["queries"] or [])))
        self.to = 2500 if quick else 5000
        self.quick = quick

    def req(self, target, route, method=None, body="valid", idk="valid", idx=None, valid=None, variant=None):
        rng = self.rng
        m = method or (route["methods"] or ["GET"])[0]
        q = "&".join(route["queries"] or [])
        path = route["path"]
        if "{id}" in path:
            path = path.replace("{id}", make_id(idk, target, path, rng, idx))
        else:
            idk = "none"
        r = dict(m=m, p=path, to=self.to, tag="%s|%s|%s|%s|%s" % (m, route["path"], q, body, idk))
        if q:
            r["q"] = q
        big = (1 << 20) if (not self.quick or rng.random() < 0.3) else (1 << 16)
        r.update(make_body(body, valid if valid is not None else valid_body(target, route["path"], q, rng), rng, big_n=big,
                           variant=variant))
        return r

    def route(self, target, path, query=""):
        for r in self.routes[target]:
            if r["path"] == path and "&".join(r["queries"] or []) == query:
                return r
        return None

    def random_req(self, target, focus=None):
        rng = self.rng
        route = focus if (focus and rng.random() < 0.6) else rng.choice(self.routes[target])
        own = (route["methods"] or ["GET"])[0]
        method = own if rng.random() < 0.8 else rng.choice(METHODS)
        body = rng.choice(["valid"] * 5 + BODY_KINDS)
        idk = rng.choice(["valid"] * 6 + ID_KINDS)
        return self.req(target, route, method, body, idk)

    def states(self, target):
        return REPLICA_STATES if target == "replica" else controller_states(self.rng)

    def case(self, target, state, reqs, load=False):
        c = dict(target=target, state=state, reqs=reqs)
        if load:
            c["load"] = True
        return c

    def matrix(self, target, states=None, routes=None, full=False):
        """every route x its own method x body kinds x id kinds (one state each, rotating), and every
        route x the foreign methods once; packed eight requests per child."""
        rng = self.rng
        sts = states or self.states(target)
        reqs = []
        for route in (routes or self.routes[target]):
            for b in BODY_KINDS:
                for i in (ID_KINDS if "{id}" in route["path"] else ["valid"]):
                    if not full and b != "valid" and i != "valid" and rng.random() < 0.5:
                        continue
                    reqs.append(self.req(target, route, None, b, i))
            for m in METHODS:
                if m not in (route["methods"] or []):
                    reqs.append(self.req(target, route, m, rng.choice(BODY_KINDS), "valid"))
        rng.shuffle(reqs)
        cases = []
        k = 0
        for i in range(0, len(reqs), 8):
            cases.append(self.case(target, sts[k % len(sts)], reqs[i:i + 8]))
            k += 1
        return cases

    def per_state(self, target):
        """every route with a valid request in every state, each in its own fresh child (out-of-state
        requests; for the controller's /v1/replicas/{id} routes one request per attached replica),
        followed by one read of the object so that what the request left behind is exercised"""
        cases = []
        look = self.route(target, "/v1/replicas")
        for st in self.states(target):
            for r in self.routes[target]:
                idxs = [None]
                if target == "controller" and "/replicas/{id}" in r["path"]:
                    idxs = list(range(max(1, len(st.get("replicas") or []))))
                for idx in idxs:
                    cases.append(self.case(target, st, [self.req(target, r, idx=idx), self.req(target, look)]))
        return cases

    def action_routes(self, target):
        """every non-GET route (all actions of both routers, also those whose handler reads no body)"""
        return [r for r in self.routes[target] if (r["methods"] or ["GET"])[0] != "GET" and r["path"] != "/metrics"]

    def degenerate(self, target, all_states=False):
        """every action route x EVERY degenerate variant of its valid body, each alone in a fresh child in the
        route's primary states (controller: no replica attached, and rf RW replicas attached; replica: open and
        dirty); additionally packed four per child in the other states (rotating in the quick tier)."""
        cases = []
        sts = self.states(target)
        prim = [s for s in sts if s["kind"] in (("no-replica", "rf3-attached") if target == "controller" else ("open", "dirty"))]
        prim = [s for i, s in enumerate(prim) if s["kind"] not in [p["kind"] for p in prim[:i]]]
        others = [s for s in sts if s not in prim]
        look = self.route(target, "/v1/replicas")
        k = 0
        for r in self.action_routes(target):
            q = "&".join(r["queries"] or [])
            base = valid_body(target, r["path"], q, self.rng)
            n = len(degenerate_variants(base))
            for st in prim:
                for v in range(n):
                    cases.append(self.case(target, st, [self.req(target, r, body="degenerate", valid=base, variant=v, idx=1 if st.get("replicas") else 0),
                                                        self.req(target, look)]))
            for st in (others if all_states else [others[(k + j) % len(others)] for j in range(2)]):
                for v0 in range(0, n, 4):
                    cases.append(self.case(target, st, [self.req(target, r, body="degenerate", valid=base, variant=v)
                                                        for v in range(v0, min(n, v0 + 4))]))
            k += 1
        return cases

    def split(self, target):
        """a state change racing with a request that already passed the router's state gate: the headers of an
        action request are sent (its handler is dispatched and waits for the body), a second request that changes
        the state (replica: close / delete; controller: delete of an attached replica / shutdown) is served, then
        the body arrives; every action route that reads a body x the states in which it is allowed x every such
        second request, each in a fresh child, followed by a read of the object"""
        cases = []
        look = self.route(target, "/v1/replicas")
        if target == "replica":
            sts = [s for s in self.states(target) if s["kind"] in ("open", "dirty", "rebuilding")]
            mids = [self.req(target, self.route(target, "/v1/replicas/{id}", "action=close")),
                    self.req(target, [r for r in self.routes[target] if r["path"] == "/v1/replicas/{id}" and "DELETE" in (r["methods"] or [])][0])]
        else:
            sts = [s for s in self.states(target) if s.get("replicas")]
            seen = []
            sts = [s for s in sts if s["kind"] not in seen and not seen.append(s["kind"])][:3]
            dele = [r for r in self.routes[target] if r["path"] == "/v1/replicas/{id}" and "DELETE" in (r["methods"] or [])][0]
            mids = [self.req(target, dele, idx=0), self.req(target, dele, idx=1),
                    self.req(target, self.route(target, "/v1/volumes/{id}", "action=shutdown"))]
        for r in self.action_routes(target):
            q = "&".join(r["queries"] or [])
            base = valid_body(target, r["path"], q, self.rng)
            if not base:
                continue
            for st in sts:
                for mid in mids:
                    idxs = [None]
                    if target == "controller" and "/replicas/{id}" in r["path"]:
                        idxs = [0, 1]
                    for idx in idxs:
                        main = self.req(target, r, valid=base, idx=idx)
                        main["mid"] = dict(mid)
                        cases.append(self.case(target, st, [main, self.req(target, look)]))
        return cases

    def dups(self):
        """controller: every action route with a valid body sent twice at the same moment (a retry overlapping the
        original; connecting to a replica takes 40 ms during which the controller lock is released), followed by a
        mode request for the spare replica the bodies name and a read of the object; replica: the same without the
        mode request"""
        cases = []
        for target in ("controller", "replica"):
            sts = self.states(target)
            sts = [s for s in sts if s["kind"] in (("no-replica", "rf3-attached", "degraded") if target == "controller" else ("initial", "closed", "open"))]
            seen = []
            sts = [s for s in sts if s["kind"] not in seen and not seen.append(s["kind"])]
            look = self.route(target, "/v1/replicas")
            put = [r for r in self.routes[target] if r["path"] == "/v1/replicas/{id}" and "PUT" in (r["methods"] or [])]
            for r in self.action_routes(target):
                for st in sts:
                    nrep = len(st.get("replicas") or [])
                    valid = {"address": "{addr%d}" % nrep} if r["path"] in ("/v1/replicas", "/v1/quorumreplicas") else None
                    main = self.req(target, r, idx=(nrep if target == "controller" and "/replicas/{id}" in r["path"] else None), valid=valid)
                    main["dup"] = True
                    reqs = [main]
                    if target == "controller" and put:
                        reqs.append(self.req(target, put[0], idx=nrep, valid={"mode": "RW"}))
                    reqs.append(self.req(target, look))
                    cases.append(self.case(target, st, reqs))
        return cases

    def under_load(self):
        """controller: every route with a valid request while four goroutines issue I/O through the controller (a
        writer is almost always waiting for the controller lock), each in a fresh child with all rf replicas RW,
        followed by a read of the object"""
        cases = []
        target = "controller"
        sts = [s for s in self.states(target) if s["kind"] == "rf3-attached"][:1] or self.states(target)[:1]
        look = self.route(target, "/v1/replicas")
        for r in self.routes[target]:
            idxs = [None]
            if "/replicas/{id}" in r["path"]:
                idxs = [1]
            for idx in idxs:
                cases.append(self.case(target, sts[0], [self.req(target, r, idx=idx), self.req(target, r, idx=idx), self.req(target, look)], load=True))
        return cases

    def chain_matrix(self):
        """controller, one RW and one WO replica: every pair of chain lengths (0..4) x (0..4) the two may
        report at the moment a rebuild request arrives (0: a replica that is closed / restarting reports no
        chain) x {preparerebuild, verifyrebuild} x both replicas"""
        cases = []
        chain = lambda n: (["volume-head-009.img"] + ["volume-snap-c%d.img" % i for i in range(n - 1, 0, -1)]) if n else []
        for a in range(0, 5):
            for b in range(0, 5):
                st = dict(kind="rebuilding-chains-%d-%d" % (a, b), rf=3, spare=1,
                          replicas=[dict(mode="RW", chain=chain(a)), dict(mode="WO", chain=chain(b))])
                for act in ("preparerebuild", "verifyrebuild"):
                    r = self.route("controller", "/v1/replicas/{id}", "action=" + act)
                    if r is None:
                        continue
                    for idx in (0, 1):
                        cases.append(self.case("controller", st, [self.req("controller", r, idx=idx),
                                                                  self.req("controller", self.route("controller", "/v1/replicas"))]))
        return cases

    def repeats(self, target, routes=None):
        """the same request repeated up to 8 times (repeated action=start, verifyrebuild, ...)"""
        cases = []
        sts = self.states(target)
        for route in (routes or self.routes[target]):
            if (route["methods"] or ["GET"])[0] == "GET":
                continue
            for st in sts:
                r = self.req(target, route)
                cases.append(self.case(target, st, [dict(r) for _ in range(8)]))
        return cases

    def scenarios(self, target, n):
        """valid workflows (bootstrap through the API, add + verify, snapshot ...) with random requests
        spliced in, so that deeper states are reached through the API itself"""
        rng = self.rng
        cases = []
        for _ in range(n):
            if target == "controller":
                R = lambda path, q="", **kw: self.req(target, self.route(target, path, q), **kw)
                reg = lambda i, rev: R("/v1/register", valid={"Address": "{ip%d}" % i, "UUID": "u%d" % i, "RevCount": str(rev),
                                                              "RepType": "Backend", "RepState": "closed", "UpTime": 1000})
                flow = [reg(0, 9), reg(1, 3), R("/v1/volumes/{id}", "action=start", valid={"replicas": ["{addr0}"]}),
                        R("/v1/replicas", valid={"address": "{addr1}"}), R("/v1/replicas/{id}", "action=verifyrebuild", idx=1),
                        R("/v1/replicas", valid={"address": "{addr2}"}), R("/v1/replicas/{id}", "action=verifyrebuild", idx=2),
                        R("/v1/volumes/{id}", "action=snapshot", valid={"name": "c1"})]
                rf = rng.choice([1, 3])
                if rf == 1:
                    flow = [flow[0], flow[2], flow[7]]
                st = dict(kind="bootstrap-rf%d" % rf, rf=rf, spare=4)
            else:
                R = lambda q, **kw: self.req(target, self.route(target, "/v1/replicas/{id}", "action=" + q), **kw)
                flow = [R("create"), R("open"), R("setreplicamode", valid={"mode": "RW"}), R("snapshot"), R("setrebuilding"), R("close")]
                st = dict(kind="initial")
            k = rng.randint(1, len(flow))
            reqs = flow[:k]
            while len(reqs) < 8 and rng.random() < 0.7:
                reqs.insert(rng.randint(1, len(reqs)), self.random_req(target))
            cases.append(self.case(target, st, reqs[:8]))
        return cases

    def random_cases(self, target, n, focus=None):
        cases = []
        sts = self.states(target)
        for _ in range(n):
            st = self.rng.choice(sts)
            k = self.rng.randint(2, 8)
            cases.append(self.case(target, st, [self.random_req(target, focus) for _ in range(k)]))
        return cases


# --------------------------------------------------------------------------- running / shrinking

def run_cases(ctx, fuzzbin, cases, tag="fz", workers=14):
    for i, c in enumerate(cases):
        c["id"] = i
    outs = vlib.run_harness(ctx, fuzzbin, cases, extra_args=[workers], netns=True, tag=tag, workers=1, timeout=3000)
    return [outs[i] for i in range(len(cases))]


def trim(case, out):
    """the case cut after the request at which the violation showed"""
    at = out.get("at", -1)
    if at is None or at < 0:
        at = len(case["reqs"]) - 1
    return dict(case, reqs=[dict(r) for r in case["reqs"][:at + 1]])


REGISTERED = set()     # (target, method, path template, query) of the real routers, filled by Gen


def signature(case, out):
    """what identifies a violation class: kind + the route of the request at which it showed (the action
    query counts only where the router registers it for that method and path: DELETE /v1/replicas/1?action=x
    is the route DELETE /v1/replicas/{id})"""
    at = out.get("at", -1)
    r = case["reqs"][at] if 0 <= at < len(case["reqs"]) else case["reqs"][-1]
    path = re.sub(r"/replicas/[^/?]*", "/replicas/{id}", re.sub(r"/volumes/[^/?]*", "/volumes/{id}", r["p"]), count=1)
    act = action_of(r.get("q", ""))
    if act and REGISTERED and (case["target"], r["m"], path, "action=" + act) not in REGISTERED:
        act = ""
    return (case["target"], out["violation"], r["m"], path, act)


def shrink(ctx, fuzzbin, case, out, rounds=8):
    """greedy: drop requests before the failing one while the same class of violation persists;
    then try simpler states."""
    sig = signature(case, out)
    cur, cur_out = trim(case, out), out
    for rd in range(rounds):
        n = len(cur["reqs"])
        if n <= 1:
            break
        cands = []
        for i in range(n - 1):
            cands.append(dict(cur, reqs=cur["reqs"][:i] + cur["reqs"][i + 1:]))
        outs = run_cases(ctx, fuzzbin, [json.loads(json.dumps(c)) for c in cands], tag="shr%d" % rd)
        hit = None
        for c, o in zip(cands, outs):
            if o.get("violation") and signature(c, o) == sig:
                hit = (trim(c, o), o)
                break
        if not hit:
            break
        cur, cur_out = hit
    return cur, cur_out


def describe(case, out):
    at = out.get("at", -1)
    res = out.get("res") or []
    r = res[at] if 0 <= at < len(res) else {}
    what = dict(violation=out.get("violation"), at_request=at, child_exit=out.get("exit"),
                status=r.get("st"), error=r.get("err"), panic=r.get("panic"), probe_ok=r.get("probe"), lock=r.get("lock"))
    if out.get("stderr"):
        what["child_stderr"] = out["stderr"][:600]
    if r.get("stack"):
        what["stack"] = r["stack"][:1500]
    return what


# --------------------------------------------------------------------------- known findings

def _last(case, out):
    at = out.get("at", -1)
    return case["reqs"][at] if 0 <= at < len(case["reqs"]) else case["reqs"][-1]


def _panic(out):
    at = out.get("at", -1)
    res = out.get("res") or []
    return (res[at].get("panic") or "") if 0 <= at < len(res) else ""


# key -> (predicate on the MINIMIZED case and its observation, handler the static half names, fault the checker names)
KNOWN_PREDICATES = {
    # F2: body read error under `defer Unlock` + manual Unlock
    "deletesnapshot-double-unlock": dict(
        dyn=lambda c, o: c["target"] == "controller" and o["violation"] == "child-died"
        and "Unlock of unlocked RWMutex" in (o.get("stderr") or "")
        and _last(c, o)["m"] == "DELETE" and action_of(_last(c, o).get("q")) == "deleteSnapshot" and len(c["reqs"]) == 1,
        handler="controller/rest.Server.DeleteSnapshot", reason="RFault (FUnlock"),
    # F7: Server.Start sends on the 5-slot ActionChannel while holding the server lock
    "replica-start-send-under-lock": dict(
        dyn=lambda c, o: c["target"] == "replica" and o["violation"] in ("hang", "lock-held")
        and all(r["m"] == "POST" and action_of(r.get("q")) == "start" for r in c["reqs"]) and len(c["reqs"]) >= 6,
        handler="replica/rest.Server.StartReplica", reason="RFault (FSend"),
    # F8: VerifyRebuildReplica slices the WO chain with an index computed on the RW chain
    "verifyrebuild-slice-panic": dict(
        dyn=lambda c, o: c["target"] == "controller" and o["violation"] == "panic"
        and "slice bounds out of range" in _panic(o) and action_of(_last(c, o).get("q")) == "verifyrebuild",
        handler=None, reason=None),
    # F9: getQuorumReplica holds the controller lock and calls ListQuorumReplicas, which locks again
    "quorumreplica-relock": dict(
        dyn=lambda c, o: c["target"] == "controller" and o["violation"] in ("hang", "lock-held")
        and _last(c, o)["m"] == "POST" and _last(c, o)["p"] == "/v1/quorumreplicas",
        handler="controller/rest.Server.CreateQuorumReplica", reason="RFault (FRelock"),
}


def _snapshot_names(case):
    names = []
    for r in case["reqs"]:
        if r["m"] == "POST" and action_of(r.get("q")) == "snapshot":
            try:
                names.append(json.loads(r.get("b") or "null").get("name"))
            except Exception:
                names.append(None)
    return names


# F10: a replica snapshot whose name already exists fails AFTER createDisk's cleanup removed the files of the
# existing snapshot; the next snapshot of that name then links the head under it: parent cycle, DisplayChain spins
KNOWN_PREDICATES["replica-duplicate-snapshot-name"] = dict(
    dyn=lambda c, o: c["target"] == "replica" and o["violation"] in ("hang", "lock-held")
    and any(n is not None and _snapshot_names(c).count(n) >= 3 for n in _snapshot_names(c)),
    handler=None, reason=None)


# F11: PrepareRebuildReplica indexes chain[0] of both replicas without a length test
KNOWN_PREDICATES["preparerebuild-empty-chain-panic"] = dict(
    dyn=lambda c, o: c["target"] == "controller" and o["violation"] == "panic"
    and "index out of range" in _panic(o) and action_of(_last(c, o).get("q")) == "preparerebuild",
    handler=None, reason=None)


def known_dynamic(known_keys, case, out):
    for key in known_keys:
        p = KNOWN_PREDICATES.get(key)
        try:
            if p and p["dyn"](case, out):
                return key
        except Exception:
            pass
    return None


def known_static(known_keys, handler, reason):
    for key in known_keys:
        p = KNOWN_PREDICATES.get(key)
        if p and p["handler"] == handler and p["reason"] and (reason or "").startswith(p["reason"]):
            return key
    return None
