"""Generators, Coq-term printers and the run loop for the Ctl model (C02 C03 C04 C05 C09 C13 C18 …)."""
import json, os, sys, itertools
sys.path.insert(0, os.path.join(os.path.dirname(os.path.abspath(__file__)), "..", "bin"))
import vlib

KINDS = {"write": "KWrite", "writeap": "KWriteAp", "sync": "KSync", "unmap": "KUnmap", "read": "KRead",
         "snap": "KSnap", "setcp": "KSetCp", "chain": "KChain", "rev": "KRev", "revneg": "KRev", "setmodewo": "KSetModeWO",
         "setmoderw": "KSetModeRW", "setrev": "KSetRev", "resize": "KResize", "create": "KCreate",
         "size": "KSize", "clone": "KClone", "http": "KHttp", "signal": "KSignal", "alive": "KAlive",
         "feresize": "KFeResize"}
SIZE = 65536


def ev(k, **kw):
    d = dict(k=k)
    d.update(kw)
    return d


def fl(*pairs):
    return [dict(a=a, k=k) for a, k in pairs]


# ------------------------------------------------------------------ scripted prefixes

def boot(rf, leader=0, others=(), revs=None, fs_start=None):
    """register a quorum (the leader first, then the others, then further addresses up to the quorum),
    start from the leader, add + verify the others: all RW"""
    revs = revs or {}
    es = []
    need = rf // 2 + 1
    regs = [leader] + [o for o in others]
    x = 0
    while len(regs) < need:
        if x not in regs:
            regs.append(x)
        x += 1
    for a in regs[:max(need, 1)]:
        es.append(ev("register", a=a, uuid=a + 1, rev=revs.get(a, 1)))
    es.append(ev("start", addrs=[leader], fs=fs_start or []))
    for o in others:
        es += add(o)
    return es


def add(a, verify=True):
    es = [ev("addcheck", a=a), ev("addcommit", a=a)]
    if verify:
        es += [ev("syncdata", a=a), ev("verify", a=a)]
    return es


def world(n, size=SIZE, revs=None, chains=None, clone=None, cps=None, polls=None):
    revs = revs or {}
    chains = chains or {}
    clone = clone or {}
    cps = cps or {}
    polls = polls or {}
    return [dict(chain=chains.get(a, []), rev=revs.get(a, 1), size=size, clone=clone.get(a, "NA"), cp=cps.get(a, 0),
                 **({"polls": polls[a]} if polls.get(a) else {}))
            for a in range(n)]


class Gen:
    def __init__(self, rng):
        self.rng = rng
        self.wid = 0
        self.snap = 0
        # one fixed (revision count, rebuilding) assignment per replica for the whole history
        self.revs = [rng.randint(1, 5) for _ in range(8)]
        self.rebs = [rng.random() < 0.15 for _ in range(8)]

    def write(self, fs=None, off=None, ln=4096):
        self.wid += 1
        if off is None:
            off = self.rng.choice([0, 4096, 8192, SIZE - 4096])
        return ev("write", wid=self.wid, off=off, len=ln, fs=fs or [])

    def snapshot(self, fs=None):
        self.snap += 1
        return ev("snapshot", name=self.snap, fs=fs or [])

    def io_faults(self, addrs, p=0.25, kinds=("write", "writeap")):
        out = []
        for a in addrs:
            if self.rng.random() < p:
                out.append(dict(a=a, k=self.rng.choice(kinds)))
        return out

    def random_event(self, n):
        rng = self.rng
        a = rng.randrange(n)
        x = rng.random()
        allr = list(range(n))
        if x < 0.22:
            return self.write(self.io_faults(allr, 0.18))
        if x < 0.30:
            return ev("read", off=rng.choice([0, 4096]), len=4096, fs=self.io_faults(allr, 0.2, ("read",)))
        if x < 0.35:
            return ev("sync", fs=self.io_faults(allr, 0.2, ("sync",)))
        if x < 0.38:
            return ev("unmap", fs=self.io_faults(allr, 0.2, ("unmap",)))
        if x < 0.47:
            return ev("addcheck", a=a, fs=self.io_faults([a], 0.1, ("http",)) + self.io_faults(allr, 0.05, ("rev",)))
        if x < 0.57:
            return ev("addcommit", a=a, fs=self.io_faults(allr, 0.08, ("snap", "create", "setmodewo", "chain", "setcp")))
        if x < 0.60:
            return ev("syncdata", a=a)
        if x < 0.67:
            return ev("verify", a=a, fs=self.io_faults(allr, 0.06, ("http", "rev", "setmoderw", "setrev", "setcp", "chain")))
        if x < 0.72:
            return ev("remove", a=a)
        if x < 0.76:
            return ev("setmode", a=a, mode=rng.choice(["RW", "ERR", "ERR", "WO"]))
        if x < 0.82:
            return ev("monfire", a=a)
        if x < 0.87:
            return ev("monfail", a=a)
        if x < 0.93:
            return self.snapshot(self.io_faults(allr, 0.15, ("snap",)))
        if x < 0.95:
            return ev("resize", size=rng.choice([SIZE, SIZE * 2, SIZE // 2, SIZE * 4]),
                      fs=self.io_faults(allr, 0.15, ("resize",)))
        if x < 0.98:
            return ev("register", a=a, uuid=a + 1, rev=self.revs[a], reb=self.rebs[a])
        return ev("start", addrs=[a])

    def history(self, rf, n, length):
        """boot to a random healthy-ish membership, then random events"""
        rng = self.rng
        k = rng.randint(1, min(rf, n))
        others = list(range(1, k))
        es = boot(rf, 0, others)
        for _ in range(length):
            es.append(self.random_event(n))
        return es


def bootstrap_history(rng, rf, n):
    """C09: registrations in arbitrary order with repetitions, ties, rebuilding states, signal/probe
    failures, starts by leaders and non-leaders"""
    es = []
    revs = [rng.randint(1, 3) for _ in range(n)]
    rebs = [rng.random() < 0.2 for _ in range(n)]
    for _ in range(rng.randint(2, 7)):
        a = rng.randrange(n)
        x = rng.random()
        if x < 0.70:
            fs = []
            if rng.random() < 0.15:
                fs.append(dict(a=rng.randrange(n), k="signal"))
            if rng.random() < 0.08:
                fs.append(dict(a=rng.randrange(n), k="alive"))
            es.append(ev("register", a=a, uuid=(a + 1) if rng.random() < 0.9 else rng.randint(1, n), rev=revs[a],
                         reb=rebs[a], fs=fs))
        elif x < 0.92:
            es.append(ev("start", addrs=[a], fs=fl(*[(b, "create") for b in range(n) if rng.random() < 0.05])))
        else:
            es.append(ev("write", wid=1, off=0, len=4096))
    return es, revs


# ------------------------------------------------------------------ Coq printing
# (importing Ctl.Model leaves Z_scope open: every nat literal is annotated)

def z(v):
    return "(%d)%%Z" % v


def n(v):
    return "%d%%nat" % v


def fs_term(fs):
    return "[%s]" % "; ".join("(%s, %s)" % (n(f["a"]), KINDS[f["k"]]) for f in (fs or []))


def ev_term(e, ob=None):
    if e["k"] == "pair":
        return "Two (%s) (%s)" % (ev1_term(e["first"], ob), ev1_term(e["second"], ob))
    return "One (%s)" % ev1_term(e, ob)


def pair(first, second, gate):
    """`first` is held inside the replicas (gate write / snap) or inside a replica's HTTP answer (gate http)
    while `second` is issued"""
    return dict(k="pair", first=first, second=second, gate=gate)


def ev1_term(e, ob=None):
    k = e["k"]
    fs = fs_term(e.get("fs"))
    if k == "register":
        # the leader among equally good candidates depends on Go's map order: taken from the observation
        pick = -1
        if ob:
            starts = [a for a, st in (ob["signals"] or []) if st]
            pick = starts[-1] if starts else ob["maxrev"]
        return "Register %s %s %s %s %s %s" % (n(e["a"]), n(e.get("uuid", 0)), z(e.get("rev", 0)), "true" if e.get("reb") else "false", onat(pick, -1), fs)
    if k == "start":
        return "Start %s %s" % (lnat(e.get("addrs", [])), fs)
    if k == "addcheck":
        return "AddCheck %s %s" % (n(e["a"]), fs)
    if k == "addcommit":
        return "AddCommit %s %s" % (n(e["a"]), fs)
    if k == "verify":
        return "Verify %s %s" % (n(e["a"]), fs)
    if k == "remove":
        return "Remove %s %s" % (n(e["a"]), fs)
    if k == "setmode":
        return "SetMode %s %s" % (n(e["a"]), {"RW": "RW", "ERR": "ERR"}.get(e["mode"], "WO"))
    if k == "monfire":
        return "MonFire %s %s" % (n(e["a"]), fs)
    if k == "monfail":
        return "MonFail %s %s" % (n(e["a"]), fs)
    if k == "write":
        return "Write %s %s %s %s" % (n(e["wid"]), z(e["off"]), z(e["len"]), fs)
    if k == "sync":
        return "Sync %s" % fs
    if k == "unmap":
        return "Unmap %s" % fs
    if k == "read":
        order = ob["order"] if ob else []
        return "Read %s %s %s %s" % (z(e["off"]), z(e["len"]), lnat(order), fs)
    if k == "snapshot":
        return "Snapshot %s %s" % (n(e["name"]), fs)
    if k == "resize":
        return "Resize %s %s" % (z(e["size"]), fs)
    if k == "syncdata":
        return "SyncData %s" % n(e["a"])
    raise ValueError(e)


RES = {"ok": "ROk", "err": "RErr", "none": "RNone", "panic": "RPanicFake"}
RMODE = {"INIT": "RINIT", "WO": "RWO", "RW": "RRW"}
MODE = {"RW": "RW", "WO": "WO", "ERR": "ERR"}


def onat(v, none=0):
    return "None" if v == none else "(Some %s)" % n(v)


def lnat(l):
    return "[%s]" % "; ".join(n(x) for x in (l or []))


def rep_term(r):
    return "mkrepobs %s %s %s %s %s %s %s" % ("true" if r["open"] else "false", RMODE.get(r["mode"], "RINIT"),
                                              lnat(r["chain"]), z(r["rev"]), onat(r["cp"]), lnat(r["applied"]), z(r["size"]))


def obs_term(o):
    reps = "[%s]" % "; ".join("(%s, %s)" % (n(int(a)), MODE.get(m, "ERR")) for a, m in (o["replicas"] or []))
    sigs = sorted((a, b) for a, b in (o["signals"] or []))
    sigt = "[%s]" % "; ".join("(%s, %s)" % (n(a), "true" if b else "false") for a, b in sigs)
    res1 = "None" if not o.get("res1") else "(Some %s)" % RES[o["res1"]]
    return "mkobs %s %s %s %s %s %s %s %s %s %s %s [%s] %s %s" % (
        RES[o["res"]], res1, reps, "true" if o["ro"] else "false", n(o["rwc"]), onat(o["checkpoint"]),
        onat(o["maxrev"], -1), "true" if o["signalled"] else "false", lnat(o["registered"]), z(o["size"]),
        "true" if o["feup"] else "false", "; ".join(rep_term(r) for r in o["reps"]), sigt, onat(o["served"], -1))


def world_term(wl):
    items = []
    for a, r in enumerate(wl):
        clone = {"NA": "CNA", "completed": "CDone", "error": "CErr"}[r["clone"]]
        items.append("(%s, mkfrep false RINIT %s %s %s true [] %s %s)" % (n(a), lnat(r["chain"]), z(r["rev"]), onat(r["cp"]), z(r["size"]), clone))
    return "[%s]" % "; ".join(items)


def case_term(c, out):
    evs = "; ".join(ev_term(e, o) for e, o in zip(c["events"], out["obs"]))
    obs = "; ".join(obs_term(o) for o in out["obs"])
    quiet = "; ".join("true" if o.get("pending", 0) == 0 else "false" for o in out["obs"])
    return "mkxcase (mkcase %s %s %s [%s] [%s]) [%s]" % (n(c["rf"]), n(len(c["world"])), world_term(c["world"]), evs, obs, quiet)


def autosync(cases):
    """insert the sync agent's copy before every verify (what a real rebuild does) unless the verify is
    marked nosync (histories that test the chain comparison itself)"""
    for c in cases:
        if c.get("_synced"):
            continue
        out = []
        for e in c["events"]:
            if e["k"] == "verify" and not e.get("nosync"):
                prev = out[-1] if out else None
                if not (prev and prev["k"] == "syncdata" and prev["a"] == e["a"]):
                    out.append(ev("syncdata", a=e["a"]))
            out.append(e)
        c["events"] = out
        c["_synced"] = True
    return cases


def run_cases(ctx, binpath, cases, tag="ctl", queries=None, workers=12):
    """cases: list of dict(rf, world, events). Returns (results per query, outs)."""
    for i, c in enumerate(cases):
        c["id"] = i
        # what the monitor channel carries when a replica is reported: an error (failed ping) or nil (the rpc
        # client found the connection dead); the controller must treat both alike — alternate between them
        k = 0
        for e in c["events"]:
            for x in ((e.get("first"), e.get("second")) if e["k"] == "pair" else (e,)):
                if x and x["k"] == "monfail":
                    x.setdefault("nilerr", (i + k) % 2 == 1)
                    k += 1
    outs = vlib.run_harness(ctx, binpath, cases, netns=True, tag=tag, workers=workers, timeout=1800)
    terms = []
    for c in cases:
        o = outs[c["id"]]
        if o.get("err"):
            raise RuntimeError("harness error on case %d: %s" % (c["id"], o["err"]))
        terms.append(case_term(c, o))
    queries = queries or (lambda l: ["bad_cases 0%%nat %s" % l, "coverage %s" % l])
    res = vlib.coq_eval_sharded(ctx, tag, ["Ctl.Model", "Ctl.Corr", "Ctl.Oracles"], terms, queries, shard=150)
    return res, outs


ORACLES = ["C02", "C03", "C04", "C05", "C09", "C13", "C18", "C01", "C16", "C07", "C19"]


def parse_bad(res):
    """-> list of dict(case, step, field, fails={pid: step or None})"""
    bad, cov = [], {}
    for off, vals in res:
        for item in vlib.parse_coq_list(vals[0]):
            ci, d, fl = item
            bad.append(dict(case=off + ci, step=d[0], field=d[1],
                            fails={p: (v - 1) for p, v in zip(ORACLES, fl) if v}))
        if len(vals) > 1:
            for i, v in enumerate(vlib.parse_coq_list(vals[1])):
                cov[off + i] = v
    return bad, cov


# ------------------------------------------------------------------ targeted scenarios (corpus)

def scenarios():
    """named histories aimed at specific code paths (each is also run with every prefix of faults)"""
    S = []
    # snapshot failing on two of three replicas, then a write before the monitor goroutines run (F4)
    S.append(("snap-fail-2of3-then-write", 3, 3,
              boot(3, 0, [1, 2]) + [ev("snapshot", name=1, fs=fl((1, "snap"), (2, "snap"))),
                                    ev("write", wid=1, off=0, len=4096), ev("monfire", a=1), ev("monfire", a=2),
                                    ev("write", wid=2, off=0, len=4096)]))
    # administrative mode override (S2)
    S.append(("setmode-rw-on-wo", 2, 2,
              boot(2, 0, []) + add(1, verify=False) + [ev("write", wid=1, off=0, len=4096), ev("setmode", a=1, mode="RW"),
                                                       ev("write", wid=2, off=0, len=4096), ev("read", off=0, len=4096)]))
    S.append(("setmode-err-then-io", 3, 3,
              boot(3, 0, [1, 2]) + [ev("setmode", a=1, mode="ERR"), ev("setmode", a=2, mode="ERR"),
                                    ev("write", wid=1, off=0, len=4096), ev("monfire", a=1), ev("monfire", a=2),
                                    ev("write", wid=2, off=0, len=4096)]))
    # two adds admitted before either is committed (replication factor overshoot)
    S.append(("double-admission", 2, 3,
              boot(2, 0, []) + [ev("addcheck", a=1), ev("addcheck", a=2), ev("addcommit", a=1), ev("verify", a=1),
                                ev("addcommit", a=2), ev("verify", a=2), ev("write", wid=1, off=0, len=4096),
                                ev("snapshot", name=1)]))
    # election shapes (F3)
    S.append(("elect-rebuilding-registrant", 5, 3,
              [ev("register", a=0, uuid=1, rev=10), ev("register", a=1, uuid=2, rev=20, reb=True),
               ev("register", a=2, uuid=3, rev=5), ev("start", addrs=[2]), ev("start", addrs=[0])]))
    S.append(("elect-after-signal-failure", 3, 3,
              [ev("register", a=1, uuid=2, rev=7), ev("register", a=0, uuid=1, rev=10, fs=fl((0, "signal"))),
               ev("register", a=2, uuid=3, rev=3), ev("start", addrs=[2]), ev("start", addrs=[1])]))
    S.append(("elect-lower-then-higher", 3, 3,
              [ev("register", a=0, uuid=1, rev=3), ev("register", a=1, uuid=2, rev=9), ev("start", addrs=[0]),
               ev("start", addrs=[1])]))
    # write fault patterns around the majority boundary
    for rf in (1, 2, 3, 4, 5):
        others = list(range(1, rf))
        for k in range(0, rf + 1):
            fs = fl(*[(a, "write" if a % 2 else "writeap") for a in range(k)])
            S.append(("write-%d-of-%d-fail" % (k, rf), rf, rf,
                      boot(rf, 0, others) + [ev("write", wid=1, off=0, len=4096, fs=fs), ev("read", off=0, len=4096),
                                             ev("write", wid=2, off=4096, len=4096)]))
    # reads with fail-over
    S.append(("read-failover", 3, 3,
              boot(3, 0, [1, 2]) + [ev("read", off=0, len=4096, fs=fl((0, "read"), (1, "read"))),
                                    ev("read", off=0, len=4096), ev("read", off=0, len=4096, fs=fl((2, "read")))]))
    S.append(("read-only-wo", 2, 2, boot(2, 0, []) + add(1, verify=False) + [ev("monfail", a=0), ev("read", off=0, len=4096)]))
    # range checks
    S.append(("range", 1, 1, boot(1, 0, []) + [ev("write", wid=1, off=SIZE - 4096, len=4096), ev("write", wid=2, off=SIZE - 4095, len=4096),
                                               ev("write", wid=3, off=-4096, len=4096), ev("write", wid=4, off=SIZE, len=4096),
                                               ev("read", off=SIZE, len=4096), ev("read", off=-1, len=4096),
                                               ev("read", off=SIZE - 4096, len=4096)]))
    # checkpoint life cycle
    S.append(("checkpoint-cycle", 3, 3,
              boot(3, 0, [1, 2]) + [ev("snapshot", name=1), ev("write", wid=1, off=0, len=4096, fs=fl((2, "write"))),
                                    ev("addcheck", a=2), ev("addcommit", a=2), ev("verify", a=2), ev("snapshot", name=2),
                                    ev("remove", a=1), ev("snapshot", name=3)]))
    S.append(("checkpoint-store-fails", 2, 2,
              boot(2, 0, []) + [ev("addcheck", a=1), ev("addcommit", a=1), ev("verify", a=1, fs=fl((0, "setcp")))]))
    # rebuild chain verification
    S.append(("verify-chain-mismatch", 2, 2,
              dict(world=world(2, chains={1: [77]}), events=boot(2, 0, []) + [ev("addcheck", a=1), ev("addcommit", a=1), ev("verify", a=1, nosync=True)])))
    S.append(("verify-without-sync", 3, 3, boot(3, 0, [1]) + [ev("addcheck", a=2), ev("addcommit", a=2), ev("verify", a=2, nosync=True), ev("read", off=0, len=4096)]))
    # resize
    S.append(("resize", 2, 2, boot(2, 0, [1]) + [ev("resize", size=SIZE), ev("resize", size=SIZE // 2), ev("resize", size=2 * SIZE, fs=fl((1, "resize"))),
                                                  ev("write", wid=1, off=SIZE, len=4096), ev("monfire", a=1), ev("resize", size=4 * SIZE)]))
    out = []
    for item in S:
        name, rf, nrep, es = item
        if isinstance(es, dict):
            out.append(dict(name=name, rf=rf, world=es["world"], events=es["events"]))
        else:
            out.append(dict(name=name, rf=rf, world=world(nrep), events=es))
    return out
