"""C14 - no management API request can crash or wedge the controller or a replica.

Two halves (DESIGN.md, C14):
  proof    coq/theories/Rest: a verified checker of the lock discipline (check_sound); the handlers of
           controller/rest and replica/rest, with the Controller / replica.Server methods they reach
           inlined, are re-translated from the Go source on every run (harness/cmd/restgen) and the
           generated `handlers_ok : forallb check handlers = true` is re-checked by coqc;
  search   harness/cmd/restfuzz: the real routers in a child process per request sequence.
Verdict: a request sequence after which the child is dead / a handler panicked / a request hangs /
the liveness probe fails / the API object's mutex stays held is a concrete violation (replay = the
sequence). A handler the checker rejects is a broken proof obligation: the fuzzer is aimed at its
route; found -> concrete violation, not found -> `no-failing-input-found` naming the handler."""
import json, os, sys
sys.path.insert(0, os.path.join(os.path.dirname(os.path.abspath(__file__)), "..", "bin"))
import vlib, restlib

PID = "C14"
# served by vendored code (go-rancher schema/version handlers, promhttp, pprof) or by an inline closure (/ping,
# translated as a `$handler@` root)
FRAMEWORK_PATHS = {"/", "/v1", "/v1/schemas", "/v1/schemas/{id}", "/metrics", "/debug/pprof/", "/ping"}


def load_routes(ctx, fuzzbin):
    out = os.path.join(ctx.work, "routes.json")
    wd = os.path.join(ctx.work, "routes-w")
    os.makedirs(wd, exist_ok=True)
    argv = [fuzzbin, "routes", out, wd]
    if vlib.have_netns():
        argv = vlib.netns_wrap(argv)
    rc, log = vlib.sh(argv, timeout=120)
    if rc != 0 or not os.path.exists(out):
        raise RuntimeError("restfuzz routes failed: " + log[-1500:])
    return json.load(open(out))


def replay_main(ctx, fuzzbin, path):
    obj = json.load(open(path))
    case = obj.get("case") or obj
    if "reqs" not in case:
        print("replay file has no request sequence (it names a broken proof obligation): %s" % json.dumps(obj)[:600])
        ctx.cleanup()
        sys.exit(1)
    outs = restlib.run_cases(ctx, fuzzbin, [dict(target=case["target"], state=case["state"], reqs=case["reqs"], **({"load": True} if case.get("load") else {}))], tag="replay")
    o = outs[0]
    for r, x in zip(case["reqs"], o.get("res") or []):
        x.pop("stack", None)
        print("%s %s%s -> %s" % (r["m"], r["p"], ("?" + r["q"]) if r.get("q") else "", json.dumps(x)[:300]))
    print("child exit:", o.get("exit"), "| setup:", o.get("setup_err") or "ok")
    if o.get("stderr"):
        print("child stderr:", o["stderr"][:400])
    print("verdict:", ("VIOLATION %s at request %d" % (o["violation"], o["at"])) if o.get("violation") else "no violation")
    ctx.cleanup()
    sys.exit(1 if o.get("violation") else 0)


def main(ctx, replay=None):
    quick = ctx.tier == "quick"
    proof = restlib.proof_layer(ctx)
    genbin, glog = vlib.harness_build("restgen")
    fuzzbin, flog = vlib.harness_build("restfuzz")
    if not genbin or not fuzzbin:
        print("ERROR: harness does not build against %s:\n%s" % (vlib.REPO, (glog + flog)[-3000:]))
        sys.exit(2)
    if replay:
        return replay_main(ctx, fuzzbin, replay)

    known_keys = [k for k, _ in vlib.load_known(PID)]
    known_text = dict(vlib.load_known(PID))

    # ---- proof half: translate, re-check the generated obligation
    tr = restlib.translate(ctx, genbin)
    rejected = {}
    if tr.get("verdicts"):
        rejected = {k: v for k, v in tr["verdicts"].items() if v is not None}
    meta = tr.get("meta") or {}
    routes_static = meta.get("routes") or []
    handler_routes = {}
    for r in routes_static:
        if r.get("handler"):
            handler_routes.setdefault(r["handler"], []).append(r)

    # ---- search half
    routes = load_routes(ctx, fuzzbin)
    gen = restlib.Gen(ctx.rng, routes, quick=quick)

    # the translated set must cover the real router: every route the real mux serves (except the
    # vendored framework / metrics / pprof handlers) has a handler that was translated and judged
    if tr["ok"]:
        static = {(("controller" if r["pkg"].startswith("controller") else "replica"), r["path"], r["query"]): r["handler"]
                  for r in routes_static}
        missing = []
        for t in ("controller", "replica"):
            for rr in routes[t]:
                key = (t, rr["path"], "&".join(rr["queries"] or []))
                h = static.get(key)
                if rr["path"] in FRAMEWORK_PATHS and not h:
                    continue
                if not h or h not in tr["verdicts"]:
                    missing.append("%s %s?%s" % key)
        if missing:
            tr["ok"] = False
            tr["why"] = "routes of the real router without a translated handler: " + "; ".join(missing[:8])
    cases = []
    for t in ("controller", "replica"):
        cases += gen.matrix(t, full=not quick)
        cases += gen.per_state(t)
        cases += gen.degenerate(t, all_states=not quick)
        cases += gen.repeats(t)
        cases += gen.split(t)
        cases += gen.scenarios(t, 100 if quick else 2000)
        cases += gen.random_cases(t, 350 if quick else 6000)
    cases += gen.chain_matrix()
    cases += gen.under_load()
    cases += gen.dups()
    outs = restlib.run_cases(ctx, fuzzbin, cases, tag="fz")

    def classes(cases_, outs_):
        cl = {}
        for c, o in zip(cases_, outs_):
            if o.get("violation"):
                cl.setdefault(restlib.signature(c, o), []).append((c, o))
        return cl

    found = classes(cases, outs)
    all_cases, all_outs = list(cases), list(outs)

    def route_of(handler):
        """router entries (from the real router) that lead to this handler"""
        rs = handler_routes.get(handler.split("$")[0], [])
        out = []
        for r in rs:
            t = "controller" if r["pkg"].startswith("controller") else "replica"
            for rr in gen.routes[t]:
                if rr["path"] == r["path"] and "&".join(rr["queries"] or []) == r["query"]:
                    out.append((t, rr))
        return out

    def covered(handler):
        """is there a concrete violation at a route of this handler?"""
        for (t, rr) in route_of(handler):
            for sig in found:
                if sig[0] == t and sig[3] == rr["path"] and sig[4] == restlib.action_of("&".join(rr["queries"] or [])):
                    return sig
        return None

    # a rejected handler (or a translator / proof failure) = broken obligation: aim the search at it
    searched_extra = 0
    for h in sorted(rejected):
        if covered(h):
            continue
        targets = route_of(h)
        extra = []
        for (t, rr) in targets:
            extra += gen.matrix(t, routes=[rr], full=True)
            extra += gen.repeats(t, routes=[rr])
            extra += gen.random_cases(t, 150 if quick else 1500, focus=rr)
        if extra:
            o2 = restlib.run_cases(ctx, fuzzbin, extra, tag="aim")
            searched_extra += len(extra)
            for sig, lst in classes(extra, o2).items():
                found.setdefault(sig, []).extend(lst)
            all_cases += extra
            all_outs += o2

    if (not tr["ok"] or not proof["ok"]) and not found:
        extra = []
        for t in ("controller", "replica"):
            extra += gen.random_cases(t, 400 if quick else 4000)
        o2 = restlib.run_cases(ctx, fuzzbin, extra, tag="wide")
        searched_extra += len(extra)
        for sig, lst in classes(extra, o2).items():
            found.setdefault(sig, []).extend(lst)
        all_cases += extra
        all_outs += o2

    # ---- verdicts: concrete violations first
    reported = []
    known_hits = {}
    nviol = 0
    for sig in sorted(found, key=lambda s: tuple(str(x) for x in s)):
        lst = sorted(found[sig], key=lambda co: len(co[0]["reqs"][:co[1]["at"] + 1]) if co[1].get("at", -1) >= 0 else 99)
        c, o = lst[0]
        small, sout = restlib.shrink(ctx, fuzzbin, c, o)
        key = restlib.known_dynamic(known_keys, small, sout)
        entry = dict(signature=list(sig), occurrences=len(lst), case=small, observed=restlib.describe(small, sout))
        if key:
            known_hits[key] = entry
            vlib.known_finding(ctx, key, "%s %s %s%s -> %s: %s" % (sig[0], sig[2], sig[3], ("?action=" + sig[4]) if sig[4] else "",
                                                                  sig[1], known_text.get(key, "")))
        else:
            nviol += 1
            obj = dict(property=PID, kind="request sequence after which the process is dead / wedged / panicked",
                       target=small["target"], state=small["state"], reqs=small["reqs"], load=bool(small.get("load")), observed=entry["observed"],
                       replay_cmd="bin/vcheck C14 --replay <this file>")
            vlib.violation(ctx, obj, suffix="-%d" % nviol)
        reported.append(entry)

    # ---- broken obligations without a concrete request
    static_known = []
    for h in sorted(rejected):
        sig = covered(h)
        skey = restlib.known_static(known_keys, h, rejected[h])
        if sig is not None:
            # the concrete request was reported above (as violation or known finding)
            if skey:
                static_known.append((h, rejected[h], skey))
            continue
        if skey and skey in known_hits:
            static_known.append((h, rejected[h], skey))
            continue
        if skey:
            # listed as known, the checker still rejects it, but no request reproduced it in this run
            static_known.append((h, rejected[h], skey))
            vlib.known_finding(ctx, skey, "checker rejects %s (%s); not reproduced by a request in this run: %s" % (h, rejected[h], known_text.get(skey, "")))
            continue
        root = next((r for r in meta.get("roots", []) if r["name"] == h), {})
        vlib.violation(ctx, dict(property=PID, broken="proof obligation handlers_ok: the verified checker rejects the translated handler",
                                 handler=h, source=root.get("pos"), reason=rejected[h], unknown_constructs=root.get("unknowns"),
                                 routes=[dict(target=t, path=rr["path"], queries=rr["queries"]) for t, rr in route_of(h)],
                                 generated_file="regenerate with harness/bin/restgen <out.v> <out.json>",
                                 searched=len(all_cases)), nofail=True, suffix="-obl-%d" % (len(ctx.violations) + 1))
    if not tr["ok"]:
        vlib.violation(ctx, dict(property=PID, broken="translator / generated file", why=tr["why"], searched=len(all_cases)),
                       nofail=True, suffix="-gen")
    elif not rejected and not tr.get("lemma_ok"):
        vlib.violation(ctx, dict(property=PID, broken="generated lemma handlers_ok", why=tr.get("log"), searched=len(all_cases)),
                       nofail=True, suffix="-gen")
    if not proof["ok"]:
        vlib.violation(ctx, dict(property=PID, broken="proof layer", why=proof["why"], searched=len(all_cases)), nofail=True, suffix="-proof")

    # ---- evidence
    nreq = 0
    classes_seen, nontriv = set(), set()
    dist = dict(method={}, body={}, id={}, state={}, status={})
    setup_fail = 0
    route_keys = {t: {(r["path"], "&".join(r["queries"] or [])): (r["methods"] or []) for r in gen.routes[t]} for t in gen.routes}
    for c, o in zip(all_cases, all_outs):
        if o.get("setup_err"):
            setup_fail += 1
            continue
        for r, x in zip(c["reqs"], o.get("res") or []):
            if x.get("skipped"):
                continue
            nreq += 1
            m, path, q, body, idk = (r.get("tag") or "||||").split("|")
            sk = c["state"].get("kind")
            cls = (c["target"], sk, m, path, q, body, idk)
            classes_seen.add(cls)
            for k, v in (("method", m), ("body", body), ("id", idk), ("state", c["target"] + ":" + str(sk)),
                         ("status", str(x.get("st", 0) // 100) + "xx")):
                dist[k][v] = dist[k].get(v, 0) + 1
            # reaches a handler of the router: registered (path, query) with its registered method and a syntactically valid id
            if m in route_keys[c["target"]].get((path, q), []) and idk in ("valid", "wrong", "none"):
                nontriv.add(cls)
    nroots = len(meta.get("roots", []))
    accepted = nroots - len(rejected)
    gen_ok = bool(tr.get("lemma_ok") or tr.get("accepted_lemma_ok"))
    proof_out = dict(obligations=proof["obligations"] + nroots, discharged=proof["discharged"] + (accepted if gen_ok else 0),
                     checker_cmd="coqc -Q theories Jiva theories/Rest/Lang.v theories/Rest/Proofs.v theories/Properties/C14.v; "
                                 "harness/bin/restgen Handlers.v handlers.json; coqc Handlers.v (handlers_ok by vm_compute)",
                     trusted_extra=["harness/cmd/restgen: the go/ast translator from Go handlers to Rest.Lang.stmt (structural; unknown constructs become Unknown, which check rejects)",
                                    "assumption of the translation: calls that leave the modelled layer (methods of types other than rest.Server, controller.Controller, replica.Server; other packages; interface and function values) do not touch the tracked mutexes",
                                    "Go semantics of sync.RWMutex, defer, panic as written in Rest/Lang.v"])
    extra = dict(evaluations=nreq, distinct_nontrivial=len(nontriv),
                 rule="HTTP requests sent to the real controller/rest and replica/rest routers (one fresh child process per sequence of up to 8 requests); "
                      "non-trivial = the request has a registered (path, query) with its registered method and a decodable id, i.e. it reaches a handler; "
                      "distinct by (target, state, method, route, query, body kind, id kind)",
                 sequences=len(all_cases), sequences_setup_failed=setup_fail, distinct_request_classes=len(classes_seen),
                 input_distribution=dist, handlers_translated=nroots, handlers_accepted_by_checker=accepted,
                 handlers_rejected={h: rejected[h] for h in sorted(rejected)},
                 generated_lemma=("handlers_ok" if tr.get("lemma_ok") else ("accepted_handlers_ok (rejected handlers excluded)" if tr.get("accepted_lemma_ok") else "FAILED")),
                 violation_classes=[dict(signature=e["signature"], occurrences=e["occurrences"]) for e in reported],
                 aimed_search_sequences=searched_extra, theorems=proof.get("theorems", []), exhaustive=False,
                 translator_notes=meta.get("notes"), mutexes=meta.get("mutexes"), channels=meta.get("channels"))
    samples = []
    for c, o in list(zip(all_cases, all_outs))[:: max(1, len(all_cases) // 3)][:3]:
        samples.append(dict(target=c["target"], state=c["state"].get("kind"),
                            reqs=["%s %s?%s [%s]" % (r["m"], r["p"][:60], r.get("q", ""), (r.get("tag") or "").split("|")[3]) for r in c["reqs"]],
                            statuses=[x.get("st") for x in (o.get("res") or [])]))
    vlib.write_evidence(ctx, proof_out, extra, [
        "proved: lock discipline of the translated handlers (no unlock of an unheld mutex, no relock, no send under a lock, nothing held at exit incl. panic) for every execution; gating = C17_rest_gate",
        "not proved (searched by the fuzzer only): runtime panics (nil dereference, slice bounds), blocking on channels / network, logrus.Fatal paths, goroutine leaks, memory exhaustion, handlers of vendored packages (go-rancher, pprof, promhttp)",
        "the model follows one goroutine: a deadlock between two requests holding different mutexes in opposite order is outside it (the handlers use one mutex per API object)",
        "controller states are built over scripted fake backends (harness/cmd/restfuzz fakeRep) that answer GET /v1/replicas/1 like a replica; replica states over a real replica.Server on a directory",
    ], samples)
    vlib.finish(ctx)
