"""Generators, Coq-term printers, run loop, shrinking and the common check body of C01 C06 C11 C16
(model: coq/theories/Block, harness: harness/cmd/block)."""
import json, os, sys, glob, copy, re
sys.path.insert(0, os.path.join(os.path.dirname(os.path.abspath(__file__)), "..", "bin"))
import vlib

IMPORTS = ["Block.Model", "Block.Corr"]
FIELD = {0: "oracle only", 1: "result", 2: "read data / candidate list", 3: "live image", 4: "chain names",
         5: "member attributes", 6: "snapshot images (NewReadOnly)", 7: "revert-on-copy images", 8: "size", 9: "trace length",
         10: "implementation error / panic"}
ORACLES = ["c01", "c06", "c11", "c16"]

# ------------------------------------------------------------------------------------------ operations

def W(off, ln, tok): return dict(k="w", off=off, len=ln, tok=tok)
def R(off, ln): return dict(k="r", off=off, len=ln)
def SNAP(name, user): return dict(k="snap", name=name, user=bool(user))
def PREP(name): return dict(k="prep", name=name)
def FOLD(src, dst): return dict(k="fold", src=src, dst=dst)
def RM(name): return dict(k="rm", name=name)
def DEL(name): return dict(k="del", name=name)
def REVERT(name): return dict(k="revert", name=name)
def REOPEN(pre): return dict(k="reopen", pre=bool(pre))
def RELOAD(pre): return dict(k="reload", pre=bool(pre))
def PUNCH(b): return dict(k="punch", b=bool(b))
def RESIZE(nb, spell=""):
    """spell: how the size is written in the request ("" = plain byte count; see harness/cmd/block Op.Spell)"""
    return dict(k="resize", nb=nb, spell=spell) if spell else dict(k="resize", nb=nb)
SPELLINGS = ["", "", "", "k", "K", "kb", "KB", "KiB", "ki", " k", "m", "int64"]
LUN = dict(k="lun")
def CAND(cp): return dict(k="cand", cp=cp)          # cp = -1: no checkpoint
def RF(off, ln, file): return dict(k="rf", off=off, len=ln, file=file)     # read while chain file `file` (1 = base) cannot be read
def U(off, ln): return dict(k="u", off=off, len=ln)                      # Server.Unmap (discard) of a unit range
def CLEAN(cp, fail): return dict(k="clean", cp=cp, fail=bool(fail))        # one pass of the background cleaner


def mkcase(ops, K=8, nb=8, punch=True, rev=False):
    return dict(K=K, nb=nb, punch=bool(punch), rev=bool(rev), ops=ops)


class Gen:
    """Random histories.  Tracks a light abstract state (chain names, flags, size) only to keep the
    histories mostly valid and the deletions mostly admissible; the verdict never depends on it."""

    def __init__(self, rng, K=8, nb=None, punch=None, rev=False, bias=None):
        self.rng = rng
        self.K = K
        self.nb = nb if nb is not None else rng.choice([4, 6, 8, 8, 12, 16])
        self.nb0 = self.nb
        self.punch0 = punch if punch is not None else (rng.random() < 0.75)
        self.rev = rev
        self.snaps = []            # [name, user, removed] base first
        self.next_name = 1
        self.tok = 0
        w = min(self.nb, rng.choice([2, 3, 3, 4]))
        h0 = rng.randrange(self.nb - w + 1)
        self.hot = list(range(h0, h0 + w))          # a cluster of adjacent hot blocks
        self.bias = bias or {}
        self.ops = []

    # ---- I/O shapes
    def newtok(self):
        self.tok += 1
        return self.tok if self.K < 4096 else (self.tok % 250) + 1

    def io_range(self):
        """offset / length (units) from alignment classes, around hot blocks"""
        rng, K, nb = self.rng, self.K, self.nb
        total = nb * K
        b = rng.choice(self.hot) if rng.random() < 0.7 else rng.randrange(nb)
        cls = rng.choice(["aligned", "aligned", "sub", "toend", "cross1", "cross2", "tail", "whole", "unit"])
        if cls == "aligned":
            off = b * K
            ln = K * rng.choice([1, 1, 2, 2, 3, 4])
        elif cls == "sub":
            off = b * K + rng.randrange(K)
            ln = rng.randint(1, max(1, K - off % K))
        elif cls == "toend":
            off = b * K + rng.randrange(1, K) if K > 1 else b * K
            ln = K - off % K
        elif cls == "cross1":
            off = b * K + rng.randrange(1, K) if K > 1 else b * K
            ln = (K - off % K) + rng.randint(1, K)
        elif cls == "cross2":
            off = b * K + rng.randrange(K)
            ln = (K - off % K) + K * rng.randint(1, 3) + rng.randrange(K)
        elif cls == "tail":
            off = b * K
            ln = K * rng.randint(0, 2) + rng.randint(1, max(1, K - 1))
        elif cls == "whole":
            off, ln = 0, total
        else:
            off = rng.randrange(total)
            ln = 1
        off = min(off, total - 1)
        ln = max(1, min(ln, total - off))
        return off, ln

    def write(self):
        off, ln = self.io_range()
        tok = 0 if self.rng.random() < 0.04 else self.newtok()
        return W(off, ln, tok)

    def multi_block_write(self):
        """aligned write over >= 2 blocks starting at a hot block (the shape F1 needs)"""
        b = self.rng.choice(self.hot)
        n = self.rng.randint(2, 4)
        b = min(b, max(0, self.nb - n))
        n = min(n, self.nb - b)
        return W(b * self.K, n * self.K, self.newtok())

    def read(self):
        off, ln = self.io_range()
        return R(off, ln)

    # ---- chain bookkeeping
    def deletable(self, admissible=True):
        out = []
        n = len(self.snaps)
        for i in range(1, n - 1):          # not base (0), not latest (n-1)
            par = self.snaps[i - 1]
            if admissible and par[1] and not par[2]:
                continue
            out.append(i)
        return out

    def step(self):
        rng = self.rng
        x = rng.random()
        bias = self.bias
        w_snap = bias.get("snap", 0.14)
        w_del = bias.get("del", 0.07)
        w_rev = bias.get("revert", 0.05)
        w_reo = bias.get("reopen", 0.02)
        w_rel = bias.get("reload", 0.06)
        w_rsz = bias.get("resize", 0.03)
        acc = 0.0
        acc += w_snap
        if x < acc and len(self.snaps) < 6:
            name = self.next_name
            self.next_name += 1
            user = rng.random() < bias.get("user", 0.45)
            self.snaps.append([name, user, False])
            return SNAP(name, user)
        acc += w_del
        if x < acc and len(self.snaps) >= 3:
            cands = self.deletable(admissible=rng.random() < 0.9)
            if cands:
                i = rng.choice(cands)
                name = self.snaps[i][0]
                del self.snaps[i]
                return DEL(name)
        acc += 0.03
        if x < acc and self.snaps:
            # protected or unknown targets through the three entry points
            tgt = rng.choice([0, self.snaps[-1][0], self.snaps[0][0], 77])
            return rng.choice([DEL, PREP, PREP])(tgt)
        acc += 0.02
        if x < acc and len(self.snaps) >= 3:
            i = rng.randrange(1, len(self.snaps) - 1)
            self.snaps[i][2] = True
            return PREP(self.snaps[i][0])
        acc += w_rev
        if x < acc and self.snaps:
            users = [i for i, s in enumerate(self.snaps) if s[1] and not s[2]]
            if users and rng.random() < 0.75:
                i = rng.choice(users)
            else:
                i = rng.randrange(len(self.snaps))
            name = self.snaps[i][0]
            self.snaps = self.snaps[:i + 1]
            return REVERT(name)
        acc += w_reo
        if x < acc:
            return REOPEN(rng.random() < 0.5)
        acc += w_rel
        if x < acc:
            return RELOAD(rng.random() < 0.5)
        acc += 0.03
        if x < acc:
            return PUNCH(rng.random() < 0.6)
        acc += w_rsz
        if x < acc:
            r = rng.random()
            sp = rng.choice(SPELLINGS)
            if r < 0.6 and self.nb < 24:
                self.nb += rng.randint(1, 4)
                return RESIZE(self.nb, sp)
            if r < 0.8:
                return RESIZE(self.nb, sp)
            nb = max(0, self.nb - rng.randint(1, 3))
            return RESIZE(nb, sp if nb > 0 or sp != "int64" else "")
        acc += 0.02
        if x < acc:
            return LUN
        acc += 0.02
        if x < acc and self.snaps:
            return CAND(rng.choice([s[0] for s in self.snaps] + [-1, 66]))
        acc += 0.12
        if x < acc:
            return self.read()
        if rng.random() < bias.get("multi", 0.25):
            return self.multi_block_write()
        return self.write()

    def history(self, n):
        ops = []
        for _ in range(n):
            ops.append(self.step())
        return mkcase(ops, K=self.K, nb=self.nb0, punch=self.punch0, rev=self.rev)

    @classmethod
    def make(cls, rng, n, **kw):
        return cls(rng, **kw).history(n)


def enum_split_cases(K=8):
    """every (offset class x length class) pair of an unaligned / aligned write and read on 1-, 2- and
    3-file chains whose blocks are owned by different files"""
    cases = []
    offs = [0, 1, K - 1, K, K + 3]
    lens = [1, K - 1, K, K + 1, 2 * K, 2 * K + 3, 3 * K]
    for files in (1, 2, 3):
        for off in offs:
            ops = []
            tok = 1
            for f in range(files - 1):
                ops.append(W(0, 4 * K, tok)); tok += 1
                if f == 1:
                    ops.append(W(K, K, tok)); tok += 1
                ops.append(SNAP(f + 1, f == 0))
            if files >= 2:
                ops.append(W(2 * K, K, tok)); tok += 1
            for ln in lens:
                if off + ln <= 6 * K:
                    ops.append(W(off, ln, tok)); tok += 1
                    ops.append(R(off, ln))
            cases.append(mkcase(ops, K=K, nb=6, punch=True))
    return cases


F1_CASE = mkcase([W(0, 16, 1), SNAP(1, True), W(0, 8, 2), SNAP(2, False), W(0, 16, 3)], K=8, nb=8, punch=True)
S7_CASE = mkcase([W(0, 16, 1), SNAP(1, False), W(8, 8, 2), SNAP(2, False), W(16, 8, 3), RM(1)], K=8, nb=8, punch=False)


def c06_history(rng, rev=True):
    """structured: cluster written, snapshots of both kinds, partial overwrites of the cluster between
    snapshots, then aligned multi-block writes across the cluster; random other operations in between"""
    g = Gen(rng, punch=True, rev=rev, bias=dict(snap=0.0, reopen=0.0, resize=0.02, revert=0.03, reload=0.04, multi=0.5))
    K = g.K
    lo, hi = g.hot[0], g.hot[-1] + 1
    ops = []

    def snap(user=None):
        if len(g.snaps) >= 6:
            return
        name = g.next_name
        g.next_name += 1
        u = rng.random() < 0.5 if user is None else user
        g.snaps.append([name, u, False])
        ops.append(SNAP(name, u))

    def cluster_write():
        a = rng.randint(lo, hi - 2) if hi - lo > 2 else lo
        b_ = rng.randint(a + 2, hi)
        ops.append(W(a * K, (b_ - a) * K, g.newtok()))

    def partial_write():
        bl = rng.randrange(lo, hi)
        if rng.random() < 0.7:
            ops.append(W(bl * K, K, g.newtok()))
        else:
            o = rng.randrange(K)
            ops.append(W(bl * K + o, rng.randint(1, K - o), g.newtok()))

    cluster_write()
    for _ in range(rng.randint(2, 4)):
        if rng.random() < 0.8:
            snap()
        for _ in range(rng.randint(1, 2)):
            partial_write()
        if rng.random() < 0.8:
            snap()
        if rng.random() < 0.3:
            ops.append(g.step())
        cluster_write()
    return mkcase(ops, K=K, nb=g.nb0, punch=True, rev=rev)


def c06_cases(rng, n):
    """biased to the conjunction C06 names: user snapshot below, several owners, multi-block aligned
    writes, punching on; revert-on-copy of every snapshot after every step"""
    out = []
    for i in range(n):
        if i % 3 == 2:
            out.append(Gen.make(rng, rng.randint(8, 14), punch=True, rev=True,
                                bias=dict(snap=0.22, user=0.5, multi=0.55, reload=0.05, reopen=0.0, resize=0.02, revert=0.05)))
        else:
            out.append(c06_history(rng))
    return out


def chain_shape_cases(rng, n):
    """random chain shapes (3-9 members, user / removed flags, data spread over members) followed by the
    candidate query for several checkpoints and deletions of candidates in random order"""
    out = []
    for _ in range(n):
        K, nb = 8, rng.choice([6, 8])
        ops = []
        snaps = []
        tok = 0
        m = rng.randint(2, 8)
        for i in range(1, m + 1):
            for _ in range(rng.randint(0, 2)):
                tok += 1
                b = rng.randrange(nb)
                l = rng.randint(1, min(3, nb - b))
                ops.append(W(b * K, l * K, tok))
            user = rng.random() < 0.4
            ops.append(SNAP(i, user))
            snaps.append([i, user, False])
        tok += 1
        ops.append(W(0, K, tok))
        for s in snaps[1:-1]:
            if rng.random() < 0.3:
                ops.append(PREP(s[0]))
                s[2] = True
        cp = rng.choice([s[0] for s in snaps] * 2 + [-1, 55])
        ops.append(CAND(cp))
        # delete admissible members in random order
        order = list(range(1, len(snaps) - 1))
        rng.shuffle(order)
        names = [s[0] for s in snaps]
        for i in order[:3]:
            name = names[i]
            j = [s[0] for s in snaps].index(name)
            par = snaps[j - 1]
            if j == 0 or j == len(snaps) - 1:
                continue
            if par[1] and not par[2] and rng.random() < 0.85:
                continue
            ops.append(DEL(name))
            del snaps[j]
            ops.append(CAND(rng.choice([s[0] for s in snaps] + [-1])))
        # protected targets
        ops.append(rng.choice([DEL, PREP])(snaps[0][0]))
        ops.append(rng.choice([DEL, PREP, RM])(snaps[-1][0]))
        ops.append(rng.choice([DEL, PREP, RM])(0))
        out.append(mkcase(ops, K=K, nb=nb, punch=rng.random() < 0.5, rev=False))
    return out


def enum_read_fault_cases(K=8):
    """chains of 2 and 3 files whose blocks are owned alternately by different files; for every chain file in
    turn (and one position outside the chain) the descriptors of that file are made unreadable for the
    duration of one read; aligned multi-block ranges ending in every owner, and unaligned ones"""
    cases = []
    nb = 8
    for files in (2, 3):
        ops = [W(0, 6 * K, 1), SNAP(1, False)]
        if files == 3:
            ops += [W(K, K, 2), W(4 * K, K, 2), SNAP(2, True)]
        ops += [W(2 * K, K, 3), W(5 * K + 2, 3, 4)]
        # owners now: files=2: b0 b1 f1, b2 head, b3 b4 f1, b5 head, b6 b7 nobody (f1)
        #             files=3: b0 f1, b1 f2, b2 head, b3 f1, b4 f2, b5 head
        ranges = [(0, 2 * K), (0, 3 * K), (0, 4 * K), (K, 2 * K), (K, 4 * K), (2 * K, 2 * K), (2 * K, 4 * K), (3 * K, 3 * K),
                  (0, 6 * K), (0, 8 * K), (4 * K, 4 * K),
                  (3, 2 * K), (3, 3 * K + 2), (K + 1, K), (K + 5, 2 * K + 1), (2 * K - 1, 2), (2 * K - 1, K + 2),
                  (5, 6 * K), (4 * K + 7, 2 * K - 3), (2 * K, K), (2 * K + 1, 3)]
        for pre in (None, True):
            o2 = list(ops)
            if pre is not None:
                o2.append(REOPEN(pre))      # location table filled by preload instead of by reads
            for f in range(1, files + 2):
                for off, ln in ranges:
                    o2.append(RF(off, ln, f))
            cases.append(mkcase(o2, K=K, nb=nb, punch=False))
    return cases


def read_fault_cases(rng, n):
    """random: a region written, 1-4 snapshots with partial overwrites between them (so that a multi-block
    request is served by several files), then fault-injected reads (each chain file in turn, aligned and
    unaligned, spanning several blocks) interleaved with a few other operations"""
    out = []
    for i in range(n):
        K = 4096 if i % 16 == 15 else 8
        nb = 3 if K == 4096 else rng.choice([6, 8, 12])
        g = Gen(rng, K=K, nb=nb, punch=rng.random() < 0.5, bias=dict(resize=0.0, reopen=0.04, revert=0.02, **{"del": 0.03}))
        ops = [W(0, rng.randint(2, nb) * K, g.newtok())]
        for _ in range(rng.randint(1, 4 if K == 8 else 2)):
            name = g.next_name
            g.next_name += 1
            user = rng.random() < 0.4
            g.snaps.append([name, user, False])
            ops.append(SNAP(name, user))
            for _ in range(rng.randint(1, 3)):
                b0 = rng.randrange(nb)
                if rng.random() < 0.7:
                    ops.append(W(b0 * K, K * rng.randint(1, min(2, nb - b0)), g.newtok()))
                else:
                    o = rng.randrange(K)
                    ops.append(W(b0 * K + o, rng.randint(1, K - o), g.newtok()))
        for _ in range(rng.randint(6, 12)):
            if rng.random() < 0.15:
                ops.append(g.step())
                continue
            files = len(g.snaps) + 1
            f = rng.randint(1, files + 1) if rng.random() < 0.9 else 0
            b0 = rng.randrange(g.nb)
            nblocks = rng.randint(2, max(2, min(5, g.nb - b0))) if g.nb - b0 >= 2 else 1
            off, ln = b0 * K, nblocks * K
            if rng.random() < 0.4:
                a = rng.randrange(K)
                z = rng.randrange(K)
                off, ln = off + a, max(1, ln - a - z)
            if off + ln > g.nb * K:
                ln = g.nb * K - off
            ops.append(RF(off, ln, f))
        out.append(mkcase(ops, K=K, nb=g.nb0, punch=g.punch0, rev=False))
    return out


def cleaner_cases(rng, n):
    """the background cleaner: chains of 4-8 snapshots (user-created / automatic / marked removed, every one
    holding blocks of its own), then passes of the production loop with the checkpoint at different positions:
    the sync agent fails the merge, or performs it; reads in between"""
    out = []
    for i in range(n):
        K, nb = 8, rng.choice([8, 12])
        ops = []
        snaps = []
        tok = 0
        m = rng.randint(4, 8)
        for j in range(1, m + 1):
            for _ in range(rng.randint(1, 3)):
                tok += 1
                b0 = rng.randrange(nb)
                l = rng.randint(1, min(3, nb - b0))
                ops.append(W(b0 * K, l * K, tok))
            user = rng.random() < 0.3
            ops.append(SNAP(j, user))
            snaps.append([j, user, False])
        tok += 1
        ops.append(W(rng.randrange(nb) * K, K, tok))
        for sn in snaps[1:-1]:
            if sn[1] and rng.random() < 0.5:
                ops.append(PREP(sn[0]))          # a user-created snapshot the user has deleted: the cleaner may take it
        names = [sn[0] for sn in snaps]
        cp = rng.choice(names[2:] * 3 + names[:2] + [-1, 55])
        passes = [True, False] if i % 2 == 0 else [True, True, False]
        if i % 5 == 4:
            passes = [False, True, False]
        rng.shuffle(passes)
        for fail in passes:
            ops.append(CLEAN(cp, fail))
            if rng.random() < 0.4:
                ops.append(R(0, nb * K))
            if rng.random() < 0.15:
                ops.append(REOPEN(rng.random() < 0.5))
        if rng.random() < 0.3:
            ops.append(CAND(cp))
        out.append(mkcase(ops, K=K, nb=nb, punch=rng.random() < 0.5, rev=False))
    return out


# what the two seeded regressions of wave 7 need, minimal: kept as fixed cases that run first
RF_CASE = mkcase([W(0, 32, 1), SNAP(1, False), W(16, 8, 2), RF(0, 24, 1), RF(3, 20, 1), RF(0, 32, 1), RF(0, 16, 2)], K=8, nb=8, punch=False)
CLEAN_CASE = mkcase([W(0, 16, 1), SNAP(1, False), W(16, 24, 2), SNAP(2, False), W(40, 8, 3), SNAP(3, False), W(48, 24, 4),
                     SNAP(4, False), W(72, 8, 5), SNAP(5, False), W(80, 8, 6), SNAP(6, False), W(88, 8, 7),
                     CLEAN(5, True), CLEAN(5, False)], K=8, nb=16, punch=False)


def enum_preload_dedup_cases(K=8, rev=False):
    """preload's removal of duplicate blocks (backup.go preload: the run state file / fileIndx / lOffset / length):
    blocks are overwritten while punching is off, so the older copies stay; then punching comes on and the
    chain is preloaded (Reload, or close / open with preload).  Directed layouts: the duplicates in the older file
    are NOT adjacent (distance 2, 3, 5) and the blocks between them live only in that older file;
      A  one older automatic snapshot, duplicates rewritten in the head
      B  the same above a user-created snapshot
      C  two older automatic snapshots, the duplicates in the newer one
      D  duplicates between two automatic snapshots below a user-created snapshot (whose image holds the
         blocks in between)
    followed by reads, close / open without preload and reads again"""
    out = []
    n = 12
    for dist in (2, 3, 5):
        b = 2
        layouts = {
            "A": [W(0, n * K, 1), SNAP(1, False), W(b * K, K, 2), W((b + dist) * K, K, 3)],
            "B": [W(0, n * K, 1), SNAP(1, True), W(0, n * K, 2), SNAP(2, False), W(b * K, K, 3), W((b + dist) * K, K, 4)],
            "C": [W(0, n * K, 1), SNAP(1, False), W(K, 9 * K, 2), SNAP(2, False), W(b * K, K, 3), W((b + dist) * K, K, 4),
                  W((b + dist) * K + 3, 2, 5)],
            "D": [W(0, n * K, 1), SNAP(1, False), W(b * K, K, 2), W((b + dist) * K, K, 3), SNAP(2, False), W(0, K, 4),
                  SNAP(3, True), W(K, K, 5)],
        }
        for name, ops in sorted(layouts.items()):
            for trig in ([RELOAD(True)], [PUNCH(True), REOPEN(True)]):
                o2 = list(ops) + trig + [R(0, n * K), R(b * K + 3, dist * K), REOPEN(False), R(0, n * K)]
                out.append(mkcase(o2, K=K, nb=n, punch=False, rev=rev))
    return out


def preload_dedup_cases(rng, n, rev=False):
    """random variant: punching off while single blocks of a written cluster are overwritten across 1-3
    snapshots of either kind, then punching on at a preload (Reload / close-open with preload), reads, more
    writes, a second preload"""
    out = []
    for _ in range(n):
        K, nb = 8, rng.choice([8, 12])
        ops = [W(0, nb * K, 1)]
        tok = 1
        name = 0
        for _ in range(rng.randint(1, 3)):
            name += 1
            ops.append(SNAP(name, rng.random() < 0.3))
            blocks = rng.sample(range(nb), rng.randint(2, 4))
            for bl in blocks:
                tok += 1
                if rng.random() < 0.8:
                    ops.append(W(bl * K, K, tok))
                else:
                    o = rng.randrange(K)
                    ops.append(W(bl * K + o, rng.randint(1, K - o), tok))
        for rnd in range(rng.randint(1, 2)):
            ops += rng.choice([[RELOAD(True)], [PUNCH(True), REOPEN(True)], [PUNCH(True), RELOAD(True)]])
            ops.append(R(0, nb * K))
            if rng.random() < 0.5:
                ops.append(REOPEN(rng.random() < 0.5))
            if rnd == 0:
                ops.append(PUNCH(False))
                for bl in rng.sample(range(nb), 2):
                    tok += 1
                    ops.append(W(bl * K, K, tok))
                if rng.random() < 0.5:
                    name += 1
                    ops.append(SNAP(name, rng.random() < 0.3))
        out.append(mkcase(ops, K=K, nb=nb, punch=False, rev=rev))
    return out


def enum_unmap_cases(K=8, rev=True):
    """discards (Server.Unmap) on chains with user-created and automatic snapshots: whole blocks, ranges that
    start / end inside a block, ranges over blocks held by the user snapshot only, by a newer automatic one,
    by the head; followed by reads, writes into the discarded range, reload / reopen and reads again"""
    out = []
    n = 8
    ranges = [(0, 2 * K), (K, K), (2 * K, 3 * K), (3, K), (3, 2 * K), (K + 5, 2 * K - 2), (2 * K - 1, 2), (0, n * K), (4 * K + 1, K - 2)]
    chains = {
        "user": [W(0, 6 * K, 1), SNAP(1, True), W(2 * K, 2 * K, 2)],
        "auto": [W(0, 6 * K, 1), SNAP(1, False), W(2 * K, 2 * K, 2)],
        "user-auto": [W(0, 6 * K, 1), SNAP(1, True), W(K, 2 * K, 2), SNAP(2, False), W(2 * K, 2 * K, 3)],
        "auto-user": [W(0, 6 * K, 1), SNAP(1, False), W(K, 2 * K, 2), SNAP(2, True), W(2 * K, 2 * K, 3)],
        "user-user": [W(0, 6 * K, 1), SNAP(1, True), W(K, 2 * K, 2), SNAP(2, True)],
    }
    for name, ops in sorted(chains.items()):
        for punch in (False, True):
            for j in range(0, len(ranges), 3):
                o2 = list(ops)
                for off, ln in ranges[j:j + 3]:
                    o2 += [U(off, ln), R(0, n * K)]
                o2 += [W(K + 2, K, 9), U(0, K + 4), RELOAD(True), R(0, n * K), REOPEN(False), R(0, n * K)]
                out.append(mkcase(o2, K=K, nb=n, punch=punch, rev=rev))
    return out


def unmap_cases(rng, n, rev=True):
    """random histories with discards after user-created and automatic snapshots, with and without later writes"""
    out = []
    for _ in range(n):
        g = Gen(rng, punch=rng.random() < 0.6, rev=rev, bias=dict(snap=0.18, user=0.55, reopen=0.03, reload=0.05, resize=0.0, revert=0.04))
        ops = []
        for _ in range(rng.randint(9, 14)):
            if rng.random() < 0.25 and ops:
                off, ln = g.io_range()
                ops.append(U(off, ln))
            else:
                ops.append(g.step())
        out.append(mkcase(ops, K=g.K, nb=g.nb0, punch=g.punch0, rev=rev))
    return out


def resize_cases(rng, n):
    out = []
    for _ in range(n):
        out.append(Gen.make(rng, rng.randint(8, 14), bias=dict(resize=0.2, snap=0.15, reload=0.08, reopen=0.03)))
    return out


# ------------------------------------------------------------------------------------------ Coq printing

def nat(v):
    return str(v) if v < 2000 else "(N.to_nat %d%%N)" % v


def b(v):
    return "true" if v else "false"


def op_term(o, ob=None):
    k = o["k"]
    if k == "u":
        return "Unmap %s %s" % (nat(o["off"]), nat(o["len"]))
    if k == "rf":
        return "ReadFault %s %s %s" % (nat(o["off"]), nat(o["len"]), nat(o["file"]))
    if k == "clean":
        # the victim is the implementation's choice among the candidates (ordered by allocated size, which
        # the model does not have); the model acts on it only if it is one of its own candidates
        v = (ob or {}).get("victim", 0)
        return "Clean %s %d%%N %s" % ("None" if o["cp"] < 0 else "(Some %d%%N)" % o["cp"], v if v >= 0 else 888888, b(o["fail"]))
    if k == "w":
        return "Write %s (repeat %d%%N %s)" % (nat(o["off"]), o["tok"], nat(o["len"]))
    if k == "r":
        return "Read %s %s" % (nat(o["off"]), nat(o["len"]))
    if k == "snap":
        return "Snap %d%%N %s" % (o["name"], b(o["user"]))
    if k == "prep":
        return "PrepRemove %d%%N" % o["name"]
    if k == "fold":
        return "Coalesce %d%%N %d%%N" % (o["src"], o["dst"])
    if k == "rm":
        return "Remove %d%%N" % o["name"]
    if k == "del":
        return "Delete %d%%N" % o["name"]
    if k == "revert":
        return "Revert %d%%N" % o["name"]
    if k == "reopen":
        return "Reopen %s" % b(o["pre"])
    if k == "reload":
        return "Reload %s" % b(o["pre"])
    if k == "punch":
        return "SetPunch %s" % b(o["b"])
    if k == "resize":
        return "Resize %s" % nat(o["nb"])
    if k == "lun":
        return "UpdateLunMap"
    if k == "cand":
        return "Candidates %s" % ("None" if o["cp"] < 0 else "(Some %d%%N)" % o["cp"])
    raise ValueError(o)


def rle_term(r):
    return "[%s]" % "; ".join("(%s, %d%%N)" % (nat(n), v) for n, v in r)


def obs_term(ob):
    res = "ROk" if ob["res"] == "ok" else "RErr"
    if ob.get("names"):
        data = "[%s]" % "; ".join("%d%%N" % (n if n >= 0 else 888888) for n in ob["names"])
    elif ob.get("data"):
        data = "(unrle %s)" % rle_term(ob["data"])
    else:
        data = "[]"
    chain = "[%s]" % "; ".join("%d%%N" % (n if n >= 0 else 888888) for n in ob["chain"])
    attr = "[%s]" % "; ".join("(%s, %s)" % (b(u), b(r)) for u, r in ob["attr"])
    snaps = "[%s]" % "; ".join(str(i) for i in ob["snaps"])
    revs = "[%s]" % "; ".join(str(i) for i in ob["revs"])
    return "mkrobs %s %s %d %s %s %s %s %s" % (res, data, ob["live"], chain, attr, snaps, revs, nat(ob["nblk"]))


def case_term(c, out):
    cfg = "(mkcfg %s %s %s %s)" % (nat(c["K"]), nat(c["nb"]), b(c["punch"]), b(c["rev"]))
    obs_of = out["obs"] + [None] * len(c["ops"])
    ops = "[%s]" % ";\n  ".join(op_term(o, ob) for o, ob in zip(c["ops"], obs_of))
    tbl = "[%s]" % ";\n  ".join(rle_term(r) for r in out["tbl"])
    obs = "[%s]" % ";\n  ".join(obs_term(o) for o in out["obs"])
    return "mkcase %s\n %s\n %s\n %s" % (cfg, ops, tbl, obs)


# ------------------------------------------------------------------------------------------ running

def variant():
    """BLOCK_VARIANT=fixed|current overrides Model.code_variant (used to rehearse a fix in a scratch worktree)"""
    v = os.environ.get("BLOCK_VARIANT")
    return {"fixed": "true", "current": "false"}.get(v)


CLEANER_PERIOD = "2 * time.Millisecond"


def build_block():
    """Build harness/cmd/block against the repository.  The background cleaner (sync.Task.InternalSnapshotCleaner)
    is only exported as a goroutine around a ticker with a constant period of 60 s; its loop body is not a
    function.  The harness runs that goroutine itself, so the build replaces, through `go build -overlay` (the
    repository is not touched), sync/sync.go by a copy in which the right-hand side of the declaration of
    SnapshotDeletionInterval reads 2 ms -- nothing else differs, the loop body is the tree's.  The harness refuses
    `clean` operations when the period it was compiled with is longer than 100 ms."""
    vlib.harness_gomod()
    bindir = os.path.join(vlib.HARNESS, "bin")
    os.makedirs(bindir, exist_ok=True)
    src_path = os.path.join(vlib.REPO, "sync", "sync.go")
    args = ["go", "build", "-tags", "verif"]
    try:
        src = open(src_path).read()
        new, n = re.subn(r"(?m)^(\s*(?:const\s+|var\s+)?SnapshotDeletionInterval\s*(?:time\.Duration\s*)?=\s*)[^\n]*$",
                         lambda m: m.group(1) + CLEANER_PERIOD, src)
    except OSError:
        n = 0
    if n == 1:
        ov_src = os.path.join(bindir, "sync_overlay.go.txt")
        ov_json = os.path.join(bindir, "overlay.json")
        for path, text in ((ov_src, new), (ov_json, json.dumps({"Replace": {os.path.abspath(src_path): ov_src}}))):
            tmp = "%s.%d" % (path, os.getpid())
            with open(tmp, "w") as f:
                f.write(text)
            os.replace(tmp, path)
        args += ["-overlay", ov_json]
    out = os.path.join(bindir, "block")
    rc, log = vlib.sh(args + ["-o", out, "./cmd/block"], cwd=vlib.HARNESS, env=vlib.GOENV, timeout=900)
    return (out if rc == 0 else None), log


def run_cases(ctx, binpath, cases, tag="blk", workers=16, shard=24):
    """Run cases on the implementation and through the model.
    Returns (bad, cov, outs): bad = list of dict(case, step, field, c01, c06, c11, c16)."""
    cs = []
    for i, c in enumerate(cases):
        d = dict(c)
        d["id"] = i
        cs.append(d)
    outs = vlib.run_harness(ctx, binpath, cs, tag=tag, workers=min(workers, max(1, len(cs))))
    terms = []
    failed = []
    for c in cs:
        o = outs[c["id"]]
        if o.get("err"):
            # the implementation panicked / failed to serve an observation inside a history of valid
            # operations: reported as a failure of every oracle (field 10); the model is not consulted
            failed.append(dict(case=c["id"], step=len(o.get("obs", [])), field=10, c01=False, c06=False,
                               c11=False, c16=False, err=o["err"]))
            o = dict(o, obs=[], tbl=[])
            c = dict(c, ops=[])
        terms.append(case_term(c, o))
    v = variant()
    if v is None:
        qs = lambda l: ["bad_cases 0 %s" % l, "coverage %s" % l]
    else:
        qs = lambda l: ["bad_cases_v %s 0 %s" % (v, l), "coverage_v %s %s" % (v, l)]
    res = vlib.coq_eval_sharded(ctx, tag, IMPORTS, terms, qs, shard=shard)
    bad = list(failed)
    cov = [0] * len(cs)
    for off, vals in res:
        for item in vlib.parse_coq_list(vals[0]):
            f = vlib.flat(item)
            bad.append(dict(case=off + f[0], step=f[1], field=f[2], c01=bool(f[3]), c06=bool(f[4]),
                            c11=bool(f[5]), c16=bool(f[6])))
        for i, v in enumerate(vlib.parse_coq_list(vals[1])):
            lo, hi = vlib.flat(v)
            cov[off + i] = lo + hi * 4096
    return bad, cov, outs


def valid_io(case):
    """every read / write stays inside the size the volume has at that point (the replica itself does not
    check this: the controller does)"""
    nb = case["nb"]
    K = case["K"]
    for o in case["ops"]:
        if o["k"] == "resize" and o["nb"] >= nb:
            nb = o["nb"]
        if o["k"] in ("w", "r", "rf", "u") and o["off"] + o["len"] > nb * K:
            return False
    return True


def shrink(ctx, binpath, case, still_bad, tag="shr", rounds=24):
    """greedy delta debugging on one case: every single-operation deletion is tried in one batch; when several
    of them keep the case failing, dropping all of those at once is tried first, else one is dropped"""
    cur = copy.deepcopy(case)
    n = 0
    while n < rounds:
        n += 1
        cands, pos = [], []
        for i in range(len(cur["ops"])):
            c = copy.deepcopy(cur)
            del c["ops"][i]
            if c["ops"] and valid_io(c):
                cands.append(c)
                pos.append(i)
        if not cands:
            break
        bad, _, _ = run_cases(ctx, binpath, cands, tag="%s%d" % (tag, n))
        idx = {x["case"]: x for x in bad}
        good = [i for i in range(len(cands)) if i in idx and still_bad(idx[i])]
        if not good:
            break
        if len(good) > 1:
            drop = set(pos[i] for i in good)
            allc = copy.deepcopy(cur)
            allc["ops"] = [o for i, o in enumerate(cur["ops"]) if i not in drop]
            if allc["ops"] and valid_io(allc):
                b2, _, _ = run_cases(ctx, binpath, [allc], tag="%s%da" % (tag, n))
                if b2 and still_bad(b2[0]):
                    cur = allc
                    continue
        cur = cands[good[-1]]
    return cur


# ------------------------------------------------------------------------------------------ findings

def is_f1_shape(case):
    """aligned write covering >= 2 blocks while punching may be on, at least one user-created snapshot
    and at least one later snapshot in the history before it (so that the blocks can have two
    different non-head owners one of which is protected)"""
    K = case["K"]
    user_seen = False
    later_snap = False
    punch_possible = case["punch"]
    for o in case["ops"]:
        if o["k"] == "snap":
            if user_seen:
                later_snap = True
            if o["user"]:
                user_seen = True
        if o["k"] in ("reload",) or (o["k"] == "punch" and o["b"]):
            punch_possible = True
        if o["k"] == "w" and user_seen and later_snap and punch_possible:
            if o["len"] > K or (o["off"] % K) + o["len"] > K:
                return True
    return False


def chain_after(ops):
    """snapshot names base first after the operations (light tracker, valid flows only)"""
    ch = []
    for o in ops:
        k = o["k"]
        if k == "snap" and o["name"] not in ch and o["name"] != 0:
            ch.append(o["name"])
        elif k in ("del", "rm") and o["name"] in ch:
            i = ch.index(o["name"])
            if i != len(ch) - 1 and (k == "rm" or i != 0):
                del ch[i]
        elif k == "revert" and o["name"] in ch:
            ch = ch[:ch.index(o["name"]) + 1]
    return ch


def is_s7_shape(case):
    """the history contains a raw RemoveDiffDisk ('rm') whose target is the base snapshot of the chain
    at that moment, with at least two snapshots in the chain"""
    for i, o in enumerate(case["ops"]):
        if o["k"] == "rm":
            ch = chain_after(case["ops"][:i])
            if len(ch) >= 2 and ch[0] == o["name"]:
                return True
    return False


def corpus(pid):
    out = []
    for p in sorted(glob.glob(os.path.join(vlib.VERIF, "corpus", "block", "*.json"))):
        out.append(json.load(open(p)))
    return out


COV_BITS = ["hole_sent", "hole_sent_with_user_snapshot", "unaligned_rmw_from_lower_file", "read_via_probe",
            "snapshot_deleted", "grew", "revert_ok", "reopen_or_reload", "shrink_refused", "protected_refused",
            "candidates_nonempty", "faulted_read_failed_across_files", "faulted_read_succeeded_beside_broken_file",
            "cleaner_merged_and_removed", "cleaner_kept_snapshot_after_failed_merge", "unmap_with_protected_user_snapshot"]


def cov_summary(cov):
    return {name: sum(1 for f in cov if f & (1 << i)) for i, name in enumerate(COV_BITS)}


def proof_layer(ctx):
    """L1.  `make` of the whole development is skipped when VERIF_NO_MAKE is set (builders working
    concurrently compile their own files); the property file is always re-checked with coqc."""
    if os.environ.get("VERIF_NO_MAKE"):
        info = dict(obligations=0, discharged=0, theorems=[], ok=True, why="")
        bad = vlib.coq_lint(ctx.pid)
        if bad:
            info.update(ok=False, why="forbidden construct: " + "; ".join(bad[:5]))
            return info
        r = vlib.coq_check_property(ctx.pid)
        info["theorems"] = r["theorems"]
        info["assumptions"] = r["assumptions"]
        info["obligations"] = len(r["theorems"])
        info["discharged"] = len([t for t in r["theorems"] if r["assumptions"].get(t) == "closed"]) if r["ok"] else 0
        if not r["ok"]:
            info.update(ok=False, why="Properties/%s.v does not check:\n%s" % (ctx.pid, r["log"][-2500:]))
        return info
    return vlib.proof_layer(ctx)


# ------------------------------------------------------------------------------------------ the check body

F1_TEXT = ("fullWriteAt sends the in-loop hole to d.files[val] (the file of the current block) with the previous "
           "run's offset/length: an aligned multi-block write over blocks with different owners punches a block of a "
           "user-created snapshot")
KNOWN = {
    "C06": [("f1-hole-wrong-file", is_f1_shape, F1_TEXT)],
    # the same defect seen through a later revert to the damaged user-created snapshot
    "C01": [("f1-hole-wrong-file", lambda c: is_f1_shape(c) and any(o["k"] == "revert" for o in c["ops"]),
             F1_TEXT + "; a later revert to that snapshot then reads zeros")],
    "C16": [("f1-hole-wrong-file", lambda c: is_f1_shape(c) and any(o["k"] == "revert" for o in c["ops"]),
             F1_TEXT + "; a later revert to that snapshot then reads zeros")],
    "C11": [("s7-raw-remove-base", is_s7_shape,
             "Replica.RemoveDiffDisk (REST action removedisk) refuses head and latest snapshot but accepts the base "
             "snapshot: its data is unlinked without a merge and the live volume changes")],
}

NONTRIVIAL = {
    "C01": lambda f: bool(f & (4 | 8 | 1 | 2048 | 4096)),
    "C06": lambda f: bool(f & (2 | 32768)),
    "C11": lambda f: bool(f & (16 | 512 | 1024 | 8192 | 16384)),
    "C16": lambda f: bool(f & (32 | 256)),
}

RULE = {
    "C01": "histories of writes/reads (alignment classes x length classes, hot blocks), snapshots, deletions, reverts, reopen/reload "
           "with and without preload, punching on/off on a real replica.Server; enumerated offset x length pairs on 1-3 file chains; "
           "a byte-granular stream (K=4096); preload's duplicate removal (blocks overwritten while punching is off, then punching on at a "
           "Reload / open with preload: directed layouts with non-adjacent duplicates at distance 2, 3, 5 in one or two older files, "
           "below / above a user-created snapshot, and random ones); reads issued while one chain file cannot be read (the harness swaps the descriptors it "
           "holds on that file for write-only ones for the duration of the call: every pread on it fails with EBADF, FIEMAP still "
           "works): enumerated on 2- and 3-file chains with alternating owners (every chain file in turn and one position outside "
           "the chain x 21 aligned / unaligned ranges ending in every owner, location table filled by reads or by preload) and random "
           "ones after 1-4 snapshots. non-trivial (model-side) = a hole was sent, or an unaligned write read-modified a block "
           "owned by a lower file, or the full read resolved a block through the FIEMAP probe, or a faulted read failed on a request "
           "spanning several files, or succeeded beside the broken file; distinct by operation list",
    "C06": "structured histories (cluster written, user/auto snapshots, partial overwrites, aligned multi-block writes across the cluster, "
           "punching on) + random ones + preload's duplicate removal (punching off during the overwrites, on at the preload; directed "
           "non-adjacent duplicates incl. between two automatic snapshots below a user-created one) + discards (Server.Unmap, whole blocks "
           "and ranges starting / ending inside a block, on chains user / auto / user-auto / auto-user / user-user, followed by reads, "
           "writes into the discarded range, reload, reopen; random histories with discards), NewReadOnly image and revert-on-copy of every snapshot after every step. non-trivial = a hole "
           "was sent while a user-created snapshot existed (SnapIndx >= 1), or an unmap was executed with SnapIndx >= 1; distinct by operation list",
    "C11": "random chain shapes (3-9 members, user/removed flags, data spread) with sync.GetDeleteCandidateChain queries, deletions "
           "(PrepareRemoveDisk -> sparse.FoldFile -> RemoveDiffDisk) in random order, protected targets through del/prep/rm; passes of the "
           "production cleaner goroutine (sync.Task.InternalSnapshotCleaner on the real replica.Server; the controller's /v1/checkpoint and "
           "the replica's sync agent are the harness: the checkpoint is handed out once per pass, the fold is performed with sparse.FoldFile "
           "or answered with exit code 1) on chains of 4-8 snapshots (user-created / automatic / marked removed), checkpoint at every "
           "position, absent or unknown, merge failing and succeeding, reopen in between. "
           "non-trivial = a snapshot was deleted, or a protected member was refused, or a non-empty candidate list, or a cleaner pass "
           "merged and removed a snapshot, or kept it after a failed merge; distinct by operation list",
    "C16": "random histories with Server.Resize (grow / equal / shrink) interleaved with I/O, snapshots, reopen; enumerated grow-write-reopen "
           "and shrink cases; the new size is written as a plain byte count, with a unit suffix (k K kb KB KiB ki ' k', a decimal fraction "
           "of m: binary multipliers as units.RAMInBytes reads them) or handed over as int64 (Replica.Resize). "
           "non-trivial = the volume grew or a shrink was refused; distinct by operation list",
}


def gen_cases(ctx, pid, quick):
    rng = ctx.rng
    cases = list(corpus(pid))
    if pid == "C01":
        cases += enum_split_cases(8)
        n = 230 if quick else 5000
        for i in range(n):
            cases.append(Gen.make(rng, rng.randint(8, 15), rev=False))
        for i in range(6 if quick else 60):
            cases.append(Gen.make(rng, rng.randint(6, 9), K=4096, nb=3, bias=dict(resize=0.0)))
        cases += enum_preload_dedup_cases(8) + preload_dedup_cases(rng, 8 if quick else 400)
        cases += [RF_CASE] + enum_read_fault_cases(8)
        cases += read_fault_cases(rng, 48 if quick else 1000)
    elif pid == "C06":
        cases += c06_cases(rng, 190 if quick else 4000)
        for i in range(40 if quick else 800):
            cases.append(Gen.make(rng, rng.randint(8, 14), rev=True, bias=dict(revert=0.12, user=0.6)))
        cases += enum_preload_dedup_cases(8, rev=True) + preload_dedup_cases(rng, 8 if quick else 300, rev=True)
        cases += enum_unmap_cases(8) + unmap_cases(rng, 16 if quick else 400)
    elif pid == "C11":
        cases += [S7_CASE]
        cases += chain_shape_cases(rng, 100 if quick else 2500)
        for i in range(70 if quick else 1500):
            cases.append(Gen.make(rng, rng.randint(10, 16), bias=dict(snap=0.25, **{"del": 0.2})))
        cases += [CLEAN_CASE] + cleaner_cases(rng, 32 if quick else 600)
    elif pid == "C16":
        cases += resize_enum_cases()
        cases += resize_cases(rng, 190 if quick else 4000)
    return cases


def resize_enum_cases():
    out = []
    K = 8
    for punch in (False, True):
        for pre in (False, True):
            # the same history with the sizes written as plain byte counts, and with unit suffixes / as int64
            for sp in (("", "", "", "", ""), ("k", "KiB", "m", "kb", "int64")):
                ops = [W(0, 4 * K, 1), SNAP(1, True), W(K, K, 2), SNAP(2, False), W(3, 2 * K, 3),
                       RESIZE(7, sp[0]), R(0, 7 * K), W(4 * K - 3, 2 * K, 4), W(6 * K, K, 5), REOPEN(pre), R(3 * K, 4 * K),
                       RESIZE(5, sp[1]), RESIZE(7, sp[2]), RESIZE(0, sp[3]), SNAP(3, True), RESIZE(9, sp[4]), W(8 * K + 1, K - 1, 6),
                       RELOAD(pre), REVERT(1), R(0, 9 * K)]
                out.append(mkcase(ops, K=K, nb=4, punch=punch, rev=True))
    return out


def main_for(ctx, replay=None):
    pid = ctx.pid
    key = pid.lower()
    proof = proof_layer(ctx)
    binpath, log = build_block()
    if not binpath:
        print("ERROR: harness does not build against the repository:\n" + log[-3000:])
        sys.exit(2)

    if replay:
        obj = json.load(open(replay))
        case = obj.get("case", obj)
        bad, cov, outs = run_cases(ctx, binpath, [case], tag="replay")
        for o, ob in zip(case["ops"], outs[0]["obs"]):
            print(json.dumps(o), "->", json.dumps({k: v for k, v in ob.items() if v not in ([], None, "")}))
        print("image table:", json.dumps(outs[0]["tbl"]))
        mine = [x for x in bad if not x[key] or x["field"] != 0]
        print("verdict:", mine if mine else "model and implementation agree; oracle %s holds" % key)
        ctx.cleanup()
        sys.exit(1 if mine else 0)

    quick = ctx.tier == "quick"
    cases = gen_cases(ctx, pid, quick)
    bad, cov, outs = run_cases(ctx, binpath, cases)
    concrete = [x for x in bad if not x[key]]
    drift = [x for x in bad if x[key] and x["field"] != 0]
    known_keys = dict((k, t) for k, t in vlib.load_known(pid))
    kns = [k for k in KNOWN.get(pid, []) if k[0] in known_keys]
    n_known = 0
    reported = 0

    def known_for(case, x):
        """a recorded finding whose stated shape the history has, provided the implementation behaved exactly
        like the model of the current tree (no model / implementation difference)"""
        if x["field"] != 0:
            return None
        for k in kns:
            if k[1](case):
                return k
        return None

    def finalize(case):
        bb, _, oo = run_cases(ctx, binpath, [case], tag="fin")
        return bb, oo[0]

    def report_concrete(x, case):
        # nothing after the first step at which model and implementation differ is needed
        if x.get("field") not in (0, 10) and x["step"] + 1 < len(case["ops"]):
            pre = dict(case, ops=case["ops"][:x["step"] + 1])
            bb0, _, _ = run_cases(ctx, binpath, [pre], tag="pre")
            if bb0 and not bb0[0][key]:
                case = pre
        small = shrink(ctx, binpath, case, lambda y: not y[key])
        bb, oo = finalize(small)
        vlib.violation(ctx, dict(property=pid, kind="oracle %s_oracle fails on the implementation's trace" % key,
                                 case=small, observed=oo["obs"], image_table=oo["tbl"], model_vs_impl=bb,
                                 replay_cmd="bin/vcheck %s --replay <this file>" % pid),
                       suffix="" if reported == 0 else "-%d" % reported)

    known_done = set()
    concrete.sort(key=lambda x: len(cases[x["case"]]["ops"]))      # the shortest failing histories are minimised
    for x in concrete:
        case = cases[x["case"]]
        kn = known_for(case, x)
        if kn:
            # candidate for the recorded finding; the first one per key is minimised and the predicate
            # re-checked on the minimal history
            if kn[0] not in known_done:
                small = shrink(ctx, binpath, case, lambda y: not y[key] and y["field"] == 0)
                if kn[1](small):
                    known_done.add(kn[0])
                    n_known += 1
                    vlib.known_finding(ctx, kn[0], kn[2] + "; minimal history: " + json.dumps(small["ops"]))
                    ctx.notes.append(dict(known_finding=kn[0], minimal_case=small))
                    continue
                if reported < 2:
                    report_concrete(x, case)
                    reported += 1
            else:
                n_known += 1
            continue
        if reported < 2:
            report_concrete(x, case)
            reported += 1

    if (drift or not proof["ok"]) and reported == 0:
        # the proof or the correspondence no longer checks: search wider for a history on which the
        # property itself fails on the implementation
        extra = []
        for p2 in ("C01", "C06", "C11", "C16"):
            extra += gen_cases(ctx, p2, True)
        bad2, _, _ = run_cases(ctx, binpath, extra, tag="search")
        conc2 = [y for y in bad2 if not y[key] and not known_for(extra[y["case"]], y)]
        if conc2:
            report_concrete(conc2[0], extra[conc2[0]["case"]])
        else:
            if drift:
                x = drift[0]
                small = shrink(ctx, binpath, cases[x["case"]], lambda y: y["field"] != 0)
                bb, oo = finalize(small)
                what = dict(broken="correspondence Block.Corr.check_case (model coq/theories/Block/Model.v, variant %s, vs replica.Server)" % (variant() or "code_variant"),
                            first_difference=dict(step=bb[0]["step"] if bb else None,
                                                  field=FIELD.get(bb[0]["field"]) if bb else None),
                            case=small, observed=oo["obs"], image_table=oo["tbl"])
            else:
                what = dict(broken="proof layer", why=proof["why"])
            what.update(property=pid, searched=len(cases) + len(extra))
            vlib.violation(ctx, what, nofail=True)

    seen = {}
    for c, f in zip(cases, cov):
        seen[json.dumps(c["ops"])] = f
    nontriv = sum(1 for f in seen.values() if NONTRIVIAL[pid](f))
    kinds = {}
    align = dict(aligned=0, unaligned_single_block=0, unaligned_crossing=0)
    chainlen = {}
    for c, o in zip(cases, [outs[i] for i in range(len(cases))]):
        K = c["K"]
        for op in c["ops"]:
            kinds[op["k"]] = kinds.get(op["k"], 0) + 1
            if op["k"] in ("w", "r"):
                if op["off"] % K == 0 and (op["off"] + op["len"]) % K == 0:
                    align["aligned"] += 1
                elif op["off"] // K == (op["off"] + op["len"] - 1) // K:
                    align["unaligned_single_block"] += 1
                else:
                    align["unaligned_crossing"] += 1
        for ob in o["obs"]:
            l = len(ob["chain"])
            chainlen[l] = chainlen.get(l, 0) + 1
    extra = dict(evaluations=len(cases), distinct_nontrivial=nontriv, rule=RULE[pid],
                 traces_validated_against_impl=len(cases), operations=sum(len(c["ops"]) for c in cases),
                 model_impl_differences=len([x for x in bad if x["field"] != 0]),
                 oracle_failures=len(concrete), oracle_failures_matching_known_finding=n_known,
                 model_variant=variant() or "Model.code_variant",
                 input_distribution=dict(operations=kinds, io_alignment=align,
                                         chain_length_at_observation=chainlen,
                                         granularity={str(k): sum(1 for c in cases if c["K"] == k) for k in sorted(set(c["K"] for c in cases))},
                                         punching_initially_on=sum(1 for c in cases if c["punch"])),
                 coverage_flags=cov_summary(cov), theorems=proof.get("theorems", []), exhaustive=False)
    irrelevant = {"C01": ("candidates_nonempty", "cleaner_", "unmap_"), "C06": ("candidates_nonempty", "cleaner_", "faulted_"),
                  "C11": ("faulted_", "unmap_"), "C16": ("candidates_nonempty", "cleaner_", "faulted_", "unmap_")}[pid]
    zero = [k for k, v in extra["coverage_flags"].items() if v == 0 and not k.startswith(irrelevant)]
    if zero:
        ctx.notes.append("coverage predicates with zero hits in this run: " + ", ".join(zero))
    samples = []
    for i in (0, len(cases) // 2, len(cases) - 1):
        samples.append(dict(case=cases[i], last_observation=outs[i]["obs"][-1] if outs[i]["obs"] else None))
    vlib.write_evidence(ctx, proof, extra, [
        "files are maps block -> content; ext4 semantics assumed: an extent exists iff the block was written and not punched since (4 KiB granularity), FIEMAP reports exactly those",
        "a queued hole is applied (or dropped) before the next chain-changing operation; the harness quiesces the production CreateHoles goroutine after every operation (all holes applied)",
        "the read-modify-write critical section (rmLock) and each Server call are atomic; no concurrent I/O",
        "snapshot names are fresh, reverts name a chain member, I/O stays inside [0, size) (the controller's half of C01/C16 is in the Ctl model)",
        "theorems are proved for the repaired fullWriteAt (variant fx = true); the implementation is compared with variant Model.code_variant",
        "read faults: every pread on one chain file fails for the duration of one ReadAt (EBADF); short reads and failing FIEMAP are not modelled",
        "cleaner passes: the production goroutine is run with its ticker period (constant SnapshotDeletionInterval, 60 s) replaced by 2 ms at "
        "harness build time (go build -overlay of sync/sync.go, that one right-hand side only); SnapshotRetentionCount = 1; the cleaner's choice "
        "among the candidates (ordered by allocated size) is taken from the observation and validated by the model (it must be a candidate)",
    ], samples)
    vlib.finish(ctx)
