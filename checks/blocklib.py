"""Generators, Coq-term printers, run loop, shrinking and the common check body of C01 C06 C11 C16
(model: coq/theories/Block, harness: harness/cmd/block)."""
import json, os, sys, glob, copy
sys.path.insert(0, os.path.join(os.path.dirname(os.path.abspath(__file__)), "..", "bin"))
import vlib

IMPORTS = ["Block.Model", "Block.Corr"]
FIELD = {0: "oracle only", 1: "result", 2: "read data / candidate list", 3: "live image", 4: "chain names",
         5: "member attributes", 6: "snapshot images (NewReadOnly)", 7: "revert-on-copy images", 8: "size", 9: "trace length"}
ORACLES = ["c01", "c06", "c11", "c16"]

# ------------------------------------------------------------------------------------------ operations

def W(off, ln, tok): return dict(k="w", off=off, len=ln, tok=tok)
def R(off, ln): return dict(k="r", off=off, len=ln)
def SNAP(name, user): return dict(k="snap", name=name, user=bool(user))
def PREP(name): return dict(k="prep", name=name)
def FOLD(src, dst): return dict(k="fold", src=src, dst=dst)
def RM(name): return dict(k="rm", name=name)
def DEL(name): return dict(k="del", name=name)
def REVERT(name): return dict(k="revert", name=name)
def REOPEN(pre): return dict(k="reopen", pre=bool(pre))
def RELOAD(pre): return dict(k="reload", pre=bool(pre))
def PUNCH(b): return dict(k="punch", b=bool(b))
def RESIZE(nb): return dict(k="resize", nb=nb)
LUN = dict(k="lun")
def CAND(cp): return dict(k="cand", cp=cp)          # cp = -1: no checkpoint


def mkcase(ops, K=8, nb=8, punch=True, rev=False):
    return dict(K=K, nb=nb, punch=bool(punch), rev=bool(rev), ops=ops)


class Gen:
    """Random histories.  Tracks a light abstract state (chain names, flags, size) only to keep the
    histories mostly valid and the deletions mostly admissible; the verdict never depends on it."""

    def __init__(self, rng, K=8, nb=None, punch=None, rev=False, bias=None):
        self.rng = rng
        self.K = K
        self.nb = nb if nb is not None else rng.choice([4, 6, 8, 8, 12, 16])
        self.nb0 = self.nb
        self.punch0 = punch if punch is not None else (rng.random() < 0.75)
        self.rev = rev
        self.snaps = []            # [name, user, removed] base first
        self.next_name = 1
        self.tok = 0
        self.hot = sorted(rng.sample(range(self.nb), min(self.nb, rng.choice([2, 3, 4]))))
        self.bias = bias or {}
        self.ops = []

    # ---- I/O shapes
    def newtok(self):
        self.tok += 1
        return self.tok if self.K < 4096 else (self.tok % 250) + 1

    def io_range(self):
        """offset / length (units) from alignment classes, around hot blocks"""
        rng, K, nb = self.rng, self.K, self.nb
        total = nb * K
        b = rng.choice(self.hot) if rng.random() < 0.7 else rng.randrange(nb)
        cls = rng.choice(["aligned", "aligned", "sub", "toend", "cross1", "cross2", "tail", "whole", "unit"])
        if cls == "aligned":
            off = b * K
            ln = K * rng.choice([1, 1, 2, 2, 3, 4])
        elif cls == "sub":
            off = b * K + rng.randrange(K)
            ln = rng.randint(1, max(1, K - off % K))
        elif cls == "toend":
            off = b * K + rng.randrange(1, K) if K > 1 else b * K
            ln = K - off % K
        elif cls == "cross1":
            off = b * K + rng.randrange(1, K) if K > 1 else b * K
            ln = (K - off % K) + rng.randint(1, K)
        elif cls == "cross2":
            off = b * K + rng.randrange(K)
            ln = (K - off % K) + K * rng.randint(1, 3) + rng.randrange(K)
        elif cls == "tail":
            off = b * K
            ln = K * rng.randint(0, 2) + rng.randint(1, max(1, K - 1))
        elif cls == "whole":
            off, ln = 0, total
        else:
            off = rng.randrange(total)
            ln = 1
        off = min(off, total - 1)
        ln = max(1, min(ln, total - off))
        return off, ln

    def write(self):
        off, ln = self.io_range()
        tok = 0 if self.rng.random() < 0.04 else self.newtok()
        return W(off, ln, tok)

    def multi_block_write(self):
        """aligned write over >= 2 blocks starting at a hot block (the shape F1 needs)"""
        b = self.rng.choice(self.hot)
        n = self.rng.randint(2, 4)
        b = min(b, max(0, self.nb - n))
        n = min(n, self.nb - b)
        return W(b * self.K, n * self.K, self.newtok())

    def read(self):
        off, ln = self.io_range()
        return R(off, ln)

    # ---- chain bookkeeping
    def deletable(self, admissible=True):
        out = []
        n = len(self.snaps)
        for i in range(1, n - 1):          # not base (0), not latest (n-1)
            par = self.snaps[i - 1]
            if admissible and par[1] and not par[2]:
                continue
            out.append(i)
        return out

    def step(self):
        rng = self.rng
        x = rng.random()
        bias = self.bias
        w_snap = bias.get("snap", 0.14)
        w_del = bias.get("del", 0.07)
        w_rev = bias.get("revert", 0.05)
        w_reo = bias.get("reopen", 0.02)
        w_rel = bias.get("reload", 0.06)
        w_rsz = bias.get("resize", 0.03)
        acc = 0.0
        acc += w_snap
        if x < acc and len(self.snaps) < 6:
            name = self.next_name
            self.next_name += 1
            user = rng.random() < bias.get("user", 0.45)
            self.snaps.append([name, user, False])
            return SNAP(name, user)
        acc += w_del
        if x < acc and len(self.snaps) >= 3:
            cands = self.deletable(admissible=rng.random() < 0.9)
            if cands:
                i = rng.choice(cands)
                name = self.snaps[i][0]
                del self.snaps[i]
                return DEL(name)
        acc += 0.03
        if x < acc and self.snaps:
            # protected or unknown targets through the three entry points
            tgt = rng.choice([0, self.snaps[-1][0], self.snaps[0][0], 77])
            return rng.choice([DEL, PREP, PREP])(tgt)
        acc += 0.02
        if x < acc and len(self.snaps) >= 3:
            i = rng.randrange(1, len(self.snaps) - 1)
            self.snaps[i][2] = True
            return PREP(self.snaps[i][0])
        acc += w_rev
        if x < acc and self.snaps:
            users = [i for i, s in enumerate(self.snaps) if s[1] and not s[2]]
            if users and rng.random() < 0.75:
                i = rng.choice(users)
            else:
                i = rng.randrange(len(self.snaps))
            name = self.snaps[i][0]
            self.snaps = self.snaps[:i + 1]
            return REVERT(name)
        acc += w_reo
        if x < acc:
            return REOPEN(rng.random() < 0.5)
        acc += w_rel
        if x < acc:
            return RELOAD(rng.random() < 0.5)
        acc += 0.03
        if x < acc:
            return PUNCH(rng.random() < 0.6)
        acc += w_rsz
        if x < acc:
            r = rng.random()
            if r < 0.6 and self.nb < 24:
                self.nb += rng.randint(1, 4)
                return RESIZE(self.nb)
            if r < 0.8:
                return RESIZE(self.nb)
            return RESIZE(max(0, self.nb - rng.randint(1, 3)))
        acc += 0.02
        if x < acc:
            return LUN
        acc += 0.02
        if x < acc and self.snaps:
            return CAND(rng.choice([s[0] for s in self.snaps] + [-1, 0]))
        acc += 0.12
        if x < acc:
            return self.read()
        if rng.random() < bias.get("multi", 0.25):
            return self.multi_block_write()
        return self.write()

    def history(self, n):
        ops = []
        for _ in range(n):
            ops.append(self.step())
        return mkcase(ops, K=self.K, nb=self.nb0, punch=self.punch0, rev=self.rev)

    @classmethod
    def make(cls, rng, n, **kw):
        return cls(rng, **kw).history(n)


def enum_split_cases(K=8):
    """every (offset class x length class) pair of an unaligned / aligned write and read on 1-, 2- and
    3-file chains whose blocks are owned by different files"""
    cases = []
    offs = [0, 1, K - 1, K, K + 3]
    lens = [1, K - 1, K, K + 1, 2 * K, 2 * K + 3, 3 * K]
    for files in (1, 2, 3):
        for off in offs:
            ops = []
            tok = 1
            for f in range(files - 1):
                ops.append(W(0, 4 * K, tok)); tok += 1
                if f == 1:
                    ops.append(W(K, K, tok)); tok += 1
                ops.append(SNAP(f + 1, f == 0))
            if files >= 2:
                ops.append(W(2 * K, K, tok)); tok += 1
            for ln in lens:
                if off + ln <= 6 * K:
                    ops.append(W(off, ln, tok)); tok += 1
                    ops.append(R(off, ln))
            cases.append(mkcase(ops, K=K, nb=6, punch=True))
    return cases


F1_CASE = mkcase([W(0, 16, 1), SNAP(1, True), W(0, 8, 2), SNAP(2, False), W(0, 16, 3)], K=8, nb=8, punch=True)
S7_CASE = mkcase([W(0, 16, 1), SNAP(1, False), W(8, 8, 2), SNAP(2, False), W(16, 8, 3), RM(1)], K=8, nb=8, punch=False)


def c06_cases(rng, n):
    """biased to the conjunction C06 names: user snapshot below, several owners, multi-block aligned
    writes, punching on; revert-on-copy of every snapshot after every step"""
    out = []
    for _ in range(n):
        out.append(Gen.make(rng, rng.randint(8, 14), punch=True, rev=True,
                            bias=dict(snap=0.22, user=0.5, multi=0.55, reload=0.05, reopen=0.0, resize=0.02, revert=0.05)))
    return out


def chain_shape_cases(rng, n):
    """random chain shapes (3-9 members, user / removed flags, data spread over members) followed by the
    candidate query for several checkpoints and deletions of candidates in random order"""
    out = []
    for _ in range(n):
        K, nb = 8, rng.choice([6, 8])
        ops = []
        snaps = []
        tok = 0
        m = rng.randint(2, 8)
        for i in range(1, m + 1):
            for _ in range(rng.randint(0, 2)):
                tok += 1
                b = rng.randrange(nb)
                l = rng.randint(1, min(3, nb - b))
                ops.append(W(b * K, l * K, tok))
            user = rng.random() < 0.4
            ops.append(SNAP(i, user))
            snaps.append([i, user, False])
        tok += 1
        ops.append(W(0, K, tok))
        for s in snaps[1:-1]:
            if rng.random() < 0.3:
                ops.append(PREP(s[0]))
                s[2] = True
        cp = rng.choice([s[0] for s in snaps] + [-1, 0, 55])
        ops.append(CAND(cp))
        # delete admissible members in random order
        order = list(range(1, len(snaps) - 1))
        rng.shuffle(order)
        names = [s[0] for s in snaps]
        for i in order[:3]:
            name = names[i]
            j = [s[0] for s in snaps].index(name)
            par = snaps[j - 1]
            if j == 0 or j == len(snaps) - 1:
                continue
            if par[1] and not par[2] and rng.random() < 0.85:
                continue
            ops.append(DEL(name))
            del snaps[j]
            ops.append(CAND(rng.choice([s[0] for s in snaps] + [-1])))
        # protected targets
        ops.append(rng.choice([DEL, PREP])(snaps[0][0]))
        ops.append(rng.choice([DEL, PREP, RM])(snaps[-1][0]))
        ops.append(rng.choice([DEL, PREP, RM])(0))
        out.append(mkcase(ops, K=K, nb=nb, punch=rng.random() < 0.5, rev=False))
    return out


def resize_cases(rng, n):
    out = []
    for _ in range(n):
        out.append(Gen.make(rng, rng.randint(8, 14), bias=dict(resize=0.2, snap=0.15, reload=0.08, reopen=0.03)))
    return out


# ------------------------------------------------------------------------------------------ Coq printing

def nat(v):
    return str(v) if v < 2000 else "(N.to_nat %d%%N)" % v


def b(v):
    return "true" if v else "false"


def op_term(o):
    k = o["k"]
    if k == "w":
        return "Write %s (repeat %d%%N %s)" % (nat(o["off"]), o["tok"], nat(o["len"]))
    if k == "r":
        return "Read %s %s" % (nat(o["off"]), nat(o["len"]))
    if k == "snap":
        return "Snap %d%%N %s" % (o["name"], b(o["user"]))
    if k == "prep":
        return "PrepRemove %d%%N" % o["name"]
    if k == "fold":
        return "Coalesce %d%%N %d%%N" % (o["src"], o["dst"])
    if k == "rm":
        return "Remove %d%%N" % o["name"]
    if k == "del":
        return "Delete %d%%N" % o["name"]
    if k == "revert":
        return "Revert %d%%N" % o["name"]
    if k == "reopen":
        return "Reopen %s" % b(o["pre"])
    if k == "reload":
        return "Reload %s" % b(o["pre"])
    if k == "punch":
        return "SetPunch %s" % b(o["b"])
    if k == "resize":
        return "Resize %s" % nat(o["nb"])
    if k == "lun":
        return "UpdateLunMap"
    if k == "cand":
        return "Candidates %s" % ("None" if o["cp"] < 0 else "(Some %d%%N)" % o["cp"])
    raise ValueError(o)


def rle_term(r):
    return "[%s]" % "; ".join("(%s, %d%%N)" % (nat(n), v) for n, v in r)


def obs_term(ob):
    res = "ROk" if ob["res"] == "ok" else "RErr"
    if ob.get("names"):
        data = "[%s]" % "; ".join("%d%%N" % (n if n >= 0 else 888888) for n in ob["names"])
    elif ob.get("data"):
        data = "(unrle %s)" % rle_term(ob["data"])
    else:
        data = "[]"
    chain = "[%s]" % "; ".join("%d%%N" % (n if n >= 0 else 888888) for n in ob["chain"])
    attr = "[%s]" % "; ".join("(%s, %s)" % (b(u), b(r)) for u, r in ob["attr"])
    snaps = "[%s]" % "; ".join(str(i) for i in ob["snaps"])
    revs = "[%s]" % "; ".join(str(i) for i in ob["revs"])
    return "mkrobs %s %s %d %s %s %s %s %s" % (res, data, ob["live"], chain, attr, snaps, revs, nat(ob["nblk"]))


def case_term(c, out):
    cfg = "(mkcfg %s %s %s %s)" % (nat(c["K"]), nat(c["nb"]), b(c["punch"]), b(c["rev"]))
    ops = "[%s]" % ";\n  ".join(op_term(o) for o in c["ops"])
    tbl = "[%s]" % ";\n  ".join(rle_term(r) for r in out["tbl"])
    obs = "[%s]" % ";\n  ".join(obs_term(o) for o in out["obs"])
    return "mkcase %s\n %s\n %s\n %s" % (cfg, ops, tbl, obs)


# ------------------------------------------------------------------------------------------ running

def run_cases(ctx, binpath, cases, tag="blk", workers=16, shard=24):
    """Run cases on the implementation and through the model.
    Returns (bad, cov, outs): bad = list of dict(case, step, field, c01, c06, c11, c16)."""
    cs = []
    for i, c in enumerate(cases):
        d = dict(c)
        d["id"] = i
        cs.append(d)
    outs = vlib.run_harness(ctx, binpath, cs, tag=tag, workers=min(workers, max(1, len(cs))))
    terms = []
    for c in cs:
        o = outs[c["id"]]
        if o.get("err"):
            raise RuntimeError("harness error on case %d: %s\n%s" % (c["id"], o["err"], json.dumps(c)))
        terms.append(case_term(c, o))
    res = vlib.coq_eval_sharded(ctx, tag, IMPORTS, terms,
                                lambda l: ["bad_cases 0 %s" % l, "coverage %s" % l], shard=shard)
    bad = []
    cov = [0] * len(cs)
    for off, vals in res:
        for item in vlib.parse_coq_list(vals[0]):
            f = vlib.flat(item)
            bad.append(dict(case=off + f[0], step=f[1], field=f[2], c01=bool(f[3]), c06=bool(f[4]),
                            c11=bool(f[5]), c16=bool(f[6])))
        for i, v in enumerate(vlib.parse_coq_list(vals[1])):
            cov[off + i] = v
    return bad, cov, outs


def shrink(ctx, binpath, case, still_bad, tag="shr", rounds=8):
    """greedy delta debugging on one case: drop operations, then shrink write lengths"""
    cur = copy.deepcopy(case)
    n = 0
    changed = True
    while changed and n < rounds:
        changed = False
        n += 1
        cands = []
        for i in range(len(cur["ops"])):
            c = copy.deepcopy(cur)
            del c["ops"][i]
            if c["ops"]:
                cands.append(c)
        if not cands:
            break
        bad, _, _ = run_cases(ctx, binpath, cands, tag="%s%d" % (tag, n))
        idx = {x["case"]: x for x in bad}
        for i in range(len(cands) - 1, -1, -1):
            if i in idx and still_bad(idx[i]):
                cur = cands[i]
                changed = True
                break
    return cur


# ------------------------------------------------------------------------------------------ findings

def is_f1_shape(case):
    """aligned write covering >= 2 blocks while punching may be on, at least one user-created snapshot
    and at least one later snapshot in the history before it (so that the blocks can have two
    different non-head owners one of which is protected)"""
    K = case["K"]
    user_seen = False
    later_snap = False
    punch_possible = case["punch"]
    for o in case["ops"]:
        if o["k"] == "snap":
            if user_seen:
                later_snap = True
            if o["user"]:
                user_seen = True
        if o["k"] in ("reload",) or (o["k"] == "punch" and o["b"]):
            punch_possible = True
        if o["k"] == "w" and user_seen and later_snap and punch_possible:
            if o["len"] > K or (o["off"] % K) + o["len"] > K:
                return True
    return False


def is_s7_shape(case, step):
    """the failing step is a raw RemoveDiffDisk"""
    return 0 <= step < len(case["ops"]) and case["ops"][step]["k"] == "rm"


def corpus(pid):
    out = []
    for p in sorted(glob.glob(os.path.join(vlib.VERIF, "corpus", "block", "*.json"))):
        out.append(json.load(open(p)))
    return out


COV_BITS = ["hole_sent", "hole_sent_with_user_snapshot", "unaligned_rmw_from_lower_file", "read_via_probe",
            "snapshot_deleted", "grew", "revert_ok", "reopen_or_reload", "shrink_refused", "protected_refused",
            "candidates_nonempty"]


def cov_summary(cov):
    return {name: sum(1 for f in cov if f & (1 << i)) for i, name in enumerate(COV_BITS)}


def proof_layer(ctx):
    """L1.  `make` of the whole development is skipped when VERIF_NO_MAKE is set (builders working
    concurrently compile their own files); the property file is always re-checked with coqc."""
    if os.environ.get("VERIF_NO_MAKE"):
        info = dict(obligations=0, discharged=0, theorems=[], ok=True, why="")
        bad = vlib.coq_lint()
        if bad:
            info.update(ok=False, why="forbidden construct: " + "; ".join(bad[:5]))
            return info
        r = vlib.coq_check_property(ctx.pid)
        info["theorems"] = r["theorems"]
        info["assumptions"] = r["assumptions"]
        info["obligations"] = len(r["theorems"])
        info["discharged"] = len([t for t in r["theorems"] if r["assumptions"].get(t) == "closed"]) if r["ok"] else 0
        if not r["ok"]:
            info.update(ok=False, why="Properties/%s.v does not check:\n%s" % (ctx.pid, r["log"][-2500:]))
        return info
    return vlib.proof_layer(ctx)
