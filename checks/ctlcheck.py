"""Common check body of the properties decided on the Ctl model: C02 C03 C04 C05 C09 C13 C18."""
import json, os, sys, glob, itertools
sys.path.insert(0, os.path.join(os.path.dirname(os.path.abspath(__file__)), "..", "bin"))
import vlib, ctllib
from ctllib import ev, fl, boot, add, world, pair, SIZE

# coverage bits of Ctl.Oracles.case_flags
F_MINORITY, F_REFUSED, F_FAILOVER, F_SIGNAL, F_CHECKPOINT, F_PROMOTED, F_MONITOR, F_FAILED, F_THREE = 1, 2, 4, 8, 16, 32, 64, 128, 256

NONTRIVIAL = {
    "C02": lambda f: f & F_MINORITY or f & F_FAILED,
    "C03": lambda f: f & F_REFUSED,
    "C04": lambda f: f & F_FAILOVER or f & F_FAILED,
    "C05": lambda f: f & F_MINORITY or f & F_MONITOR,
    "C09": lambda f: f & F_SIGNAL,
    "C13": lambda f: f & F_CHECKPOINT,
    "C18": lambda f: f & F_PROMOTED or f & F_MONITOR,
}
RULE = {
    "C02": "exhaustive outcome assignments {ok, error, applied-then-error}^writers for rf 1..3 (thorough: 1..5) x op in {write, sync, unmap} on fully RW and RW+WO memberships, each followed by a read and a probe write, plus scenarios and random histories; non-trivial = the model acknowledged a write with a failing minority or failed one; distinct by event list",
    "C03": "every membership-changing path (start, add, verify, I/O error, monitor failure, explicit remove, mode override, snapshot / resize failure) around the quorum boundary for rf 1..5 with probe writes before and after the monitor goroutines run, plus random histories; non-trivial = the model refused an I/O for lack of quorum",
    "C04": "read fault patterns over memberships with RW, WO and ERR replicas, every subset of failing readers for rf 1..4, plus random histories; non-trivial = a read failed over or failed",
    "C05": "every failing subset x the three detectors (I/O error, monitor failure, explicit remove) in both orders, then I/O and re-add; plus random histories; non-trivial = an acknowledged write with a failing minority or a monitor event that removed a replica",
    "C09": "registration orders of up to 4 replicas with revision counts from {1,2,3} (ties), fixed rebuilding flags, repetitions, signal / liveness failures, starts by leaders and non-leaders, rf 1..5; non-trivial = a start signal was sent",
    "C13": "snapshot and set-checkpoint outcomes per replica x membership histories (add, verify, remove, fail), rf 1..4; non-trivial = a checkpoint was recorded at some point",
    "C18": "random and enumerated histories of register/start/add-check/add-commit/verify/remove/set-mode/monitor events over up to 6 addresses including duplicates, unknown addresses and interleaved admissions; non-trivial = a promotion or a monitor-driven removal happened",
}


# ------------------------------------------------------------------ focused generators

def gen_c02(ctx, quick):
    cases = []
    rfs = (1, 2, 3) if quick else (1, 2, 3, 4, 5)
    outs = ("ok", "write", "writeap")
    for rf in rfs:
        for with_wo in (False, True):
            nrw = rf - 1 if with_wo else rf
            if nrw < 1:
                continue
            members = list(range(rf))
            prefix = boot(rf, 0, list(range(1, nrw)))
            if with_wo:
                prefix = prefix + add(nrw, verify=False)
            for assign in itertools.product(outs, repeat=len(members)):
                for op in ("write", "sync", "unmap"):
                    if op != "write" and "writeap" in assign:
                        continue
                    if op == "write":
                        fs = [dict(a=a, k=o) for a, o in zip(members, assign) if o != "ok"]
                        e = ev("write", wid=1, off=0, len=4096, fs=fs)
                    else:
                        fs = [dict(a=a, k=op) for a, o in zip(members, assign) if o != "ok"]
                        e = ev(op, fs=fs)
                    if not quick or ctx.rng.random() < (1.0 if len(members) <= 2 else 0.45):
                        cases.append(dict(rf=rf, world=world(rf), events=prefix + [e, ev("read", off=0, len=4096), ev("write", wid=2, off=4096, len=4096)]))
    return cases


def membership_paths(rf, n):
    """histories that move the number of RW replicas across the quorum boundary in every way"""
    H = []
    full = boot(rf, 0, list(range(1, rf)))
    probe = lambda w: ev("write", wid=w, off=0, len=4096)
    for k in range(0, rf + 1):      # k replicas leave / fail
        victims = list(range(rf - 1, rf - 1 - k, -1))
        # explicit removal
        H.append(full + [ev("remove", a=a) for a in victims] + [probe(1), ev("sync"), ev("unmap")])
        # monitor failure
        H.append(full + [ev("monfail", a=a) for a in victims] + [probe(1)])
        # mode override to ERR, probe before and after the monitor goroutine runs
        H.append(full + [ev("setmode", a=a, mode="ERR") for a in victims] + [probe(1)] + [ev("monfire", a=a) for a in victims] + [probe(2)])
        # snapshot failing on the victims, probe before and after
        if k:
            H.append(full + [ev("snapshot", name=1, fs=[dict(a=a, k="snap") for a in victims]), probe(1)]
                     + [ev("monfire", a=a) for a in victims] + [probe(2)])
            H.append(full + [ev("resize", size=2 * SIZE, fs=[dict(a=a, k="resize") for a in victims]), probe(1)]
                     + [ev("monfire", a=a) for a in victims] + [probe(2)])
            # I/O error
            H.append(full + [ev("write", wid=1, off=0, len=4096, fs=[dict(a=a, k="write") for a in victims]), probe(2)])
    # growing back: start with one, add the others one by one, probing in between
    es = boot(rf, 0, [])
    for a in range(1, rf):
        es = es + [probe(a)] + add(a, verify=False) + [probe(10 + a), ev("verify", a=a)]
    H.append(es + [probe(99)])
    # admin promotion
    if rf >= 2:
        H.append(boot(rf, 0, []) + add(1, verify=False) + [ev("setmode", a=1, mode="RW"), probe(1), ev("read", off=0, len=4096)])
    return [dict(rf=rf, world=world(max(n, rf)), events=h) for h in H]


def queued_io(rf):
    """a write / sync / unmap issued while another write is held inside the replicas: it runs after it"""
    H = []
    full = boot(rf, 0, list(range(1, rf)))
    for k in range(0, rf):
        victims = list(range(rf - 1, rf - 1 - k, -1))
        w1 = ev("write", wid=1, off=0, len=4096, fs=[dict(a=a, k=("write" if a % 2 else "writeap")) for a in victims])
        for second in (ev("write", wid=2, off=4096, len=4096), ev("sync"), ev("unmap"), ev("read", off=0, len=4096)):
            H.append(full + [pair(w1, second, "write"), ev("write", wid=3, off=0, len=4096)])
    return [dict(rf=rf, world=world(rf), events=h) for h in H]


def gen_c03(ctx, quick):
    cases = []
    for rf in ((1, 2, 3) if quick else (1, 2, 3, 4, 5)):
        cases += membership_paths(rf, rf)
    for rf in ((2, 3) if quick else (2, 3, 4, 5)):
        cases += queued_io(rf)
    return cases


def gen_c04(ctx, quick):
    cases = []
    for rf in ((1, 2, 3) if quick else (1, 2, 3, 4)):
        full = boot(rf, 0, list(range(1, rf)))
        for k in range(0, rf + 1):
            for sub in itertools.combinations(range(rf), k):
                fs = [dict(a=a, k="read") for a in sub]
                cases.append(dict(rf=rf, world=world(rf), events=full + [ev("read", off=0, len=4096, fs=fs), ev("read", off=4096, len=4096), ev("read", off=0, len=4096)]))
        # with a rebuilding replica and a failed one present
        if rf >= 2:
            es = boot(rf, 0, list(range(1, rf - 1))) + add(rf - 1, verify=False)
            cases.append(dict(rf=rf, world=world(rf), events=es + [ev("read", off=0, len=4096)] * 3 + [ev("read", off=0, len=4096, fs=fl((0, "read")))] + [ev("read", off=0, len=4096)]))
            cases.append(dict(rf=rf, world=world(rf), events=es + [ev("monfail", a=a) for a in range(rf - 1)] + [ev("read", off=0, len=4096)]))
            # every RW replica fails the read while a rebuilding one is attached: the read fails (a WO replica is
            # not a healthy copy), then with the RW replicas gone nothing is served
            allrw = [dict(a=a, k="read") for a in range(rf - 1)]
            cases.append(dict(rf=rf, world=world(rf), events=es + [ev("read", off=0, len=4096, fs=allrw), ev("read", off=0, len=4096), ev("write", wid=1, off=0, len=4096)]))
            cases.append(dict(rf=rf, world=world(rf), events=es + [ev("read", off=0, len=4096)] + [ev("read", off=0, len=4096, fs=allrw), ev("read", off=4096, len=4096)]))
            cases.append(dict(rf=rf, world=world(rf), events=full + [ev("setmode", a=0, mode="ERR"), ev("read", off=0, len=4096), ev("read", off=0, len=4096)]))
            for a in range(rf):
                cases.append(dict(rf=rf, world=world(rf), events=full + [pair(ev("write", wid=1, off=0, len=4096, fs=fl((a, "write"))), ev("read", off=0, len=4096), "write"),
                                                                         ev("read", off=0, len=4096)]))
    return cases


def gen_c05(ctx, quick):
    cases = []
    for rf in ((2, 3) if quick else (2, 3, 4, 5)):
        full = boot(rf, 0, list(range(1, rf)))
        for k in range(1, rf):
            for sub in itertools.combinations(range(rf), k):
                ios = [ev("write", wid=1, off=0, len=4096, fs=[dict(a=a, k=("writeap" if a % 2 else "write")) for a in sub]),
                       ev("sync", fs=[dict(a=a, k="sync") for a in sub]), ev("unmap", fs=[dict(a=a, k="unmap") for a in sub])]
                io = ios[len(cases) // 5 % 3] if quick else None
                mons = [ev("monfail", a=a) for a in sub]
                rems = [ev("remove", a=a) for a in sub]
                tail = [ev("write", wid=2, off=0, len=4096), ev("read", off=0, len=4096)]
                back = []
                a0 = sub[0]
                back = [ev("addcheck", a=a0), ev("addcommit", a=a0), ev("write", wid=3, off=0, len=4096), ev("verify", a=a0)]
                for io in ([io] if quick else ios):
                    for order in ([io] + mons, mons + [io], [io] + rems, rems + [io], mons[:1] + [io] + mons[1:]):
                        cases.append(dict(rf=rf, world=world(rf), events=full + order + [ev("monfire", a=a) for a in sub] + tail + back))
    if quick and len(cases) > 140:
        ctx.rng.shuffle(cases)
        cases = cases[:140]
    # the monitor reports a replica that is still rebuilding (WO), with an error and with nil: it is detached
    for rf in (2, 3):
        es = boot(rf, 0, list(range(1, rf - 1))) + add(rf - 1, verify=False)
        for nil in (False, True):
            cases.append(dict(rf=rf, world=world(rf), events=es + [ev("write", wid=1, off=0, len=4096), ev("monfail", a=rf - 1, nilerr=nil),
                                                                  ev("write", wid=2, off=0, len=4096), ev("read", off=0, len=4096)] + add(rf - 1)))
    # a replica marked failed (mode request, snapshot or resize failure) that is asked to be RW again before its
    # monitor removes it: it stays failed and comes back only through remove + add
    for rf in (2, 3):
        full = boot(rf, 0, list(range(1, rf)))
        for mark in ([ev("setmode", a=1, mode="ERR")], [ev("snapshot", name=1, fs=fl((1, "snap")))], [ev("resize", size=2 * ctllib.SIZE, fs=fl((1, "resize")))]):
            cases.append(dict(rf=rf, world=world(rf), events=full + mark + [ev("write", wid=1, off=0, len=4096), ev("setmode", a=1, mode="RW"),
                                                                            ev("read", off=0, len=4096), ev("read", off=0, len=4096), ev("write", wid=2, off=0, len=4096),
                                                                            ev("monfire", a=1), ev("write", wid=3, off=0, len=4096)]))
    return cases


def gen_c09(ctx, quick):
    cases = []
    n_rand = 160 if quick else 3000
    for _ in range(n_rand):
        rf = ctx.rng.randint(1, 5)
        n = ctx.rng.randint(2, 4)
        es, revs = ctllib.bootstrap_history(ctx.rng, rf, n)
        cases.append(dict(rf=rf, world=world(n, revs=dict(enumerate(revs))), events=es))
    # the elected leader becomes unreachable after it was signalled and another registered replica registers
    # again (sync's registration loop): the leader's registration is dropped, the majority is gone, nobody
    # may be signalled until enough replicas have registered again
    for rf in (3, 5):
        q = rf // 2 + 1
        revs = {a: (9 if a == 0 else 7 - (a % 2)) for a in range(rf)}
        regs = [ev("register", a=a, uuid=a + 1, rev=revs[a]) for a in range(q)]
        for who in range(1, q):
            for later in ([], [ev("register", a=q % rf, uuid=(q % rf) + 1, rev=revs[q % rf])], [ev("register", a=0, uuid=1, rev=revs[0])]):
                es = regs + [ev("register", a=who, uuid=who + 1, rev=revs[who], fs=[dict(a=0, k="alive")])] + later
                es += [ev("start", addrs=[a]) for a in range(q)]
                cases.append(dict(rf=rf, world=world(rf, revs=revs), events=es))
    # a start request naming several replicas: the signalled leader first, then a replica that registered
    # afterwards with a higher / equal / lower revision count (replicas behind the maximum found at start-up are
    # not used)
    for rf in (3, 5):
        q = rf // 2 + 1
        for late_rev in (8, 5, 3):
            revs = {a: 5 for a in range(rf)}
            late = q
            revs[late] = late_rev
            es = [ev("register", a=a, uuid=a + 1, rev=revs[a]) for a in range(q)]
            es += [ev("register", a=late, uuid=late + 1, rev=late_rev)]
            for lead in range(q):
                es2 = es + [ev("start", addrs=[lead, late]), ev("read", off=0, len=4096), ev("write", wid=1, off=0, len=4096)]
                cases.append(dict(rf=rf, world=world(rf, revs=revs), events=es2))
    # addresses of which one is a textual prefix of another (…1 and …11): only the signalled replica may start
    revs = {a: 1 for a in range(12)}
    revs[0] = 9
    for rf in (3,):
        es = [ev("register", a=10, uuid=11, rev=1), ev("register", a=5, uuid=6, rev=1),
              ev("register", a=0, uuid=1, rev=9, fs=[dict(a=10, k="alive")]),
              ev("start", addrs=[10]), ev("start", addrs=[5]), ev("start", addrs=[0]), ev("read", off=0, len=4096)]
        cases.append(dict(rf=rf, world=world(12, revs=revs), events=es))
        es = [ev("register", a=0, uuid=1, rev=9), ev("register", a=5, uuid=6, rev=1), ev("start", addrs=[10]), ev("start", addrs=[0])]
        cases.append(dict(rf=rf, world=world(12, revs=revs), events=es))
    # a second bootstrap inside the same controller: started, every replica removed again, the replicas come
    # back one at a time (registrations of replicas that are still away must not count)
    for rf in (3,):
        revs = {0: 9, 1: 7, 2: 7}
        first = [ev("register", a=0, uuid=1, rev=9), ev("register", a=1, uuid=2, rev=7), ev("start", addrs=[0]),
                 ev("addcheck", a=1), ev("addcommit", a=1), ev("verify", a=1)]
        for order in ((1, 0, 2), (2, 1, 0), (1, 2, 0)):
            es = first + [ev("remove", a=1), ev("remove", a=0)]
            es += [ev("register", a=a, uuid=a + 1, rev=revs[a]) for a in order]
            es += [ev("start", addrs=[a]) for a in order]
            cases.append(dict(rf=rf, world=world(rf, revs=revs), events=es))
    # all orders of three registrants with all rev assignments from {1,2,3} for rf=3 (quick: a third of them)
    for revs in itertools.product((1, 2, 3), repeat=3):
        for order in itertools.permutations(range(3)):
            if quick and ctx.rng.random() > 0.3:
                continue
            es = [ev("register", a=a, uuid=a + 1, rev=revs[a]) for a in order]
            es += [ev("start", addrs=[a]) for a in order]
            cases.append(dict(rf=3, world=world(3, revs=dict(enumerate(revs))), events=es))
    return cases


def gen_c13(ctx, quick):
    cases = []
    for rf in ((1, 2, 3) if quick else (1, 2, 3, 4)):
        full = boot(rf, 0, list(range(1, rf)))
        for k in range(0, rf + 1):
            for sub in itertools.combinations(range(rf), k):
                cases.append(dict(rf=rf, world=world(rf), events=full + [ev("snapshot", name=1, fs=[dict(a=a, k="snap") for a in sub]),
                                                                         ev("snapshot", name=2)] + [ev("monfire", a=a) for a in sub] + [ev("snapshot", name=3)]))
        if rf >= 2:
            for a in range(rf):
                # the last promotion computes the checkpoint: make chain fetch / store fail at one replica
                es = boot(rf, 0, list(range(1, rf - 1))) + [ev("addcheck", a=rf - 1), ev("addcommit", a=rf - 1)]
                for kind in ("setcp", "chain"):
                    cases.append(dict(rf=rf, world=world(rf), events=es + [ev("verify", a=rf - 1, fs=fl((a, kind))), ev("snapshot", name=1),
                                                                           ev("remove", a=a), ev("snapshot", name=2)]))
            cases.append(dict(rf=rf, world=world(rf), events=full + [ev("snapshot", name=1), ev("monfail", a=rf - 1), ev("snapshot", name=2)]
                              + add(rf - 1) + [ev("snapshot", name=3)]))
            # a start request naming all replicas (equal revision counts): the checkpoint is recorded only if every
            # one of them reports the same latest snapshot - one of them has no snapshot / a shorter / another chain
            def chains_with(base, a, c):
                d = {x: list(base) for x in range(rf)}
                d[a] = c
                return d
            for chains in (chains_with([5, 4], 0, [5, 4]), chains_with([5, 4], rf - 1, []), chains_with([5, 4], rf - 1, [4]), chains_with([5, 4], 0, [])):
                es = [ev("register", a=a, uuid=a + 1, rev=1) for a in range(rf)]
                for lead in range(rf):
                    cases.append(dict(rf=rf, world=world(rf, chains=chains), events=es + [ev("start", addrs=[lead] + [a for a in range(rf) if a != lead]),
                                                                                          ev("snapshot", name=9), ev("write", wid=1, off=0, len=4096)]))
            # a replica failure / removal arriving while the snapshot request is being processed
            for gate in ("http", "snap"):
                for second in (ev("monfail", a=rf - 1), ev("remove", a=rf - 1), ev("setmode", a=0, mode="ERR")):
                    cases.append(dict(rf=rf, world=world(rf), events=full + [pair(ev("snapshot", name=1), second, gate), ev("snapshot", name=2),
                                                                             ev("monfire", a=0), ev("write", wid=1, off=0, len=4096)]))
    return cases


def gen_c18(ctx, quick):
    cases = []
    for _ in range(90 if quick else 2500):
        rf = ctx.rng.randint(1, 4)
        n = min(6, rf + ctx.rng.randint(1, 2))
        g = ctllib.Gen(ctx.rng)
        cases.append(dict(rf=rf, world=world(n), events=g.history(rf, n, ctx.rng.randint(6, 16))))
    # two admissions in flight at once, every commit order, with and without promotion in between
    for rf in (2, 3, 4):
        pre = boot(rf, 0, [])
        a, b = 1, 2
        for commits in ([a, b], [b, a]):
            for verify_between in (False, True):
                es = pre + [ev("addcheck", a=a), ev("addcheck", a=b), ev("addcommit", a=commits[0])]
                if verify_between:
                    es.append(ev("verify", a=commits[0]))
                es += [ev("addcommit", a=commits[1]), ev("write", wid=1, off=0, len=4096), ev("verify", a=a), ev("verify", a=b)]
                cases.append(dict(rf=rf, world=world(rf + 2), events=es))
    # a replica marked failed but not yet removed: late / duplicate mode requests, then I/O
    for rf in (2, 3):
        full = boot(rf, 0, list(range(1, rf)))
        for m2 in ("RW", "ERR"):
            cases.append(dict(rf=rf, world=world(rf), events=full + [ev("setmode", a=1, mode="ERR"), ev("setmode", a=1, mode=m2),
                                                                     ev("write", wid=1, off=0, len=4096), ev("read", off=0, len=4096), ev("read", off=0, len=4096),
                                                                     ev("sync"), ev("snapshot", name=1), ev("monfire", a=1), ev("write", wid=2, off=0, len=4096)]))
        cases.append(dict(rf=rf, world=world(rf), events=full + [ev("snapshot", name=1, fs=fl((1, "snap"))), ev("setmode", a=1, mode="RW"),
                                                                 ev("write", wid=1, off=0, len=4096), ev("read", off=0, len=4096), ev("read", off=0, len=4096), ev("monfire", a=1)]))
    # an admission that fails at one of its calls to the newcomer (connect, size, snapshot, mode): the list, the
    # backends and the I/O set must still agree, and a later admission of the same address must work
    for rf in (2, 3):
        pre = boot(rf, 0, list(range(1, rf - 1)))
        a = rf - 1
        for k in ("setmodewo", "snap", "create", "size"):
            for tail in ([], [ev("addcheck", a=a), ev("addcommit", a=a), ev("write", wid=2, off=0, len=4096), ev("verify", a=a)]):
                cases.append(dict(rf=rf, world=world(rf + 1), events=pre + [ev("addcheck", a=a), ev("addcommit", a=a, fs=fl((a, k))),
                                                                            ev("write", wid=1, off=0, len=4096), ev("read", off=0, len=4096), ev("sync")] + tail))
    # interleaved admissions
    for rf in (2, 3):
        cases.append(dict(rf=rf, world=world(rf + 2), events=boot(rf, 0, list(range(1, rf - 1))) + [
            ev("addcheck", a=rf - 1), ev("addcheck", a=rf), ev("addcheck", a=rf - 1), ev("addcommit", a=rf), ev("verify", a=rf),
            ev("addcommit", a=rf - 1), ev("addcommit", a=rf - 1), ev("verify", a=rf - 1), ev("write", wid=1, off=0, len=4096)]))
    return cases


GEN = {"C02": gen_c02, "C03": gen_c03, "C04": gen_c04, "C05": gen_c05, "C09": gen_c09, "C13": gen_c13, "C18": gen_c18}


def random_cases(ctx, n):
    out = []
    for i in range(n):
        rf = ctx.rng.randint(1, 5)
        nrep = min(6, rf + ctx.rng.randint(0, 2))
        g = ctllib.Gen(ctx.rng)
        out.append(dict(rf=rf, world=world(nrep), events=g.history(rf, nrep, ctx.rng.randint(4, 14))))
    return out


def corpus(pid):
    out = []
    for p in sorted(glob.glob(os.path.join(vlib.VERIF, "corpus", "ctl", "*.json"))):
        c = json.load(open(p))
        out.append(dict(rf=c["rf"], world=c["world"], events=c["events"], name=os.path.basename(p)))
    return out


def known_match(pid, case):
    """predicates of known_findings.txt entries on a (minimized) history -> key or None"""
    keys = dict(vlib.load_known(pid))
    if "start-more-than-rf" in keys:
        for e in case["events"]:
            if e["k"] == "start" and len(e.get("addrs", [])) > case["rf"]:
                return "start-more-than-rf", keys["start-more-than-rf"]
    return None


def shrink(ctx, binpath, case, pred, tag="shr"):
    cur = dict(case)
    changed, rounds = True, 0
    while changed and rounds < 8 and len(cur["events"]) > 1:
        changed = False
        rounds += 1
        cands = []
        for i in range(len(cur["events"])):
            c = dict(cur)
            c["events"] = cur["events"][:i] + cur["events"][i + 1:]
            cands.append(c)
        # also try dropping single faults
        for i, e in enumerate(cur["events"]):
            for j in range(len(e.get("fs", []) or [])):
                c = dict(cur)
                e2 = dict(e)
                e2["fs"] = e["fs"][:j] + e["fs"][j + 1:]
                c["events"] = cur["events"][:i] + [e2] + cur["events"][i + 1:]
                cands.append(c)
        res, _ = ctllib.run_cases(ctx, binpath, cands, tag="%s%d" % (tag, rounds))
        bad, _ = ctllib.parse_bad(res)
        badidx = {b["case"]: b for b in bad}
        for i, c in enumerate(cands):
            if i in badidx and pred(badidx[i]):
                cur = c
                changed = True
                break
    return cur


def main(ctx, replay=None):
    pid = ctx.pid
    proof = vlib.proof_layer(ctx)
    binpath, log = vlib.harness_build("ctl")
    if not binpath:
        print("ERROR: harness does not build against /repo:\n" + log[-3000:])
        sys.exit(2)

    if replay:
        c = json.load(open(replay))
        case = dict(rf=c["rf"], world=c["world"], events=c["events"])
        res, outs = ctllib.run_cases(ctx, binpath, [case], tag="replay")
        bad, _ = ctllib.parse_bad(res)
        for e, ob in zip(case["events"], outs[0]["obs"]):
            o = dict(ob)
            o.pop("reps", None)
            print(json.dumps(e), "->", json.dumps(o))
        print("verdict:", bad if bad else "model and implementation agree; all oracles hold")
        ctx.cleanup()
        sys.exit(1 if bad else 0)

    quick = ctx.tier == "quick"
    cases = corpus(pid) + [dict(c) for c in ctllib.scenarios()] + GEN[pid](ctx, quick) + random_cases(ctx, 40 if quick else 1500)
    ctllib.autosync(cases)
    res, outs = ctllib.run_cases(ctx, binpath, cases)
    bad, cov = ctllib.parse_bad(res)
    concrete = [b for b in bad if pid in b["fails"]]
    drift = [b for b in bad if pid not in b["fails"] and b["field"]]

    def strip(c):
        return dict(rf=c["rf"], world=c["world"], events=c["events"])

    def report_concrete(b, case):
        small = shrink(ctx, binpath, strip(case), lambda x: pid in x["fails"])
        km = known_match(pid, small)
        if km:
            vlib.known_finding(ctx, km[0], km[1])
            return
        r2, o2 = ctllib.run_cases(ctx, binpath, [dict(small)], tag="fin")
        b2, _ = ctllib.parse_bad(r2)
        step = b2[0]["fails"].get(pid) if b2 else None
        vlib.violation(ctx, dict(property=pid, kind="oracle %s fails on the implementation's trace at step %s" % (pid, step),
                                 rf=small["rf"], world=small["world"], events=small["events"],
                                 observed=[{k: v for k, v in ob.items() if k != "reps"} for ob in o2[0]["obs"]],
                                 replicas_at_end=o2[0]["obs"][-1]["reps"], model_vs_impl=b2,
                                 replay_cmd="bin/vcheck %s --replay <this file>" % pid))

    reported = set()
    for b in concrete:
        key = (b["fails"][pid], json.dumps(cases[b["case"]]["events"][b["fails"][pid]]))
        if key in reported or len(reported) >= 3:
            continue
        reported.add(key)
        report_concrete(b, cases[b["case"]])
    if not concrete and (drift or not proof["ok"]):
        extra = ctllib.autosync(random_cases(ctx, 400) + GEN[pid](ctx, False)[:600])
        r2, _ = ctllib.run_cases(ctx, binpath, extra, tag="search")
        bad2, _ = ctllib.parse_bad(r2)
        conc2 = [b for b in bad2 if pid in b["fails"]]
        if conc2:
            report_concrete(conc2[0], extra[conc2[0]["case"]])
        else:
            if drift:
                b = drift[0]
                small = shrink(ctx, binpath, strip(cases[b["case"]]), lambda x: x["field"] != 0)
                r3, o3 = ctllib.run_cases(ctx, binpath, [dict(small)], tag="fin")
                b3, _ = ctllib.parse_bad(r3)
                what = dict(broken="correspondence Ctl.Corr.first_diff (model coq/theories/Ctl/Model.v vs controller.Controller)",
                            first_difference=dict(step=b3[0]["step"], field=b3[0]["field"]) if b3 else None,
                            rf=small["rf"], world=small["world"], events=small["events"],
                            observed=[{k: v for k, v in ob.items() if k != "reps"} for ob in o3[0]["obs"]])
            else:
                what = dict(broken="proof layer", why=proof["why"])
            what.update(property=pid, searched=len(cases) + len(extra))
            vlib.violation(ctx, what, nofail=True)

    flags = {}
    for c in cases:
        flags[json.dumps(c["events"]) + str(c["rf"])] = cov.get(c["id"], 0)
    nontriv = sum(1 for f in flags.values() if NONTRIVIAL[pid](f))
    kinds = {}
    nfaults = 0
    for c in cases:
        for e0 in c["events"]:
            for e in ([e0["first"], e0["second"]] if e0["k"] == "pair" else [e0]):
                kinds[e["k"]] = kinds.get(e["k"], 0) + 1
                nfaults += len(e.get("fs", []) or [])
            if e0["k"] == "pair":
                kinds["pair:" + e0["gate"]] = kinds.get("pair:" + e0["gate"], 0) + 1
    bits = dict(minority_ack=F_MINORITY, refused=F_REFUSED, failover=F_FAILOVER, start_signal=F_SIGNAL,
                checkpoint=F_CHECKPOINT, promoted=F_PROMOTED, monitor=F_MONITOR, failed_op=F_FAILED, three_rw_replicas=F_THREE)
    extra = dict(evaluations=len(cases), distinct_nontrivial=nontriv, rule=RULE[pid],
                 traces_validated_against_impl=len(cases), events=sum(len(c["events"]) for c in cases), injected_faults=nfaults,
                 model_impl_differences=len([b for b in bad if b["field"]]), oracle_failures=len(concrete),
                 input_distribution=kinds,
                 coverage_flags={k: sum(1 for f in cov.values() if f & v) for k, v in bits.items()},
                 rf_distribution={str(r): sum(1 for c in cases if c["rf"] == r) for r in range(1, 6)},
                 theorems=proof.get("theorems", []), exhaustive=False)
    mid = cases[len(cases) // 2]
    samples = [dict(rf=c["rf"], events=c["events"], last_result=outs[c["id"]]["obs"][-1]["res"]) for c in (cases[0], mid, cases[-1])]
    vlib.write_evidence(ctx, proof, extra, [
        "replicas behind types.Backend/BackendFactory are scripted fakes implementing the model's world (frep); rpc and the real replica are C15/C17's subject",
        "each event is atomic in the model: the controller's RWMutex makes it so in the code; the WaitGroup fan-out in MultiWriterAt/replicator is runtime and not modelled",
        "AddReplica is split at the point where the code releases the lock (factory.Create); monitor goroutines fire when the harness releases their channel",
        "Go map iteration orders are inputs taken from the observation (read order, election pick among equals) and validated by the model",
        "quorum replicas, Revert and DeleteSnapshot's HTTP fan-out are not modelled",
    ], samples)
    vlib.finish(ctx)
