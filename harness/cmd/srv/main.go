// Command srv drives the real replica.Server, the real replica REST router and the real
// remote.Factory.Create with operation lists and records what is observable after each step
// (model: coq/theories/Srv).
//
//	srv <in.jsonl> <out.jsonl> <workdir> [port]
package main

import (
	"bytes"
	"encoding/json"
	"fmt"
	"net"
	"net/http"
	"net/http/httptest"
	"os"
	"path/filepath"
	"strconv"
	"strings"
	"sync"
	"syscall"
	"time"

	"github.com/openebs/jiva/backend/remote"
	"github.com/openebs/jiva/replica"
	"github.com/openebs/jiva/replica/rest"
	"github.com/openebs/jiva/rpc"
	"github.com/openebs/jiva/types"
	"github.com/openebs/sparse-tools/sparse"

	"jivaverif/harness/hx"
)

const (
	blk  = 4096
	nblk = 8
)

type Op struct {
	K    string `json:"k"`              // eng | rest | attach | conc
	Op   string `json:"op,omitempty"`   // engine op or rest action
	ID   int64  `json:"id,omitempty"`   // write id
	Mode string `json:"mode,omitempty"` // setmode / setreplicamode
	V    int64  `json:"v,omitempty"`    // setrev
	B    bool   `json:"b,omitempty"`    // setrebuilding
	N    int    `json:"n,omitempty"`    // conc: writers x writes
	M    int    `json:"m,omitempty"`
}

type Case struct {
	ID  int  `json:"id"`
	Ops []Op `json:"ops"`
}

type Obs struct {
	Res   string  `json:"res"`
	State string  `json:"state"`
	Mode  string  `json:"mode"` // "" when closed
	Count int64   `json:"count"`
	Img   []int64 `json:"img"` // nil when closed
	Note  string  `json:"note,omitempty"`
}

type Out struct {
	ID  int   `json:"id"`
	Obs []Obs `json:"obs"`
	Err string `json:"err,omitempty"`
}

type runner struct {
	dir     string
	s       *replica.Server
	router  http.Handler
	snapSeq int
	port    int
	mu      sync.Mutex // guards s for the listener goroutines
}

var cur struct {
	sync.Mutex
	r     *runner
	conns []net.Conn // accepted data connections (closed by attachmon to simulate a dropped connection)
}

func rc(err error) string {
	if err != nil {
		return "err"
	}
	return "ok"
}

func (r *runner) newServer() {
	r.s = replica.NewServer(fmt.Sprintf("127.0.0.1:%d", r.port), r.dir, 4096, "")
	r.router = rest.NewRouter(rest.NewServer(r.s))
}

func pattern(id int64) []byte {
	b := make([]byte, blk)
	for i := 0; i < blk; i += 8 {
		v := uint64(id)
		for j := 0; j < 8; j++ {
			b[i+j] = byte(v >> (8 * uint(j)))
		}
	}
	return b
}

func decode(b []byte) int64 {
	var v uint64
	for j := 0; j < 8; j++ {
		v |= uint64(b[j]) << (8 * uint(j))
	}
	for i := 8; i < blk; i += 8 {
		var w uint64
		for j := 0; j < 8; j++ {
			w |= uint64(b[i+j]) << (8 * uint(j))
		}
		if w != v {
			return -1 // torn block
		}
	}
	return int64(v)
}

// chain returns the current chain head first, or nil.
func (r *runner) chain() []string {
	rep := r.s.Replica()
	if rep == nil {
		return nil
	}
	c, err := rep.Chain()
	if err != nil {
		return nil
	}
	return c
}

// target of remove / prepare-remove: the snapshot just below the latest one when the chain has at
// least three snapshots, else the latest snapshot (which the code refuses), else a bogus name.
func (r *runner) removeTarget() (name string, middle bool) {
	c := r.chain()
	if len(c) >= 4 {
		return c[2], true
	}
	if len(c) >= 2 {
		return c[1], false
	}
	return "volume-snap-none.img", false
}

func (r *runner) eng(op Op) (string, string) {
	s := r.s
	switch op.Op {
	case "create":
		return rc(s.Create(nblk * blk)), ""
	case "open":
		return rc(s.Open()), ""
	case "close":
		return rc(s.Close()), ""
	case "closefail":
		// Close with its final metadata write failing: volume.meta.tmp cannot be created
		blocker := filepath.Join(r.dir, "volume.meta.tmp")
		os.Remove(blocker)
		if err := os.Mkdir(blocker, 0700); err != nil {
			return "err", "harness: " + err.Error()
		}
		err := s.Close()
		os.Remove(blocker)
		return rc(err), ""
	case "getrevfail":
		// Replica.GetRevisionCounter while the counter block cannot be read (pread: EBADF)
		rep := s.Replica()
		if rep == nil {
			return "err", "not open"
		}
		restore, err := breakFile(r.dir, "revision.counter", "", syscall.O_WRONLY)
		if err != nil {
			return "err", "harness: " + err.Error()
		}
		c := rep.GetRevisionCounter()
		restore()
		if c >= 0 && restoreCount > 0 {
			return "ok", "counter read although the file was not readable"
		}
		return "err", ""
	case "openbadcounter":
		// Open while the counter block does not parse (digits followed by a newline and padding): refused;
		// the harness restores the block afterwards
		path := filepath.Join(r.dir, "revision.counter")
		orig, err := os.ReadFile(path)
		if err != nil {
			return rc(s.Open()), "no counter file"
		}
		bad := make([]byte, len(orig))
		copy(bad, bytes.TrimRight(orig, "\x00 "))
		if i := bytes.IndexByte(bad, 0); i >= 0 && i < len(bad)-1 {
			bad[i] = '\n'
		}
		if werr := os.WriteFile(path, bad, 0600); werr != nil {
			return "err", "harness: " + werr.Error()
		}
		oerr := s.Open()
		if oerr != nil {
			os.WriteFile(path, orig, 0600)
		}
		return rc(oerr), ""
	case "setrevfail":
		// SetRevisionCounter while the counter block cannot be written (pwrite: EBADF)
		restore, err := breakFile(r.dir, "revision.counter", "", syscall.O_RDONLY)
		if err != nil {
			return "err", "harness: " + err.Error()
		}
		serr := s.SetRevisionCounter(op.V)
		restore()
		if serr == nil && restoreCount > 0 {
			return "ok", "counter set although the file was not writable"
		}
		return rc(serr), ""
	case "openfail":
		// Open whose last step fails: volume.meta.tmp cannot be created
		blocker := filepath.Join(r.dir, "volume.meta.tmp")
		os.Remove(blocker)
		if err := os.Mkdir(blocker, 0700); err != nil {
			return "err", "harness: " + err.Error()
		}
		err := s.Open()
		os.Remove(blocker)
		return rc(err), ""
	case "crash":
		// process death: the Server object and its open files are abandoned
		r.abandon()
		return "ok", ""
	case "write":
		_, err := s.WriteAt(pattern(op.ID), (op.ID%nblk)*blk)
		if err != nil {
			return rc(err), err.Error()
		}
		return rc(err), ""
	case "writefail":
		// a write whose data write fails in the file system: every descriptor this process holds on the
		// head image is replaced by a read-only one for the duration of the call (pwrite: EBADF)
		restore, err := breakHeadWrites(r.dir)
		if err != nil {
			return "err", "harness: " + err.Error()
		}
		_, werr := s.WriteAt(pattern(op.ID), (op.ID%nblk)*blk)
		restore()
		if werr == nil && s.Replica() != nil && restoreCount > 0 {
			return "ok", "write succeeded although the head was not writable"
		}
		return rc(werr), ""
	case "read":
		buf := make([]byte, blk)
		_, err := s.ReadAt(buf, 0)
		return rc(err), ""
	case "setmode":
		return rc(s.SetReplicaMode(op.Mode)), ""
	case "setrev":
		return rc(s.SetRevisionCounter(op.V)), ""
	case "snapshot":
		r.snapSeq++
		return rc(s.Snapshot(fmt.Sprintf("s%03d", r.snapSeq), r.snapSeq%2 == 0, "2020-01-01T00:00:00Z")), ""
	case "remove":
		name, middle := r.removeTarget()
		if middle && s.Replica() != nil {
			c := r.chain()
			// the real deletion flow: coalesce the snapshot into its parent first (what sfold does)
			hx.QuiesceHoles()
			if err := foldFile(filepath.Join(r.dir, c[2]), filepath.Join(r.dir, c[3])); err != nil {
				return "err", "fold: " + err.Error()
			}
		}
		return rc(s.RemoveDiffDisk(name)), ""
	case "prepremove":
		name, _ := r.removeTarget()
		acts, err := s.PrepareRemoveDisk(name)
		if err == nil && len(acts) == 0 {
			return "ok", "no actions"
		}
		return rc(err), ""
	case "setrebuilding":
		return rc(s.SetRebuilding(op.B)), ""
	case "reload":
		return rc(s.Reload()), ""
	case "revert":
		c := r.chain()
		name := "volume-snap-none.img"
		if len(c) >= 2 {
			name = c[1]
		}
		return rc(s.Revert(name, "2020-01-01T00:00:00Z")), ""
	case "setcheckpoint":
		c := r.chain()
		name := ""
		if len(c) >= 2 {
			name = c[1]
		}
		return rc(s.SetCheckpoint(name)), ""
	}
	return "err", "unknown op " + op.Op
}

func foldFile(child, parent string) error {
	return sparse.FoldFile(child, parent, &foldOps{})
}

type foldOps struct{}

func (*foldOps) UpdateFoldFileProgress(progress int, done bool, err error) {}

func (r *runner) abandon() {
	// Drop queued holes the way a dying process would (they are simply lost), then forget the server.
	hx.QuiesceHoles()
	r.newServer()
}

func (r *runner) rest(op Op) (string, string) {
	var body interface{}
	switch op.Op {
	case "create":
		body = map[string]string{"size": strconv.Itoa(nblk * blk)}
	case "snapshot":
		r.snapSeq++
		body = map[string]interface{}{"name": fmt.Sprintf("s%03d", r.snapSeq), "usercreated": r.snapSeq%2 == 0, "created": "2020-01-01T00:00:00Z"}
	case "removedisk":
		name, middle := r.removeTarget()
		if middle && r.s.Replica() != nil {
			c := r.chain()
			hx.QuiesceHoles()
			if err := foldFile(filepath.Join(r.dir, c[2]), filepath.Join(r.dir, c[3])); err != nil {
				return "err", "fold: " + err.Error()
			}
		}
		body = map[string]string{"name": name}
	case "prepareremovedisk":
		name, _ := r.removeTarget()
		body = map[string]string{"name": name}
	case "revert":
		c := r.chain()
		name := "volume-snap-none.img"
		if len(c) >= 2 {
			name = c[1]
		}
		body = map[string]string{"name": name, "created": "2020-01-01T00:00:00Z"}
	case "setreplicamode":
		body = map[string]string{"mode": op.Mode}
	case "setrevisioncounter":
		body = map[string]string{"counter": strconv.FormatInt(op.V, 10)}
	case "setrebuilding":
		body = map[string]bool{"rebuilding": op.B}
	case "setcheckpoint":
		c := r.chain()
		name := ""
		if len(c) >= 2 {
			name = c[1]
		}
		body = map[string]string{"snapshotName": name}
	case "start":
		body = map[string]string{"Action": "start"}
	case "resize":
		body = map[string]string{"name": "v", "size": strconv.Itoa(nblk * blk)}
	case "replacedisk":
		body = map[string]string{"target": "a", "source": "b"}
	case "setlogging":
		body = map[string]interface{}{}
	case "updatecloneinfo":
		body = map[string]string{"snapname": "x", "revisioncounter": "1"}
	}
	var rd *bytes.Reader
	if body != nil {
		b, _ := json.Marshal(body)
		rd = bytes.NewReader(b)
	} else {
		rd = bytes.NewReader(nil)
	}
	req := httptest.NewRequest("POST", "/v1/replicas/1?action="+op.Op, rd)
	if body != nil {
		req.Header.Set("Content-Type", "application/json")
	}
	rec := httptest.NewRecorder()
	r.router.ServeHTTP(rec, req)
	switch {
	case rec.Code == 404:
		return "404", ""
	case rec.Code >= 200 && rec.Code < 300:
		if op.Op == "prepareremovedisk" && !strings.Contains(rec.Body.String(), "coalesce") {
			return "ok", "no actions"
		}
		return "ok", ""
	default:
		return "err", strconv.Itoa(rec.Code)
	}
}

func (r *runner) attach() (string, string) {
	cur.Lock()
	cur.r = r
	cur.Unlock()
	be, err := remote.New().Create(fmt.Sprintf("127.0.0.1:%d", r.port))
	if err != nil {
		return "err", err.Error()
	}
	be.StopMonitoring()
	return "ok", ""
}

// attachmon: attach through the real remote.Factory.Create, let the connection idle, drop it from the replica's
// side (mode "drop") or corrupt it (mode "garbage"), and wait for the failure to be reported on the
// backend's monitor channel (that message is what makes the controller detach the replica)
func (r *runner) attachmon(op Op) (string, string) {
	cur.Lock()
	cur.r = r
	cur.conns = nil
	cur.Unlock()
	be, err := remote.New().Create(fmt.Sprintf("127.0.0.1:%d", r.port))
	if err != nil {
		return "err", "create: " + err.Error()
	}
	time.Sleep(time.Duration(op.N) * time.Millisecond)
	cur.Lock()
	conns := cur.conns
	cur.conns = nil
	cur.Unlock()
	for _, c := range conns {
		if op.Mode == "garbage" {
			c.Write([]byte("this is not a jiva frame, definitely not............"))
		} else {
			c.Close()
		}
	}
	t0 := time.Now()
	select {
	case <-be.GetMonitorChannel():
		return "ok", fmt.Sprintf("reported after %v", time.Since(t0))
	case <-time.After(6 * time.Second):
		return "err", "transport failure not reported on the monitor channel within 6s"
	}
}

// conc: N goroutines x M writes each on an open RW replica; the counter must advance by exactly N*M.
func (r *runner) conc(op Op) (string, string) {
	var wg sync.WaitGroup
	errs := make(chan error, op.N)
	for g := 0; g < op.N; g++ {
		wg.Add(1)
		go func(g int) {
			defer wg.Done()
			for i := 0; i < op.M; i++ {
				if _, err := r.s.WriteAt(pattern(op.ID), (op.ID%nblk)*blk); err != nil {
					errs <- err
					return
				}
			}
		}(g)
	}
	wg.Wait()
	select {
	case err := <-errs:
		return "err", err.Error()
	default:
	}
	return "ok", ""
}

func (r *runner) observe(res, note string) Obs {
	o := Obs{Res: res, Note: note}
	st, _ := r.s.Status()
	o.State = string(st)
	// the counter as persisted in the directory (what a restarted process would find)
	if c, err := r.s.GetRevisionCounter(); err == nil {
		o.Count = c
	} else {
		o.Count = -1
	}
	rep := r.s.Replica()
	if rep != nil {
		o.Mode = rep.GetReplicaMode()
	}
	if rep != nil && o.Mode != "CLOSED" {
		img := make([]int64, nblk)
		buf := make([]byte, blk)
		for b := 0; b < nblk; b++ {
			if _, err := r.s.ReadAt(buf, int64(b)*blk); err != nil {
				img[b] = -2
				continue
			}
			img[b] = decode(buf)
		}
		o.Img = img
	}
	return o
}

func runCase(c Case, work string, port int) Out {
	out := Out{ID: c.ID}
	dir := filepath.Join(work, fmt.Sprintf("srv-%d-%d", os.Getpid(), c.ID))
	os.RemoveAll(dir)
	if err := os.MkdirAll(dir, 0700); err != nil {
		out.Err = err.Error()
		return out
	}
	defer os.RemoveAll(dir)
	types.ShouldPunchHoles = false
	r := &runner{dir: dir, port: port}
	r.newServer()
	for _, op := range c.Ops {
		var res, note string
		switch op.K {
		case "eng":
			res, note = r.eng(op)
		case "rest":
			res, note = r.rest(op)
		case "attach":
			res, note = r.attach()
		case "conc":
			res, note = r.conc(op)
		case "attachmon":
			res, note = r.attachmon(op)
		default:
			res, note = "err", "unknown kind"
		}
		out.Obs = append(out.Obs, r.observe(res, note))
	}
	if r.s.Replica() != nil {
		r.s.Close()
	}
	return out
}

// listeners: control (REST) on port, data (rpc) on port+1, both forwarding to the current runner.
func listen(port int) error {
	ctl, err := net.Listen("tcp", fmt.Sprintf("127.0.0.1:%d", port))
	if err != nil {
		return err
	}
	go http.Serve(ctl, http.HandlerFunc(func(w http.ResponseWriter, q *http.Request) {
		cur.Lock()
		r := cur.r
		cur.Unlock()
		r.router.ServeHTTP(w, q)
	}))
	data, err := net.Listen("tcp", fmt.Sprintf("127.0.0.1:%d", port+1))
	if err != nil {
		return err
	}
	go func() {
		for {
			conn, err := data.Accept()
			if err != nil {
				return
			}
			cur.Lock()
			r := cur.r
			cur.conns = append(cur.conns, conn)
			cur.Unlock()
			srv := rpc.NewServer(conn, r.s)
			go srv.Handle()
		}
	}()
	return nil
}

var restoreCount int

// breakHeadWrites swaps every descriptor of this process that refers to the head image in dir for a
// read-only descriptor of the same file; the returned function swaps the originals back.
func breakHeadWrites(dir string) (func(), error) {
	return breakFile(dir, "volume-head-", ".img", syscall.O_RDONLY)
}

// breakFile swaps every descriptor of this process on the files of dir whose name has the given prefix and
// suffix for a descriptor opened with `flags` only (O_RDONLY: writes fail, O_WRONLY: reads fail).
func breakFile(dir, prefix, suffix string, flags int) (func(), error) {
	ents, err := os.ReadDir("/proc/self/fd")
	if err != nil {
		return nil, err
	}
	type sw struct{ fd, saved int }
	var sws []sw
	restoreCount = 0
	// first find the descriptors (descriptor numbers freed by the listing itself are reused below)
	type hit struct {
		fd   int
		link string
	}
	var hits []hit
	for _, e := range ents {
		fd, err := strconv.Atoi(e.Name())
		if err != nil {
			continue
		}
		link, err := os.Readlink("/proc/self/fd/" + e.Name())
		if err != nil || filepath.Dir(link) != dir || !strings.HasPrefix(filepath.Base(link), prefix) || !strings.HasSuffix(link, suffix) {
			continue
		}
		hits = append(hits, hit{fd, link})
	}
	for _, h := range hits {
		saved, err := syscall.Dup(h.fd)
		if err != nil {
			return nil, err
		}
		ro, err := syscall.Open(h.link, flags, 0)
		if err != nil {
			syscall.Close(saved)
			return nil, err
		}
		if err := syscall.Dup2(ro, h.fd); err != nil {
			return nil, err
		}
		syscall.Close(ro)
		sws = append(sws, sw{h.fd, saved})
	}
	restoreCount = len(sws)
	return func() {
		for _, x := range sws {
			syscall.Dup2(x.saved, x.fd)
			syscall.Close(x.saved)
		}
	}, nil
}

func main() {
	if len(os.Args) < 4 {
		fmt.Fprintln(os.Stderr, "usage: srv in.jsonl out.jsonl workdir [port]")
		os.Exit(2)
	}
	hx.Quiet()
	hx.StartHoles()
	port := 9502
	if len(os.Args) > 4 {
		port, _ = strconv.Atoi(os.Args[4])
	}
	if err := listen(port); err != nil {
		fmt.Fprintln(os.Stderr, "listen:", err)
		os.Exit(2)
	}
	w, err := hx.NewWriter(os.Args[2])
	if err != nil {
		fmt.Fprintln(os.Stderr, err)
		os.Exit(2)
	}
	t0 := time.Now()
	n := 0
	err = hx.ReadLines(os.Args[1], func(dec *json.Decoder) error {
		var c Case
		if err := dec.Decode(&c); err != nil {
			return err
		}
		n++
		return w.Put(runCase(c, os.Args[3], port))
	})
	if err != nil {
		fmt.Fprintln(os.Stderr, err)
		os.Exit(2)
	}
	w.Close()
	fmt.Fprintf(os.Stderr, "srv: %d cases in %v\n", n, time.Since(t0))
}
