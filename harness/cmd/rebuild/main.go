// Command rebuild drives TWO real replica.Server instances (a healthy source and a rebuilding / cloned
// destination) on two real directories in one process and replays the data half of a rebuild
// (sync/sync.go AddReplica: syncFiles + reloadAndVerify) or of a clone (sync/sync.go CloneReplica)
// event by event (model: coq/theories/Block/Rebuild.v).
//
//	rebuild <in.jsonl> <out.jsonl> <workdir>
//
// What is real: replica.Server Create/Open/WriteAt/Snapshot/PrepareRemoveDisk/RemoveDiffDisk/Reload/
// UpdateLUNMap/UpdateCloneInfo/SetReplicaMode, the production CreateHoles goroutine, NewReadOnly for every
// snapshot image.  What the harness stands in for: the controller's fan-out of a write to both replicas
// (types.ShouldPunchHoles is a process global: it is set to what the replica's own process would have
// before every call) and ssync (sparseCopy: the destination file is made equal to the source file
// extent by extent, in place, the way the ssync server opens an existing file).
package main

import (
	"encoding/json"
	"fmt"
	"io"
	"os"
	"path/filepath"
	"strconv"
	"strings"
	"sync"
	"syscall"
	"time"

	"github.com/openebs/jiva/replica"
	"github.com/openebs/jiva/types"
	"github.com/openebs/sparse-tools/sparse"

	"jivaverif/harness/hx"
)

const (
	blk     = 4096
	badTok  = 999999
	created = "2020-01-01T00:00:00Z"
	addName = 900 // name of the snapshot taken on both replicas at add time
)

type Op struct {
	K    string `json:"k"`
	Off  int64  `json:"off,omitempty"`
	Len  int64  `json:"len,omitempty"`
	Tok  int64  `json:"tok,omitempty"`
	Name int    `json:"name,omitempty"`
	User bool   `json:"user,omitempty"`
	I    int    `json:"i,omitempty"`   // copy: chain position on the source (1 = base)
	Widen bool  `json:"widen,omitempty"` // bw: what a controller that completes partial blocks itself would send (rehearsal of patch f13)
	// cloneinfo / reload: while the call runs, a directory stands at <file>.tmp, so that the one metadata write
	// that goes through that temp file fails ("volume": volume.meta, "head": the head's .meta); removed afterwards.
	// "counter": the write of the revision counter block fails instead (descriptor swapped for a read-only one).
	// A step that reports the failure is repeated without the obstacle when Retry is set, else the flow stops
	// there (what sync.CloneReplica / reloadAndVerify do with an error: return it).
	Obst  string `json:"obst,omitempty"`
	Retry bool   `json:"retry,omitempty"`
	// ulm: while the (first) call runs, the extent query (FIEMAP) of the destination's chain member FFail
	// (1 = base ... head) fails: the process's descriptors on that file are swapped for descriptors of /dev/null
	// and swapped back afterwards.  Retry as above.
	FFail int `json:"ffail,omitempty"`
	Mid  []Op   `json:"mid,omitempty"` // ulm: writes performed between the two critical sections
	Race []Op   `json:"race,omitempty"` // ulmrace: writes issued by a concurrent writer
}

// Case: the source runs Pre[0:Fork], the destination directory is forked from it (Fork < 0: a fresh
// replica), the destination runs DPre on its own, the source runs Pre[Fork:], both take the add-time
// snapshot, then the events.  Clone: the destination is a fresh replica, no add-time snapshot, Snap is S.
type Case struct {
	ID    int    `json:"id"`
	Mode  string `json:"mode"` // rebuild | clone
	K     int64  `json:"K"`
	NB    int64  `json:"nb"`
	Pre   []Op   `json:"pre"`
	Fork  int    `json:"fork"`
	DPre  []Op   `json:"dpre"`
	Ev    []Op   `json:"ev"`
	Snap  int    `json:"snap"`
	Sleep int    `json:"sleep_us"` // ulm: how long the harness lets the preload run before the mid writes
	// NoPunch: the prehistory ran without reclamation (types.ShouldPunchHoles false, e.g. a volume whose
	// replicas never reloaded); reclamation is on from the add / clone on
	NoPunch bool `json:"nopunch"`
}

type Side struct {
	Live  int       `json:"live"`  // full read through Server.ReadAt (uses the block map)
	Fresh int       `json:"fresh"` // full read of the head through NewReadOnly on a copy (fresh preload)
	Chain []int     `json:"chain"`
	Attr  [][2]bool `json:"attr"`
	Snaps []int     `json:"snaps"` // NewReadOnly image of every closed member, base first
	Ext   [][]int   `json:"ext"`   // per member (base .. head): blocks that have an extent
	Rev   int64     `json:"rev"`   // revision counter file
	NBlk  int64     `json:"nblk"`
}

type Out struct {
	ID     int          `json:"id"`
	Tbl    [][][2]int64 `json:"tbl"`
	Res    []string     `json:"res"` // per event
	Src    *Side        `json:"src,omitempty"`
	Dst    *Side        `json:"dst,omitempty"`
	SnapRv int64        `json:"snaprev"` // clone: revision counter recorded for S on the source
	Raced  int          `json:"raced"`   // ulmrace: writes that overlapped the UpdateLUNMap call
	Stopped bool        `json:"stopped"` // an obstructed step reported its failure and the flow ended there
	Err    string       `json:"err,omitempty"`
}

type runner struct {
	c    Case
	work string
	unit int64
	tbl  [][][2]int64
	idx  map[string]int
	src  *replica.Server
	dst  *replica.Server
	sdir string
	ddir string
	// what the destination's own process would have in types.ShouldPunchHoles
	dstPunch bool
	raced    int
}

func rc(err error) string {
	if err != nil {
		return "err"
	}
	return "ok"
}

func diskName(n int) string { return fmt.Sprintf("volume-snap-s%03d.img", n) }
func snapName(n int) string { return fmt.Sprintf("s%03d", n) }

func nameOf(disk string) int {
	if strings.HasPrefix(disk, "volume-head-") {
		return 0
	}
	t := strings.TrimSuffix(strings.TrimPrefix(disk, "volume-snap-s"), ".img")
	n, err := strconv.Atoi(t)
	if err != nil {
		return -1
	}
	return n
}

func (r *runner) fill(buf []byte, u0, n, tok int64) {
	U := r.unit
	for i := int64(0); i < n; i++ {
		b := buf[i*U : (i+1)*U]
		if tok == 0 {
			for j := range b {
				b[j] = 0
			}
			continue
		}
		if U < 8 {
			for j := range b {
				b[j] = byte(tok)
			}
			continue
		}
		w := uint64(tok)<<32 | uint64(uint32(u0+i))
		for j := int64(0); j+8 <= U; j += 8 {
			for k := 0; k < 8; k++ {
				b[j+int64(k)] = byte(w >> (8 * uint(k)))
			}
		}
	}
}

func (r *runner) decode(buf []byte, u0 int64) []int64 {
	U := r.unit
	n := int64(len(buf)) / U
	out := make([]int64, n)
	for i := int64(0); i < n; i++ {
		b := buf[i*U : (i+1)*U]
		if U < 8 {
			v := b[0]
			ok := true
			for _, x := range b {
				if x != v {
					ok = false
				}
			}
			if ok {
				out[i] = int64(v)
			} else {
				out[i] = badTok
			}
			continue
		}
		var first uint64
		same := true
		for j := int64(0); j+8 <= U; j += 8 {
			var w uint64
			for k := 0; k < 8; k++ {
				w |= uint64(b[j+int64(k)]) << (8 * uint(k))
			}
			if j == 0 {
				first = w
			} else if w != first {
				same = false
			}
		}
		switch {
		case !same:
			out[i] = badTok
		case first == 0:
			out[i] = 0
		case uint32(first) != uint32(u0+i):
			out[i] = badTok
		default:
			out[i] = int64(first >> 32)
		}
	}
	return out
}

func rle(toks []int64) [][2]int64 {
	out := [][2]int64{}
	for _, t := range toks {
		if n := len(out); n > 0 && out[n-1][1] == t {
			out[n-1][0]++
		} else {
			out = append(out, [2]int64{1, t})
		}
	}
	return out
}

func (r *runner) intern(toks []int64) int {
	e := rle(toks)
	key := fmt.Sprint(e)
	if i, ok := r.idx[key]; ok {
		return i
	}
	r.tbl = append(r.tbl, e)
	r.idx[key] = len(r.tbl) - 1
	return len(r.tbl) - 1
}

type foldOps struct{}

func (*foldOps) UpdateFoldFileProgress(progress int, done bool, err error) {}

func foldFile(child, parent string) error { return sparse.FoldFile(child, parent, &foldOps{}) }

func copyFile(sp, dp string) error {
	in, err := os.Open(sp)
	if err != nil {
		return err
	}
	defer in.Close()
	out, err := os.Create(dp)
	if err != nil {
		return err
	}
	if _, err := io.Copy(out, in); err != nil {
		out.Close()
		return err
	}
	return out.Close()
}

// hasData reports whether the 4 KiB block at off of f lies in a data extent (SEEK_DATA)
func hasData(f *os.File, off, size int64) bool {
	if off >= size {
		return false
	}
	p, err := syscall.Seek(int(f.Fd()), off, 3 /* SEEK_DATA */)
	return err == nil && p == off
}

// sparseCopy stands in for ssync: the existing destination file (created when missing) is made equal to
// the source file block by block, in place: data blocks are written, holes are punched.
func sparseCopy(sp, dp string) error {
	in, err := os.Open(sp)
	if err != nil {
		return err
	}
	defer in.Close()
	st, err := in.Stat()
	if err != nil {
		return err
	}
	out, err := os.OpenFile(dp, os.O_RDWR|os.O_CREATE, 0644)
	if err != nil {
		return err
	}
	defer out.Close()
	if err := out.Truncate(st.Size()); err != nil {
		return err
	}
	buf := make([]byte, blk)
	for off := int64(0); off < st.Size(); off += blk {
		if hasData(in, off, st.Size()) {
			if _, err := in.ReadAt(buf, off); err != nil && err != io.EOF {
				return err
			}
			if _, err := out.WriteAt(buf, off); err != nil {
				return err
			}
		} else if err := syscall.Fallocate(int(out.Fd()), sparse.FALLOC_FL_KEEP_SIZE|sparse.FALLOC_FL_PUNCH_HOLE, off, blk); err != nil {
			return err
		}
	}
	return out.Sync()
}

func extents(path string) ([]int, error) {
	f, err := os.Open(path)
	if err != nil {
		return nil, err
	}
	defer f.Close()
	st, err := f.Stat()
	if err != nil {
		return nil, err
	}
	out := []int{}
	for off := int64(0); off < st.Size(); off += blk {
		if hasData(f, off, st.Size()) {
			out = append(out, int(off/blk))
		}
	}
	return out, nil
}

// copyDir: extent-exact copy of a replica directory (see harness/cmd/block)
func copyDir(src, dst string) error {
	if err := os.MkdirAll(dst, 0700); err != nil {
		return err
	}
	ents, err := os.ReadDir(src)
	if err != nil {
		return err
	}
	for _, e := range ents {
		sp, dp := filepath.Join(src, e.Name()), filepath.Join(dst, e.Name())
		if strings.HasSuffix(e.Name(), ".img") {
			if err := sparseCopy(sp, dp); err != nil {
				return err
			}
			continue
		}
		if err := copyFile(sp, dp); err != nil {
			return err
		}
	}
	return nil
}

func chainOf(s *replica.Server) []string {
	rep := s.Replica()
	if rep == nil {
		return nil
	}
	c, err := rep.Chain()
	if err != nil {
		return nil
	}
	out := make([]string, len(c))
	for i := range c {
		out[len(c)-1-i] = c[i]
	}
	return out
}

func (r *runner) readAll(rd io.ReaderAt, size int64) ([]int64, error) {
	buf := make([]byte, size)
	if size == 0 {
		return nil, nil
	}
	if _, err := rd.ReadAt(buf, 0); err != nil {
		return nil, err
	}
	return r.decode(buf, 0), nil
}

func (r *runner) buf(op Op) []byte {
	b := make([]byte, op.Len*r.unit)
	r.fill(b, op.Off, op.Len, op.Tok)
	return b
}

// block ops of a prehistory on one server (punching on: the replica is RW in its own process)
func (r *runner) blockOp(s *replica.Server, dir string, op Op) error {
	types.ShouldPunchHoles = !r.c.NoPunch
	defer hx.QuiesceHoles()
	switch op.K {
	case "w":
		_, err := s.WriteAt(r.buf(op), op.Off*r.unit)
		return err
	case "snap":
		return s.Snapshot(snapName(op.Name), op.User, created)
	case "del":
		acts, err := s.PrepareRemoveDisk(diskName(op.Name))
		if err != nil {
			return err
		}
		for _, a := range acts {
			switch a.Action {
			case replica.OpCoalesce:
				hx.QuiesceHoles()
				if err := foldFile(filepath.Join(dir, a.Source), filepath.Join(dir, a.Target)); err != nil {
					return err
				}
			case replica.OpRemove:
				if err := s.RemoveDiffDisk(a.Source); err != nil {
					return err
				}
			}
		}
		return nil
	case "reload":
		hx.QuiesceHoles()
		s.SetPreload(true)
		err := s.Reload() // sets types.ShouldPunchHoles
		types.ShouldPunchHoles = !r.c.NoPunch
		return err
	}
	return fmt.Errorf("unknown prehistory op %s", op.K)
}

// bothWrite: the controller's fan-out, source first
func (r *runner) bothWrite(op Op, dstLocked bool) error {
	b := r.buf(op)
	if op.Widen {
		// the enclosing whole blocks, completed from the healthy replica, go to both
		lo := op.Off * r.unit / blk * blk
		hi := (op.Off*r.unit + int64(len(b)) + blk - 1) / blk * blk
		wide := make([]byte, hi-lo)
		if _, err := r.src.ReadAt(wide, lo); err != nil {
			return fmt.Errorf("src read: %v", err)
		}
		copy(wide[op.Off*r.unit-lo:], b)
		b = wide
		op.Off = lo / r.unit
	}
	types.ShouldPunchHoles = true
	if _, err := r.src.WriteAt(b, op.Off*r.unit); err != nil {
		return fmt.Errorf("src: %v", err)
	}
	types.ShouldPunchHoles = r.dstPunch
	var err error
	if dstLocked {
		// the harness itself holds the server's read lock (see ulm)
		_, err = r.dst.Replica().WriteAt(b, op.Off*r.unit)
	} else {
		_, err = r.dst.WriteAt(b, op.Off*r.unit)
	}
	types.ShouldPunchHoles = true
	if err != nil {
		return fmt.Errorf("dst: %v", err)
	}
	return nil
}

func (r *runner) event(op Op) error {
	switch op.K {
	case "bw":
		err := r.bothWrite(op, false)
		hx.QuiesceHoles()
		return err
	case "sw": // the source volume goes on (clone)
		types.ShouldPunchHoles = true
		_, err := r.src.WriteAt(r.buf(op), op.Off*r.unit)
		hx.QuiesceHoles()
		return err
	case "copy":
		hx.QuiesceHoles()
		ch := chainOf(r.src)
		if op.I < 1 || op.I >= len(ch) {
			return fmt.Errorf("copy: no closed member %d", op.I)
		}
		name := ch[op.I-1]
		if err := sparseCopy(filepath.Join(r.sdir, name), filepath.Join(r.ddir, name)); err != nil {
			return err
		}
		return copyFile(filepath.Join(r.sdir, name+".meta"), filepath.Join(r.ddir, name+".meta"))
	case "cloneinfo":
		// sync.CloneReplica: UpdateCloneInfo(snapName, revision counter recorded for S on the source)
		disks := r.src.Replica().ListDisks()
		d, ok := disks[diskName(r.c.Snap)]
		if !ok {
			return fmt.Errorf("cloneinfo: no snapshot %d on the source", r.c.Snap)
		}
		return r.dst.UpdateCloneInfo(snapName(r.c.Snap), strconv.FormatInt(d.RevisionCounter, 10))
	case "reload":
		// reloadAndVerify / CloneReplica: SetPreload(false); Reload; SetPreload(true)
		hx.QuiesceHoles()
		r.dst.SetPreload(false)
		err := r.dst.Reload()
		r.dst.SetPreload(true)
		if err == nil {
			r.dstPunch = true // Server.Reload sets types.ShouldPunchHoles
		}
		types.ShouldPunchHoles = true
		return err
	case "ulm":
		return r.ulm(op)
	case "ulmrace":
		return r.ulmRace(op)
	}
	return fmt.Errorf("unknown event %s", op.K)
}

// obstructed runs one step while a directory stands where the step's metadata temp file goes
func (r *runner) obstructed(op Op) error {
	if op.FFail > 0 {
		hx.QuiesceHoles()
		ch := chainOf(r.dst)
		if op.FFail > len(ch) {
			return fmt.Errorf("ffail: no member %d", op.FFail)
		}
		restore, n, err := breakFile(r.ddir, ch[op.FFail-1], "/dev/null", syscall.O_RDWR)
		if err != nil || n == 0 {
			panic(fmt.Sprintf("fault injection on %s: %v (%d descriptors)", ch[op.FFail-1], err, n))
		}
		plain := op
		plain.FFail = 0
		err = r.event(plain)
		hx.QuiesceHoles()
		restore()
		return err
	}
	if op.Obst == "counter" {
		// the write of the revision counter block fails (EBADF): the process's descriptors on revision.counter
		// are swapped for read-only ones while the step runs
		restore, n, err := breakFile(r.ddir, "revision.counter", filepath.Join(r.ddir, "revision.counter"), syscall.O_RDONLY)
		if err != nil || n == 0 {
			panic(fmt.Sprintf("fault injection on revision.counter: %v (%d descriptors)", err, n))
		}
		plain := op
		plain.Obst = ""
		err = r.event(plain)
		restore()
		return err
	}
	name := "volume.meta"
	if op.Obst == "head" {
		if rep := r.dst.Replica(); rep != nil {
			name = rep.Info().Head + ".meta"
		}
	}
	ob := filepath.Join(r.ddir, name+".tmp")
	if err := os.Mkdir(ob, 0700); err != nil {
		return fmt.Errorf("obstacle: %v", err)
	}
	plain := op
	plain.Obst = ""
	err := r.event(plain)
	os.Remove(ob)
	return err
}

// breakFile swaps every descriptor of this process that refers to the file dir/name (by inode: a snapshot
// file is the former head under a new link) for a descriptor of `with` opened with `flags` (/dev/null: FIEMAP
// fails; the file itself read-only: writes fail); the returned function swaps the originals back.  The
// descriptors are collected first: the listing opens descriptors itself.
func breakFile(dir, name, with string, flags int) (func(), int, error) {
	ents, err := os.ReadDir("/proc/self/fd")
	if err != nil {
		return nil, 0, err
	}
	var st syscall.Stat_t
	if err := syscall.Stat(filepath.Join(dir, name), &st); err != nil {
		return nil, 0, err
	}
	var hits []int
	for _, e := range ents {
		fd, err := strconv.Atoi(e.Name())
		if err != nil {
			continue
		}
		var fs syscall.Stat_t
		if err := syscall.Fstat(fd, &fs); err != nil || fs.Ino != st.Ino || fs.Dev != st.Dev {
			continue
		}
		hits = append(hits, fd)
	}
	type sw struct{ fd, saved int }
	var sws []sw
	undo := func() {
		for _, x := range sws {
			syscall.Dup2(x.saved, x.fd)
			syscall.Close(x.saved)
		}
	}
	for _, fd := range hits {
		saved, err := syscall.Dup(fd)
		if err != nil {
			undo()
			return nil, 0, err
		}
		bad, err := syscall.Open(with, flags, 0)
		if err != nil {
			syscall.Close(saved)
			undo()
			return nil, 0, err
		}
		err = syscall.Dup2(bad, fd)
		syscall.Close(bad)
		if err != nil {
			syscall.Close(saved)
			undo()
			return nil, 0, err
		}
		sws = append(sws, sw{fd, saved})
	}
	return undo, len(sws), nil
}

// ulm runs the real Server.UpdateLUNMap with the writes of op.Mid landing between its two critical
// sections, without any hook: Server embeds its RWMutex, so the harness can hold the read lock the way
// Server.WriteAt does.  (1) the harness holds RLock and starts UpdateLUNMap, which waits in its first
// Lock; (2) RLock is released and taken again: it is granted only after UpdateLUNMap's first Unlock;
// (3) the preload now runs without the lock, the second Lock waits for the harness; after a pause that
// lets the preload finish, the writes go to Replica.WriteAt (exactly what Server.WriteAt does under
// RLock); (4) RUnlock lets the merge run.
func (r *runner) ulm(op Op) error {
	types.ShouldPunchHoles = r.dstPunch
	if len(op.Mid) == 0 {
		err := r.dst.UpdateLUNMap()
		hx.QuiesceHoles()
		return err
	}
	s := r.dst
	done := make(chan error, 1)
	s.RLock()
	go func() { done <- s.UpdateLUNMap() }()
	// wait until UpdateLUNMap is queued in its first Lock: a second read lock is refused exactly
	// when a writer is waiting
	for i := 0; ; i++ {
		if !s.TryRLock() {
			break
		}
		s.RUnlock()
		if i > 200000 {
			s.RUnlock()
			return fmt.Errorf("ulm: UpdateLUNMap never asked for the lock")
		}
		time.Sleep(10 * time.Microsecond)
	}
	// hand the lock over and queue behind the writer: RWMutex.Unlock of the first critical section
	// admits this reader, so the second Lock cannot be taken before the RUnlock below
	s.RUnlock()
	s.RLock()
	select {
	case err := <-done:
		s.RUnlock()
		hx.QuiesceHoles()
		if err != nil {
			return err
		}
		return fmt.Errorf("ulm: missed the window between the critical sections")
	default:
	}
	sl := r.c.Sleep
	if sl <= 0 {
		sl = 3000
	}
	time.Sleep(time.Duration(sl) * time.Microsecond)
	select {
	case err := <-done:
		// UpdateLUNMap gave up during its preload (it never asks for the lock again): nothing is written
		s.RUnlock()
		hx.QuiesceHoles()
		if err != nil {
			return err
		}
		return fmt.Errorf("ulm: missed the window between the critical sections")
	default:
	}
	var werr error
	for _, w := range op.Mid {
		if err := r.bothWrite(w, true); err != nil {
			werr = err
			break
		}
	}
	s.RUnlock()
	err := <-done
	hx.QuiesceHoles()
	if werr != nil {
		return werr
	}
	return err
}

// ulmRace: UpdateLUNMap against a free-running writer (no control over the interleaving; the number of
// writes whose call overlapped the UpdateLUNMap call is reported)
func (r *runner) ulmRace(op Op) error {
	types.ShouldPunchHoles = true
	var wg sync.WaitGroup
	var werr error
	type span struct{ a, b time.Time }
	spans := make([]span, len(op.Race))
	start := make(chan struct{})
	wg.Add(1)
	go func() {
		defer wg.Done()
		<-start
		for i, w := range op.Race {
			spans[i].a = time.Now()
			if err := r.bothWrite(w, false); err != nil {
				werr = err
				return
			}
			spans[i].b = time.Now()
		}
	}()
	close(start)
	// let a share of the writes go first
	if n := len(op.Race); n > 0 {
		time.Sleep(time.Duration(op.Len) * time.Microsecond)
	}
	t0 := time.Now()
	err := r.dst.UpdateLUNMap()
	t1 := time.Now()
	wg.Wait()
	hx.QuiesceHoles()
	for _, s := range spans {
		if !s.b.IsZero() && s.b.After(t0) && s.a.Before(t1) {
			r.raced++
		}
	}
	if werr != nil {
		return werr
	}
	return err
}

// lite: only what the replica serves and its counter (the flow stopped half-way: the directory is not
// meant to be opened)
func (r *runner) side(s *replica.Server, dir, tag string, lite bool) (*Side, error) {
	hx.QuiesceHoles()
	rep := s.Replica()
	if rep == nil {
		return nil, fmt.Errorf("%s: replica not open", tag)
	}
	size := rep.Info().Size
	o := &Side{Chain: []int{}, Attr: [][2]bool{}, Snaps: []int{}, Ext: [][]int{}, NBlk: size / blk}
	live, err := r.readAll(s, size)
	if err != nil {
		return nil, fmt.Errorf("%s: full read: %v", tag, err)
	}
	o.Live = r.intern(live)
	if lite {
		o.Fresh = o.Live
		if rv, err := s.GetRevisionCounter(); err == nil {
			o.Rev = rv
		}
		return o, nil
	}
	ch := chainOf(s)
	disks := rep.ListDisks()
	for _, d := range ch {
		o.Chain = append(o.Chain, nameOf(d))
		o.Attr = append(o.Attr, [2]bool{disks[d].UserCreated, disks[d].Removed})
		e, err := extents(filepath.Join(dir, d))
		if err != nil {
			return nil, err
		}
		o.Ext = append(o.Ext, e)
	}
	if rv, err := s.GetRevisionCounter(); err == nil {
		o.Rev = rv
	}
	saved := types.ShouldPunchHoles
	types.ShouldPunchHoles = false
	defer func() { types.ShouldPunchHoles = saved }()
	cp := filepath.Join(r.work, fmt.Sprintf("copy-%d-%s", r.c.ID, tag))
	os.RemoveAll(cp)
	defer os.RemoveAll(cp)
	if err := copyDir(dir, cp); err != nil {
		return nil, fmt.Errorf("%s: copy: %v", tag, err)
	}
	meta := filepath.Join(cp, "volume.meta")
	for i, d := range ch {
		if err := copyFile(filepath.Join(dir, "volume.meta"), meta); err != nil {
			return nil, err
		}
		ro, err := replica.NewReadOnly(true, cp, d, nil)
		if err != nil {
			return nil, fmt.Errorf("%s: NewReadOnly %s: %v", tag, d, err)
		}
		img, err := r.readAll(ro, size)
		hx.QuiesceHoles()
		ro.Close()
		if err != nil {
			return nil, fmt.Errorf("%s: read %s: %v", tag, d, err)
		}
		if i == len(ch)-1 {
			o.Fresh = r.intern(img)
		} else {
			o.Snaps = append(o.Snaps, r.intern(img))
		}
	}
	return o, nil
}

func openServer(dir string, create bool, size int64, mode string, preload bool) (*replica.Server, error) {
	s := replica.NewServer("127.0.0.1:9502", dir, blk, "")
	if create {
		if err := s.Create(size); err != nil {
			return nil, fmt.Errorf("create: %v", err)
		}
	}
	s.SetPreload(preload)
	if err := s.Open(); err != nil {
		return nil, fmt.Errorf("open: %v", err)
	}
	s.SetPreload(true)
	if err := s.SetReplicaMode(mode); err != nil {
		return nil, fmt.Errorf("setmode: %v", err)
	}
	return s, nil
}

func runCase(c Case, work string) (out Out) {
	out = Out{ID: c.ID, Tbl: [][][2]int64{}, Res: []string{}}
	base := filepath.Join(work, fmt.Sprintf("rb-%d-%d", os.Getpid(), c.ID))
	os.RemoveAll(base)
	defer os.RemoveAll(base)
	defer func() {
		if e := recover(); e != nil {
			out.Err = fmt.Sprintf("panic: %v", e)
		}
	}()
	r := &runner{c: c, work: work, unit: blk / c.K, idx: map[string]int{}, sdir: filepath.Join(base, "src"), ddir: filepath.Join(base, "dst")}
	fail := func(f string, a ...interface{}) Out {
		out.Err = fmt.Sprintf(f, a...)
		out.Tbl = r.tbl
		return out
	}
	if err := os.MkdirAll(r.sdir, 0700); err != nil {
		return fail("%v", err)
	}
	types.ShouldPunchHoles = false
	var err error
	if r.src, err = openServer(r.sdir, true, c.NB*blk, "RW", false); err != nil {
		return fail("src: %v", err)
	}
	closeAll := func() {
		hx.QuiesceHoles()
		if r.src != nil && r.src.Replica() != nil {
			r.src.Replica().Close()
		}
		if r.dst != nil && r.dst.Replica() != nil {
			r.dst.Replica().Close()
		}
		types.ShouldPunchHoles = false
	}
	defer closeAll()
	fork := c.Fork
	if c.Mode == "clone" || fork > len(c.Pre) {
		fork = -1
	}
	for i, op := range c.Pre {
		if i == fork {
			if err := r.forkDst(); err != nil {
				return fail("fork: %v", err)
			}
		}
		if err := r.blockOp(r.src, r.sdir, op); err != nil {
			return fail("pre %d (%s): %v", i, op.K, err)
		}
	}
	if fork == len(c.Pre) {
		if err := r.forkDst(); err != nil {
			return fail("fork: %v", err)
		}
	}
	if r.dst == nil {
		if err := os.MkdirAll(r.ddir, 0700); err != nil {
			return fail("%v", err)
		}
		// a fresh replica; for a clone it waits in mode WO like every replica being filled
		if r.dst, err = openServer(r.ddir, true, c.NB*blk, "WO", false); err != nil {
			return fail("dst: %v", err)
		}
	}
	if c.Mode != "clone" {
		// controller.addReplicaNoLock: snapshot on the backends, then on the newcomer; newcomer -> WO
		types.ShouldPunchHoles = true
		if err := r.src.Snapshot(snapName(addName), false, created); err != nil {
			return fail("add snapshot src: %v", err)
		}
		types.ShouldPunchHoles = false
		if err := r.dst.Snapshot(snapName(addName), false, created); err != nil {
			return fail("add snapshot dst: %v", err)
		}
		if err := r.dst.SetReplicaMode("WO"); err != nil {
			return fail("setmode WO: %v", err)
		}
	} else {
		disks := r.src.Replica().ListDisks()
		if d, ok := disks[diskName(c.Snap)]; ok {
			out.SnapRv = d.RevisionCounter
		}
	}
	r.dstPunch = false // sync.AddReplica: types.ShouldPunchHoles = false in the rebuilding process
	for i, ev := range c.Ev {
		var err error
		if ev.Obst != "" || ev.FFail > 0 {
			err = r.obstructed(ev)
			out.Res = append(out.Res, rc(err))
			if err != nil {
				if !ev.Retry {
					out.Stopped = true
					break
				}
				plain := ev
				plain.Obst = ""
				plain.FFail = 0
				err = r.event(plain)
				out.Res = append(out.Res, rc(err))
			}
		} else {
			err = r.event(ev)
			out.Res = append(out.Res, rc(err))
		}
		if err != nil {
			out.Err = fmt.Sprintf("event %d (%s): %v", i, ev.K, err)
			break
		}
	}
	out.Raced = r.raced
	if out.Err == "" {
		if out.Src, err = r.side(r.src, r.sdir, "src", false); err != nil {
			out.Err = err.Error()
		} else if out.Dst, err = r.side(r.dst, r.ddir, "dst", out.Stopped); err != nil {
			out.Err = err.Error()
		}
	}
	out.Tbl = r.tbl
	return out
}

// forkDst: the destination was a member in sync with the source up to this point: its directory is a
// copy of the source's; it then runs DPre on its own (data the rebuild has to replace) and stops.
func (r *runner) forkDst() error {
	hx.QuiesceHoles()
	if err := copyDir(r.sdir, r.ddir); err != nil {
		return err
	}
	var err error
	types.ShouldPunchHoles = false
	// a member that starts: Open preloads the block map; punching is still off in a starting process
	if r.dst, err = openServer(r.ddir, false, 0, "RW", true); err != nil {
		return err
	}
	for i, op := range r.c.DPre {
		if err := r.blockOp(r.dst, r.ddir, op); err != nil {
			return fmt.Errorf("dpre %d (%s): %v", i, op.K, err)
		}
	}
	return nil
}

func main() {
	if len(os.Args) < 4 {
		fmt.Fprintln(os.Stderr, "usage: rebuild in.jsonl out.jsonl workdir")
		os.Exit(2)
	}
	hx.Quiet()
	hx.StartHoles()
	w, err := hx.NewWriter(os.Args[2])
	if err != nil {
		fmt.Fprintln(os.Stderr, err)
		os.Exit(2)
	}
	t0 := time.Now()
	n := 0
	err = hx.ReadLines(os.Args[1], func(dec *json.Decoder) error {
		var c Case
		if err := dec.Decode(&c); err != nil {
			return err
		}
		n++
		return w.Put(runCase(c, os.Args[3]))
	})
	if err != nil {
		fmt.Fprintln(os.Stderr, err)
		os.Exit(2)
	}
	w.Close()
	fmt.Fprintf(os.Stderr, "rebuild: %d cases in %v\n", n, time.Since(t0))
}
