// Command victim (tier T1v of property C08) performs ONE operation of the real replica.Replica on a
// prepared directory, between two marker system calls, with logging discarded and the main goroutine
// locked to the main OS thread.  It is meant to be run under
//
//	strace -f -e trace=openat,rename,... [-e inject=...:signal=SIGKILL:when=k | :error=ENOSPC:when=k]
//
// so that the checker can (pass 1) record the system calls of the operation window and then kill the
// process at, or fail, each of them.
//
//	victim <dir> <markerdir> '<op json>'
//
// The markers are mkdir(<markerdir>/B) before and mkdir(<markerdir>/E) after the operation.  The
// result is printed on stdout as one JSON line after the second marker.
package main

import (
	"encoding/json"
	"fmt"
	"os"
	"path/filepath"
	"runtime"

	"github.com/openebs/jiva/replica"
	"github.com/openebs/jiva/types"

	"jivaverif/harness/hx"
)

type Op struct {
	Op       string `json:"op"`
	Name     string `json:"name,omitempty"`
	User     bool   `json:"user,omitempty"`
	Created  string `json:"created,omitempty"`
	Size     int64  `json:"size,omitempty"`
	B        bool   `json:"b,omitempty"`
	Tok      int64  `json:"tok,omitempty"`
	MaxChain int    `json:"maxchain,omitempty"`
}

const blk = 4096

func init() {
	runtime.LockOSThread()
}

func pattern(id int64) []byte {
	b := make([]byte, blk)
	for i := 0; i < blk; i += 8 {
		v := uint64(id)
		for j := 0; j < 8; j++ {
			b[i+j] = byte(v >> (8 * uint(j)))
		}
	}
	return b
}

func main() {
	if len(os.Args) < 4 {
		fmt.Fprintln(os.Stderr, "usage: victim dir markerdir opjson")
		os.Exit(2)
	}
	dir, mark := os.Args[1], os.Args[2]
	var op Op
	if err := json.Unmarshal([]byte(os.Args[3]), &op); err != nil {
		fmt.Fprintln(os.Stderr, err)
		os.Exit(2)
	}
	hx.Quiet()
	hx.StartHoles()
	types.ShouldPunchHoles = false
	types.MaxChainLength = op.MaxChain

	var r *replica.Replica
	var err error
	if op.Op != "open" {
		info, ierr := replica.ReadInfo(dir)
		if ierr != nil {
			fmt.Fprintln(os.Stderr, "prepare: readinfo:", ierr)
			os.Exit(3)
		}
		r, err = replica.New(true, info.Size, 4096, dir, nil, "")
		if err != nil {
			fmt.Fprintln(os.Stderr, "prepare: open:", err)
			os.Exit(3)
		}
		if err = r.SetReplicaMode("RW"); err != nil {
			os.Exit(3)
		}
	}
	os.Mkdir(filepath.Join(mark, "B"), 0700)
	actions := 0
	switch op.Op {
	case "open":
		// Server.Open: the size comes from Status() (ReadInfo; an error there leaves it 0)
		info, _ := replica.ReadInfo(dir)
		r, err = replica.New(true, info.Size, 4096, dir, nil, "")
	case "close":
		err = r.Close()
	case "write":
		_, err = r.WriteAt(pattern(op.Tok), (op.Tok%4)*blk)
	case "snap":
		err = r.Snapshot(op.Name, op.User, op.Created)
	case "rm":
		err = r.RemoveDiffDisk(op.Name)
	case "prep":
		var acts []replica.PrepareRemoveAction
		acts, err = r.PrepareRemoveDisk(op.Name)
		actions = len(acts)
	case "revert":
		_, err = r.Revert(op.Name, op.Created)
	case "resize":
		err = r.Resize(fmt.Sprintf("%d", op.Size))
	case "checkpoint":
		err = r.SetCheckpoint(op.Name)
	case "rebuilding":
		err = r.SetRebuilding(op.B)
	default:
		err = fmt.Errorf("unknown op %s", op.Op)
	}
	os.Mkdir(filepath.Join(mark, "E"), 0700)
	out := map[string]interface{}{"res": "ok", "actions": actions}
	if err != nil {
		out["res"] = "err"
		out["err"] = err.Error()
	}
	b, _ := json.Marshal(out)
	fmt.Println(string(b))
	os.Exit(0)
}
