// Command victim (tier T1v of property C08) performs ONE operation of the real replica.Replica on a
// prepared directory, between two marker system calls, with logging discarded and the main goroutine
// locked to the main OS thread.  It is meant to be run under
//
//	strace -f -e trace=openat,rename,... [-e inject=...:signal=SIGKILL:when=k | :error=ENOSPC:when=k]
//
// so that the checker can (pass 1) record the system calls of the operation window and then kill the
// process at, or fail, each of them.
//
//	victim <dir> <markerdir> '<op json>'
//
// The markers are mkdir(<markerdir>/B) before and mkdir(<markerdir>/E) after the operation.  The
// result is printed on stdout as one JSON line after the second marker.
package main

import (
	"bytes"
	"crypto/sha1"
	"encoding/json"
	"fmt"
	"io/ioutil"
	"os"
	"path/filepath"
	"runtime"
	"sort"
	"syscall"

	"github.com/openebs/jiva/replica"
	"github.com/openebs/jiva/types"

	"jivaverif/harness/hx"
)

type Op struct {
	Op       string `json:"op"`
	Name     string `json:"name,omitempty"`
	User     bool   `json:"user,omitempty"`
	Created  string `json:"created,omitempty"`
	Size     int64  `json:"size,omitempty"`
	B        bool   `json:"b,omitempty"`
	Tok      int64  `json:"tok,omitempty"`
	MaxChain int    `json:"maxchain,omitempty"`
	Source   string `json:"source,omitempty"` // replace: the source disk
	Cont     bool   `json:"cont,omitempty"`   // go on after the operation: copy the directory, observe the memory, Close
}

// what the process holds in memory when the operation has returned (same layout as cmd/meta's Obs)
type DiskObs struct {
	Parent      string   `json:"parent"`
	Removed     bool     `json:"removed"`
	UserCreated bool     `json:"user"`
	Created     string   `json:"created"`
	Rev         int64    `json:"rev"`
	Children    []string `json:"children"`
}

type InfoObs struct {
	Head       string `json:"head"`
	Parent     string `json:"parent"`
	Size       int64  `json:"size"`
	Checkpoint string `json:"checkpoint"`
	Dirty      bool   `json:"dirty"`
	Rebuilding bool   `json:"rebuilding"`
	Rev        int64  `json:"rev"`
}

type MemObs struct {
	Open     bool               `json:"open"`
	Mode     string             `json:"mode,omitempty"`
	Chain    []string           `json:"chain"`
	ChainErr bool               `json:"chainerr,omitempty"`
	Disks    map[string]DiskObs `json:"disks,omitempty"`
	Info     *InfoObs           `json:"info,omitempty"`
	Live     string             `json:"live,omitempty"`
}

func fingerprint(b []byte) string {
	return fmt.Sprintf("%x", sha1.Sum(bytes.TrimRight(b, "\x00")))
}

func observeMem(r *replica.Replica) (o MemObs) {
	if r == nil {
		return
	}
	defer func() {
		if p := recover(); p != nil {
			o.ChainErr = true
		}
	}()
	o.Open = true
	o.Mode = r.GetReplicaMode()
	c, err := r.Chain()
	if err != nil {
		o.ChainErr = true
	} else {
		o.Chain = c
	}
	o.Disks = map[string]DiskObs{}
	for n, d := range r.ListDisks() {
		ch := append([]string{}, d.Children...)
		sort.Strings(ch)
		o.Disks[n] = DiskObs{Parent: d.Parent, Removed: d.Removed, UserCreated: d.UserCreated, Created: d.Created,
			Rev: d.RevisionCounter, Children: ch}
	}
	i := r.Info()
	o.Info = &InfoObs{Head: i.Head, Parent: i.Parent, Size: i.Size, Checkpoint: i.Checkpoint, Dirty: i.Dirty,
		Rebuilding: i.Rebuilding, Rev: i.RevisionCounter}
	if i.Size > 0 && i.Size <= 64*blk {
		buf := make([]byte, i.Size)
		if _, err := r.ReadAt(buf, 0); err == nil {
			o.Live = fingerprint(buf)
		} else {
			o.Live = "readerr"
		}
	}
	return
}

// copyTree copies the regular files of src to dst keeping the hard-link structure and the holes
// (in this process: a child process under strace would be subject to the same injection).
func copyTree(src, dst string) error {
	os.RemoveAll(dst)
	if err := os.MkdirAll(dst, 0700); err != nil {
		return err
	}
	ents, err := ioutil.ReadDir(src)
	if err != nil {
		return err
	}
	first := map[uint64]string{}
	zero := make([]byte, blk)
	for _, fi := range ents {
		if !fi.Mode().IsRegular() {
			continue
		}
		st, _ := fi.Sys().(*syscall.Stat_t)
		to := filepath.Join(dst, fi.Name())
		if st != nil {
			if f0, ok := first[st.Ino]; ok {
				if err := os.Link(f0, to); err != nil {
					return err
				}
				continue
			}
			first[st.Ino] = to
		}
		b, err := ioutil.ReadFile(filepath.Join(src, fi.Name()))
		if err != nil {
			return err
		}
		f, err := os.OpenFile(to, os.O_CREATE|os.O_WRONLY|os.O_TRUNC, 0600)
		if err != nil {
			return err
		}
		if st != nil && st.Blocks == 0 {
			// nothing allocated: keep it that way
			f.Truncate(int64(len(b)))
		} else if len(b)%blk != 0 || len(b) < blk {
			f.Write(b)
		} else {
			f.Truncate(int64(len(b)))
			for off := 0; off < len(b); off += blk {
				if !bytes.Equal(b[off:off+blk], zero) {
					f.WriteAt(b[off:off+blk], int64(off))
				}
			}
		}
		f.Close()
	}
	return nil
}

const blk = 4096

func init() {
	runtime.LockOSThread()
}

func pattern(id int64) []byte {
	b := make([]byte, blk)
	for i := 0; i < blk; i += 8 {
		v := uint64(id)
		for j := 0; j < 8; j++ {
			b[i+j] = byte(v >> (8 * uint(j)))
		}
	}
	return b
}

func main() {
	if len(os.Args) < 4 {
		fmt.Fprintln(os.Stderr, "usage: victim dir markerdir opjson")
		os.Exit(2)
	}
	dir, mark := os.Args[1], os.Args[2]
	var op Op
	if err := json.Unmarshal([]byte(os.Args[3]), &op); err != nil {
		fmt.Fprintln(os.Stderr, err)
		os.Exit(2)
	}
	hx.Quiet()
	hx.StartHoles()
	types.ShouldPunchHoles = false
	types.MaxChainLength = op.MaxChain

	var r *replica.Replica
	var err error
	if op.Op != "open" {
		info, ierr := replica.ReadInfo(dir)
		if ierr != nil {
			fmt.Fprintln(os.Stderr, "prepare: readinfo:", ierr)
			os.Exit(3)
		}
		r, err = replica.New(true, info.Size, 4096, dir, nil, "")
		if err != nil {
			fmt.Fprintln(os.Stderr, "prepare: open:", err)
			os.Exit(3)
		}
		if err = r.SetReplicaMode("RW"); err != nil {
			os.Exit(3)
		}
	}
	os.Mkdir(filepath.Join(mark, "B"), 0700)
	actions := 0
	switch op.Op {
	case "open":
		// Server.Open: the size comes from Status() (ReadInfo; an error there leaves it 0)
		info, _ := replica.ReadInfo(dir)
		r, err = replica.New(true, info.Size, 4096, dir, nil, "")
		if err != nil {
			r = nil // Server.Open: s.r stays nil
		}
	case "close":
		err = r.Close()
	case "write":
		_, err = r.WriteAt(pattern(op.Tok), (op.Tok%4)*blk)
	case "snap":
		err = r.Snapshot(op.Name, op.User, op.Created)
	case "rm":
		err = r.RemoveDiffDisk(op.Name)
	case "prep":
		var acts []replica.PrepareRemoveAction
		acts, err = r.PrepareRemoveDisk(op.Name)
		actions = len(acts)
	case "revert":
		var nr *replica.Replica
		nr, err = r.Revert(op.Name, op.Created)
		if err == nil && nr != nil {
			r = nr // Server.Revert: s.r = the reloaded replica
		}
	case "replace":
		err = r.ReplaceDisk(op.Name, op.Source)
	case "resize":
		err = r.Resize(fmt.Sprintf("%d", op.Size))
	case "checkpoint":
		err = r.SetCheckpoint(op.Name)
	case "rebuilding":
		err = r.SetRebuilding(op.B)
	default:
		err = fmt.Errorf("unknown op %s", op.Op)
	}
	os.Mkdir(filepath.Join(mark, "E"), 0700)
	out := map[string]interface{}{"res": "ok", "actions": actions}
	if err != nil {
		out["res"] = "err"
		out["err"] = err.Error()
	}
	if op.Cont {
		// the process goes on: the directory as the operation left it is kept aside, the memory is
		// observed, and a regular Close rewrites volume.meta from memory
		if cerr := copyTree(dir, dir+".atE"); cerr != nil {
			out["conterr"] = cerr.Error()
		}
		out["mem"] = observeMem(r)
		out["cres"] = "ok"
		if r != nil {
			if cerr := r.Close(); cerr != nil {
				out["cres"] = "err"
				out["cerr"] = cerr.Error()
			}
		}
	}
	b, _ := json.Marshal(out)
	fmt.Println(string(b))
	os.Exit(0)
}
