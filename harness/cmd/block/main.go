// Command block drives one real replica.Server on a real directory (production CreateHoles goroutine
// running, quiesced before every observation) with operation lists and records what is observable
// after each step (model: coq/theories/Block).
//
//	block <in.jsonl> <out.jsonl> <workdir>
//
// Units: a case fixes K units per 4 KiB block (8 = 512-byte sectors, 4096 = bytes); all offsets and
// lengths of reads and writes are in units.  A unit written with token t > 0 carries t and (for units
// of at least 8 bytes) its own absolute unit index, so that misplaced data decodes to a bad token.
package main

import (
	"encoding/json"
	"fmt"
	"io"
	"net"
	"net/http"
	"os"
	"path/filepath"
	"strconv"
	"strings"
	"sync"
	"syscall"
	"time"

	"github.com/openebs/jiva/replica"
	replicaClient "github.com/openebs/jiva/replica/client"
	jsync "github.com/openebs/jiva/sync"
	"github.com/openebs/jiva/types"
	"github.com/openebs/sparse-tools/sparse"

	"jivaverif/harness/hx"
)

const (
	blk     = 4096
	badTok  = 999999
	created = "2020-01-01T00:00:00Z"
)

type Op struct {
	K    string `json:"k"` // w r snap prep fold rm del revert reopen reload punch resize lun cand rf clean u
	Off  int64  `json:"off,omitempty"`
	Len  int64  `json:"len,omitempty"`
	Tok  int64  `json:"tok,omitempty"`
	Name int    `json:"name,omitempty"`
	User bool   `json:"user,omitempty"`
	Src  int    `json:"src,omitempty"`
	Dst  int    `json:"dst,omitempty"`
	Pre  bool   `json:"pre,omitempty"`
	B    bool   `json:"b,omitempty"`
	NB   int64  `json:"nb,omitempty"`
	CP   int    `json:"cp,omitempty"` // candidates / clean: checkpoint name, -1 = ""
	File int    `json:"file,omitempty"` // rf: chain position (1 = base ... head) whose descriptors are unusable
	Fail bool   `json:"fail,omitempty"` // clean: the sync agent answers the coalesce with a failure
	// resize: how the new size (NB blocks = 4*NB KiB) is spelled: "" plain decimal byte count, "int64" the int64
	// variant of Replica.Resize, "m" a decimal fraction of MiB ("0.046875m"), otherwise a suffix appended to the
	// number of KiB ("k", "K", "kb", "KiB", " k", ...; units.RAMInBytes: binary multipliers, case-insensitive)
	Spell string `json:"spell,omitempty"`
}

type Case struct {
	ID    int   `json:"id"`
	K     int64 `json:"K"`
	NB    int64 `json:"nb"`
	Punch bool  `json:"punch"`
	Rev   bool  `json:"rev"` // revert-on-copy of every snapshot after every step
	Ops   []Op  `json:"ops"`
}

type Obs struct {
	Res   string     `json:"res"`
	Data  [][2]int64 `json:"data"`  // run-length encoded read data
	Names []int      `json:"names"` // candidates
	Live  int        `json:"live"`
	Chain []int      `json:"chain"`
	Attr  [][2]bool  `json:"attr"`
	Snaps []int      `json:"snaps"`
	Revs  []int      `json:"revs"`
	NBlk  int64      `json:"nblk"`
	Sizes []int64    `json:"sizes,omitempty"` // candidates: allocated size of each returned name
	Victim int       `json:"victim"`          // clean: the snapshot the cleaner works on (first candidate), 0 = none
	Note  string     `json:"note,omitempty"`
}

type Out struct {
	ID  int          `json:"id"`
	Tbl [][][2]int64 `json:"tbl"`
	Obs []Obs        `json:"obs"`
	Err string       `json:"err,omitempty"`
}

type runner struct {
	c    Case
	dir  string
	work string
	s    *replica.Server
	unit int64 // bytes per unit
	tbl  [][][2]int64
	idx  map[string]int
	cl   *cleaner // the background cleaner of this replica, started by the first `clean` operation
	vict int      // victim of the last `clean` operation
}

func rc(err error) string {
	if err != nil {
		return "err"
	}
	return "ok"
}

func diskName(n int) string { return fmt.Sprintf("volume-snap-s%03d.img", n) }
func snapName(n int) string { return fmt.Sprintf("s%03d", n) }

// nameOf maps a disk file name to the model's name: head = 0, volume-snap-sNNN.img = NNN
func nameOf(disk string) int {
	if strings.HasPrefix(disk, "volume-head-") {
		return 0
	}
	t := strings.TrimSuffix(strings.TrimPrefix(disk, "volume-snap-s"), ".img")
	n, err := strconv.Atoi(t)
	if err != nil {
		return -1
	}
	return n
}

// fill writes the pattern of token tok for the units [u0, u0+n) into buf
func (r *runner) fill(buf []byte, u0, n, tok int64) {
	U := r.unit
	for i := int64(0); i < n; i++ {
		b := buf[i*U : (i+1)*U]
		if tok == 0 {
			for j := range b {
				b[j] = 0
			}
			continue
		}
		if U < 8 {
			for j := range b {
				b[j] = byte(tok)
			}
			continue
		}
		w := uint64(tok)<<32 | uint64(uint32(u0+i))
		for j := int64(0); j+8 <= U; j += 8 {
			for k := 0; k < 8; k++ {
				b[j+int64(k)] = byte(w >> (8 * uint(k)))
			}
		}
	}
}

// decode returns the token of every unit of buf, which was read from unit offset u0
func (r *runner) decode(buf []byte, u0 int64) []int64 {
	U := r.unit
	n := int64(len(buf)) / U
	out := make([]int64, n)
	for i := int64(0); i < n; i++ {
		b := buf[i*U : (i+1)*U]
		if U < 8 {
			v := b[0]
			ok := true
			for _, x := range b {
				if x != v {
					ok = false
				}
			}
			if ok {
				out[i] = int64(v)
			} else {
				out[i] = badTok
			}
			continue
		}
		var first uint64
		same := true
		for j := int64(0); j+8 <= U; j += 8 {
			var w uint64
			for k := 0; k < 8; k++ {
				w |= uint64(b[j+int64(k)]) << (8 * uint(k))
			}
			if j == 0 {
				first = w
			} else if w != first {
				same = false
			}
		}
		switch {
		case !same:
			out[i] = badTok
		case first == 0:
			out[i] = 0
		case uint32(first) != uint32(u0+i):
			out[i] = badTok
		default:
			out[i] = int64(first >> 32)
		}
	}
	return out
}

func rle(toks []int64) [][2]int64 {
	out := [][2]int64{}
	for _, t := range toks {
		if n := len(out); n > 0 && out[n-1][1] == t {
			out[n-1][0]++
		} else {
			out = append(out, [2]int64{1, t})
		}
	}
	return out
}

func (r *runner) intern(toks []int64) int {
	e := rle(toks)
	key := fmt.Sprint(e)
	if i, ok := r.idx[key]; ok {
		return i
	}
	r.tbl = append(r.tbl, e)
	r.idx[key] = len(r.tbl) - 1
	return len(r.tbl) - 1
}

type foldOps struct{}

func (*foldOps) UpdateFoldFileProgress(progress int, done bool, err error) {}

func foldFile(child, parent string) error { return sparse.FoldFile(child, parent, &foldOps{}) }

// copyDir makes an extent-exact copy of a replica directory: every .img is recreated with the same
// size and exactly the same data extents (through the same code sfold uses), everything else is
// copied byte for byte.
func copyDir(src, dst string) error {
	if err := os.MkdirAll(dst, 0700); err != nil {
		return err
	}
	ents, err := os.ReadDir(src)
	if err != nil {
		return err
	}
	for _, e := range ents {
		sp, dp := filepath.Join(src, e.Name()), filepath.Join(dst, e.Name())
		if strings.HasSuffix(e.Name(), ".img") {
			st, err := os.Stat(sp)
			if err != nil {
				return err
			}
			f, err := os.Create(dp)
			if err != nil {
				return err
			}
			if err := f.Truncate(st.Size()); err != nil {
				f.Close()
				return err
			}
			f.Close()
			if err := foldFile(sp, dp); err != nil {
				return err
			}
			continue
		}
		if err := copyFile(sp, dp); err != nil {
			return err
		}
	}
	return nil
}

func copyFile(sp, dp string) error {
	in, err := os.Open(sp)
	if err != nil {
		return err
	}
	defer in.Close()
	out, err := os.Create(dp)
	if err != nil {
		return err
	}
	if _, err := io.Copy(out, in); err != nil {
		out.Close()
		return err
	}
	return out.Close()
}

func (r *runner) size() int64 {
	if rep := r.s.Replica(); rep != nil {
		return rep.Info().Size
	}
	return 0
}

// chain returns the disk names base first.
func (r *runner) chain() []string {
	rep := r.s.Replica()
	if rep == nil {
		return nil
	}
	c, err := rep.Chain()
	if err != nil {
		return nil
	}
	out := make([]string, len(c))
	for i := range c {
		out[len(c)-1-i] = c[i]
	}
	return out
}

func (r *runner) readAll(rd io.ReaderAt, size int64) ([]int64, error) {
	buf := make([]byte, size)
	if size == 0 {
		return nil, nil
	}
	if _, err := rd.ReadAt(buf, 0); err != nil {
		return nil, err
	}
	return r.decode(buf, 0), nil
}

func (r *runner) do(op Op) (res string, data []int64, names []int, sizes []int64, note string) {
	s := r.s
	U := r.unit
	switch op.K {
	case "w":
		buf := make([]byte, op.Len*U)
		r.fill(buf, op.Off, op.Len, op.Tok)
		_, err := s.WriteAt(buf, op.Off*U)
		return rc(err), nil, nil, nil, ""
	case "r":
		buf := make([]byte, op.Len*U)
		_, err := s.ReadAt(buf, op.Off*U)
		if err != nil {
			return "err", nil, nil, nil, err.Error()
		}
		return "ok", r.decode(buf, op.Off), nil, nil, ""
	case "rf":
		// a read while every descriptor this process holds on one chain file is unusable for reading
		// (swapped for an O_WRONLY descriptor of the same file: pread fails with EBADF, FIEMAP still works)
		hx.QuiesceHoles()
		ch := r.chain()
		restore := func() {}
		swapped := 0
		if op.File >= 1 && op.File <= len(ch) {
			var err error
			restore, swapped, err = breakFile(r.dir, ch[op.File-1], syscall.O_WRONLY)
			if err != nil {
				panic("fault injection: " + err.Error())
			}
			if swapped == 0 {
				panic("fault injection: no descriptor on " + ch[op.File-1])
			}
		}
		buf := make([]byte, op.Len*U)
		_, err := s.ReadAt(buf, op.Off*U)
		restore()
		if err != nil {
			return "err", nil, nil, nil, err.Error()
		}
		return "ok", r.decode(buf, op.Off), nil, nil, fmt.Sprintf("swapped %d", swapped)
	case "clean":
		return r.clean(op)
	case "u":
		hx.QuiesceHoles()
		_, err := s.Unmap(op.Off*U, op.Len*U)
		return rc(err), nil, nil, nil, ""
	case "snap":
		return rc(s.Snapshot(snapName(op.Name), op.User, created)), nil, nil, nil, ""
	case "prep":
		_, err := s.PrepareRemoveDisk(r.disk(op.Name))
		return rc(err), nil, nil, nil, ""
	case "fold":
		hx.QuiesceHoles()
		err := foldFile(filepath.Join(r.dir, r.disk(op.Src)), filepath.Join(r.dir, r.disk(op.Dst)))
		return rc(err), nil, nil, nil, ""
	case "rm":
		return rc(s.RemoveDiffDisk(r.disk(op.Name))), nil, nil, nil, ""
	case "del":
		// exactly what the background cleaner does with a name: PrepareRemoveDisk, then the actions
		acts, err := s.PrepareRemoveDisk(r.disk(op.Name))
		if err != nil {
			return "err", nil, nil, nil, err.Error()
		}
		for _, a := range acts {
			switch a.Action {
			case replica.OpCoalesce:
				hx.QuiesceHoles()
				if err := foldFile(filepath.Join(r.dir, a.Source), filepath.Join(r.dir, a.Target)); err != nil {
					return "err", nil, nil, nil, "fold: " + err.Error()
				}
			case replica.OpRemove:
				if err := s.RemoveDiffDisk(a.Source); err != nil {
					return "err", nil, nil, nil, "remove: " + err.Error()
				}
			}
		}
		return "ok", nil, nil, nil, ""
	case "revert":
		return rc(s.Revert(r.disk(op.Name), created)), nil, nil, nil, ""
	case "reopen":
		hx.QuiesceHoles()
		if err := s.Close(); err != nil {
			return "err", nil, nil, nil, err.Error()
		}
		if r.cl != nil {
			r.cl.waitExit() // the cleaner leaves its loop when it finds the replica closed
		}
		s.SetPreload(op.Pre)
		if err := s.Open(); err != nil {
			return "err", nil, nil, nil, err.Error()
		}
		return rc(s.SetReplicaMode("RW")), nil, nil, nil, ""
	case "reload":
		hx.QuiesceHoles()
		s.SetPreload(op.Pre)
		return rc(s.Reload()), nil, nil, nil, ""
	case "punch":
		types.ShouldPunchHoles = op.B
		return "ok", nil, nil, nil, ""
	case "resize":
		switch op.Spell {
		case "":
			return rc(s.Resize(strconv.FormatInt(op.NB*blk, 10))), nil, nil, nil, ""
		case "int64":
			return rc(s.Replica().Resize(op.NB * blk)), nil, nil, nil, "int64"
		case "m":
			size := strconv.FormatFloat(float64(op.NB)/256, 'f', -1, 64) + "m"
			return rc(s.Resize(size)), nil, nil, nil, size
		default:
			size := strconv.FormatInt(op.NB*blk/1024, 10) + op.Spell
			return rc(s.Resize(size)), nil, nil, nil, size
		}
	case "lun":
		return rc(s.UpdateLUNMap()), nil, nil, nil, ""
	case "cand":
		cp := ""
		if op.CP >= 0 {
			cp = r.disk(op.CP)
		}
		l, err := jsync.GetDeleteCandidateChain(s.Replica(), cp)
		if err != nil {
			return "err", nil, nil, nil, err.Error()
		}
		disks := s.Replica().ListDisks()
		names = []int{}
		for _, d := range l {
			names = append(names, nameOf(d))
			sz, _ := strconv.ParseInt(disks[d].Size, 10, 64)
			sizes = append(sizes, sz)
		}
		return "ok", nil, names, sizes, ""
	}
	return "err", nil, nil, nil, "unknown op " + op.K
}

// breakFile swaps every descriptor of this process that refers to the file dir/name for a descriptor of the same
// file opened with `flags` only (O_WRONLY: reads fail with EBADF); the returned function swaps the
// originals back.  The descriptors are collected first: the listing itself opens and closes descriptors.
func breakFile(dir, name string, flags int) (func(), int, error) {
	ents, err := os.ReadDir("/proc/self/fd")
	if err != nil {
		return nil, 0, err
	}
	want := filepath.Join(dir, name)
	// by inode: a snapshot file is the former head under a new link, its descriptor still names the old one
	var st syscall.Stat_t
	if err := syscall.Stat(want, &st); err != nil {
		return nil, 0, err
	}
	var hits []int
	for _, e := range ents {
		fd, err := strconv.Atoi(e.Name())
		if err != nil {
			continue
		}
		var fs syscall.Stat_t
		if err := syscall.Fstat(fd, &fs); err != nil || fs.Ino != st.Ino || fs.Dev != st.Dev {
			continue
		}
		hits = append(hits, fd)
	}
	type sw struct{ fd, saved int }
	var sws []sw
	undo := func() {
		for _, x := range sws {
			syscall.Dup2(x.saved, x.fd)
			syscall.Close(x.saved)
		}
	}
	for _, fd := range hits {
		saved, err := syscall.Dup(fd)
		if err != nil {
			undo()
			return nil, 0, err
		}
		bad, err := syscall.Open(want, flags, 0)
		if err != nil {
			syscall.Close(saved)
			undo()
			return nil, 0, err
		}
		err = syscall.Dup2(bad, fd)
		syscall.Close(bad)
		if err != nil {
			syscall.Close(saved)
			undo()
			return nil, 0, err
		}
		sws = append(sws, sw{fd, saved})
	}
	return undo, len(sws), nil
}

// cleaner runs the production background cleaner (sync.Task.InternalSnapshotCleaner, the goroutine every
// replica starts) against this replica.  The two peers it talks to are this process:
//   - the controller (GET /v1/checkpoint): answers "no checkpoint" until a pass is armed, then names the
//     checkpoint exactly once; the request after that one shows that the armed pass is over;
//   - the replica's sync agent (POST /v1/processes {fold}, at the replica's port + 2): performs the fold with
//     sparse.FoldFile the way the agent's sfold child does, or reports exit code 1 when told to fail.
// The harness is built with the ticker period of the cleaner shortened (see checks/blocklib.py).
type cleaner struct {
	mu       sync.Mutex
	dir      string
	armed    string // checkpoint to hand out once
	served   bool   // the armed checkpoint was handed out
	after    int    // checkpoint requests since it was handed out
	failFold bool   // answer the next fold with a failure
	folds    int    // fold requests received in this pass
	failed   int    // ... of which answered with a failure
	procs    map[string]int
	ctrl     net.Listener
	agent    net.Listener
	task     *jsync.Task
	rc       *replicaClient.ReplicaClient
	done     chan struct{}
}

func newCleaner(dir string) (*cleaner, error) {
	c := &cleaner{dir: dir, procs: map[string]int{}}
	var err error
	if c.ctrl, err = net.Listen("tcp", "127.0.0.1:0"); err != nil {
		return nil, err
	}
	// the sync agent must listen on (replica port + 2): pick the agent's port, derive the replica address
	for try := 0; ; try++ {
		if c.agent, err = net.Listen("tcp", "127.0.0.1:0"); err != nil {
			return nil, err
		}
		if c.agent.Addr().(*net.TCPAddr).Port > 1026 {
			break
		}
		c.agent.Close()
		if try > 10 {
			return nil, fmt.Errorf("no usable port")
		}
	}
	aport := c.agent.Addr().(*net.TCPAddr).Port
	cmux := http.NewServeMux()
	cmux.HandleFunc("/", func(w http.ResponseWriter, req *http.Request) {
		if !strings.HasSuffix(req.URL.Path, "/checkpoint") {
			http.NotFound(w, req)
			return
		}
		c.mu.Lock()
		name := ""
		if c.armed != "" && !c.served {
			name = c.armed
			c.served = true
		} else if c.served {
			c.after++
		}
		c.mu.Unlock()
		w.Header().Set("Content-Type", "application/json")
		fmt.Fprintf(w, `{"type":"checkpoint","snapshot":%q}`, name)
	})
	amux := http.NewServeMux()
	amux.HandleFunc("/v1/processes", func(w http.ResponseWriter, req *http.Request) {
		var p struct {
			ProcessType string `json:"processType"`
			SrcFile     string `json:"srcFile"`
			DestFile    string `json:"destfile"`
		}
		if err := json.NewDecoder(req.Body).Decode(&p); err != nil || p.ProcessType != "fold" {
			http.Error(w, "unsupported process", http.StatusUnprocessableEntity)
			return
		}
		c.mu.Lock()
		c.folds++
		fail := c.failFold
		c.failFold = false
		id := strconv.Itoa(len(c.procs) + 1)
		c.mu.Unlock()
		code := 0
		if fail {
			code = 1
		} else {
			hx.QuiesceHoles()
			if err := foldFile(filepath.Join(c.dir, p.SrcFile), filepath.Join(c.dir, p.DestFile)); err != nil {
				code = 1
			}
		}
		c.mu.Lock()
		if code != 0 {
			c.failed++
		}
		c.procs[id] = code
		c.mu.Unlock()
		c.writeProc(w, id, aport, code)
	})
	amux.HandleFunc("/v1/processes/", func(w http.ResponseWriter, req *http.Request) {
		id := strings.TrimPrefix(req.URL.Path, "/v1/processes/")
		c.mu.Lock()
		code, ok := c.procs[id]
		c.mu.Unlock()
		if !ok {
			http.NotFound(w, req)
			return
		}
		c.writeProc(w, id, aport, code)
	})
	go http.Serve(c.ctrl, cmux)
	go http.Serve(c.agent, amux)
	c.task = jsync.NewTask("http://" + c.ctrl.Addr().String())
	if c.rc, err = replicaClient.NewReplicaClient(fmt.Sprintf("127.0.0.1:%d", aport-2)); err != nil {
		return nil, err
	}
	return c, nil
}

func (c *cleaner) writeProc(w http.ResponseWriter, id string, aport, code int) {
	w.Header().Set("Content-Type", "application/json")
	fmt.Fprintf(w, `{"id":%q,"type":"process","links":{"self":"http://127.0.0.1:%d/v1/processes/%s"},"processType":"fold","exitCode":%d}`,
		id, aport, id, code)
}

// ensure starts the production goroutine unless it is running
func (c *cleaner) ensure(s *replica.Server) {
	if c.done != nil {
		select {
		case <-c.done:
		default:
			return
		}
	}
	done := make(chan struct{})
	c.done = done
	go func() {
		c.task.InternalSnapshotCleaner(s, c.rc)
		close(done)
	}()
}

func (c *cleaner) waitExit() {
	if c.done == nil {
		return
	}
	select {
	case <-c.done:
	case <-time.After(20 * time.Second):
		panic("the cleaner did not leave its loop after the replica was closed")
	}
}

func (c *cleaner) stop() {
	c.ctrl.Close()
	c.agent.Close()
}

// pass lets the cleaner run its loop body exactly once with the given checkpoint
func (c *cleaner) pass(checkpoint string, fail bool) (folds, failed int) {
	c.mu.Lock()
	c.armed, c.served, c.after, c.failFold, c.folds, c.failed = checkpoint, false, 0, fail, 0, 0
	c.mu.Unlock()
	deadline := time.Now().Add(30 * time.Second)
	for {
		c.mu.Lock()
		over := c.served && c.after > 0
		c.mu.Unlock()
		if over {
			break
		}
		if time.Now().After(deadline) {
			panic("the cleaner did not complete a pass in 30 s")
		}
		time.Sleep(200 * time.Microsecond)
	}
	c.mu.Lock()
	defer c.mu.Unlock()
	c.armed, c.failFold = "", false
	return c.folds, c.failed
}

// clean: one pass of the production cleaner loop with checkpoint op.CP on both sides
func (r *runner) clean(op Op) (res string, data []int64, names []int, sizes []int64, note string) {
	if jsync.SnapshotDeletionInterval > 100*time.Millisecond {
		panic(fmt.Sprintf("cleaner period is %v: the harness was built without the shortened ticker", jsync.SnapshotDeletionInterval))
	}
	s := r.s
	r.vict = 0
	names = []int{}
	if op.CP < 0 {
		// no checkpoint at the controller: the loop body stops at GetCheckpoint
		return "ok", nil, names, nil, "no checkpoint"
	}
	cp := r.disk(op.CP)
	if err := s.SetCheckpoint(cp); err != nil {
		return "err", nil, names, nil, "setcheckpoint: " + err.Error()
	}
	l, err := jsync.GetDeleteCandidateChain(s.Replica(), cp)
	if err != nil {
		return "err", nil, names, nil, err.Error()
	}
	for _, d := range l {
		names = append(names, nameOf(d))
	}
	if len(l) > 0 {
		r.vict = nameOf(l[0])
	}
	if r.cl == nil {
		c, err := newCleaner(r.dir)
		if err != nil {
			panic("cleaner: " + err.Error())
		}
		r.cl = c
	}
	jsync.SnapshotRetentionCount = 1
	r.cl.ensure(s)
	folds, failed := r.cl.pass(cp, op.Fail)
	note = fmt.Sprintf("folds %d failed %d", folds, failed)
	if failed > 0 {
		return "err", nil, names, nil, note
	}
	return "ok", nil, names, nil, note
}

// disk maps a model name to the file name: 0 is the current head
func (r *runner) disk(n int) string {
	if n == 0 {
		if rep := r.s.Replica(); rep != nil {
			return rep.Info().Head
		}
	}
	return diskName(n)
}

func (r *runner) observe(res string, data []int64, names []int, sizes []int64, note string, snaps bool) (Obs, error) {
	hx.QuiesceHoles()
	o := Obs{Res: res, Data: rle(data), Names: names, Sizes: sizes, Note: note, Chain: []int{}, Attr: [][2]bool{},
		Snaps: []int{}, Revs: []int{}}
	if o.Names == nil {
		o.Names = []int{}
	}
	size := r.size()
	o.NBlk = size / blk
	live, err := r.readAll(r.s, size)
	if err != nil {
		return o, fmt.Errorf("full read: %v", err)
	}
	o.Live = r.intern(live)
	ch := r.chain()
	disks := r.s.Replica().ListDisks()
	for _, d := range ch {
		o.Chain = append(o.Chain, nameOf(d))
		o.Attr = append(o.Attr, [2]bool{disks[d].UserCreated, disks[d].Removed})
	}
	if !snaps || len(ch) < 2 {
		return o, nil
	}
	// snapshot images the way the property says: open the snapshot read-only on a copy of the directory;
	// reclamation is switched off while observing (the copy is never punched)
	saved := types.ShouldPunchHoles
	types.ShouldPunchHoles = false
	defer func() { types.ShouldPunchHoles = saved }()
	cp := filepath.Join(r.work, fmt.Sprintf("copy-%d", r.c.ID))
	os.RemoveAll(cp)
	defer os.RemoveAll(cp)
	if err := copyDir(r.dir, cp); err != nil {
		return o, fmt.Errorf("copy: %v", err)
	}
	meta := filepath.Join(cp, "volume.meta")
	for _, d := range ch[:len(ch)-1] {
		if err := copyFile(filepath.Join(r.dir, "volume.meta"), meta); err != nil {
			return o, err
		}
		ro, err := replica.NewReadOnly(true, cp, d, nil)
		if err != nil {
			return o, fmt.Errorf("NewReadOnly %s: %v", d, err)
		}
		img, err := r.readAll(ro, size)
		hx.QuiesceHoles()
		ro.Close()
		if err != nil {
			return o, fmt.Errorf("read snapshot %s: %v", d, err)
		}
		o.Snaps = append(o.Snaps, r.intern(img))
	}
	if r.c.Rev {
		if err := copyFile(filepath.Join(r.dir, "volume.meta"), meta); err != nil {
			return o, err
		}
		rep, err := replica.New(false, size, blk, cp, nil, "")
		if err != nil {
			return o, fmt.Errorf("open copy: %v", err)
		}
		revs := make([]int, len(ch)-1)
		for i := len(ch) - 2; i >= 0; i-- {
			nr, err := rep.Revert(ch[i], created)
			if err != nil {
				return o, fmt.Errorf("revert on copy %s: %v", ch[i], err)
			}
			img, err := r.readAll(nr, size)
			if err != nil {
				return o, fmt.Errorf("read reverted %s: %v", ch[i], err)
			}
			revs[i] = r.intern(img)
			hx.QuiesceHoles()
			rep.Close()
			rep = nr
		}
		hx.QuiesceHoles()
		rep.Close()
		o.Revs = revs
	}
	return o, nil
}

func runCase(c Case, work string) (out Out) {
	out = Out{ID: c.ID, Tbl: [][][2]int64{}, Obs: []Obs{}}
	dir := filepath.Join(work, fmt.Sprintf("blk-%d-%d", os.Getpid(), c.ID))
	os.RemoveAll(dir)
	if err := os.MkdirAll(dir, 0700); err != nil {
		out.Err = err.Error()
		return out
	}
	defer os.RemoveAll(dir)
	defer func() {
		if e := recover(); e != nil {
			out.Err = fmt.Sprintf("panic: %v", e)
		}
	}()
	types.ShouldPunchHoles = false
	r := &runner{c: c, dir: dir, work: work, unit: blk / c.K, idx: map[string]int{}}
	r.s = replica.NewServer("127.0.0.1:9502", dir, blk, "")
	if err := r.s.Create(c.NB * blk); err != nil {
		out.Err = "create: " + err.Error()
		return out
	}
	if err := r.s.Open(); err != nil {
		out.Err = "open: " + err.Error()
		return out
	}
	if err := r.s.SetReplicaMode("RW"); err != nil {
		out.Err = "setmode: " + err.Error()
		return out
	}
	types.ShouldPunchHoles = c.Punch
	for i, op := range c.Ops {
		res, data, names, sizes, note := r.do(op)
		o, err := r.observe(res, data, names, sizes, note, true)
		if err != nil {
			out.Err = fmt.Sprintf("step %d (%s): %v", i, op.K, err)
			break
		}
		if op.K == "clean" {
			o.Victim = r.vict
		}
		out.Obs = append(out.Obs, o)
	}
	hx.QuiesceHoles()
	if r.cl != nil {
		// the production cleaner leaves its loop only when Server.Replica() is nil
		r.s.Close()
		r.cl.waitExit()
		r.cl.stop()
	} else if r.s.Replica() != nil {
		r.s.Replica().Close() // no drain needed: the queue is empty
	}
	types.ShouldPunchHoles = false
	out.Tbl = r.tbl
	return out
}

func main() {
	if len(os.Args) < 4 {
		fmt.Fprintln(os.Stderr, "usage: block in.jsonl out.jsonl workdir")
		os.Exit(2)
	}
	hx.Quiet()
	hx.StartHoles()
	w, err := hx.NewWriter(os.Args[2])
	if err != nil {
		fmt.Fprintln(os.Stderr, err)
		os.Exit(2)
	}
	t0 := time.Now()
	n := 0
	err = hx.ReadLines(os.Args[1], func(dec *json.Decoder) error {
		var c Case
		if err := dec.Decode(&c); err != nil {
			return err
		}
		n++
		return w.Put(runCase(c, os.Args[3]))
	})
	if err != nil {
		fmt.Fprintln(os.Stderr, err)
		os.Exit(2)
	}
	w.Close()
	fmt.Fprintf(os.Stderr, "block: %d cases in %v\n", n, time.Since(t0))
}
