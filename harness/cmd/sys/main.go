// Command sys runs whole-system scenarios: the real `jiva replica` processes (with their sync-agent
// children and ssync) on loopback addresses, and in this process the real controller.Controller with
// backend/remote + the real controller REST router and a stub frontend.  Volume I/O goes through
// Controller.WriteAt/ReadAt.  It must run inside a private network namespace (fixed ports).
//
//	sys <in.jsonl> <out.jsonl> <workdir> <jiva-binary>
package main

import (
	"bytes"
	"crypto/sha1"
	"encoding/binary"
	"encoding/json"
	"fmt"
	"net"
	"net/http"
	"os"
	"os/exec"
	"path/filepath"
	"sort"
	"strconv"
	"sync"
	"sync/atomic"
	"syscall"
	"time"

	"github.com/openebs/jiva/backend/dynamic"
	"github.com/openebs/jiva/backend/remote"
	"github.com/openebs/jiva/controller"
	"github.com/openebs/jiva/controller/rest"
	"github.com/openebs/jiva/replica"
	"github.com/openebs/jiva/types"

	"jivaverif/harness/hx"
)

const (
	blk  = 4096
	nblk = 64
	size = blk * nblk
)

type Step struct {
	Op      string `json:"op"`
	R       int    `json:"r,omitempty"`
	N       int    `json:"n,omitempty"`
	Timeout int    `json:"timeout,omitempty"`
	Name    string `json:"name,omitempty"`
	Count   int    `json:"count,omitempty"`
	Vol     int    `json:"vol,omitempty"` // controller index: 0 = main volume, 1 = clone volume
	Src     int    `json:"src,omitempty"`
	Ms      int    `json:"ms,omitempty"`
	IfRW    bool   `json:"if_rw,omitempty"`    // compare_clone: only when the controller lists the clone RW
	Opt     bool   `json:"optional,omitempty"` // wait_rw: a timeout is not a failure
	Env     []string `json:"env,omitempty"`    // replica / clone_replica: extra environment of the process
}

type Case struct {
	ID    int    `json:"id"`
	RF    int    `json:"rf"`
	Steps []Step `json:"steps"`
}

type StepOut struct {
	Op   string                 `json:"op"`
	Ok   bool                   `json:"ok"`
	Note string                 `json:"note,omitempty"`
	Data map[string]interface{} `json:"data,omitempty"`
}

type Out struct {
	ID    int       `json:"id"`
	Steps []StepOut `json:"steps"`
	Err   string    `json:"err,omitempty"`
}

// ---- stub frontend

type frontend struct {
	mu sync.Mutex
	up bool
}

func (f *frontend) Startup(name, frontendIP, clusterIP string, size, sectorSize int64, rw types.IOs) error {
	f.mu.Lock()
	f.up = true
	f.mu.Unlock()
	return nil
}
func (f *frontend) Shutdown() error { f.mu.Lock(); f.up = false; f.mu.Unlock(); return nil }
func (f *frontend) State() types.State {
	f.mu.Lock()
	defer f.mu.Unlock()
	if f.up {
		return types.StateUp
	}
	return types.StateDown
}
func (f *frontend) Stats() types.Stats  { return types.Stats{} }
func (f *frontend) Resize(uint64) error { return nil }

// ---- a volume = controller + REST server

type volume struct {
	c   *controller.Controller
	ip  string
	srv *http.Server
	// expected image: last acknowledged value per block; -1 = unknown (a failed write may or may not have landed)
	exp    []int64
	acked  int64
	failed int64
	mu     sync.Mutex
}

func newVolume(ip string, rf int, name string) (*volume, error) {
	c := controller.NewController(controller.WithName(name), controller.WithRF(rf),
		controller.WithBackend(dynamic.New(map[string]types.BackendFactory{"tcp": remote.New()})),
		controller.WithFrontend(&frontend{}, ip))
	v := &volume{c: c, ip: ip, exp: make([]int64, nblk)}
	l, err := net.Listen("tcp", ip+":9501")
	if err != nil {
		return nil, err
	}
	v.srv = &http.Server{Handler: rest.NewRouter(rest.NewServer(c))}
	go v.srv.Serve(l)
	return v, nil
}

func pattern(val int64) []byte {
	b := make([]byte, blk)
	for i := 0; i < blk; i += 8 {
		binary.LittleEndian.PutUint64(b[i:], uint64(val))
	}
	return b
}

func (v *volume) write(b int, val int64) error {
	_, err := v.c.WriteAt(pattern(val), int64(b)*blk)
	v.mu.Lock()
	if err == nil {
		v.exp[b] = val
		v.acked++
	} else {
		v.exp[b] = -1
		v.failed++
	}
	v.mu.Unlock()
	return err
}

// tryLock takes the controller lock if it becomes free within d; the controller holds it for as long as a start
// request polls a clone that never completes, and a scenario must not hang on that
func (v *volume) tryLock(d time.Duration) bool {
	for dl := time.Now().Add(d); time.Now().Before(dl); time.Sleep(10 * time.Millisecond) {
		if v.c.TryLock() {
			return true
		}
	}
	return false
}

func (v *volume) rwCount() (int, int) {
	if v.tryLock(2 * time.Second) {
		defer v.c.Unlock()
	}
	rw := 0
	for _, r := range v.c.ListReplicas() {
		if r.Mode == types.RW {
			rw++
		}
	}
	return rw, len(v.c.ListReplicas())
}

// ---- replica processes

type proc struct {
	mu      sync.Mutex
	cmd     *exec.Cmd
	dir     string
	ip      string
	stopped bool
	args    []string
	env     []string
	starts  int
}

type world struct {
	nextEnv []string // environment for the next replica process started
	work   string
	bin    string
	vols   []*volume
	procs  map[int]*proc
	writer struct {
		stop chan struct{}
		done chan struct{}
		n    int64
	}
	rf      int
	blocked []net.Listener
}

// every probe of a replica's REST endpoint is bounded: a replica that accepts and never answers must not hang a scenario
var httpc = &http.Client{Timeout: 3 * time.Second}

func repIP(r int) string { return fmt.Sprintf("127.0.1.%d", r+1) }

// startReplica starts a supervised replica process: like a pod, it is restarted when it exits on its own
// (jiva replicas exit when an add attempt is refused, e.g. while the controller still lists the dead instance)
func (w *world) startReplica(r int, vol int, extra ...string) error {
	dir := filepath.Join(w.work, fmt.Sprintf("r%d", r))
	args := []string{"replica", "--frontendIP", w.vols[vol].ip, "--listen", repIP(r) + ":9502", "--size", strconv.Itoa(size), "--logtofile=false"}
	args = append(args, extra...)
	args = append(args, dir)
	p := &proc{dir: dir, ip: repIP(r), args: args, env: w.nextEnv}
	w.nextEnv = nil
	w.procs[r] = p
	if err := w.spawn(r, p); err != nil {
		return err
	}
	go func() {
		for {
			p.mu.Lock()
			cmd := p.cmd
			p.mu.Unlock()
			cmd.Wait()
			p.mu.Lock()
			if p.stopped {
				p.mu.Unlock()
				return
			}
			p.mu.Unlock()
			time.Sleep(time.Second)
			p.mu.Lock()
			if p.stopped {
				p.mu.Unlock()
				return
			}
			p.mu.Unlock()
			if err := w.spawn(r, p); err != nil {
				return
			}
		}
	}()
	return nil
}

func (w *world) spawn(r int, p *proc) error {
	cmd := exec.Command(w.bin, p.args...)
	cmd.Env = append(append(os.Environ(), "REPLICATION_FACTOR="+strconv.Itoa(w.rf)), p.env...)
	logf, _ := os.OpenFile(filepath.Join(w.work, fmt.Sprintf("r%d.log", r)), os.O_CREATE|os.O_APPEND|os.O_WRONLY, 0600)
	cmd.Stdout = logf
	cmd.Stderr = logf
	cmd.SysProcAttr = &syscall.SysProcAttr{Pdeathsig: syscall.SIGKILL, Setpgid: true}
	if err := cmd.Start(); err != nil {
		return err
	}
	p.mu.Lock()
	p.cmd = cmd
	p.starts++
	p.mu.Unlock()
	return nil
}

func (w *world) kill(r int) {
	p := w.procs[r]
	if p == nil {
		return
	}
	p.mu.Lock()
	p.stopped = true
	cmd := p.cmd
	p.mu.Unlock()
	syscall.Kill(-cmd.Process.Pid, syscall.SIGKILL)
	time.Sleep(50 * time.Millisecond)
	delete(w.procs, r)
}

func (w *world) killAll() {
	for r := range w.procs {
		w.kill(r)
	}
}

// ---- directory images

type dirImage struct {
	Chain []string          `json:"chain"`
	Live  string            `json:"live"`
	Snaps map[string]string `json:"snaps"`
	Rev   int64             `json:"rev"`
	Cp    string            `json:"checkpoint"`
	vals  [][]int64
}

func readImage(dir, head string) ([]int64, string, error) {
	r, err := replica.NewReadOnly(true, dir, head, nil)
	if err != nil {
		return nil, "", err
	}
	buf := make([]byte, size)
	if _, err := r.ReadAt(buf, 0); err != nil {
		return nil, "", err
	}
	vals := make([]int64, nblk)
	for b := 0; b < nblk; b++ {
		vals[b] = int64(binary.LittleEndian.Uint64(buf[b*blk:]))
		for i := 8; i < blk; i += 8 {
			if int64(binary.LittleEndian.Uint64(buf[b*blk+i:])) != vals[b] {
				vals[b] = -7 // torn block
				break
			}
		}
	}
	h := sha1.Sum(buf)
	return vals, fmt.Sprintf("%x", h[:8]), nil
}

// image of a replica directory from a byte-exact sparse copy
func (w *world) image(r int) (*dirImage, map[string][]int64, error) {
	src := filepath.Join(w.work, fmt.Sprintf("r%d", r))
	dst := filepath.Join(w.work, fmt.Sprintf("copy-r%d", r))
	os.RemoveAll(dst)
	if out, err := exec.Command("cp", "-a", "--sparse=always", src, dst).CombinedOutput(); err != nil {
		return nil, nil, fmt.Errorf("cp: %v %s", err, out)
	}
	defer os.RemoveAll(dst)
	info, err := replica.ReadInfo(dst)
	if err != nil {
		return nil, nil, err
	}
	ro, err := replica.NewReadOnly(false, dst, info.Head, nil)
	if err != nil {
		return nil, nil, err
	}
	chain, err := ro.Chain()
	if err != nil {
		return nil, nil, err
	}
	img := &dirImage{Chain: chain, Snaps: map[string]string{}, Cp: info.Checkpoint}
	vals := map[string][]int64{}
	for i, d := range chain {
		v, h, err := readImage(dst, d)
		if err != nil {
			return nil, nil, fmt.Errorf("image of %s: %v", d, err)
		}
		if i == 0 {
			img.Live = h
			vals["live"] = v
		} else {
			img.Snaps[d] = h
			vals[d] = v
		}
	}
	tmp := &replica.Server{Dir: dst}
	if c, err := tmp.GetRevisionCounter(); err == nil {
		img.Rev = c
	}
	return img, vals, nil
}

// ---- scenario steps

func (w *world) waitRW(vol, n, timeout int) (bool, string) {
	deadline := time.Now().Add(time.Duration(timeout) * time.Second)
	for time.Now().Before(deadline) {
		rw, tot := w.vols[vol].rwCount()
		if rw >= n {
			return true, fmt.Sprintf("rw=%d total=%d", rw, tot)
		}
		time.Sleep(200 * time.Millisecond)
	}
	rw, tot := w.vols[vol].rwCount()
	return false, fmt.Sprintf("timeout rw=%d total=%d", rw, tot)
}

func (w *world) step(s Step) StepOut {
	o := StepOut{Op: s.Op, Ok: true}
	switch s.Op {
	case "replica":
		w.nextEnv = s.Env
		if err := w.startReplica(s.R, s.Vol); err != nil {
			o.Ok, o.Note = false, err.Error()
		}
	case "clone_replica":
		// a replica of volume s.Vol that clones snapshot s.Name of the volume served by controller s.Src
		w.nextEnv = s.Env
		if err := w.startReplica(s.R, s.Vol, "--type", "clone", "--cloneIP", w.vols[s.Src].ip, "--snapName", s.Name); err != nil {
			o.Ok, o.Note = false, err.Error()
		}
	case "wait_rw":
		o.Ok, o.Note = w.waitRW(s.Vol, s.N, s.Timeout)
		if s.Opt {
			o.Ok = true
		}
	case "block_ports":
		// occupy the ports on which a sync agent starts its ssync receivers for snapshot data files: the
		// receiver cannot start and the sender fails, which is what a transfer dying mid-copy looks like to
		// the rebuild task (the small .meta transfers use the even ports and work)
		for p := 9701; p < 9760; p += 2 {
			if l, err := net.Listen("tcp", fmt.Sprintf(":%d", p)); err == nil {
				w.blocked = append(w.blocked, l)
				go func(l net.Listener) {
					for {
						c, err := l.Accept()
						if err != nil {
							return
						}
						c.Close()
					}
				}(l)
			}
		}
	case "unblock_ports":
		for _, l := range w.blocked {
			l.Close()
		}
		w.blocked = nil
	case "crash":
		// the replica process dies (SIGKILL) and, like a pod, is started again with the same arguments
		if p := w.procs[s.R]; p != nil {
			p.mu.Lock()
			if p.cmd != nil && p.cmd.Process != nil {
				syscall.Kill(-p.cmd.Process.Pid, syscall.SIGKILL)
			}
			p.mu.Unlock()
		}
	case "stop":
		if p := w.procs[s.R]; p != nil {
			p.mu.Lock()
			syscall.Kill(-p.cmd.Process.Pid, syscall.SIGSTOP)
			p.mu.Unlock()
		}
	case "cont":
		if p := w.procs[s.R]; p != nil {
			p.mu.Lock()
			syscall.Kill(-p.cmd.Process.Pid, syscall.SIGCONT)
			p.mu.Unlock()
		}
	case "write":
		// s.Count sequential writes with fresh values over pseudo-random blocks
		v := w.vols[s.Vol]
		for i := 0; i < s.Count; i++ {
			n := atomic.AddInt64(&w.writer.n, 1)
			if err := v.write(int((n*7+3)%nblk), n); err != nil {
				o.Note = err.Error()
			}
		}
	case "writer_start":
		w.writer.stop = make(chan struct{})
		w.writer.done = make(chan struct{})
		v := w.vols[s.Vol]
		go func() {
			defer close(w.writer.done)
			for {
				select {
				case <-w.writer.stop:
					return
				default:
				}
				n := atomic.AddInt64(&w.writer.n, 1)
				v.write(int((n*7+3)%nblk), n)
				time.Sleep(time.Duration(s.Ms) * time.Millisecond)
			}
		}()
	case "writer_stop":
		if w.writer.stop != nil {
			close(w.writer.stop)
			<-w.writer.done
			w.writer.stop = nil
		}
	case "snapshot":
		if _, err := w.vols[s.Vol].c.Snapshot(s.Name); err != nil {
			o.Ok, o.Note = false, err.Error()
		}
	case "kill":
		w.kill(s.R)
	case "sleep":
		time.Sleep(time.Duration(s.Ms) * time.Millisecond)
	case "read_verify":
		// the volume reads back every acknowledged write
		v := w.vols[s.Vol]
		buf := make([]byte, size)
		if _, err := v.c.ReadAt(buf, 0); err != nil {
			o.Ok, o.Note = false, err.Error()
			break
		}
		bad := []int{}
		v.mu.Lock()
		for b := 0; b < nblk; b++ {
			got := int64(binary.LittleEndian.Uint64(buf[b*blk:]))
			if v.exp[b] >= 0 && got != v.exp[b] {
				bad = append(bad, b)
			}
		}
		o.Data = map[string]interface{}{"acked": v.acked, "failed": v.failed, "bad_blocks": bad}
		v.mu.Unlock()
		o.Ok = len(bad) == 0
	case "check_identical":
		// every RW replica of the volume: same live image, same snapshot images, same counter, same checkpoint;
		// the live image holds every acknowledged write
		v := w.vols[s.Vol]
		locked := v.tryLock(5 * time.Second)
		reps := append([]types.Replica{}, v.c.ListReplicas()...)
		cp := v.c.Checkpoint
		if locked {
			v.c.Unlock()
		}
		imgs := map[string]*dirImage{}
		var first *dirImage
		var firstVals map[string][]int64
		diffs := []string{}
		for _, rp := range reps {
			if rp.Mode != types.RW {
				continue
			}
			var r int
			fmt.Sscanf(rp.Address, "tcp://127.0.1.%d:9502", &r)
			r--
			img, vals, err := w.image(r)
			if err != nil {
				o.Ok = false
				diffs = append(diffs, fmt.Sprintf("r%d: %v", r, err))
				continue
			}
			imgs[fmt.Sprintf("r%d", r)] = img
			if first == nil {
				first, firstVals = img, vals
				v.mu.Lock()
				for b := 0; b < nblk; b++ {
					if v.exp[b] >= 0 && vals["live"][b] != v.exp[b] {
						diffs = append(diffs, fmt.Sprintf("r%d live block %d = %d, acknowledged %d", r, b, vals["live"][b], v.exp[b]))
					}
				}
				v.mu.Unlock()
				continue
			}
			if img.Live != first.Live {
				diffs = append(diffs, fmt.Sprintf("r%d live image differs", r))
			}
			if img.Rev != first.Rev {
				diffs = append(diffs, fmt.Sprintf("r%d revision counter %d vs %d", r, img.Rev, first.Rev))
			}
			if img.Cp != first.Cp {
				diffs = append(diffs, fmt.Sprintf("r%d checkpoint %q vs %q", r, img.Cp, first.Cp))
			}
			// snapshots from the sync point upward: every snapshot both have must be identical; compare the
			// common prefix of the chains from the head down
			for i := 1; i < len(img.Chain) && i < len(first.Chain); i++ {
				if img.Chain[i] != first.Chain[i] {
					diffs = append(diffs, fmt.Sprintf("r%d chain[%d]=%s vs %s", r, i, img.Chain[i], first.Chain[i]))
					break
				}
				if img.Snaps[img.Chain[i]] != first.Snaps[first.Chain[i]] {
					// automatic snapshots may be thinned by reclamation on one side: judge by read-back of the prefix image
					same := true
					a, b := vals[img.Chain[i]], firstVals[first.Chain[i]]
					for k := range a {
						if a[k] != b[k] {
							same = false
						}
					}
					if !same {
						diffs = append(diffs, fmt.Sprintf("r%d snapshot %s differs", r, img.Chain[i]))
					}
				}
			}
		}
		sort.Strings(diffs)
		o.Data = map[string]interface{}{"images": imgs, "controller_checkpoint": cp, "diffs": diffs}
		if len(diffs) > 0 || len(imgs) < s.N {
			o.Ok = false
			o.Note = fmt.Sprintf("%d differences, %d RW images (wanted %d)", len(diffs), len(imgs), s.N)
		}
	case "clone_status":
		// clone status of replica s.R as its REST API reports it
		resp, err := httpc.Get("http://" + repIP(s.R) + ":9502/v1/replicas/1")
		if err != nil {
			o.Ok, o.Note = false, err.Error()
			break
		}
		var body map[string]interface{}
		json.NewDecoder(resp.Body).Decode(&body)
		resp.Body.Close()
		o.Data = map[string]interface{}{"clonestatus": body["clonestatus"], "state": body["state"], "replicamode": body["replicamode"]}
	case "poll_clone":
		// sample the clone replica's own status and the controller's view until the replica is RW there;
		// it must never be listed RW (readable/writable) before its clone status is "completed"
		deadline := time.Now().Add(time.Duration(s.Timeout) * time.Second)
		seen := []string{}
		early := false
		last := ""
		v := w.vols[s.Vol]
		for time.Now().Before(deadline) {
			status, rmode := "unreachable", ""
			if resp, err := httpc.Get("http://" + repIP(s.R) + ":9502/v1/replicas/1"); err == nil {
				var body map[string]interface{}
				json.NewDecoder(resp.Body).Decode(&body)
				resp.Body.Close()
				status, _ = body["clonestatus"].(string)
				rmode, _ = body["replicamode"].(string)
			}
			cmode := "absent"
			for _, r := range v.c.ListReplicas() { // unlocked on purpose: Start holds the lock while it polls
				if r.Address == "tcp://"+repIP(s.R)+":9502" {
					cmode = string(r.Mode)
				}
			}
			cur := status + "/" + rmode + "/" + cmode
			if cur != last {
				seen = append(seen, cur)
				last = cur
			}
			// order of the two samples: the status was read first, so "completed" can only be missed, not invented
			if cmode == "RW" && status != "completed" && status != "NA" {
				// re-read the status once: it may have completed between the two samples
				if resp, err := httpc.Get("http://" + repIP(s.R) + ":9502/v1/replicas/1"); err == nil {
					var body map[string]interface{}
					json.NewDecoder(resp.Body).Decode(&body)
					resp.Body.Close()
					st2, _ := body["clonestatus"].(string)
					if st2 != "completed" {
						early = true
					}
				}
			}
			if cmode == "RW" {
				break
			}
			time.Sleep(20 * time.Millisecond)
		}
		o.Data = map[string]interface{}{"seen": seen}
		if early {
			o.Ok, o.Note = false, "controller lists the clone RW before its clone status is completed"
		}
	case "compare_clone":
		// the live image of clone replica s.R equals the image of snapshot s.Name on source replica s.Src,
		// and its revision counter equals the one recorded for that snapshot
		if s.IfRW {
			served := false
			for _, r := range w.vols[s.Vol].c.ListReplicas() {
				if r.Address == "tcp://"+repIP(s.R)+":9502" && r.Mode == types.RW {
					served = true
				}
			}
			if !served {
				o.Note = "clone is not served (not RW at the controller): nothing to compare"
				break
			}
		}
		img, vals, err := w.image(s.R)
		if err != nil {
			o.Ok, o.Note = false, err.Error()
			break
		}
		_, svals, err := w.image(s.Src)
		if err != nil {
			o.Ok, o.Note = false, err.Error()
			break
		}
		snap := "volume-snap-" + s.Name + ".img"
		want, ok := svals[snap]
		if !ok {
			o.Ok, o.Note = false, "source has no "+snap
			break
		}
		bad := []int{}
		for b := range want {
			if vals["live"][b] != want[b] {
				bad = append(bad, b)
			}
		}
		// what the clone volume SERVES (a read through its controller, i.e. through the replica process's own
		// in-memory chain) must be that image too, not only what its directory holds
		served := []int{}
		if cv := w.vols[s.Vol]; cv != nil {
			buf := make([]byte, size)
			if _, err := cv.c.ReadAt(buf, 0); err != nil {
				o.Ok, o.Note = false, "read through the clone volume's controller: "+err.Error()
				break
			}
			for b := range want {
				if int64(binary.LittleEndian.Uint64(buf[b*blk:])) != want[b] {
					served = append(served, b)
				}
			}
		}
		bad = append(bad, served...)
		// revision counter recorded for the snapshot on the source
		var srcRev int64 = -1
		if b, err := os.ReadFile(filepath.Join(w.work, fmt.Sprintf("r%d", s.Src), snap+".meta")); err == nil {
			var d struct{ RevisionCounter int64 }
			if json.Unmarshal(bytes.TrimSpace(b), &d) == nil {
				srcRev = d.RevisionCounter
			}
		}
		o.Data = map[string]interface{}{"bad_blocks": bad, "served_differs": served, "clone_rev": img.Rev, "snapshot_rev": srcRev, "clone_chain": img.Chain}
		o.Ok = len(bad) == 0 && img.Rev == srcRev
	case "modes":
		v := w.vols[s.Vol]
		// the controller lock may be held for as long as a start request polls a clone that never completes
		locked := false
		for dl := time.Now().Add(5 * time.Second); time.Now().Before(dl); time.Sleep(20 * time.Millisecond) {
			if v.c.TryLock() {
				locked = true
				break
			}
		}
		m := map[string]string{}
		for _, r := range v.c.ListReplicas() {
			m[r.Address] = string(r.Mode)
		}
		ro := v.c.ReadOnly
		if locked {
			v.c.Unlock()
		}
		o.Data = map[string]interface{}{"modes": m, "readonly": ro, "controller_lock_free": locked}
	default:
		o.Ok, o.Note = false, "unknown step"
	}
	return o
}

func runCase(c Case, work, bin string) Out {
	out := Out{ID: c.ID}
	os.Setenv("REPLICATION_FACTOR", strconv.Itoa(c.RF))
	w := &world{work: filepath.Join(work, fmt.Sprintf("sys-%d", c.ID)), bin: bin, procs: map[int]*proc{}, rf: c.RF}
	os.RemoveAll(w.work)
	os.MkdirAll(w.work, 0700)
	defer os.RemoveAll(w.work)
	defer w.killAll()
	defer func() {
		for _, l := range w.blocked {
			l.Close()
		}
	}()
	for i, ip := range []string{"127.0.0.1", "127.0.0.2"} {
		v, err := newVolume(ip, c.RF, fmt.Sprintf("vol%d", i))
		if err != nil {
			out.Err = err.Error()
			return out
		}
		w.vols = append(w.vols, v)
	}
	defer func() {
		for _, v := range w.vols {
			v.srv.Close()
		}
	}()
	for _, s := range c.Steps {
		o := w.step(s)
		out.Steps = append(out.Steps, o)
	}
	if w.writer.stop != nil {
		close(w.writer.stop)
		<-w.writer.done
	}
	return out
}

func main() {
	if len(os.Args) < 5 {
		fmt.Fprintln(os.Stderr, "usage: sys in.jsonl out.jsonl workdir jiva-binary")
		os.Exit(2)
	}
	hx.Quiet()
	w, err := hx.NewWriter(os.Args[2])
	if err != nil {
		fmt.Fprintln(os.Stderr, err)
		os.Exit(2)
	}
	err = hx.ReadLines(os.Args[1], func(dec *json.Decoder) error {
		var c Case
		if err := dec.Decode(&c); err != nil {
			return err
		}
		return w.Put(runCase(c, os.Args[3], os.Args[4]))
	})
	if err != nil {
		fmt.Fprintln(os.Stderr, err)
		os.Exit(2)
	}
	w.Close()
}
