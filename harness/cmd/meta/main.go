// Command meta (tier T1 of properties C08 / C12) drives the real replica.Server on a real directory
// with histories of management operations (valid and invalid arguments) and records, after every
// step, everything the Meta model (coq/theories/Meta) predicts: result class, Chain(), ListDisks(),
// Info(), the directory listing with the hard-link structure, the content of every metadata file as
// it is on disk, and content fingerprints of every image file and of the live volume.
//
//	meta <in.jsonl> <out.jsonl> <workdir>
//
// A case is {"id":…, "ops":[…]} (a history run in a fresh directory) or
// {"id":…, "inspect":"<dir>"} (reopen an existing directory the way a restarted process would and
// report what it finds; used by the C08 victim runs) or {"id":…, "ops":[…], "keep":"<dir>"} (run the
// history and leave a copy of the resulting directory at <dir>: pre-states of the victim runs).
package main

import (
	"bytes"
	"crypto/sha1"
	"encoding/json"
	"fmt"
	"io/ioutil"
	"os"
	"os/exec"
	"path/filepath"
	"sort"
	"strings"
	"syscall"
	"time"

	"github.com/openebs/jiva/replica"
	"github.com/openebs/jiva/types"

	"jivaverif/harness/hx"
)

const (
	blk  = 4096
	nblk = 4
)

type Op struct {
	Op      string `json:"op"`
	Name    string `json:"name,omitempty"`    // disk / snapshot name (verbatim argument)
	User    bool   `json:"user,omitempty"`    // snapshot: user created
	Created string `json:"created,omitempty"` // snapshot / revert: created string
	Mode    string `json:"mode,omitempty"`    // setmode
	Size    int64  `json:"size,omitempty"`    // resize: bytes
	B       bool   `json:"b,omitempty"`       // setrebuilding
	Tok     int64  `json:"tok,omitempty"`     // write: token (block = tok mod nblk)
	Source  string `json:"source,omitempty"`  // replace: the source disk (Name is the target)
	// names (volume.meta.tmp, <disk>.meta.tmp) at which a directory is placed while the operation
	// runs: every open of such a name fails, the operation FAILS without any tracing tool
	Blocked []string `json:"blocked,omitempty"`
}

type Case struct {
	ID       int    `json:"id"`
	Ops      []Op   `json:"ops,omitempty"`
	Inspect  string `json:"inspect,omitempty"`
	Keep     string `json:"keep,omitempty"`
	MaxChain int    `json:"maxchain,omitempty"` // types.MaxChainLength for this case (0: default 1024)
	From     string `json:"from,omitempty"`     // run the history on a copy of this directory instead of an empty one
}

type DiskObs struct {
	Parent      string   `json:"parent"`
	Removed     bool     `json:"removed"`
	UserCreated bool     `json:"user"`
	Created     string   `json:"created"`
	Rev         int64    `json:"rev"`
	Children    []string `json:"children"`
}

type InfoObs struct {
	Head       string `json:"head"`
	Parent     string `json:"parent"`
	Size       int64  `json:"size"`
	Checkpoint string `json:"checkpoint"`
	Dirty      bool   `json:"dirty"`
	Rebuilding bool   `json:"rebuilding"`
	Rev        int64  `json:"rev"`
}

type FileObs struct {
	Ino    uint64   `json:"ino"`
	Hash   string   `json:"hash,omitempty"` // images: sha1 of the raw file content
	Blocks int64    `json:"blocks"`         // allocated 512-byte blocks
	Disk   *DiskObs `json:"disk,omitempty"` // X.meta: decoded content (children unused)
	Vol    *InfoObs `json:"vol,omitempty"`  // volume.meta: decoded content
	Bad    bool     `json:"bad,omitempty"`  // metadata file that does not decode
}

type Obs struct {
	Res      string              `json:"res"` // ok | err
	Err      string              `json:"err,omitempty"`
	Open     bool                `json:"open"`
	Mode     string              `json:"mode,omitempty"`
	Chain    []string            `json:"chain"` // nil when closed or Chain() fails
	ChainErr bool                `json:"chainerr,omitempty"`
	Disks    map[string]DiskObs  `json:"disks,omitempty"`
	Info     *InfoObs            `json:"info,omitempty"`
	Dir      map[string]*FileObs `json:"dir"`
	Live     string              `json:"live,omitempty"` // sha1 of a full read of the volume
	Counter  int64               `json:"counter"`        // revision.counter on disk
	Actions  int                 `json:"actions,omitempty"`
	Snaps    map[string]string   `json:"snaps,omitempty"` // inspect: fingerprint of the volume as of each chain snapshot
}

type Out struct {
	ID  int    `json:"id"`
	Obs []Obs  `json:"obs"`
	Err string `json:"err,omitempty"`
}

func pattern(id int64) []byte {
	b := make([]byte, blk)
	for i := 0; i < blk; i += 8 {
		v := uint64(id)
		for j := 0; j < 8; j++ {
			b[i+j] = byte(v >> (8 * uint(j)))
		}
	}
	return b
}

// fingerprint of a content that does not depend on trailing zeros (a grown or not yet written file)
func fingerprint(b []byte) string {
	return fmt.Sprintf("%x", sha1.Sum(bytes.TrimRight(b, "\x00")))
}

func infoObs(i replica.Info) *InfoObs {
	return &InfoObs{Head: i.Head, Parent: i.Parent, Size: i.Size, Checkpoint: i.Checkpoint, Dirty: i.Dirty,
		Rebuilding: i.Rebuilding, Rev: i.RevisionCounter}
}

// scanDir reports every file of the directory: inode, allocation, decoded metadata, image hash.
func scanDir(dir string) map[string]*FileObs {
	out := map[string]*FileObs{}
	files, err := ioutil.ReadDir(dir)
	if err != nil {
		return out
	}
	for _, fi := range files {
		name := fi.Name()
		fo := &FileObs{}
		if st, ok := fi.Sys().(*syscall.Stat_t); ok {
			fo.Ino = st.Ino
			fo.Blocks = st.Blocks
		}
		p := filepath.Join(dir, name)
		switch {
		case name == "volume.meta" || name == "volume.meta.tmp":
			var i replica.Info
			b, err := ioutil.ReadFile(p)
			if err != nil || json.Unmarshal(b, &i) != nil {
				fo.Bad = true
			} else {
				fo.Vol = infoObs(i)
			}
		case strings.HasSuffix(name, ".meta") || strings.HasSuffix(name, ".meta.tmp"):
			var d struct {
				Name            string
				Parent          string
				Removed         bool
				UserCreated     bool
				Created         string
				RevisionCounter int64
			}
			b, err := ioutil.ReadFile(p)
			if err != nil || json.Unmarshal(b, &d) != nil {
				fo.Bad = true
			} else {
				fo.Disk = &DiskObs{Parent: d.Parent, Removed: d.Removed, UserCreated: d.UserCreated, Created: d.Created, Rev: d.RevisionCounter}
			}
		case strings.HasSuffix(name, ".img"):
			b, err := ioutil.ReadFile(p)
			if err == nil {
				fo.Hash = fingerprint(b)
			}
		}
		out[name] = fo
	}
	return out
}

func readCounter(dir string) int64 {
	b, err := ioutil.ReadFile(filepath.Join(dir, "revision.counter"))
	if err != nil {
		return -1
	}
	var v int64
	fmt.Sscanf(strings.Trim(string(b), "\x00"), "%d", &v)
	return v
}

func observeReplica(o *Obs, r *replica.Replica) {
	o.Open = true
	o.Mode = r.GetReplicaMode()
	c, err := r.Chain()
	if err != nil {
		o.ChainErr = true
	} else {
		o.Chain = c
	}
	o.Disks = map[string]DiskObs{}
	for n, d := range r.ListDisks() {
		ch := append([]string{}, d.Children...)
		sort.Strings(ch)
		o.Disks[n] = DiskObs{Parent: d.Parent, Removed: d.Removed, UserCreated: d.UserCreated, Created: d.Created,
			Rev: d.RevisionCounter, Children: ch}
	}
	info := r.Info()
	o.Info = infoObs(info)
	if info.Size > 0 && info.Size <= 64*blk {
		buf := make([]byte, info.Size)
		if _, err := r.ReadAt(buf, 0); err == nil {
			o.Live = fingerprint(buf)
		} else {
			o.Live = "readerr"
		}
	}
}

type runner struct {
	dir string
	s   *replica.Server
}

func (r *runner) newServer() {
	r.s = replica.NewServer("127.0.0.1:9502", r.dir, 4096, "")
}

func rc(err error) (string, string) {
	if err != nil {
		return "err", err.Error()
	}
	return "ok", ""
}

// step runs one operation; a panic of the implementation is reported as res "died" (the case ends there).
func (r *runner) step(op Op) (o Obs) {
	defer func() {
		if p := recover(); p != nil {
			o = Obs{Res: "died", Err: fmt.Sprintf("panic: %v", p), Dir: scanDir(r.dir), Counter: readCounter(r.dir)}
		}
	}()
	return r.step1(op)
}

func (r *runner) step1(op Op) Obs {
	for _, b := range op.Blocked {
		os.Mkdir(filepath.Join(r.dir, b), 0700)
	}
	o := r.step2(op)
	return o
}

func (r *runner) unblock(op Op) {
	for _, b := range op.Blocked {
		os.Remove(filepath.Join(r.dir, b))
	}
}

func (r *runner) step2(op Op) Obs {
	defer r.unblock(op)
	s := r.s
	var res, msg string
	actions := 0
	switch op.Op {
	case "create":
		res, msg = rc(s.Create(nblk * blk))
	case "open":
		res, msg = rc(s.Open())
	case "close":
		res, msg = rc(s.Close())
	case "crash":
		// process death between operations: the Server and its open files are abandoned
		hx.QuiesceHoles()
		r.newServer()
		res = "ok"
	case "mode":
		res, msg = rc(s.SetReplicaMode(op.Mode))
	case "write":
		_, err := s.WriteAt(pattern(op.Tok), (op.Tok%nblk)*blk)
		res, msg = rc(err)
	case "snap":
		res, msg = rc(s.Snapshot(op.Name, op.User, op.Created))
	case "rm":
		res, msg = rc(s.RemoveDiffDisk(op.Name))
	case "prep":
		acts, err := s.PrepareRemoveDisk(op.Name)
		actions = len(acts)
		res, msg = rc(err)
	case "revert":
		res, msg = rc(s.Revert(op.Name, op.Created))
	case "resize":
		if s.Replica() == nil {
			res, msg = "err", "not open"
		} else {
			// Server.Resize takes a string; Replica.Resize(int64) is the same code path after parsing
			res, msg = rc(s.Resize(fmt.Sprintf("%d", op.Size)))
		}
	case "checkpoint":
		res, msg = rc(s.SetCheckpoint(op.Name))
	case "rebuilding":
		res, msg = rc(s.SetRebuilding(op.B))
	case "replace":
		res, msg = rc(s.ReplaceDisk(op.Name, op.Source))
	default:
		res, msg = "err", "unknown op "+op.Op
	}
	r.unblock(op)
	o := Obs{Res: res, Err: msg, Actions: actions}
	if rep := r.s.Replica(); rep != nil {
		observeReplica(&o, rep)
	}
	o.Dir = scanDir(r.dir)
	o.Counter = readCounter(r.dir)
	return o
}

func copyDir(src, dst string) error {
	os.RemoveAll(dst)
	return exec.Command("cp", "-a", "--sparse=always", src, dst).Run()
}

func runCase(c Case, work string) Out {
	out := Out{ID: c.ID}
	types.ShouldPunchHoles = false
	types.MaxChainLength = c.MaxChain
	if c.Inspect != "" {
		return inspect(c)
	}
	dir := filepath.Join(work, fmt.Sprintf("meta-%d-%d", os.Getpid(), c.ID))
	os.RemoveAll(dir)
	if c.From != "" {
		// (the directory a killed victim left: what does a restarted process do with it next?)
		if err := copyDir(c.From, dir); err != nil {
			out.Err = "from: " + err.Error()
			return out
		}
	} else if err := os.MkdirAll(dir, 0700); err != nil {
		out.Err = err.Error()
		return out
	}
	defer os.RemoveAll(dir)
	r := &runner{dir: dir}
	r.newServer()
	for _, op := range c.Ops {
		o := r.step(op)
		out.Obs = append(out.Obs, o)
		if o.Res == "died" {
			// locks may be held and the in-memory state is undefined: the history ends here
			return out
		}
	}
	if c.Keep != "" {
		hx.QuiesceHoles()
		if err := copyDir(dir, c.Keep); err != nil {
			out.Err = "keep: " + err.Error()
		}
	}
	if r.s.Replica() != nil {
		r.s.Close()
	}
	return out
}

// inspect: obs[0] = the directory as it is; obs[1] = after replica.New on it (what a restarted
// process sees); for every chain member a read-only open of the image (snapshot content).
func inspect(c Case) Out {
	out := Out{ID: c.ID}
	dir := c.Inspect
	o0 := Obs{Res: "ok", Dir: scanDir(dir), Counter: readCounter(dir)}
	out.Obs = append(out.Obs, o0)
	o1 := Obs{}
	info, err := replica.ReadInfo(dir)
	if err != nil {
		o1.Res, o1.Err = "err", "readinfo: "+err.Error()
		o1.Dir = scanDir(dir)
		o1.Counter = readCounter(dir)
		out.Obs = append(out.Obs, o1)
		return out
	}
	done := make(chan struct{})
	var rep *replica.Replica
	go func() {
		rep, err = replica.New(true, info.Size, 4096, dir, nil, "")
		close(done)
	}()
	select {
	case <-done:
	case <-time.After(5 * time.Second):
		o1.Res, o1.Err = "err", "hang: replica.New did not return"
		o1.Dir = scanDir(dir)
		o1.Counter = readCounter(dir)
		out.Obs = append(out.Obs, o1)
		return out
	}
	if err != nil {
		o1.Res, o1.Err = "err", err.Error()
	} else {
		o1.Res = "ok"
		observeReplica(&o1, rep)
		o1.Dir = scanDir(dir)
		o1.Counter = readCounter(dir)
		// snapshot images: open a copy with the snapshot as head.  NB construct() never sets
		// r.readOnly, so NewReadOnly rewrites volume.meta with Head = the snapshot: work on a copy and
		// put volume.meta back before each open.
		ro := dir + ".ro"
		if copyDir(dir, ro) == nil {
			vm, _ := ioutil.ReadFile(filepath.Join(ro, "volume.meta"))
			for i, d := range o1.Chain {
				if i == 0 {
					continue
				}
				ioutil.WriteFile(filepath.Join(ro, "volume.meta"), vm, 0600)
				rr, err := replica.NewReadOnly(true, ro, d, nil)
				h := "openerr"
				if err == nil {
					buf := make([]byte, rr.Info().Size)
					if _, err := rr.ReadAt(buf, 0); err == nil {
						h = fingerprint(buf)
					} else {
						h = "readerr"
					}
				}
				if o1.Snaps == nil {
					o1.Snaps = map[string]string{}
				}
				o1.Snaps[d] = h
			}
			os.RemoveAll(ro)
		}
		out.Obs = append(out.Obs, o1)
		return out
	}
	o1.Dir = scanDir(dir)
	o1.Counter = readCounter(dir)
	out.Obs = append(out.Obs, o1)
	return out
}

func main() {
	if len(os.Args) < 4 {
		fmt.Fprintln(os.Stderr, "usage: meta in.jsonl out.jsonl workdir")
		os.Exit(2)
	}
	hx.Quiet()
	hx.StartHoles()
	w, err := hx.NewWriter(os.Args[2])
	if err != nil {
		fmt.Fprintln(os.Stderr, err)
		os.Exit(2)
	}
	err = hx.ReadLines(os.Args[1], func(dec *json.Decoder) error {
		var c Case
		if err := dec.Decode(&c); err != nil {
			return err
		}
		return w.Put(runCase(c, os.Args[3]))
	})
	if err != nil {
		fmt.Fprintln(os.Stderr, err)
		os.Exit(2)
	}
	w.Close()
}
