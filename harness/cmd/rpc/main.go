// Command rpc drives the real rpc.Wire and the real rpc.Client (rpc.NewClient) of /repo
// (model: coq/theories/Rpc).
//
//	rpc <in.jsonl> <out.jsonl> <workdir> <rw-timeout-ms> [parallel]
//
// Case kinds:
//
//	write : a Message is given to Wire.Write on one end of a net.Pipe; the bytes arriving at the other
//	        end are recorded, and fed to a second real Wire.Read (implementation-only round trip).
//	read  : a byte stream is fed to Wire.Read in a loop; the messages and the way the loop ended.
//	loop  : N goroutines call ReadAt/WriteAt/Sync/Ping/Unmap on one real Client connected over TCP
//	        loopback to a scripted peer (own frame parser/encoder, independent of rpc.Wire) that answers
//	        in a scripted order with content derived from the request, then stalls / closes / corrupts;
//	        a second wave of calls is issued after the first has returned.
//	race  : callers keep issuing reads while the peer closes abruptly; only durations and error kinds.
//	serve : the real rpc.NewServer(conn, processor).Handle() over TCP loopback with a scripted
//	        types.DataProcessor (data derived from offset, a token and the call index; scripted errors,
//	        io.EOF with short counts, delays) and a raw client that writes the given frame bytes
//	        sequentially (one reply awaited per frame), pipelined (everything in one write before any
//	        reply exists) or in small chunks, optionally followed by bytes that are not a frame; the
//	        reply frames are recorded in order (own parser, independent of rpc.Wire).
//
// Timeouts: rpc/client.go has opReadTimeout/opWriteTimeout settable through types.RPCReadTimeout /
// types.RPCWriteTimeout + rpc.SetRPCTimeout() (used here); opSyncTimeout/opUnmapTimeout (30 s) and
// opPingTimeout (40 s) are unexported constants-in-vars and cannot be changed from outside.
package main

import (
	"bytes"
	"encoding/binary"
	"encoding/hex"
	"encoding/json"
	"fmt"
	"io"
	"net"
	"os"
	"strconv"
	"strings"
	"sync"
	"time"

	"github.com/openebs/jiva/rpc"
	"github.com/openebs/jiva/types"

	"jivaverif/harness/hx"
)

type Msg struct {
	Magic uint32 `json:"magic"`
	Seq   uint32 `json:"seq"`
	Type  uint32 `json:"type"`
	Off   int64  `json:"off"`
	Size  int64  `json:"size"`
	Data  string `json:"data"` // hex
}

type Call struct {
	ID   int    `json:"id"`
	Kind string `json:"kind"` // read write sync ping unmap
	Off  int64  `json:"off"`
	Len  int64  `json:"len"`
	Data string `json:"data"` // hex, write payload
}

type Act struct {
	A     string `json:"a"` // recv reply dup bogus close corrupt stall halfframe sleep
	N     int    `json:"n,omitempty"`
	J     int    `json:"j,omitempty"`
	Ty    uint32 `json:"ty,omitempty"`
	DLen  int    `json:"dlen,omitempty"`
	SzAdd int64  `json:"szadd,omitempty"`
	Seq   uint32 `json:"seq,omitempty"`
	Bytes string `json:"bytes,omitempty"`
	Ms    int    `json:"ms,omitempty"`
}

type Case struct {
	ID     int    `json:"id"`
	K      string `json:"k"`
	Msg    *Msg   `json:"msg,omitempty"`
	Stream string `json:"stream,omitempty"`
	Calls  []Call `json:"calls,omitempty"`
	Wave2  []Call `json:"wave2,omitempty"`
	Script []Act  `json:"script,omitempty"`
	// NoWait: issue the second wave as soon as the first has returned, without waiting for the
	// failure report (a caller whose own timer fired returns before the loop has taken its SetError)
	NoWait bool `json:"nowait,omitempty"`
	// race
	Workers int `json:"workers,omitempty"`
	Each    int `json:"each,omitempty"`
	After   int `json:"after,omitempty"`
	// serve
	Frames []string `json:"frames,omitempty"` // complete request frames, hex
	Tail   string   `json:"tail,omitempty"`   // bytes after the last frame, hex
	Mode   string   `json:"mode,omitempty"`   // seq pipe chunk
	Chunk  int      `json:"chunk,omitempty"`
	Token  int      `json:"token,omitempty"`
	Proc   []PAct   `json:"proc,omitempty"` // one entry per processor call, in order
}

// PAct: what the scripted DataProcessor does on its k-th call.
type PAct struct {
	R     string `json:"r"`               // ok eof err
	Count int    `json:"count,omitempty"` // returned with io.EOF
	Text  string `json:"text,omitempty"`  // err.Error()
	Fill  int    `json:"fill"`            // reads: bytes of the buffer that are written (-1 = all)
	Delay int    `json:"delay,omitempty"` // ms
}

// PCall: a call the processor received.
type PCall struct {
	Op   string `json:"op"`
	Off  int64  `json:"off"`
	Len  int64  `json:"len"`
	Data string `json:"data,omitempty"`
}

type Comp struct {
	ID   int    `json:"id"`
	N    int    `json:"n"`
	Ptr  string `json:"ptr"`  // "", rwtimeout, pingtimeout, eof
	Text string `json:"text"` // err.Error()
	Nil  bool   `json:"nil"`
	Buf  string `json:"buf"` // hex, reads
	Ms   int64  `json:"ms"`
	Wave int    `json:"wave"`
}

type Sent struct {
	Seq  uint32 `json:"seq"`
	Ty   uint32 `json:"ty"`
	Size int64  `json:"size"`
	Data string `json:"data"`
}

type Out struct {
	ID  int    `json:"id"`
	K   string `json:"k"`
	Err string `json:"err,omitempty"`
	// write
	Bytes  string `json:"bytes,omitempty"`
	RtSame bool   `json:"rt_same,omitempty"`
	RtNote string `json:"rt_note,omitempty"`
	// read
	Msgs []Msg  `json:"msgs,omitempty"`
	End  string `json:"end,omitempty"` // clean badmagic short
	Got  uint32 `json:"got,omitempty"`
	// loop
	Frames  []string `json:"frames,omitempty"`  // raw frames received by the peer, hex
	Sents   []Sent   `json:"sents,omitempty"`   // what the peer sent
	PeerLog []string `json:"peerlog,omitempty"` // R<i> S<k> F:<kind>
	Comps   []Comp   `json:"comps,omitempty"`
	Hung    []int    `json:"hung,omitempty"`
	Closed  int      `json:"closed"`
	PeerErr string   `json:"peer_err,omitempty"`
	// serve
	Replies []Msg   `json:"replies,omitempty"`
	REnd    string  `json:"rend,omitempty"` // how the reply stream ended: eof short implausible
	HRet    string  `json:"hret,omitempty"` // what Handle() returned: eof unexpected-eof badmagic hung | text
	PCalls  []PCall `json:"pcalls,omitempty"`
	Note    string  `json:"note,omitempty"`
	// race
	MaxMs   int64 `json:"max_ms,omitempty"`
	Slow    int   `json:"slow,omitempty"` // calls that took more than 500 ms
	Total   int   `json:"total,omitempty"`
	OkCalls int   `json:"ok_calls,omitempty"`
}

var rwTimeout time.Duration

func unhex(s string) []byte {
	b, err := hex.DecodeString(s)
	if err != nil {
		panic(err)
	}
	return b
}

// ---------------------------------------------------------------- codec

func collect(c net.Conn, done chan []byte) {
	var all []byte
	buf := make([]byte, 65536)
	for {
		n, err := c.Read(buf)
		all = append(all, buf[:n]...)
		if err != nil {
			break
		}
	}
	done <- all
}

func feed(stream []byte) (*rpc.Wire, net.Conn) {
	a, b := net.Pipe()
	go func() {
		if len(stream) > 0 {
			a.Write(stream)
		}
		a.Close()
	}()
	return rpc.NewWire(b), b
}

func runWrite(c Case) Out {
	o := Out{ID: c.ID, K: "write"}
	a, b := net.Pipe()
	done := make(chan []byte, 1)
	go collect(b, done)
	w := rpc.NewWire(a)
	m := &rpc.Message{MagicVersion: uint16(c.Msg.Magic), Seq: c.Msg.Seq, Type: c.Msg.Type,
		Offset: c.Msg.Off, Size: c.Msg.Size, Data: unhex(c.Msg.Data)}
	if len(m.Data) == 0 {
		m.Data = nil
	}
	if err := w.Write(m); err != nil {
		o.Err = "Wire.Write: " + err.Error()
	}
	a.Close()
	raw := <-done
	b.Close()
	o.Bytes = hex.EncodeToString(raw)
	// implementation-only round trip through the real reader
	r, rc := feed(raw)
	got, err := r.Read()
	rc.Close()
	if err != nil {
		o.RtNote = "Wire.Read: " + err.Error()
		if uint16(c.Msg.Magic) != rpc.MagicVersion {
			o.RtSame = true // a wrong magic must be refused
		}
		return o
	}
	o.RtSame = got.MagicVersion == m.MagicVersion && got.Seq == m.Seq && got.Type == m.Type &&
		got.Offset == m.Offset && got.Size == m.Size && string(got.Data) == string(m.Data)
	if uint16(c.Msg.Magic) != rpc.MagicVersion {
		o.RtSame = false
		o.RtNote = "a frame with a wrong magic was accepted"
	}
	return o
}

func runRead(c Case) Out {
	o := Out{ID: c.ID, K: "read"}
	stream := unhex(c.Stream)
	w, conn := feed(stream)
	defer conn.Close()
	consumed := 0
	for {
		m, err := w.Read()
		if err != nil {
			if m != nil && strings.HasPrefix(err.Error(), "Wrong API version") {
				o.End = "badmagic"
				o.Got = uint32(m.MagicVersion)
			} else if (err == io.EOF) && consumed == len(stream) {
				o.End = "clean"
			} else {
				o.End = "short"
			}
			return o
		}
		consumed += 30 + len(m.Data)
		o.Msgs = append(o.Msgs, Msg{Magic: uint32(m.MagicVersion), Seq: m.Seq, Type: m.Type, Off: m.Offset,
			Size: m.Size, Data: hex.EncodeToString(m.Data)})
		if len(o.Msgs) > 100000 {
			o.Err = "reader does not stop"
			return o
		}
	}
}

// ---------------------------------------------------------------- scripted peer

type frame struct {
	seq, ty   uint32
	off, size int64
	data      []byte
	raw       []byte
}

type peer struct {
	conn   net.Conn
	mu     sync.Mutex
	frames []frame
	rerr   string
	notify chan struct{}
	logged int
	log    []string
	sents  []Sent
	last   map[int][]byte
}

func (p *peer) reader() {
	for {
		hdr := make([]byte, 30)
		if _, err := io.ReadFull(p.conn, hdr); err != nil {
			p.mu.Lock()
			if err != io.EOF {
				p.rerr = err.Error()
			}
			p.mu.Unlock()
			return
		}
		f := frame{
			seq:  binary.LittleEndian.Uint32(hdr[2:6]),
			ty:   binary.LittleEndian.Uint32(hdr[6:10]),
			off:  int64(binary.LittleEndian.Uint64(hdr[10:18])),
			size: int64(binary.LittleEndian.Uint64(hdr[18:26])),
		}
		l := binary.LittleEndian.Uint32(hdr[26:30])
		if l > 1<<22 {
			p.mu.Lock()
			p.rerr = fmt.Sprintf("implausible payload length %d in frame %d", l, len(p.frames))
			f.raw = hdr
			p.frames = append(p.frames, f)
			p.mu.Unlock()
			select {
			case p.notify <- struct{}{}:
			default:
			}
			return
		}
		f.data = make([]byte, l)
		if _, err := io.ReadFull(p.conn, f.data); err != nil {
			p.mu.Lock()
			p.rerr = "payload: " + err.Error()
			p.mu.Unlock()
			return
		}
		f.raw = append(hdr, f.data...)
		p.mu.Lock()
		p.frames = append(p.frames, f)
		p.mu.Unlock()
		select {
		case p.notify <- struct{}{}:
		default:
		}
	}
}

func (p *peer) count() int {
	p.mu.Lock()
	defer p.mu.Unlock()
	return len(p.frames)
}

// waitFrames waits until n frames have arrived (or the deadline passes) and logs their arrival.
func (p *peer) waitFrames(n int, d time.Duration) bool {
	deadline := time.Now().Add(d)
	for p.count() < n {
		if time.Now().After(deadline) {
			break
		}
		select {
		case <-p.notify:
		case <-time.After(20 * time.Millisecond):
		}
	}
	c := p.count()
	if c > n {
		c = n
	}
	for p.logged < c {
		p.log = append(p.log, "R"+strconv.Itoa(p.logged))
		p.logged++
	}
	return c >= n
}

func encodeFrame(seq, ty uint32, off, size int64, data []byte) []byte {
	b := make([]byte, 30+len(data))
	binary.LittleEndian.PutUint16(b[0:2], 0x1b03)
	binary.LittleEndian.PutUint32(b[2:6], seq)
	binary.LittleEndian.PutUint32(b[6:10], ty)
	binary.LittleEndian.PutUint64(b[10:18], uint64(off))
	binary.LittleEndian.PutUint64(b[18:26], uint64(size))
	binary.LittleEndian.PutUint32(b[26:30], uint32(len(data)))
	copy(b[30:], data)
	return b
}

// payload derived from the request so that a reply delivered to another call is visible
func pattern(f frame, n int) []byte {
	d := make([]byte, n)
	for i := range d {
		d[i] = byte(int64(f.ty)*17 + (f.off>>12)*31 + int64(i)*7 + 1)
	}
	return d
}

func (p *peer) send(seq, ty uint32, off, size int64, data []byte) {
	p.conn.Write(encodeFrame(seq, ty, off, size, data))
	p.log = append(p.log, "S"+strconv.Itoa(len(p.sents)))
	p.sents = append(p.sents, Sent{Seq: seq, Ty: ty, Size: size, Data: hex.EncodeToString(data)})
}

// run executes the script; returns the fault kind ("" = none)
func (p *peer) run(script []Act, recvWait time.Duration) string {
	for _, a := range script {
		switch a.A {
		case "recv":
			if !p.waitFrames(a.N, recvWait) {
				return "peer-recv-timeout"
			}
		case "sleep":
			time.Sleep(time.Duration(a.Ms) * time.Millisecond)
		case "reply":
			p.mu.Lock()
			if a.J >= len(p.frames) {
				p.mu.Unlock()
				continue
			}
			f := p.frames[a.J]
			p.mu.Unlock()
			var data []byte
			switch {
			case a.Ty == rpc.TypeError:
				data = []byte(fmt.Sprintf("remote-error:%d:%d", f.ty, f.off))
			case a.DLen >= 0:
				data = pattern(f, a.DLen)
			default:
				if f.ty == rpc.TypeRead {
					data = pattern(f, int(f.size))
				}
			}
			size := a.SzAdd + (f.off >> 12)
			p.send(f.seq, a.Ty, f.off, size, data)
		case "dup":
			if a.J < len(p.sents) {
				s := p.sents[a.J]
				p.send(s.Seq, s.Ty, 0, s.Size, unhex(s.Data))
			}
		case "bogus":
			p.send(a.Seq, rpc.TypeResponse, 0, 99, []byte{1, 2, 3})
		case "close":
			p.log = append(p.log, "F:close")
			p.conn.Close()
			return "close"
		case "corrupt":
			p.log = append(p.log, "F:corrupt")
			p.conn.Write(unhex(a.Bytes))
			return "corrupt"
		case "halfframe":
			p.log = append(p.log, "F:halfframe")
			p.conn.Write(unhex(a.Bytes))
			p.conn.Close()
			return "halfframe"
		case "stall":
			p.log = append(p.log, "F:stall")
			return "stall"
		}
	}
	return ""
}

// ---------------------------------------------------------------- client cases

func classify(err error) (string, string, bool) {
	if err == nil {
		return "", "", true
	}
	switch err {
	case rpc.ErrRWTimeout:
		return "rwtimeout", err.Error(), false
	case rpc.ErrPingTimeout:
		return "pingtimeout", err.Error(), false
	case io.EOF:
		return "eof", err.Error(), false
	}
	return "", err.Error(), false
}

func doCall(cl *rpc.Client, c Call, wave int) Comp {
	t0 := time.Now()
	var n int
	var err error
	var buf []byte
	switch c.Kind {
	case "read":
		buf = make([]byte, c.Len)
		n, err = cl.ReadAt(buf, c.Off)
	case "write":
		n, err = cl.WriteAt(unhex(c.Data), c.Off)
	case "sync":
		n, err = cl.Sync()
	case "ping":
		err = cl.Ping()
	case "unmap":
		n, err = cl.Unmap(c.Off, c.Len)
	}
	ptr, text, isnil := classify(err)
	return Comp{ID: c.ID, N: n, Ptr: ptr, Text: text, Nil: isnil, Buf: hex.EncodeToString(buf),
		Ms: time.Since(t0).Milliseconds(), Wave: wave}
}

func connect() (net.Conn, net.Conn, error) {
	l, err := net.Listen("tcp", "127.0.0.1:0")
	if err != nil {
		return nil, nil, err
	}
	defer l.Close()
	type acc struct {
		c   net.Conn
		err error
	}
	ch := make(chan acc, 1)
	go func() {
		c, err := l.Accept()
		ch <- acc{c, err}
	}()
	c, err := net.Dial("tcp", l.Addr().String())
	if err != nil {
		return nil, nil, err
	}
	a := <-ch
	if a.err != nil {
		c.Close()
		return nil, nil, a.err
	}
	return c, a.c, nil
}

func runWave(cl *rpc.Client, calls []Call, wave int, limit time.Duration) ([]Comp, []int) {
	res := make(chan Comp, len(calls))
	for _, c := range calls {
		go func(c Call) { res <- doCall(cl, c, wave) }(c)
	}
	var comps []Comp
	got := map[int]bool{}
	deadline := time.After(limit)
	for len(comps) < len(calls) {
		select {
		case r := <-res:
			comps = append(comps, r)
			got[r.ID] = true
		case <-deadline:
			var hung []int
			for _, c := range calls {
				if !got[c.ID] {
					hung = append(hung, c.ID)
				}
			}
			return comps, hung
		}
	}
	return comps, nil
}

func runLoop(c Case) Out {
	o := Out{ID: c.ID, K: "loop"}
	cconn, pconn, err := connect()
	if err != nil {
		o.Err = "connect: " + err.Error()
		return o
	}
	closeChan := make(chan struct{}, 5) // as backend/remote.Factory.Create makes it
	cl := rpc.NewClient(cconn, closeChan)
	p := &peer{conn: pconn, notify: make(chan struct{}, 1)}
	go p.reader()
	pdone := make(chan string, 1)
	go func() { pdone <- p.run(c.Script, rwTimeout+3*time.Second) }()

	// a pending call must be released by the failure: own deadline (rw timeout) + the loop's 2 s + slack
	limit := rwTimeout + 2*time.Second + 2500*time.Millisecond
	comps, hung := runWave(cl, c.Calls, 1, limit)
	fault := ""
	select {
	case fault = <-pdone:
	case <-time.After(2 * time.Second):
		fault = "peer-script-not-finished"
	}
	if fault == "peer-recv-timeout" || fault == "peer-script-not-finished" {
		o.PeerErr = fault
	}
	closed := 0
	if len(c.Wave2) > 0 {
		if !c.NoWait && fault != "" {
			// c.err is assigned before the signal is sent: after it, every call sees the failure
			select {
			case <-closeChan:
				closed++
			case <-time.After(rwTimeout + 3*time.Second):
			}
		}
		c2, h2 := runWave(cl, c.Wave2, 2, limit)
		comps = append(comps, c2...)
		hung = append(hung, h2...)
	}
	// failure report: the signal is sent before the waiting calls are released
	t := time.After(150 * time.Millisecond)
drain:
	for {
		select {
		case <-closeChan:
			closed++
		case <-t:
			break drain
		}
		if closed > 0 {
			// give a (wrong) second signal a moment to show up
			select {
			case <-closeChan:
				closed++
			case <-time.After(50 * time.Millisecond):
			}
			break drain
		}
	}
	o.Closed = closed
	p.waitFrames(1<<30, 0) // log every frame that arrived after the script's last recv
	p.mu.Lock()
	for _, f := range p.frames {
		o.Frames = append(o.Frames, hex.EncodeToString(f.raw))
	}
	if p.rerr != "" && o.PeerErr == "" && !strings.Contains(p.rerr, "closed") && !strings.Contains(p.rerr, "reset") {
		o.PeerErr = p.rerr
	}
	p.mu.Unlock()
	o.Sents = p.sents
	o.PeerLog = p.log
	o.Comps = comps
	o.Hung = hung
	pconn.Close()
	cconn.Close()
	return o
}

// race: callers keep reading while the peer closes abruptly after `After` frames.
func runRace(c Case) Out {
	o := Out{ID: c.ID, K: "race"}
	cconn, pconn, err := connect()
	if err != nil {
		o.Err = "connect: " + err.Error()
		return o
	}
	closeChan := make(chan struct{}, 5)
	cl := rpc.NewClient(cconn, closeChan)
	p := &peer{conn: pconn, notify: make(chan struct{}, 1)}
	go p.reader()
	go func() {
		answered := 0
		for answered < c.After {
			if !p.waitFrames(answered+1, 3*time.Second) {
				break
			}
			p.mu.Lock()
			f := p.frames[answered]
			p.mu.Unlock()
			p.send(f.seq, rpc.TypeResponse, f.off, f.size, pattern(f, int(f.size)))
			answered++
		}
		pconn.Close()
	}()
	type r struct {
		ms int64
		ok bool
	}
	res := make(chan r, c.Workers*c.Each)
	var wg sync.WaitGroup
	for w := 0; w < c.Workers; w++ {
		wg.Add(1)
		go func(w int) {
			defer wg.Done()
			for i := 0; i < c.Each; i++ {
				t0 := time.Now()
				buf := make([]byte, 16)
				_, err := cl.ReadAt(buf, int64(w*c.Each+i)*4096)
				res <- r{time.Since(t0).Milliseconds(), err == nil}
			}
		}(w)
	}
	fin := make(chan struct{})
	go func() { wg.Wait(); close(fin) }()
	limit := time.Duration(c.Each)*0 + rwTimeout + 2*time.Second + 4*time.Second
	select {
	case <-fin:
	case <-time.After(limit):
		o.Hung = []int{-1}
	}
collect:
	for {
		select {
		case x := <-res:
			o.Total++
			if x.ok {
				o.OkCalls++
			}
			if x.ms > o.MaxMs {
				o.MaxMs = x.ms
			}
			if x.ms > 500 {
				o.Slow++
			}
		default:
			break collect
		}
	}
	select {
	case <-closeChan:
		o.Closed = 1
	case <-time.After(100 * time.Millisecond):
	}
	cconn.Close()
	return o
}

// ---------------------------------------------------------------- server cases

// scripted types.DataProcessor
type sproc struct {
	mu    sync.Mutex
	k     int
	acts  []PAct
	token int
	calls []PCall
	gate  chan struct{}
}

func spattern(off int64, token, k, n int) []byte {
	d := make([]byte, n)
	for i := range d {
		d[i] = byte(uint64(off>>9)*31 + uint64(token)*17 + uint64(k)*13 + uint64(i)*7 + 1)
	}
	return d
}

// next registers the call and returns its index and its scripted behaviour
func (p *sproc) next(op string, off, n int64, data []byte) (int, PAct) {
	// pipelined cases: no reply is produced before the client has written everything
	select {
	case <-p.gate:
	case <-time.After(500 * time.Millisecond):
	}
	p.mu.Lock()
	k := p.k
	p.k++
	c := PCall{Op: op, Off: off, Len: n}
	if data != nil {
		c.Data = hex.EncodeToString(data)
	}
	p.calls = append(p.calls, c)
	p.mu.Unlock()
	a := PAct{R: "ok", Fill: -1}
	if k < len(p.acts) {
		a = p.acts[k]
	}
	if a.Delay > 0 {
		time.Sleep(time.Duration(a.Delay) * time.Millisecond)
	}
	return k, a
}

func (a PAct) result(okCount int) (int, error) {
	switch a.R {
	case "eof":
		return a.Count, io.EOF
	case "err":
		return 0, fmt.Errorf("%s", a.Text)
	}
	return okCount, nil
}

func (p *sproc) ReadAt(buf []byte, off int64) (int, error) {
	k, a := p.next("read", off, int64(len(buf)), nil)
	n := a.Fill
	if n < 0 || n > len(buf) {
		n = len(buf)
	}
	copy(buf, spattern(off, p.token, k, n))
	return a.result(len(buf))
}

func (p *sproc) WriteAt(buf []byte, off int64) (int, error) {
	_, a := p.next("write", off, int64(len(buf)), buf)
	return a.result(len(buf))
}

func (p *sproc) Sync() (int, error) {
	_, a := p.next("sync", 0, 0, nil)
	return a.result(0)
}

func (p *sproc) Unmap(off, n int64) (int, error) {
	_, a := p.next("unmap", off, n, nil)
	return a.result(0)
}

func (p *sproc) PingResponse() error {
	_, a := p.next("ping", 0, 0, nil)
	_, err := a.result(0)
	return err
}

func (p *sproc) Close() error { return nil }

func runServe(c Case) Out {
	o := Out{ID: c.ID, K: "serve"}
	cconn, sconn, err := connect()
	if err != nil {
		o.Err = "connect: " + err.Error()
		return o
	}
	defer cconn.Close()
	defer sconn.Close()
	proc := &sproc{acts: c.Proc, token: c.Token, gate: make(chan struct{})}
	srv := rpc.NewServer(sconn, proc)
	hret := make(chan error, 1)
	go func() { hret <- srv.Handle() }()

	// reader: the reply frames in the order in which they arrive
	var mu sync.Mutex
	var replies []Msg
	got := make(chan struct{}, 1024)
	rend := make(chan string, 1)
	go func() {
		for {
			hdr := make([]byte, 30)
			n, err := io.ReadFull(cconn, hdr)
			if err != nil {
				if n == 0 {
					rend <- "eof"
				} else {
					rend <- "short"
				}
				return
			}
			l := binary.LittleEndian.Uint32(hdr[26:30])
			if l > 1<<22 {
				rend <- "implausible"
				return
			}
			data := make([]byte, l)
			if _, err := io.ReadFull(cconn, data); err != nil {
				rend <- "short"
				return
			}
			m := Msg{Magic: uint32(binary.LittleEndian.Uint16(hdr[0:2])), Seq: binary.LittleEndian.Uint32(hdr[2:6]),
				Type: binary.LittleEndian.Uint32(hdr[6:10]), Off: int64(binary.LittleEndian.Uint64(hdr[10:18])),
				Size: int64(binary.LittleEndian.Uint64(hdr[18:26])), Data: hex.EncodeToString(data)}
			mu.Lock()
			replies = append(replies, m)
			mu.Unlock()
			select {
			case got <- struct{}{}:
			default:
			}
		}
	}()
	count := func() int {
		mu.Lock()
		defer mu.Unlock()
		return len(replies)
	}

	var frames [][]byte
	total := 0
	for _, f := range c.Frames {
		b := unhex(f)
		frames = append(frames, b)
		total += len(b)
	}
	tail := unhex(c.Tail)
	switch c.Mode {
	case "seq":
		close(proc.gate)
		for i, f := range frames {
			if _, err := cconn.Write(f); err != nil {
				o.Note = fmt.Sprintf("write of frame %d: %v", i, err)
				break
			}
			deadline := time.After(2 * time.Second)
			for count() < i+1 {
				select {
				case <-got:
				case <-time.After(10 * time.Millisecond):
				case <-deadline:
					o.Note = fmt.Sprintf("no reply to frame %d within 2 s", i)
				}
				if o.Note != "" {
					break
				}
			}
			if o.Note != "" {
				break
			}
		}
		if len(tail) > 0 {
			cconn.Write(tail)
		}
	case "chunk":
		close(proc.gate)
		all := append(bytes.Join(frames, nil), tail...)
		n := c.Chunk
		if n <= 0 {
			n = 7
		}
		for i := 0; i < len(all); i += n {
			e := i + n
			if e > len(all) {
				e = len(all)
			}
			if _, err := cconn.Write(all[i:e]); err != nil {
				o.Note = "chunk write: " + err.Error()
				break
			}
			if (i/n)%5 == 4 {
				time.Sleep(200 * time.Microsecond)
			}
		}
	default: // pipe
		all := append(bytes.Join(frames, nil), tail...)
		if len(all) > 32<<10 {
			close(proc.gate) // more than the socket buffers are sure to take: do not hold the server back
			if _, err := cconn.Write(all); err != nil {
				o.Note = "write: " + err.Error()
			}
		} else {
			if _, err := cconn.Write(all); err != nil {
				o.Note = "write: " + err.Error()
			}
			close(proc.gate)
		}
	}
	if tc, ok := cconn.(*net.TCPConn); ok {
		tc.CloseWrite()
	}
	delays := 0
	for _, a := range c.Proc {
		delays += a.Delay
	}
	select {
	case err := <-hret:
		switch {
		case err == io.EOF:
			o.HRet = "eof"
		case err == io.ErrUnexpectedEOF:
			o.HRet = "unexpected-eof"
		case err != nil && strings.HasPrefix(err.Error(), "Wrong API version"):
			o.HRet = "badmagic"
		case err == nil:
			o.HRet = "nil"
		default:
			o.HRet = err.Error()
		}
	case <-time.After(3*time.Second + time.Duration(delays)*time.Millisecond):
		o.HRet = "hung"
	}
	// let the replies that are on their way arrive before the connection is torn down (closing a socket
	// with unread request bytes resets it)
	for t0 := time.Now(); count() < len(frames) && time.Since(t0) < 300*time.Millisecond; {
		time.Sleep(2 * time.Millisecond)
	}
	// what replica/rpc/server.go does after Handle returned (server.Stop closes the connection)
	sconn.Close()
	select {
	case o.REnd = <-rend:
	case <-time.After(2 * time.Second):
		o.REnd = "reader-timeout"
	}
	mu.Lock()
	o.Replies = replies
	mu.Unlock()
	proc.mu.Lock()
	o.PCalls = proc.calls
	proc.mu.Unlock()
	return o
}

func main() {
	if len(os.Args) < 5 {
		fmt.Fprintln(os.Stderr, "usage: rpc in.jsonl out.jsonl workdir rw-timeout-ms [parallel]")
		os.Exit(2)
	}
	hx.Quiet()
	ms, _ := strconv.Atoi(os.Args[4])
	rwTimeout = time.Duration(ms) * time.Millisecond
	types.RPCReadTimeout = rwTimeout
	types.RPCWriteTimeout = rwTimeout
	rpc.SetRPCTimeout()
	par := 48
	if len(os.Args) > 5 {
		par, _ = strconv.Atoi(os.Args[5])
	}
	w, err := hx.NewWriter(os.Args[2])
	if err != nil {
		fmt.Fprintln(os.Stderr, err)
		os.Exit(2)
	}
	var cases []Case
	err = hx.ReadLines(os.Args[1], func(dec *json.Decoder) error {
		var c Case
		if err := dec.Decode(&c); err != nil {
			return err
		}
		cases = append(cases, c)
		return nil
	})
	if err != nil {
		fmt.Fprintln(os.Stderr, err)
		os.Exit(2)
	}
	t0 := time.Now()
	var mu sync.Mutex
	var wg sync.WaitGroup
	sem := make(chan struct{}, par)
	put := func(o Out) {
		mu.Lock()
		w.Put(o)
		mu.Unlock()
	}
	for _, c := range cases {
		switch c.K {
		case "write":
			put(runWrite(c))
		case "read":
			put(runRead(c))
		case "loop", "race", "serve":
			wg.Add(1)
			sem <- struct{}{}
			go func(c Case) {
				defer wg.Done()
				defer func() { <-sem }()
				if c.K == "loop" {
					put(runLoop(c))
				} else if c.K == "serve" {
					put(runServe(c))
				} else {
					put(runRace(c))
				}
			}(c)
		default:
			put(Out{ID: c.ID, K: c.K, Err: "unknown case kind"})
		}
	}
	wg.Wait()
	w.Close()
	fmt.Fprintf(os.Stderr, "rpc: %d cases in %v\n", len(cases), time.Since(t0))
}
