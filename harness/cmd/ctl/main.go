// Command ctl drives the real controller.Controller with a scripted types.BackendFactory whose
// backends implement exactly the "world" of coq/theories/Ctl/Model.v (frep), take every failure from
// the current event's fault set, and hand the harness the monitor channels so that it decides when a
// monitoring goroutine fires.  Replica a is 127.0.1.(a+1); each fake also serves GET /v1/replicas/1.
//
//	ctl <in.jsonl> <out.jsonl> <workdir>
package main

import (
	"io"
	"encoding/binary"
	"encoding/json"
	"errors"
	"fmt"
	"net"
	"net/http"
	"os"
	"sort"
	"strconv"
	"strings"
	"sync"
	"sync/atomic"
	"time"

	"github.com/openebs/jiva/controller"
	"github.com/openebs/jiva/types"

	"jivaverif/harness/hx"
)

const maxRep = 8

type Fault struct {
	A int    `json:"a"`
	K string `json:"k"`
}

type Event struct {
	K     string  `json:"k"`
	A     int     `json:"a"`
	UUID  int     `json:"uuid,omitempty"`
	Rev   int64   `json:"rev,omitempty"`
	Reb   bool    `json:"reb,omitempty"`
	Addrs []int   `json:"addrs,omitempty"`
	Mode  string  `json:"mode,omitempty"`
	Wid   int     `json:"wid,omitempty"`
	Off   int64   `json:"off,omitempty"`
	Len   int64   `json:"len,omitempty"`
	Name  int     `json:"name,omitempty"`
	Size  int64   `json:"size,omitempty"`
	Fs    []Fault `json:"fs,omitempty"`
	NilErr bool   `json:"nilerr,omitempty"` // monfail: the monitor channel carries nil (connection found dead) instead of an error
	// pair: First is started and held inside the replicas (gate "write": every fake WriteAt, "http": every
	// fake HTTP answer, "snap": every fake Snapshot) while Second is issued; then the gate opens
	First  *Event `json:"first,omitempty"`
	Second *Event `json:"second,omitempty"`
	Gate   string `json:"gate,omitempty"`
}

type WRep struct {
	Chain []int  `json:"chain"`
	Rev   int64  `json:"rev"`
	Size  int64  `json:"size"`
	Clone string `json:"clone"` // NA | completed | error
	Polls int    `json:"polls,omitempty"` // number of clone-status polls answered with "" (not yet published) first
	Cp    int    `json:"cp"`    // 0 = none
}

type Case struct {
	ID     int     `json:"id"`
	RF     int     `json:"rf"`
	World  []WRep  `json:"world"`
	Events []Event `json:"events"`
}

type RepObs struct {
	Open    bool   `json:"open"`
	Mode    string `json:"mode"`
	Chain   []int  `json:"chain"`
	Rev     int64  `json:"rev"`
	Cp      int    `json:"cp"`
	Applied []int  `json:"applied"`
	Size    int64  `json:"size"`
}

type Obs struct {
	Res        string     `json:"res"` // ok | err | none | panic
	Res1       string     `json:"res1,omitempty"` // result of the first request of a pair
	Replicas   [][2]string `json:"replicas"`
	RO         bool       `json:"ro"`
	RWC        int        `json:"rwc"`
	Checkpoint int        `json:"checkpoint"`
	MaxRev     int        `json:"maxrev"` // -1 = ""
	Signalled  bool       `json:"signalled"`
	Registered []int      `json:"registered"`
	Size       int64      `json:"size"`
	FeUp       bool       `json:"feup"`
	Reps       []RepObs   `json:"reps"`
	Signals    [][2]int   `json:"signals"` // (addr, 1=start 0=add)
	Order      []int      `json:"order"`   // replicas that received the read, in order
	Served     int        `json:"served"`  // replica whose data was returned, -1
	Mutated    []int      `json:"mutated"` // replicas that received a mutating call during the event
	Pending    int        `json:"pending"` // monitor notifications queued but not yet delivered
	Note       string     `json:"note,omitempty"`
}

type Out struct {
	ID  int    `json:"id"`
	Obs []Obs  `json:"obs"`
	Err string `json:"err,omitempty"`
}

// ---------------------------------------------------------------- the scripted world

type fakeRep struct {
	a       int
	open    bool
	mode    string // INIT WO RW
	chain   []string
	rev     int64
	cp      string
	applied []int
	size    int64
	clone   string
	polls   int
}

type instance struct {
	h         *harness
	rep       *fakeRep
	id        int
	ch        types.MonitorChannel
	monitored int32
	notified  bool
	delivered bool
}

var readFails int64

type harness struct {
	mu       sync.Mutex
	reps     []*fakeRep
	faults   map[string]bool
	insts    []*instance
	gates    map[int]int           // number of AddReplica calls expected to park inside Create, per address
	release  []chan struct{}       // one token wakes one parked Create of that address
	results  []chan string         // results of AddReplica goroutines, per address
	entered  chan int
	signals  [][2]int
	order    []int
	mutated  map[int]bool
	fresh    []*instance // created during the current event
	gateKind string        // "" = no gate
	gateCh   chan struct{} // closed to open the gate
	gateIn   chan struct{} // signalled when somebody reaches the gate
	wfaults  map[string]bool // write faults keyed by write id (pairs)
	names    map[string]int
	nextAuto int
	feUp     bool
	feState  int64 // number of frontend.State() calls
	c        *controller.Controller
}

var cur atomic.Value // *harness

func ip(a int) string   { return fmt.Sprintf("127.0.1.%d", a+1) }
func addr(a int) string { return "tcp://" + ip(a) + ":9502" }
func parseAddr(s string) int {
	s = strings.TrimPrefix(s, "tcp://")
	s = strings.TrimSuffix(s, ":9502")
	p := strings.Split(s, ".")
	if len(p) != 4 {
		return -1
	}
	n, err := strconv.Atoi(p[3])
	if err != nil {
		return -1
	}
	return n - 1
}

func (h *harness) flt(a int, k string) bool { return h.faults[fmt.Sprintf("%d/%s", a, k)] }

// hold blocks the caller while a gate of this kind is set (called without h.mu)
func (h *harness) hold(kind string) {
	h.mu.Lock()
	ch, in := h.gateCh, h.gateIn
	match := h.gateKind == kind
	h.mu.Unlock()
	if !match || ch == nil {
		return
	}
	select {
	case in <- struct{}{}:
	default:
	}
	<-ch
}

func (h *harness) snapID(name string) int {
	if id, ok := h.names[name]; ok {
		return id
	}
	if strings.HasPrefix(name, "u") {
		if n, err := strconv.Atoi(name[1:]); err == nil {
			h.names[name] = n
			return n
		}
	}
	id := h.nextAuto
	h.nextAuto++
	h.names[name] = id
	return id
}

func snapFile(name string) string { return "volume-snap-" + name + ".img" }
func snapName(file string) string {
	return strings.TrimSuffix(strings.TrimPrefix(file, "volume-snap-"), ".img")
}

// --- factory

type factory struct{ h *harness }

func (f *factory) Create(address string) (types.Backend, error) {
	h := f.h
	a := parseAddr(address)
	if a < 0 || a >= len(h.reps) {
		return nil, errors.New("unknown address")
	}
	h.mu.Lock()
	park := h.gates[a] > 0
	if park {
		h.gates[a]--
	}
	h.mu.Unlock()
	if park {
		h.entered <- a
		<-h.release[a]
	}
	h.mu.Lock()
	defer h.mu.Unlock()
	r := h.reps[a]
	if h.flt(a, "create") || r.open {
		return nil, errors.New("create failed")
	}
	r.open = true
	r.mode = "INIT"
	h.mutated[a] = true
	in := &instance{h: h, rep: r, id: len(h.insts), ch: make(types.MonitorChannel, 2)}
	h.insts = append(h.insts, in)
	h.fresh = append(h.fresh, in)
	return in, nil
}

func (f *factory) SignalToAdd(address string, action string) error {
	h := f.h
	a := parseAddr(address)
	h.mu.Lock()
	defer h.mu.Unlock()
	act := 0
	if action == "start" {
		act = 1
	}
	h.signals = append(h.signals, [2]int{a, act})
	if act == 1 && h.flt(a, "signal") {
		return errors.New("signal failed")
	}
	return nil
}

func (f *factory) VerifyReplicaAlive(address string) bool {
	h := f.h
	a := parseAddr(address)
	h.mu.Lock()
	defer h.mu.Unlock()
	return !h.flt(a, "alive")
}

// --- backend instance

func (in *instance) lock() func() { in.h.mu.Lock(); return in.h.mu.Unlock }

func (in *instance) WriteAt(p []byte, off int64) (int, error) {
	in.h.hold("write")
	defer in.lock()()
	h, r := in.h, in.rep
	wid := int(binary.LittleEndian.Uint64(p[:8]))
	if h.wfaults[fmt.Sprintf("%d/write#%d", r.a, wid)] {
		return 0, errors.New("write failed")
	}
	if h.flt(r.a, "write") {
		return 0, errors.New("write failed")
	}
	r.applied = append(r.applied, wid)
	if r.mode == "RW" {
		r.rev++
	}
	h.mutated[r.a] = true
	if h.flt(r.a, "writeap") || h.wfaults[fmt.Sprintf("%d/writeap#%d", r.a, wid)] {
		return 0, errors.New("timeout")
	}
	return len(p), nil
}

func (in *instance) ReadAt(p []byte, off int64) (int, error) {
	defer in.lock()()
	h, r := in.h, in.rep
	h.order = append(h.order, r.a)
	if h.flt(r.a, "read") {
		// a failing read is either an error or a short count with io.EOF (the replica's backing store ends
		// inside the range): alternate between the two
		if atomic.AddInt64(&readFails, 1)%2 == 1 {
			for i := 0; i < len(p)/2; i++ {
				p[i] = byte(r.a + 1)
			}
			return len(p) / 2, io.EOF
		}
		return 0, errors.New("read failed")
	}
	for i := range p {
		p[i] = byte(r.a + 1)
	}
	return len(p), nil
}

func (in *instance) Sync() (int, error) {
	defer in.lock()()
	if in.h.flt(in.rep.a, "sync") {
		return -1, errors.New("sync failed")
	}
	return 0, nil
}

func (in *instance) Unmap(int64, int64) (int, error) {
	defer in.lock()()
	if in.h.flt(in.rep.a, "unmap") {
		return -1, errors.New("unmap failed")
	}
	return 0, nil
}

func (in *instance) Close() error {
	in.StopMonitoring()
	defer in.lock()()
	in.rep.open = false
	in.h.mutated[in.rep.a] = true
	return nil
}

func (in *instance) Snapshot(name string, userCreated bool, created string) error {
	in.h.hold("snap")
	defer in.lock()()
	h, r := in.h, in.rep
	h.snapID(name)
	if h.flt(r.a, "snap") {
		return errors.New("snapshot failed")
	}
	r.chain = append([]string{name}, r.chain...)
	h.mutated[r.a] = true
	return nil
}

func (in *instance) GetReplicaChain() ([]string, error) {
	defer in.lock()()
	if in.h.flt(in.rep.a, "chain") {
		return nil, errors.New("chain failed")
	}
	return in.rep.fullChain(), nil
}

func (r *fakeRep) fullChain() []string {
	out := []string{"volume-head-000.img"}
	for _, n := range r.chain {
		out = append(out, snapFile(n))
	}
	return out
}

func (in *instance) SetCheckpoint(name string) error {
	defer in.lock()()
	if in.h.flt(in.rep.a, "setcp") {
		return errors.New("setcheckpoint failed")
	}
	in.rep.cp = snapName(name) // the controller passes the chain entry, i.e. the file name
	in.h.mutated[in.rep.a] = true
	return nil
}

func (in *instance) Resize(name string, size string) error {
	defer in.lock()()
	if in.h.flt(in.rep.a, "resize") {
		return errors.New("resize failed")
	}
	n, _ := strconv.ParseInt(size, 10, 64)
	in.rep.size = n
	in.h.mutated[in.rep.a] = true
	return nil
}

func (in *instance) Size() (int64, error) {
	defer in.lock()()
	if in.h.flt(in.rep.a, "size") {
		return 0, errors.New("size failed")
	}
	return in.rep.size, nil
}
func (in *instance) SectorSize() (int64, error)   { return 4096, nil }
func (in *instance) RemainSnapshots() (int, error) { return 100, nil }
func (in *instance) GetRevisionCounter() (int64, error) {
	defer in.lock()()
	if in.h.flt(in.rep.a, "revneg") {
		// backend/remote reports a counter the replica could not read as -1 with a nil error (used on verify
		// requests only, where the controller treats it like an error)
		return -1, nil
	}
	if in.h.flt(in.rep.a, "rev") {
		return 0, errors.New("rev failed")
	}
	return in.rep.rev, nil
}
func (in *instance) GetCloneStatus() (string, error) {
	defer in.lock()()
	if in.h.flt(in.rep.a, "clone") {
		return "", errors.New("clone status failed")
	}
	if in.rep.polls > 0 {
		// the clone has not published its status yet
		in.rep.polls--
		return "", nil
	}
	return in.rep.clone, nil
}
func (in *instance) GetVolUsage() (types.VolUsage, error) { return types.VolUsage{}, nil }
func (in *instance) SetReplicaMode(mode types.Mode) error {
	defer in.lock()()
	k := "setmodewo"
	if mode == types.RW {
		k = "setmoderw"
	}
	if in.h.flt(in.rep.a, k) {
		return errors.New("setmode failed")
	}
	in.rep.mode = string(mode)
	in.h.mutated[in.rep.a] = true
	return nil
}
func (in *instance) SetRevisionCounter(counter int64) error {
	defer in.lock()()
	if in.h.flt(in.rep.a, "setrev") || in.rep.mode != "RW" {
		return errors.New("setrev failed")
	}
	in.rep.rev = counter
	in.h.mutated[in.rep.a] = true
	return nil
}
func (in *instance) SetRebuilding(bool) error { return nil }
func (in *instance) GetMonitorChannel() types.MonitorChannel {
	atomic.StoreInt32(&in.monitored, 1)
	return in.ch
}
func (in *instance) StopMonitoring() {
	defer in.lock()()
	in.notified = true
}

// --- stub frontend

type frontend struct{ h *harness }

func (f *frontend) Startup(name, frontendIP, clusterIP string, size, sectorSize int64, rw types.IOs) error {
	f.h.mu.Lock()
	f.h.feUp = true
	f.h.mu.Unlock()
	return nil
}
func (f *frontend) Shutdown() error {
	f.h.mu.Lock()
	f.h.feUp = false
	f.h.mu.Unlock()
	return nil
}
func (f *frontend) State() types.State {
	atomic.AddInt64(&f.h.feState, 1)
	f.h.mu.Lock()
	defer f.h.mu.Unlock()
	if f.h.feUp {
		return types.StateUp
	}
	return types.StateDown
}
func (f *frontend) Stats() types.Stats { return types.Stats{} }
func (f *frontend) Resize(uint64) error {
	f.h.mu.Lock()
	defer f.h.mu.Unlock()
	if f.h.flt(0, "feresize") {
		return errors.New("frontend resize failed")
	}
	return nil
}

// --- HTTP side of the fakes

func serveHTTP(a int) error {
	l, err := net.Listen("tcp", ip(a)+":9502")
	if err != nil {
		return err
	}
	mux := http.NewServeMux()
	mux.HandleFunc("/v1/replicas/1", func(w http.ResponseWriter, q *http.Request) {
		h, _ := cur.Load().(*harness)
		if h == nil || a >= len(h.reps) {
			w.WriteHeader(500)
			return
		}
		h.hold("http")
		h.mu.Lock()
		r := h.reps[a]
		bad := h.flt(a, "http")
		state := "closed"
		if r.open {
			state = "open"
		}
		cp := ""
		if r.cp != "" {
			cp = snapFile(r.cp)
		}
		body := map[string]interface{}{
			"id": "1", "type": "replica", "state": state, "chain": r.fullChain(),
			"revisioncounter": strconv.FormatInt(r.rev, 10), "checkpoint": cp, "replicamode": r.mode,
			"size": strconv.FormatInt(r.size, 10), "sectorSize": 4096, "head": "volume-head-000.img",
		}
		h.mu.Unlock()
		if bad {
			w.WriteHeader(500)
			return
		}
		w.Header().Set("Content-Type", "application/json")
		json.NewEncoder(w).Encode(body)
	})
	go http.Serve(l, mux)
	return nil
}

// ---------------------------------------------------------------- running a case

func (h *harness) setFaults(fs []Fault) {
	h.mu.Lock()
	h.faults = map[string]bool{}
	for _, f := range fs {
		h.faults[fmt.Sprintf("%d/%s", f.A, f.K)] = true
	}
	h.signals = nil
	h.order = nil
	h.mutated = map[int]bool{}
	h.wfaults = map[string]bool{}
	h.mu.Unlock()
}

// pair: run First until it is held at the gate, issue Second, open the gate
func (h *harness) pair(e Event, pendAdd map[int]int) (string, string, string) {
	f, s2 := *e.First, *e.Second
	h.mu.Lock()
	h.faults = map[string]bool{}
	h.wfaults = map[string]bool{}
	for _, x := range f.Fs {
		if f.K == "write" && (x.K == "write" || x.K == "writeap") {
			h.wfaults[fmt.Sprintf("%d/%s#%d", x.A, x.K, f.Wid)] = true
		} else {
			h.faults[fmt.Sprintf("%d/%s", x.A, x.K)] = true
		}
	}
	for _, x := range s2.Fs {
		if s2.K == "write" && (x.K == "write" || x.K == "writeap") {
			h.wfaults[fmt.Sprintf("%d/%s#%d", x.A, x.K, s2.Wid)] = true
		} else {
			h.faults[fmt.Sprintf("%d/%s", x.A, x.K)] = true
		}
	}
	h.gateKind = e.Gate
	h.gateCh = make(chan struct{})
	h.gateIn = make(chan struct{}, 64)
	gate, in := h.gateCh, h.gateIn
	h.mu.Unlock()
	d1 := make(chan [2]string, 1)
	d2 := make(chan [2]string, 1)
	go func() { r, n := h.exec(f, pendAdd); d1 <- [2]string{r, n} }()
	select {
	case <-in:
	case r := <-d1: // the first request finished without reaching the gate
		d1 <- r
	case <-time.After(300 * time.Millisecond):
	}
	go func() { r, n := h.exec(s2, pendAdd); d2 <- [2]string{r, n} }()
	time.Sleep(40 * time.Millisecond)
	h.mu.Lock()
	h.gateKind = ""
	h.mu.Unlock()
	close(gate)
	r1 := <-d1
	r2 := <-d2
	return r1[0], r2[0], r2[1]
}

func guard(f func() error) (res string, note string) {
	defer func() {
		if r := recover(); r != nil {
			res, note = "panic", fmt.Sprint(r)
		}
	}()
	if err := f(); err != nil {
		return "err", err.Error()
	}
	return "ok", ""
}

// wait until the monitoring goroutine that just received a message has finished its critical section
func (h *harness) awaitMonitor(before int64) {
	deadline := time.Now().Add(2 * time.Second)
	for atomic.LoadInt64(&h.feState) == before && time.Now().Before(deadline) {
		time.Sleep(20 * time.Microsecond)
	}
	h.c.Lock()
	h.c.Unlock()
}

func (h *harness) waitMonitored(in *instance) bool {
	deadline := time.Now().Add(150 * time.Millisecond)
	for atomic.LoadInt32(&in.monitored) == 0 {
		if time.Now().After(deadline) {
			return false
		}
		time.Sleep(20 * time.Microsecond)
	}
	return true
}

func (h *harness) exec(e Event, pendAdd map[int]int) (string, string) {
	c := h.c
	switch e.K {
	case "register":
		uuid := ""
		if e.UUID != 0 {
			uuid = fmt.Sprintf("uuid-%d", e.UUID)
		}
		st := "closed"
		if e.Reb {
			st = "rebuilding"
		}
		return guard(func() error {
			return c.RegisterReplica(types.RegReplica{Address: ip(e.A), UUID: uuid, RevCount: e.Rev, RepType: "Backend", RepState: st})
		})
	case "start":
		as := []string{}
		for _, a := range e.Addrs {
			as = append(as, addr(a))
		}
		return guard(func() error { return c.Start(as...) })
	case "addcheck":
		h.mu.Lock()
		h.gates[e.A]++
		h.mu.Unlock()
		go func() {
			r, _ := guard(func() error { return c.AddReplica(addr(e.A)) })
			h.results[e.A] <- r
		}()
		select {
		case r := <-h.results[e.A]: // refused by the admission check
			h.mu.Lock()
			h.gates[e.A]--
			h.mu.Unlock()
			return r, ""
		case <-h.entered:
			pendAdd[e.A]++
			return "ok", ""
		}
	case "addcommit":
		if pendAdd[e.A] == 0 {
			return "none", ""
		}
		pendAdd[e.A]--
		h.release[e.A] <- struct{}{}
		return <-h.results[e.A], ""
	case "verify":
		r, n := guard(func() error { return c.VerifyRebuildReplica(addr(e.A)) })
		if r == "panic" {
			r = "err" // slice bounds in chain[1:indx+1]: a failure either way (C14 judges the panic)
		}
		return r, n
	case "syncdata":
		// the sync agent's part of a rebuild as far as the controller sees it: the rebuilding replica now has
		// the chain (and content) of the first RW replica
		c.Lock()
		src, dstMode := -1, ""
		for _, r := range c.ListReplicas() {
			if src < 0 && r.Mode == types.RW {
				src = parseAddr(r.Address)
			}
			if parseAddr(r.Address) == e.A {
				dstMode = string(r.Mode)
			}
		}
		c.Unlock()
		if src < 0 || dstMode != "WO" {
			return "none", ""
		}
		h.mu.Lock()
		h.reps[e.A].chain = append([]string{}, h.reps[src].chain...)
		h.reps[e.A].applied = append([]int{}, h.reps[src].applied...)
		h.mu.Unlock()
		return "ok", ""
	case "remove":
		return guard(func() error { return c.RemoveReplica(addr(e.A)) })
	case "setmode":
		return guard(func() error { return c.SetReplicaMode(addr(e.A), types.Mode(e.Mode)) })
	case "monfire":
		for {
			var pick *instance
			h.mu.Lock()
			for _, in := range h.insts {
				if in.rep.a == e.A && in.notified && !in.delivered {
					pick = in
					break
				}
			}
			if pick != nil {
				pick.delivered = true
			}
			h.mu.Unlock()
			if pick == nil {
				return "none", ""
			}
			if !h.waitMonitored(pick) {
				continue // never had a monitoring goroutine: nothing to deliver
			}
			before := atomic.LoadInt64(&h.feState)
			pick.ch <- nil
			h.awaitMonitor(before)
			return "ok", ""
		}
	case "monfail":
		var pick *instance
		h.mu.Lock()
		for i := len(h.insts) - 1; i >= 0; i-- {
			in := h.insts[i]
			if in.rep.a == e.A && !in.notified && atomic.LoadInt32(&in.monitored) == 1 {
				pick = in
				break
			}
		}
		if pick != nil {
			pick.notified = true
			pick.delivered = true
		}
		h.mu.Unlock()
		if pick == nil {
			return "none", ""
		}
		before := atomic.LoadInt64(&h.feState)
		// a failed ping arrives as an error, a connection that the rpc client found dead as nil
		if e.NilErr {
			pick.ch <- nil
		} else {
			pick.ch <- errors.New("ping failed")
		}
		h.awaitMonitor(before)
		return "ok", ""
	case "write":
		buf := make([]byte, e.Len)
		if e.Len >= 8 {
			binary.LittleEndian.PutUint64(buf, uint64(e.Wid))
		}
		var n int
		r, note := guard(func() error {
			var err error
			n, err = c.WriteAt(buf, e.Off)
			return err
		})
		if r == "ok" && int64(n) != e.Len {
			r, note = "err", "short write"
		}
		return r, note
	case "sync":
		return guard(func() error { _, err := c.Sync(); return err })
	case "unmap":
		return guard(func() error { _, err := c.Unmap(0, 4096); return err })
	case "read":
		buf := make([]byte, e.Len)
		var n int
		r, note := guard(func() error {
			var err error
			n, err = c.ReadAt(buf, e.Off)
			return err
		})
		if r == "ok" && int64(n) != e.Len {
			r, note = "err", "short read"
		}
		if r == "ok" && e.Len > 0 {
			note = strconv.Itoa(int(buf[0]) - 1)
		}
		return r, note
	case "snapshot":
		return guard(func() error { _, err := c.Snapshot(fmt.Sprintf("u%d", e.Name)); return err })
	case "resize":
		return guard(func() error { return c.Resize("vol", strconv.FormatInt(e.Size, 10)) })
	}
	return "err", "harness: unknown event " + e.K
}

func (h *harness) observe(res, note string, e Event) Obs {
	// let freshly started monitoring goroutines reach their receive (an instance whose add failed
	// never gets one: bounded wait)
	h.mu.Lock()
	insts := h.fresh
	h.fresh = nil
	h.mu.Unlock()
	for _, in := range insts {
		deadline := time.Now().Add(20 * time.Millisecond)
		for atomic.LoadInt32(&in.monitored) == 0 && time.Now().Before(deadline) {
			time.Sleep(20 * time.Microsecond)
		}
	}
	c := h.c
	o := Obs{Res: res, Note: note, Served: -1, MaxRev: -1}
	c.Lock()
	for _, r := range c.ListReplicas() {
		o.Replicas = append(o.Replicas, [2]string{strconv.Itoa(parseAddr(r.Address)), string(r.Mode)})
	}
	o.RO = c.ReadOnly
	o.RWC = c.RWReplicaCount
	cp := c.Checkpoint
	if c.MaxRevReplica != "" {
		o.MaxRev = parseAddr(c.MaxRevReplica)
	}
	o.Signalled = c.StartSignalled
	for k := range c.RegisteredReplicas {
		o.Registered = append(o.Registered, parseAddr(k))
	}
	o.Size = c.GetSize()
	c.Unlock()
	sort.Ints(o.Registered)
	h.mu.Lock()
	defer h.mu.Unlock()
	_ = insts
	if cp != "" {
		o.Checkpoint = h.snapID(snapName(cp))
	}
	o.FeUp = h.feUp
	for _, r := range h.reps {
		ro := RepObs{Open: r.open, Mode: r.mode, Rev: r.rev, Size: r.size, Applied: append([]int{}, r.applied...), Chain: []int{}}
		for _, n := range r.chain {
			ro.Chain = append(ro.Chain, h.snapID(n))
		}
		if r.cp != "" {
			ro.Cp = h.snapID(r.cp)
		}
		o.Reps = append(o.Reps, ro)
	}
	for _, in := range h.insts {
		if in.notified && !in.delivered && atomic.LoadInt32(&in.monitored) == 1 {
			o.Pending++
		}
	}
	o.Signals = append([][2]int{}, h.signals...)
	o.Order = append([]int{}, h.order...)
	if e.K == "read" && res == "ok" {
		if n, err := strconv.Atoi(note); err == nil {
			o.Served = n
		}
	}
	for a := range h.mutated {
		o.Mutated = append(o.Mutated, a)
	}
	sort.Ints(o.Mutated)
	return o
}

func runCase(cs Case) Out {
	out := Out{ID: cs.ID}
	os.Setenv("REPLICATION_FACTOR", strconv.Itoa(cs.RF))
	h := &harness{gates: map[int]int{}, entered: make(chan int, 8), names: map[string]int{}, nextAuto: 1000,
		faults: map[string]bool{}, mutated: map[int]bool{}, wfaults: map[string]bool{}}
	for range cs.World {
		h.release = append(h.release, make(chan struct{}))
		h.results = append(h.results, make(chan string, 16))
	}
	for a, wr := range cs.World {
		r := &fakeRep{a: a, mode: "INIT", rev: wr.Rev, size: wr.Size, clone: wr.Clone, polls: wr.Polls}
		for _, n := range wr.Chain {
			r.chain = append(r.chain, fmt.Sprintf("u%d", n))
		}
		if wr.Cp != 0 {
			r.cp = fmt.Sprintf("u%d", wr.Cp)
		}
		h.reps = append(h.reps, r)
	}
	h.c = controller.NewController(controller.WithRF(cs.RF), controller.WithName("vol"),
		controller.WithBackend(&factory{h}), controller.WithFrontend(&frontend{h}, "127.0.0.1"))
	cur.Store(h)
	pendAdd := map[int]int{}
	for _, e := range cs.Events {
		h.setFaults(e.Fs)
		if e.K == "pair" && e.First != nil && e.Second != nil {
			r1, r2, note := h.pair(e, pendAdd)
			o := h.observe(r2, note, *e.Second)
			o.Res1 = r1
			out.Obs = append(out.Obs, o)
			continue
		}
		res, note := h.exec(e, pendAdd)
		out.Obs = append(out.Obs, h.observe(res, note, e))
	}
	// release anything still parked so goroutines end
	h.setFaults(nil)
	for a, k := range pendAdd {
		for ; k > 0; k-- {
			h.release[a] <- struct{}{}
			<-h.results[a]
		}
	}
	return out
}

func main() {
	if len(os.Args) < 4 {
		fmt.Fprintln(os.Stderr, "usage: ctl in.jsonl out.jsonl workdir")
		os.Exit(2)
	}
	hx.Quiet()
	for a := 0; a < maxRep; a++ {
		if err := serveHTTP(a); err != nil {
			fmt.Fprintln(os.Stderr, "listen:", err)
			os.Exit(2)
		}
	}
	w, err := hx.NewWriter(os.Args[2])
	if err != nil {
		fmt.Fprintln(os.Stderr, err)
		os.Exit(2)
	}
	t0 := time.Now()
	n := 0
	err = hx.ReadLines(os.Args[1], func(dec *json.Decoder) error {
		var c Case
		if err := dec.Decode(&c); err != nil {
			return err
		}
		n++
		return w.Put(runCase(c))
	})
	if err != nil {
		fmt.Fprintln(os.Stderr, err)
		os.Exit(2)
	}
	w.Close()
	fmt.Fprintf(os.Stderr, "ctl: %d cases in %v\n", n, time.Since(t0))
}
