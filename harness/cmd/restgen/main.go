// Command restgen translates the HTTP handlers of jiva's management API into terms of the
// structured language of coq/theories/Rest/Lang.v (property C14).
//
//	restgen <out.v> <out.json>        (source tree: $JIVA_REPO, default /repo)
//
// Roots are every function or function literal with the signature of an HTTP handler
// (http.ResponseWriter, *http.Request) in controller/rest and replica/rest, plus the body of every
// goroutine started from code reached from them. Calls whose callee is defined in one of the four
// packages controller/rest, replica/rest, controller, replica are inlined (as `Scope body`) when
// the callee - transitively - contains a mutex operation, a channel send, a go statement, a panic
// or a recover; other calls are erased to `Call "name"`. The translation is structural: every Go
// statement form is mapped to the corresponding constructor (conditions become nondeterministic
// choices); what has no counterpart (goto, labelled break, break out of a switch, fallthrough,
// recover, TryLock, a function literal with lock operations used as a value, inlining deeper than
// -depth) becomes `Unknown`, which the verified checker rejects.
//
// A mutex is identified by its access path from the root's receiver / parameters / package
// variables (receivers and path-like arguments are substituted while inlining, embedded fields are
// made explicit: s.c.Lock() and, inside an inlined Controller method, c.Lock() are both
// `s.c.RWMutex`).
package main

import (
	"encoding/json"
	"fmt"
	"go/ast"
	"go/build"
	"go/importer"
	"go/parser"
	"go/token"
	"go/types"
	"os"
	"path/filepath"
	"sort"
	"strconv"
	"strings"
)

// ---------------------------------------------------------------------------------- loading

type pkgInfo struct {
	path  string
	dir   string
	files []*ast.File
	pkg   *types.Package
	info  *types.Info
}

type funcDef struct {
	decl *ast.FuncDecl
	pi   *pkgInfo
	fn   *types.Func
	name string
}

type loader struct {
	fset    *token.FileSet
	repo    string
	mod     string
	pkgs    map[string]*pkgInfo
	gc      types.Importer
	src     types.Importer
	other   map[string]*types.Package
	funcs   map[*types.Func]*funcDef
	loading map[string]bool
	notes   []string
}

func modulePath(repo string) string {
	b, err := os.ReadFile(filepath.Join(repo, "go.mod"))
	if err != nil {
		return "github.com/openebs/jiva"
	}
	for _, l := range strings.Split(string(b), "\n") {
		l = strings.TrimSpace(l)
		if strings.HasPrefix(l, "module ") {
			return strings.TrimSpace(strings.TrimPrefix(l, "module "))
		}
	}
	return "github.com/openebs/jiva"
}

func (l *loader) Import(path string) (*types.Package, error) {
	if path == "unsafe" {
		return types.Unsafe, nil
	}
	if path == l.mod || strings.HasPrefix(path, l.mod+"/") {
		pi, err := l.load(path)
		if err != nil {
			return nil, err
		}
		return pi.pkg, nil
	}
	if p, ok := l.other[path]; ok {
		return p, nil
	}
	first := strings.Split(path, "/")[0]
	if !strings.Contains(first, ".") { // standard library
		if p, err := l.gc.Import(path); err == nil {
			l.other[path] = p
			return p, nil
		}
		if p, err := l.src.Import(path); err == nil {
			l.other[path] = p
			return p, nil
		}
		l.notes = append(l.notes, "standard package not importable, treated as opaque: "+path)
	}
	// third-party (or unavailable) package: opaque. Everything referring to it gets an invalid
	// type, which the translation treats as an ordinary opaque call / value.
	name := path[strings.LastIndex(path, "/")+1:]
	if strings.HasPrefix(name, "go-") {
		name = name[3:]
	}
	p := types.NewPackage(path, name)
	p.MarkComplete()
	l.other[path] = p
	return p, nil
}

func (l *loader) load(path string) (*pkgInfo, error) {
	if pi, ok := l.pkgs[path]; ok {
		return pi, nil
	}
	if l.loading[path] {
		return nil, fmt.Errorf("import cycle through %s", path)
	}
	l.loading[path] = true
	defer delete(l.loading, path)
	dir := filepath.Join(l.repo, strings.TrimPrefix(strings.TrimPrefix(path, l.mod), "/"))
	bctx := build.Default
	bctx.CgoEnabled = true
	bp, err := bctx.ImportDir(dir, 0)
	if err != nil {
		if _, ok := err.(*build.NoGoError); ok {
			return nil, err
		}
		if bp == nil || len(bp.GoFiles) == 0 {
			return nil, err
		}
	}
	pi := &pkgInfo{path: path, dir: dir}
	names := append([]string{}, bp.GoFiles...)
	names = append(names, bp.CgoFiles...)
	sort.Strings(names)
	for _, n := range names {
		f, err := parser.ParseFile(l.fset, filepath.Join(dir, n), nil, parser.ParseComments)
		if err != nil {
			return nil, fmt.Errorf("parse %s: %v", n, err)
		}
		pi.files = append(pi.files, f)
	}
	pi.info = &types.Info{
		Types:      map[ast.Expr]types.TypeAndValue{},
		Defs:       map[*ast.Ident]types.Object{},
		Uses:       map[*ast.Ident]types.Object{},
		Selections: map[*ast.SelectorExpr]*types.Selection{},
	}
	conf := types.Config{Importer: l, Error: func(error) {}, FakeImportC: true}
	pkg, _ := conf.Check(path, l.fset, pi.files, pi.info) // tolerant: errors from opaque packages are expected
	pi.pkg = pkg
	l.pkgs[path] = pi
	for _, f := range pi.files {
		for _, d := range f.Decls {
			fd, ok := d.(*ast.FuncDecl)
			if !ok || fd.Body == nil {
				continue
			}
			if fn, ok := pi.info.Defs[fd.Name].(*types.Func); ok {
				l.funcs[fn] = &funcDef{decl: fd, pi: pi, fn: fn, name: l.funcName(pi, fd)}
			}
		}
	}
	return pi, nil
}

func (l *loader) shortPkg(pi *pkgInfo) string {
	return strings.TrimPrefix(strings.TrimPrefix(pi.path, l.mod), "/")
}

func (l *loader) funcName(pi *pkgInfo, fd *ast.FuncDecl) string {
	n := l.shortPkg(pi) + "."
	if fd.Recv != nil && len(fd.Recv.List) > 0 {
		t := fd.Recv.List[0].Type
		if st, ok := t.(*ast.StarExpr); ok {
			t = st.X
		}
		if id, ok := t.(*ast.Ident); ok {
			n += id.Name + "."
		}
	}
	return n + fd.Name.Name
}

func (l *loader) pos(p token.Pos) string {
	ps := l.fset.Position(p)
	rel, err := filepath.Rel(l.repo, ps.Filename)
	if err != nil {
		rel = ps.Filename
	}
	return fmt.Sprintf("%s:%d", rel, ps.Line)
}

// ---------------------------------------------------------------------------------- terms

type S struct {
	K   string // Skip Seq Alt Loop Return Break Continue Lock Unlock RLock RUnlock DeferUnlock DeferRUnlock Defer Call Scope Send Panic Unknown
	A   []*S
	M   int    // mutex / channel id
	Str string // call name, comment
}

var skip = &S{K: "Skip"}

func seq(parts ...*S) *S {
	var out []*S
	for _, p := range parts {
		if p == nil || p.K == "Skip" {
			continue
		}
		if p.K == "Seq" {
			out = append(out, p.A...)
		} else {
			out = append(out, p)
		}
	}
	if len(out) == 0 {
		return skip
	}
	if len(out) == 1 {
		return out[0]
	}
	return &S{K: "Seq", A: out}
}

func alt(parts ...*S) *S {
	all := true
	for _, p := range parts {
		if p.K != "Skip" {
			all = false
		}
	}
	if all || len(parts) == 0 {
		return skip
	}
	if len(parts) == 1 {
		return parts[0]
	}
	return &S{K: "Alt", A: parts}
}

// effectFree: the term contains nothing the checker looks at.
func effectFree(s *S) bool {
	switch s.K {
	case "Skip", "Call", "Return", "Break", "Continue":
		return true
	case "Seq", "Alt", "Loop":
		for _, a := range s.A {
			if !effectFree(a) {
				return false
			}
		}
		return true
	}
	return false
}

func contains(s *S, k string) bool {
	if s.K == k {
		return true
	}
	if s.K == "Scope" || s.K == "Defer" { // own function: its Continue/Break/Return are not ours
		return false
	}
	for _, a := range s.A {
		if contains(a, k) {
			return true
		}
	}
	return false
}

func size(s *S) int {
	n := 1
	for _, a := range s.A {
		n += size(a)
	}
	return n
}

// ---------------------------------------------------------------------------------- translation

type root struct {
	Name     string   `json:"name"`
	Pos      string   `json:"pos"`
	Kind     string   `json:"kind"` // handler | goroutine
	Unknowns []string `json:"unknowns"`
	Fatals   []string `json:"process_exit_calls"`
	Inlined  []string `json:"inlined"`
	Mutexes  []string `json:"mutexes"`
	Size     int      `json:"size"`
	term     *S
	inl      map[string]bool
	mus      map[string]bool
}

type gen struct {
	l        *loader
	maxDepth int
	effMemo  map[*types.Func]int // 1 in progress, 2 no, 3 yes
	mutexIDs map[string]int
	mutexes  []string
	chanIDs  map[string]int
	chans    []string
	roots    []*root
	goSeen   map[token.Pos]bool
	pending  []func()
	inPkgs   map[string]bool
	restPkgs map[string]bool
}

// inScope: the callee belongs to the modelled layer: any function of the two rest packages, and in
// the controller / replica packages the methods of the API objects (Controller, replica.Server),
// at any call depth. Plain functions of those packages and methods of other types (replicator,
// Replica, diffDisk, ...) are below the modelled layer and stay opaque calls.
var apiTypes = map[string]bool{"controller.Controller": true, "replica.Server": true}

func (g *gen) inScope(fd *funcDef) bool {
	if !g.inPkgs[fd.pi.path] {
		return false
	}
	if g.restPkgs[fd.pi.path] {
		return true
	}
	if fd.decl.Recv == nil || len(fd.decl.Recv.List) == 0 {
		return false
	}
	t := fd.decl.Recv.List[0].Type
	if st, ok := t.(*ast.StarExpr); ok {
		t = st.X
	}
	id, ok := t.(*ast.Ident)
	return ok && apiTypes[fd.pi.pkg.Name()+"."+id.Name]
}

type ctx struct {
	g     *gen
	pi    *pkgInfo
	subst map[types.Object]string
	depth int
	stack []*types.Func
	r     *root
	brk   []string
}

func (c *ctx) child() *ctx {
	n := *c
	n.brk = append([]string{}, c.brk...)
	return &n
}

func (c *ctx) unknown(why string, p token.Pos) *S {
	msg := why + " at " + c.g.l.pos(p)
	c.r.Unknowns = append(c.r.Unknowns, msg)
	return &S{K: "Unknown", Str: msg}
}

func unparen(e ast.Expr) ast.Expr {
	for {
		p, ok := e.(*ast.ParenExpr)
		if !ok {
			return e
		}
		e = p.X
	}
}

func (g *gen) mutexID(path string) int {
	if id, ok := g.mutexIDs[path]; ok {
		return id
	}
	id := len(g.mutexes)
	g.mutexIDs[path] = id
	g.mutexes = append(g.mutexes, path)
	return id
}

func (g *gen) chanID(path string) int {
	if id, ok := g.chanIDs[path]; ok {
		return id
	}
	id := len(g.chans)
	g.chanIDs[path] = id
	g.chans = append(g.chans, path)
	return id
}

func deref(t types.Type) types.Type {
	if p, ok := t.Underlying().(*types.Pointer); ok {
		return p.Elem()
	}
	return t
}

// implicit embedded fields on the way to a selected field or method
func implicitPath(sel *types.Selection) string {
	idx := sel.Index()
	t := sel.Recv()
	out := ""
	for _, i := range idx[:len(idx)-1] {
		st, ok := deref(t).Underlying().(*types.Struct)
		if !ok || i >= st.NumFields() {
			return out + ".?"
		}
		f := st.Field(i)
		out += "." + f.Name()
		t = f.Type()
	}
	return out
}

// canon: access path of an expression denoting a mutex / channel / receiver
func (c *ctx) canon(e ast.Expr) string {
	switch e := unparen(e).(type) {
	case *ast.Ident:
		obj := c.pi.info.Uses[e]
		if obj == nil {
			obj = c.pi.info.Defs[e]
		}
		if obj == nil {
			return "?" + e.Name
		}
		if s, ok := c.subst[obj]; ok {
			return s
		}
		if obj.Pkg() != nil && obj.Parent() == obj.Pkg().Scope() {
			return obj.Pkg().Name() + "." + obj.Name()
		}
		return e.Name + "@" + c.g.l.pos(obj.Pos())
	case *ast.SelectorExpr:
		if sel := c.pi.info.Selections[e]; sel != nil {
			return c.canon(e.X) + implicitPath(sel) + "." + e.Sel.Name
		}
		if obj := c.pi.info.Uses[e.Sel]; obj != nil && obj.Pkg() != nil && obj.Parent() == obj.Pkg().Scope() {
			return obj.Pkg().Name() + "." + obj.Name()
		}
		return c.canon(e.X) + "." + e.Sel.Name
	case *ast.StarExpr:
		return c.canon(e.X)
	case *ast.UnaryExpr:
		if e.Op == token.AND {
			return c.canon(e.X)
		}
	case *ast.CallExpr:
		// a getter whose body is a single `return <path>`: s.s.Replica() is s.s.r
		if k := c.g.classify(c.pi, c.canon, e); k.kind == "static" && len(c.stack) < 32 {
			if b := k.fd.decl.Body.List; len(b) == 1 {
				if rs, ok := b[0].(*ast.ReturnStmt); ok && len(rs.Results) == 1 {
					rp := ""
					if k.recv != nil {
						rp = c.canon(k.recv) + k.rpath
					}
					n := &ctx{g: c.g, pi: k.fd.pi, r: c.r, stack: append(append([]*types.Func{}, c.stack...), k.fd.fn)}
					n.subst = c.bindParamsIn(k.fd, e.Args, rp)
					return n.canon(rs.Results[0])
				}
			}
		}
	}
	return "?expr@" + c.g.l.pos(e.Pos())
}

var lockNames = map[string]string{"Lock": "Lock", "Unlock": "Unlock", "RLock": "RLock", "RUnlock": "RUnlock"}

type callKind struct {
	kind  string // mutex | trylock | panic | recover | conv | static | lit | opaque
	op    string // Lock ...
	path  string // mutex path
	fd    *funcDef
	recv  ast.Expr
	rpath string // implicit path appended to the receiver
	name  string
}

func isSync(fn *types.Func) bool { return fn != nil && fn.Pkg() != nil && fn.Pkg().Path() == "sync" }

func exprName(e ast.Expr) string {
	switch e := unparen(e).(type) {
	case *ast.Ident:
		return e.Name
	case *ast.SelectorExpr:
		return exprName(e.X) + "." + e.Sel.Name
	case *ast.StarExpr:
		return exprName(e.X)
	case *ast.CallExpr:
		return exprName(e.Fun) + "()"
	case *ast.IndexExpr:
		return exprName(e.X) + "[]"
	case *ast.FuncLit:
		return "func"
	case *ast.ArrayType, *ast.MapType, *ast.ChanType, *ast.InterfaceType, *ast.FuncType, *ast.StructType:
		return "type"
	}
	return "expr"
}

func (g *gen) classify(pi *pkgInfo, subCanon func(ast.Expr) string, call *ast.CallExpr) callKind {
	fun := unparen(call.Fun)
	if _, ok := fun.(*ast.FuncLit); ok {
		return callKind{kind: "lit", name: "func"}
	}
	if tv, ok := pi.info.Types[fun]; ok && tv.IsType() {
		return callKind{kind: "conv"}
	}
	name := exprName(fun)
	switch f := fun.(type) {
	case *ast.Ident:
		switch obj := pi.info.Uses[f].(type) {
		case *types.Builtin:
			if obj.Name() == "panic" {
				return callKind{kind: "panic"}
			}
			if obj.Name() == "recover" {
				return callKind{kind: "recover"}
			}
			return callKind{kind: "conv"}
		case *types.Func:
			if fd := g.l.funcs[obj]; fd != nil && g.inScope(fd) {
				return callKind{kind: "static", fd: fd, name: fd.name}
			}
		case nil:
			if f.Name == "panic" {
				return callKind{kind: "panic"}
			}
			if f.Name == "recover" {
				return callKind{kind: "recover"}
			}
		}
	case *ast.SelectorExpr:
		sel := pi.info.Selections[f]
		if sel != nil && (sel.Kind() == types.MethodVal) {
			fn, _ := sel.Obj().(*types.Func)
			if isSync(fn) {
				if op, ok := lockNames[fn.Name()]; ok && len(call.Args) == 0 {
					p := ""
					if subCanon != nil {
						p = subCanon(f.X) + implicitPath(sel)
					}
					return callKind{kind: "mutex", op: op, path: p}
				}
				if fn.Name() == "TryLock" || fn.Name() == "TryRLock" || fn.Name() == "RLocker" {
					return callKind{kind: "trylock", name: name}
				}
				return callKind{kind: "opaque", name: name}
			}
			if fd := g.l.funcs[fn]; fd != nil && g.inScope(fd) {
				return callKind{kind: "static", fd: fd, recv: f.X, rpath: implicitPath(sel), name: fd.name}
			}
			if isBodyRead(fn, call) {
				return callKind{kind: "bodyread", name: name}
			}
			return callKind{kind: "opaque", name: name}
		}
		if sel == nil {
			if fn, ok := pi.info.Uses[f.Sel].(*types.Func); ok { // pkg.Func
				if fd := g.l.funcs[fn]; fd != nil && g.inScope(fd) {
					return callKind{kind: "static", fd: fd, name: fd.name}
				}
				if isBodyRead(fn, call) {
					return callKind{kind: "bodyread", name: name}
				}
				return callKind{kind: "opaque", name: name}
			}
			// no type information (value of an opaque type): decide by name
			if op, ok := lockNames[f.Sel.Name]; ok && len(call.Args) == 0 {
				if _, isPkg := pi.info.Uses[firstIdent(f.X)].(*types.PkgName); !isPkg {
					p := ""
					if subCanon != nil {
						p = subCanon(f.X)
					}
					return callKind{kind: "mutex", op: op, path: p}
				}
			}
			if f.Sel.Name == "TryLock" || f.Sel.Name == "TryRLock" {
				return callKind{kind: "trylock", name: name}
			}
			// values of packages outside the four translated ones carry no type information here:
			// go-rancher's ApiContext.Read (reads and decodes the request body) is recognised by name
			if id := firstIdent(f.X); id != nil && f.Sel.Name == "Read" && len(call.Args) == 1 &&
				strings.Contains(strings.ToLower(id.Name), "context") {
				return callKind{kind: "bodyread", name: name}
			}
			if bodyReadNames[name] && mentionsBody(call) {
				return callKind{kind: "bodyread", name: name}
			}
			if f.Sel.Name == "Decode" && mentionsBody(f.X) {
				return callKind{kind: "bodyread", name: name}
			}
		}
	}
	return callKind{kind: "opaque", name: name}
}

// isBodyRead: a call that waits for the HTTP client to deliver the request body: go-rancher's
// (*api.ApiContext).Read, and io/ioutil.ReadAll, io.Copy, (*json.Decoder).Decode applied to an
// expression that mentions a request's Body. A handler blocked there is blocked on its peer.
var bodyReadNames = map[string]bool{"ioutil.ReadAll": true, "io.ReadAll": true, "io.Copy": true, "io.ReadFull": true}

func mentionsBody(e ast.Node) bool {
	found := false
	ast.Inspect(e, func(n ast.Node) bool {
		if se, ok := n.(*ast.SelectorExpr); ok && se.Sel.Name == "Body" {
			found = true
		}
		return !found
	})
	return found
}

func isBodyRead(fn *types.Func, call *ast.CallExpr) bool {
	if fn == nil {
		return false
	}
	full := fn.FullName()
	if strings.HasSuffix(full, "go-rancher/api.ApiContext).Read") {
		return true
	}
	switch full {
	case "io/ioutil.ReadAll", "io.ReadAll", "io.Copy", "io.ReadFull", "(*encoding/json.Decoder).Decode":
		if mentionsBody(call) {
			return true
		}
	}
	return false
}

func firstIdent(e ast.Expr) *ast.Ident {
	switch e := unparen(e).(type) {
	case *ast.Ident:
		return e
	case *ast.SelectorExpr:
		return firstIdent(e.X)
	}
	return nil
}

// effectful: does the function - transitively through statically resolved calls into the four
// packages - contain anything the checker looks at?
func (g *gen) effectful(fd *funcDef) bool {
	switch g.effMemo[fd.fn] {
	case 1, 2:
		return false
	case 3:
		return true
	}
	g.effMemo[fd.fn] = 1
	res := g.nodeEffectful(fd.pi, fd.decl.Body)
	if res {
		g.effMemo[fd.fn] = 3
	} else {
		g.effMemo[fd.fn] = 2
	}
	return res
}

func (g *gen) nodeEffectful(pi *pkgInfo, n ast.Node) bool {
	found := false
	ast.Inspect(n, func(x ast.Node) bool {
		if found {
			return false
		}
		switch x := x.(type) {
		case *ast.SendStmt, *ast.GoStmt:
			found = true
		case *ast.CallExpr:
			k := g.classify(pi, nil, x)
			switch k.kind {
			case "mutex", "trylock", "panic", "recover", "bodyread":
				found = true
			case "static":
				if g.effectful(k.fd) {
					found = true
				}
			}
		}
		return !found
	})
	return found
}

var exitCalls = []string{"logrus.Fatal", "log.Fatal", "os.Exit", "logrus.Panic", "log.Panic"}

func (c *ctx) exprs(es []ast.Expr) *S {
	var parts []*S
	for _, e := range es {
		parts = append(parts, c.expr(e))
	}
	return seq(parts...)
}

// expr: what evaluating e does, in evaluation order
func (c *ctx) expr(e ast.Expr) *S {
	if e == nil {
		return skip
	}
	switch e := e.(type) {
	case *ast.ParenExpr:
		return c.expr(e.X)
	case *ast.CallExpr:
		return c.call(e)
	case *ast.FuncLit:
		if c.g.nodeEffectful(c.pi, e.Body) {
			return c.unknown("function literal with lock/channel/panic operations used as a value", e.Pos())
		}
		return skip
	case *ast.BinaryExpr:
		if e.Op == token.LAND || e.Op == token.LOR {
			return seq(c.expr(e.X), alt(c.expr(e.Y), skip))
		}
		return seq(c.expr(e.X), c.expr(e.Y))
	case *ast.UnaryExpr:
		if e.Op == token.ARROW {
			return seq(c.expr(e.X), &S{K: "Call", Str: "<-" + exprName(e.X)})
		}
		return c.expr(e.X)
	case *ast.SelectorExpr:
		return c.expr(e.X)
	case *ast.IndexExpr:
		return seq(c.expr(e.X), c.expr(e.Index))
	case *ast.SliceExpr:
		return seq(c.expr(e.X), c.expr(e.Low), c.expr(e.High), c.expr(e.Max))
	case *ast.StarExpr:
		return c.expr(e.X)
	case *ast.TypeAssertExpr:
		return c.expr(e.X)
	case *ast.KeyValueExpr:
		return seq(c.expr(e.Key), c.expr(e.Value))
	case *ast.CompositeLit:
		return c.exprs(e.Elts)
	case *ast.Ident, *ast.BasicLit, *ast.ArrayType, *ast.MapType, *ast.ChanType, *ast.FuncType,
		*ast.InterfaceType, *ast.StructType, *ast.Ellipsis:
		return skip
	}
	// an expression form this translator does not know: be safe if anything relevant is inside
	if c.g.nodeEffectful(c.pi, e) {
		return c.unknown(fmt.Sprintf("expression form %T", e), e.Pos())
	}
	return skip
}

func (c *ctx) call(call *ast.CallExpr) *S {
	var pre []*S
	fun := unparen(call.Fun)
	if se, ok := fun.(*ast.SelectorExpr); ok {
		pre = append(pre, c.expr(se.X))
	} else if _, ok := fun.(*ast.FuncLit); !ok {
		pre = append(pre, c.expr(fun))
	}
	pre = append(pre, c.exprs(call.Args))
	return seq(seq(pre...), c.callEffect(call, false))
}

func (c *ctx) mutexOp(op, path string) *S {
	id := c.g.mutexID(path)
	c.r.mus[path] = true
	return &S{K: op, M: id}
}

// callEffect: the call itself, arguments already evaluated. deferred: produce the body to defer.
func (c *ctx) callEffect(call *ast.CallExpr, deferred bool) *S {
	k := c.g.classify(c.pi, c.canon, call)
	switch k.kind {
	case "conv":
		return skip
	case "panic":
		return &S{K: "Panic"}
	case "recover":
		return c.unknown("recover()", call.Pos())
	case "trylock":
		return c.unknown("conditional lock acquisition "+k.name, call.Pos())
	case "mutex":
		return c.mutexOp(k.op, k.path)
	case "bodyread":
		// blocked on the client until the body has arrived: the same obligation as a blocking send
		return &S{K: "Send", M: c.g.chanID("client: request body (" + k.name + ")")}
	case "lit":
		lit := unparen(call.Fun).(*ast.FuncLit)
		n := c.child()
		n.brk = nil
		n.subst = c.bindParams(lit.Type.Params, call.Args, nil, "")
		body := n.block(lit.Body.List)
		if effectFree(body) {
			return skip
		}
		if deferred {
			return body
		}
		return &S{K: "Scope", A: []*S{body}, Str: "func literal " + c.g.l.pos(lit.Pos())}
	case "static":
		if !c.g.effectful(k.fd) {
			return &S{K: "Call", Str: k.name}
		}
		for _, f := range c.stack {
			if f == k.fd.fn {
				return c.unknown("recursive call of "+k.name+" (contains lock operations)", call.Pos())
			}
		}
		if c.depth >= c.g.maxDepth {
			return c.unknown(fmt.Sprintf("inlining depth %d exhausted at call of %s (contains lock operations)", c.g.maxDepth, k.name), call.Pos())
		}
		n := &ctx{g: c.g, pi: k.fd.pi, depth: c.depth + 1, stack: append(append([]*types.Func{}, c.stack...), k.fd.fn), r: c.r}
		rp := ""
		if k.recv != nil {
			rp = c.canon(k.recv) + k.rpath
		}
		n.subst = c.bindParamsIn(k.fd, call.Args, rp)
		body := n.block(k.fd.decl.Body.List)
		c.r.inl[k.name] = true
		if deferred {
			return body
		}
		return &S{K: "Scope", A: []*S{body}, Str: k.name + " " + c.g.l.pos(k.fd.decl.Pos())}
	}
	for _, x := range exitCalls {
		if strings.HasPrefix(k.name, x) {
			c.r.Fatals = append(c.r.Fatals, k.name+" at "+c.g.l.pos(call.Pos()))
			return &S{K: "Call", Str: "PROCESS-EXIT " + k.name}
		}
	}
	return &S{K: "Call", Str: k.name}
}

// bindParams: closure parameters -> argument paths (same package, shares the enclosing substitution)
func (c *ctx) bindParams(params *ast.FieldList, args []ast.Expr, into map[types.Object]string, _ string) map[types.Object]string {
	m := map[types.Object]string{}
	for k, v := range c.subst {
		m[k] = v
	}
	if params == nil {
		return m
	}
	i := 0
	for _, f := range params.List {
		_, variadic := f.Type.(*ast.Ellipsis)
		for _, nm := range f.Names {
			if !variadic && i < len(args) {
				if obj := c.pi.info.Defs[nm]; obj != nil {
					m[obj] = c.canon(args[i])
				}
			}
			i++
		}
		if len(f.Names) == 0 {
			i++
		}
	}
	return m
}

func (c *ctx) bindParamsIn(fd *funcDef, args []ast.Expr, recvPath string) map[types.Object]string {
	m := map[types.Object]string{}
	if fd.decl.Recv != nil && len(fd.decl.Recv.List) > 0 && len(fd.decl.Recv.List[0].Names) > 0 && recvPath != "" {
		if obj := fd.pi.info.Defs[fd.decl.Recv.List[0].Names[0]]; obj != nil {
			m[obj] = recvPath
		}
	}
	i := 0
	for _, f := range fd.decl.Type.Params.List {
		_, variadic := f.Type.(*ast.Ellipsis)
		for _, nm := range f.Names {
			if !variadic && i < len(args) {
				if obj := fd.pi.info.Defs[nm]; obj != nil {
					m[obj] = c.canon(args[i])
				}
			}
			i++
		}
		if len(f.Names) == 0 {
			i++
		}
	}
	return m
}

func countGotos(n ast.Node, label string) int {
	k := 0
	ast.Inspect(n, func(x ast.Node) bool {
		if b, ok := x.(*ast.BranchStmt); ok && b.Tok == token.GOTO && b.Label != nil && b.Label.Name == label {
			k++
		}
		return true
	})
	return k
}

// block translates a statement list. A label that is the target of goto statements of the same
// list is handled structurally:
//   backward (all gotos after the label):  pre; Loop (region; Break)   with goto = Continue
//   forward  (all gotos before the label): Loop (pre; Break); region   with goto = Break
// (the extra zero-iteration path of Loop only adds executions). Anything else stays Unknown.
func (c *ctx) block(list []ast.Stmt) *S {
	for k, st := range list {
		ls, ok := st.(*ast.LabeledStmt)
		if !ok {
			continue
		}
		label := ls.Label.Name
		fw, bw := 0, 0
		for i, x := range list {
			if i < k {
				fw += countGotos(x, label)
			} else {
				bw += countGotos(x, label)
			}
		}
		if fw+bw == 0 || (fw > 0 && bw > 0) {
			continue
		}
		region := append([]ast.Stmt{ls.Stmt}, list[k+1:]...)
		if bw > 0 {
			pre := c.block(list[:k])
			c.push("goto:C:" + label)
			body := c.block(region)
			c.pop()
			return seq(pre, &S{K: "Loop", A: []*S{seq(body, &S{K: "Break"})}})
		}
		c.push("goto:B:" + label)
		pre := c.block(list[:k])
		c.pop()
		return seq(&S{K: "Loop", A: []*S{seq(pre, &S{K: "Break"})}}, c.block(region))
	}
	var parts []*S
	for _, s := range list {
		parts = append(parts, c.stmt(s))
	}
	return seq(parts...)
}

// innermost loop-like entry of the break stack
func (c *ctx) innerLoop() string {
	for i := len(c.brk) - 1; i >= 0; i-- {
		if c.brk[i] != "switch" {
			return c.brk[i]
		}
	}
	return ""
}

func (c *ctx) push(k string) { c.brk = append(c.brk, k) }
func (c *ctx) pop()          { c.brk = c.brk[:len(c.brk)-1] }
func (c *ctx) inLoop() bool {
	for _, k := range c.brk {
		if k == "loop" {
			return true
		}
	}
	return false
}

func (c *ctx) clauseBody(list []ast.Stmt) *S {
	// a trailing unlabelled break of a switch/select clause is a no-op
	if n := len(list); n > 0 {
		if b, ok := list[n-1].(*ast.BranchStmt); ok && b.Tok == token.BREAK && b.Label == nil {
			list = list[:n-1]
		}
	}
	return c.block(list)
}

func (c *ctx) stmt(s ast.Stmt) *S {
	switch s := s.(type) {
	case nil:
		return skip
	case *ast.EmptyStmt:
		return skip
	case *ast.ExprStmt:
		return c.expr(s.X)
	case *ast.AssignStmt:
		return seq(c.exprs(s.Rhs), c.exprs(s.Lhs))
	case *ast.IncDecStmt:
		return c.expr(s.X)
	case *ast.DeclStmt:
		var parts []*S
		if gd, ok := s.Decl.(*ast.GenDecl); ok {
			for _, sp := range gd.Specs {
				if vs, ok := sp.(*ast.ValueSpec); ok {
					parts = append(parts, c.exprs(vs.Values))
				}
			}
		}
		return seq(parts...)
	case *ast.ReturnStmt:
		return seq(c.exprs(s.Results), &S{K: "Return"})
	case *ast.BlockStmt:
		return c.block(s.List)
	case *ast.LabeledStmt:
		return c.stmt(s.Stmt)
	case *ast.IfStmt:
		els := skip
		if s.Else != nil {
			els = c.stmt(s.Else)
		}
		return seq(c.stmt(s.Init), c.expr(s.Cond), alt(c.block(s.Body.List), els))
	case *ast.ForStmt:
		init := c.stmt(s.Init)
		cond := c.expr(s.Cond)
		c.push("loop")
		body := c.block(s.Body.List)
		c.pop()
		post := c.stmt(s.Post)
		if !effectFree(post) && contains(body, "Continue") {
			return c.unknown("continue in a loop whose post statement has lock operations", s.Pos())
		}
		return seq(init, &S{K: "Loop", A: []*S{seq(cond, body, post)}}, cond)
	case *ast.RangeStmt:
		c.push("loop")
		body := c.block(s.Body.List)
		c.pop()
		return seq(c.expr(s.X), &S{K: "Loop", A: []*S{body}})
	case *ast.SwitchStmt:
		var pre, alts []*S
		hasDefault := false
		c.push("switch")
		for _, cl := range s.Body.List {
			cc := cl.(*ast.CaseClause)
			if cc.List == nil {
				hasDefault = true
			}
			pre = append(pre, c.exprs(cc.List)) // case expressions: evaluated before any body runs
			alts = append(alts, c.clauseBody(cc.Body))
		}
		c.pop()
		if !hasDefault {
			alts = append(alts, skip)
		}
		return seq(c.stmt(s.Init), c.expr(s.Tag), alt(seq(pre...), skip), alt(alts...))
	case *ast.TypeSwitchStmt:
		var alts []*S
		hasDefault := false
		c.push("switch")
		for _, cl := range s.Body.List {
			cc := cl.(*ast.CaseClause)
			if cc.List == nil {
				hasDefault = true
			}
			alts = append(alts, c.clauseBody(cc.Body))
		}
		c.pop()
		if !hasDefault {
			alts = append(alts, skip)
		}
		return seq(c.stmt(s.Init), c.stmt(s.Assign), alt(alts...))
	case *ast.SelectStmt:
		hasDefault := false
		for _, cl := range s.Body.List {
			if cl.(*ast.CommClause).Comm == nil {
				hasDefault = true
			}
		}
		var alts []*S
		c.push("switch")
		for _, cl := range s.Body.List {
			cc := cl.(*ast.CommClause)
			var comm *S
			switch cm := cc.Comm.(type) {
			case nil:
				comm = skip
			case *ast.SendStmt:
				if hasDefault { // never blocks
					comm = seq(c.expr(cm.Chan), c.expr(cm.Value), &S{K: "Call", Str: "non-blocking send " + exprName(cm.Chan)})
				} else {
					comm = c.stmt(cm)
				}
			default:
				comm = c.stmt(cm)
			}
			alts = append(alts, seq(comm, c.clauseBody(cc.Body)))
		}
		c.pop()
		return alt(alts...)
	case *ast.SendStmt:
		p := c.canon(s.Chan)
		return seq(c.expr(s.Chan), c.expr(s.Value), &S{K: "Send", M: c.g.chanID(p)})
	case *ast.BranchStmt:
		switch s.Tok {
		case token.BREAK:
			if s.Label != nil {
				return c.unknown("labelled break", s.Pos())
			}
			if len(c.brk) > 0 && c.brk[len(c.brk)-1] == "loop" {
				return &S{K: "Break"}
			}
			return c.unknown("break out of a switch/select (not last in its clause) or across a goto region", s.Pos())
		case token.CONTINUE:
			if s.Label != nil || c.innerLoop() != "loop" {
				return c.unknown("labelled continue / continue across a goto region", s.Pos())
			}
			return &S{K: "Continue"}
		case token.GOTO:
			if s.Label != nil {
				switch c.innerLoop() {
				case "goto:C:" + s.Label.Name:
					return &S{K: "Continue"}
				case "goto:B:" + s.Label.Name:
					return &S{K: "Break"}
				}
			}
			return c.unknown("goto (not a jump within one statement list, or out of a loop)", s.Pos())
		}
		return c.unknown(s.Tok.String(), s.Pos())
	case *ast.GoStmt:
		return c.goStmt(s)
	case *ast.DeferStmt:
		return c.deferStmt(s)
	}
	return c.unknown(fmt.Sprintf("statement form %T", s), s.Pos())
}

func (c *ctx) deferStmt(s *ast.DeferStmt) *S {
	call := s.Call
	var pre []*S
	if se, ok := unparen(call.Fun).(*ast.SelectorExpr); ok {
		pre = append(pre, c.expr(se.X))
	}
	pre = append(pre, c.exprs(call.Args))
	k := c.g.classify(c.pi, c.canon, call)
	var d *S
	switch k.kind {
	case "mutex":
		switch k.op {
		case "Unlock":
			d = c.mutexOp("DeferUnlock", k.path)
		case "RUnlock":
			d = c.mutexOp("DeferRUnlock", k.path)
		default:
			d = &S{K: "Defer", A: []*S{c.mutexOp(k.op, k.path)}}
		}
	case "lit", "static":
		body := c.callEffect(call, true)
		if effectFree(body) {
			d = &S{K: "Call", Str: "defer " + k.name}
		} else if body.K == "Unknown" {
			d = body
		} else {
			d = &S{K: "Defer", A: []*S{body}, Str: k.name}
		}
	case "panic":
		d = &S{K: "Defer", A: []*S{{K: "Panic"}}}
	case "recover", "trylock":
		d = c.unknown("defer "+k.kind, s.Pos())
	default:
		d = &S{K: "Call", Str: "defer " + k.name}
	}
	return seq(seq(pre...), d)
}

func (c *ctx) goStmt(s *ast.GoStmt) *S {
	call := s.Call
	var pre []*S
	if se, ok := unparen(call.Fun).(*ast.SelectorExpr); ok {
		pre = append(pre, c.expr(se.X))
	}
	pre = append(pre, c.exprs(call.Args))
	k := c.g.classify(c.pi, c.canon, call)
	name := fmt.Sprintf("%s$go@%s", c.r.Name, c.g.l.pos(s.Pos()))
	if !c.g.goSeen[s.Pos()] {
		c.g.goSeen[s.Pos()] = true
		switch k.kind {
		case "lit":
			lit := unparen(call.Fun).(*ast.FuncLit)
			n := &ctx{g: c.g, pi: c.pi, depth: 0}
			sub := c.bindParams(lit.Type.Params, call.Args, nil, "")
			c.g.pending = append(c.g.pending, func() {
				r := c.g.newRoot(name, c.g.l.pos(lit.Pos()), "goroutine")
				n.r = r
				n.subst = sub
				r.term = n.block(lit.Body.List)
			})
		case "static":
			if c.g.effectful(k.fd) {
				rp := ""
				if k.recv != nil {
					rp = c.canon(k.recv) + k.rpath
				}
				sub := c.bindParamsIn(k.fd, call.Args, rp)
				fd := k.fd
				c.g.pending = append(c.g.pending, func() {
					r := c.g.newRoot(name+" "+fd.name, c.g.l.pos(fd.decl.Pos()), "goroutine")
					n := &ctx{g: c.g, pi: fd.pi, depth: 0, stack: []*types.Func{fd.fn}, r: r, subst: sub}
					r.term = n.block(fd.decl.Body.List)
				})
			}
		}
	}
	return seq(seq(pre...), &S{K: "Call", Str: "go " + k.name})
}

func (g *gen) newRoot(name, pos, kind string) *root {
	r := &root{Name: name, Pos: pos, Kind: kind, inl: map[string]bool{}, mus: map[string]bool{}}
	g.roots = append(g.roots, r)
	return r
}

func isHandlerType(ft *ast.FuncType) bool {
	if ft.Params == nil {
		return false
	}
	var ts []ast.Expr
	for _, f := range ft.Params.List {
		n := len(f.Names)
		if n == 0 {
			n = 1
		}
		for i := 0; i < n; i++ {
			ts = append(ts, f.Type)
		}
	}
	if len(ts) != 2 {
		return false
	}
	a, ok := ts[0].(*ast.SelectorExpr)
	if !ok || a.Sel.Name != "ResponseWriter" {
		return false
	}
	st, ok := ts[1].(*ast.StarExpr)
	if !ok {
		return false
	}
	b, ok := st.X.(*ast.SelectorExpr)
	return ok && b.Sel.Name == "Request"
}


// ---------------------------------------------------------------------------------- route table
// Only an aid for the request fuzzer (which handler a failing obligation belongs to is looked up
// here to direct the search); nothing of the proof depends on it.

type routeInfo struct {
	Methods []string `json:"methods"`
	Path    string   `json:"path"`
	Query   string   `json:"query"`
	Handler string   `json:"handler"`
	Pkg     string   `json:"pkg"`
}

func strLit(e ast.Expr) (string, bool) {
	if bl, ok := e.(*ast.BasicLit); ok && bl.Kind == token.STRING {
		s, err := strconv.Unquote(bl.Value)
		return s, err == nil
	}
	return "", false
}

func (g *gen) handlerRef(pi *pkgInfo, n ast.Node) string {
	name := ""
	ast.Inspect(n, func(x ast.Node) bool {
		if se, ok := x.(*ast.SelectorExpr); ok && name == "" {
			if sel := pi.info.Selections[se]; sel != nil {
				if fn, ok := sel.Obj().(*types.Func); ok {
					if fd := g.l.funcs[fn]; fd != nil && isHandlerType(fd.decl.Type) {
						name = fd.name
					}
				}
			}
		}
		return name == ""
	})
	return name
}

func (g *gen) routes(pi *pkgInfo) []routeInfo {
	var out []routeInfo
	for _, f := range pi.files {
		for _, d := range f.Decls {
			fd, ok := d.(*ast.FuncDecl)
			if !ok || fd.Body == nil {
				continue
			}
			actions := map[string]string{} // action name -> handler, from map literals
			ast.Inspect(fd.Body, func(x ast.Node) bool {
				if kv, ok := x.(*ast.KeyValueExpr); ok {
					if k, ok := strLit(kv.Key); ok {
						if h := g.handlerRef(pi, kv.Value); h != "" {
							actions[k] = h
						}
					}
				}
				return true
			})
			ast.Inspect(fd.Body, func(x ast.Node) bool {
				call, ok := x.(*ast.CallExpr)
				if !ok {
					return true
				}
				se, ok := call.Fun.(*ast.SelectorExpr)
				if !ok || se.Sel.Name != "Handler" {
					return true
				}
				ri := routeInfo{Pkg: g.l.shortPkg(pi)}
				dynQuery := false
				for cur := se.X; ; {
					c2, ok := cur.(*ast.CallExpr)
					if !ok {
						break
					}
					s2, ok := c2.Fun.(*ast.SelectorExpr)
					if !ok {
						break
					}
					switch s2.Sel.Name {
					case "Methods":
						for _, a := range c2.Args {
							if v, ok := strLit(a); ok {
								ri.Methods = append(ri.Methods, v)
							}
						}
					case "Path", "PathPrefix":
						if len(c2.Args) > 0 {
							ri.Path, _ = strLit(c2.Args[0])
						}
					case "Queries":
						if len(c2.Args) == 2 {
							k, _ := strLit(c2.Args[0])
							if v, ok := strLit(c2.Args[1]); ok {
								ri.Query = k + "=" + v
							} else {
								ri.Query = k + "="
								dynQuery = true
							}
						}
					}
					cur = s2.X
				}
				if dynQuery {
					var names []string
					for a := range actions {
						names = append(names, a)
					}
					sort.Strings(names)
					for _, a := range names {
						r := ri
						r.Query += a
						r.Handler = actions[a]
						out = append(out, r)
					}
					return true
				}
				if len(call.Args) > 0 {
					ri.Handler = g.handlerRef(pi, call.Args[0])
				}
				if ri.Path != "" {
					out = append(out, ri)
				}
				return true
			})
		}
	}
	return out
}

// ---------------------------------------------------------------------------------- printing

func coqString(s string) string { return "\"" + strings.ReplaceAll(s, "\"", "\"\"") + "\"" }

func coqComment(s string) string {
	s = strings.ReplaceAll(s, "(*", "( *")
	s = strings.ReplaceAll(s, "*)", "* )")
	return s
}

func (g *gen) muName(id int) string { return fmt.Sprintf("mu%d", id) }
func (g *gen) chName(id int) string { return fmt.Sprintf("ch%d", id) }

func (g *gen) print(b *strings.Builder, s *S, ind string) {
	switch s.K {
	case "Skip", "Return", "Break", "Continue", "Panic":
		b.WriteString(s.K)
	case "Unknown":
		b.WriteString("Unknown (* " + coqComment(s.Str) + " *)")
	case "Lock", "Unlock", "RLock", "RUnlock", "DeferUnlock", "DeferRUnlock":
		b.WriteString(s.K + " " + g.muName(s.M))
	case "Send":
		b.WriteString("Send " + g.chName(s.M))
	case "Call":
		b.WriteString("Call " + coqString(s.Str))
	case "Seq", "Alt":
		if s.K == "Seq" {
			b.WriteString("seqs [")
		} else {
			b.WriteString("alts [")
		}
		for i, a := range s.A {
			if i > 0 {
				b.WriteString(";")
			}
			b.WriteString("\n" + ind + "  ")
			g.print(b, a, ind+"  ")
		}
		b.WriteString("]")
	case "Loop":
		b.WriteString("Loop (")
		g.print(b, s.A[0], ind+"  ")
		b.WriteString(")")
	case "Scope", "Defer":
		b.WriteString(s.K + " ")
		if s.Str != "" {
			b.WriteString("(* " + coqComment(s.Str) + " *) ")
		}
		b.WriteString("(")
		g.print(b, s.A[0], ind+"  ")
		b.WriteString(")")
	default:
		b.WriteString("Unknown")
	}
}

func main() {
	if len(os.Args) < 3 {
		fmt.Fprintln(os.Stderr, "usage: restgen <out.v> <out.json> [-depth N]")
		os.Exit(2)
	}
	repo := os.Getenv("JIVA_REPO")
	if repo == "" {
		repo = "/repo"
	}
	repo, _ = filepath.Abs(repo)
	depth := 8
	for i := 3; i+1 < len(os.Args); i++ {
		if os.Args[i] == "-depth" {
			depth, _ = strconv.Atoi(os.Args[i+1])
		}
	}
	fset := token.NewFileSet()
	l := &loader{fset: fset, repo: repo, mod: modulePath(repo), pkgs: map[string]*pkgInfo{},
		gc: importer.ForCompiler(fset, "gc", nil), src: importer.ForCompiler(fset, "source", nil),
		other: map[string]*types.Package{}, funcs: map[*types.Func]*funcDef{}, loading: map[string]bool{}}
	g := &gen{l: l, maxDepth: depth, effMemo: map[*types.Func]int{}, mutexIDs: map[string]int{},
		chanIDs: map[string]int{}, goSeen: map[token.Pos]bool{}, inPkgs: map[string]bool{}, restPkgs: map[string]bool{}}
	restPkgs := []string{l.mod + "/controller/rest", l.mod + "/replica/rest"}
	for _, p := range restPkgs {
		g.restPkgs[p] = true
	}
	for _, p := range append(append([]string{}, restPkgs...), l.mod+"/controller", l.mod+"/replica") {
		g.inPkgs[p] = true
		if _, err := l.load(p); err != nil {
			fmt.Fprintf(os.Stderr, "restgen: cannot load %s: %v\n", p, err)
			os.Exit(3)
		}
	}
	if sp, ok := l.other["sync"]; !ok || sp.Scope().Lookup("RWMutex") == nil {
		l.notes = append(l.notes, "package sync not importable: mutex operations recognised by method name only")
	}

	// roots: handler-typed functions and function literals of the two rest packages
	for _, p := range restPkgs {
		pi := l.pkgs[p]
		for _, f := range pi.files {
			for _, d := range f.Decls {
				fd, ok := d.(*ast.FuncDecl)
				if !ok || fd.Body == nil {
					continue
				}
				if isHandlerType(fd.Type) {
					def := l.funcs[pi.info.Defs[fd.Name].(*types.Func)]
					r := g.newRoot(def.name, l.pos(fd.Pos()), "handler")
					c := &ctx{g: g, pi: pi, r: r, subst: map[types.Object]string{}, stack: []*types.Func{def.fn}}
					if fd.Recv != nil && len(fd.Recv.List) > 0 && len(fd.Recv.List[0].Names) > 0 {
						nm := fd.Recv.List[0].Names[0]
						if obj := pi.info.Defs[nm]; obj != nil {
							c.subst[obj] = nm.Name
						}
					}
					r.term = c.block(fd.Body.List)
				}
				ast.Inspect(fd.Body, func(x ast.Node) bool {
					lit, ok := x.(*ast.FuncLit)
					if !ok || !isHandlerType(lit.Type) {
						return true
					}
					r := g.newRoot(l.funcName(pi, fd)+"$handler@"+l.pos(lit.Pos()), l.pos(lit.Pos()), "handler")
					c := &ctx{g: g, pi: pi, r: r, subst: map[types.Object]string{}}
					r.term = c.block(lit.Body.List)
					return true
				})
			}
		}
	}
	for len(g.pending) > 0 {
		p := g.pending[0]
		g.pending = g.pending[1:]
		p()
	}

	var b strings.Builder
	b.WriteString("(* GENERATED by harness/cmd/restgen from " + repo + " on every run of the C14 check. Do not edit, do not commit. *)\n")
	b.WriteString("From Coq Require Import List Bool String.\nFrom Jiva Require Import Rest.Lang Rest.Proofs.\nImport ListNotations.\nOpen Scope string_scope.\n\n")
	for i, m := range g.mutexes {
		fmt.Fprintf(&b, "Definition %s : mutex := %d. (* %s *)\n", g.muName(i), i, coqComment(m))
	}
	for i, m := range g.chans {
		fmt.Fprintf(&b, "Definition %s : chan := %d. (* %s *)\n", g.chName(i), i, coqComment(m))
	}
	b.WriteString("\n")
	for i, r := range g.roots {
		fmt.Fprintf(&b, "(* %s  %s  (%s) *)\nDefinition h%d : stmt :=\n  ", coqComment(r.Name), r.Pos, r.Kind, i)
		g.print(&b, r.term, "  ")
		b.WriteString(".\n\n")
		r.Size = size(r.term)
		for k := range r.inl {
			r.Inlined = append(r.Inlined, k)
		}
		sort.Strings(r.Inlined)
		for k := range r.mus {
			r.Mutexes = append(r.Mutexes, k)
		}
		sort.Strings(r.Mutexes)
		if r.Inlined == nil {
			r.Inlined = []string{}
		}
		if r.Mutexes == nil {
			r.Mutexes = []string{}
		}
		if r.Unknowns == nil {
			r.Unknowns = []string{}
		}
		if r.Fatals == nil {
			r.Fatals = []string{}
		}
	}
	b.WriteString("Definition named_handlers : list (string * stmt) := [\n")
	for i, r := range g.roots {
		sep := ";"
		if i == len(g.roots)-1 {
			sep = ""
		}
		fmt.Fprintf(&b, "  (%s, h%d)%s\n", coqString(r.Name), i, sep)
	}
	b.WriteString("].\nDefinition handlers : list stmt := map snd named_handlers.\n")
	if err := os.WriteFile(os.Args[1], []byte(b.String()), 0o644); err != nil {
		fmt.Fprintln(os.Stderr, err)
		os.Exit(3)
	}
	var rts []routeInfo
	for _, p := range restPkgs {
		rts = append(rts, g.routes(l.pkgs[p])...)
	}
	meta := map[string]interface{}{"routes": rts, "repo": repo, "module": l.mod, "roots": g.roots, "mutexes": g.mutexes,
		"channels": g.chans, "notes": l.notes, "depth": depth}
	jb, _ := json.MarshalIndent(meta, "", " ")
	if err := os.WriteFile(os.Args[2], jb, 0o644); err != nil {
		fmt.Fprintln(os.Stderr, err)
		os.Exit(3)
	}
}
