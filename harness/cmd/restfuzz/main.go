// Command restfuzz drives the REAL management routers of jiva (controller/rest with a real
// controller.Controller over scripted fake backends; replica/rest with a real replica.Server on a
// directory) with request sequences, one fresh CHILD process per sequence, and records after
// every request what property C14 is about: status code, a handler panic, a request that never
// returns, a liveness probe, TryLock on the exported embedded mutex of the API object, and
// whether the child is still alive.
//
//	restfuzz run <in.jsonl> <out.jsonl> <workdir> [workers]     cases in, observations out
//	restfuzz child <workdir> <ipbyte>                            one case on stdin (used by run)
//	restfuzz routes <out.json> <workdir>                         the routes of both real routers (mux Walk)
package main

import (
	"bufio"
	"bytes"
	"encoding/base64"
	"encoding/json"
	"fmt"
	"io"
	"log"
	"net"
	"net/http"
	"os"
	"os/exec"
	"path/filepath"
	"runtime"
	"runtime/debug"
	"strconv"
	"strings"
	"sync"
	"sync/atomic"
	"syscall"
	"time"

	"github.com/gorilla/mux"
	"github.com/openebs/jiva/controller"
	crest "github.com/openebs/jiva/controller/rest"
	"github.com/openebs/jiva/replica"
	rrest "github.com/openebs/jiva/replica/rest"
	"github.com/openebs/jiva/types"
	"github.com/rancher/go-rancher/client"

	"jivaverif/harness/hx"
)

// ---------------------------------------------------------------------------------- case format

type BodyGen struct {
	Kind string `json:"kind"` // big | deep
	N    int    `json:"n"`
	Pre  string `json:"pre"`
	Post string `json:"post"`
}

type Req struct {
	M    string   `json:"m"`
	P    string   `json:"p"` // path; "{vol}" and "{rep<i>}" are replaced by the valid ids of this child
	Q    string   `json:"q,omitempty"`
	B    string   `json:"b,omitempty"` // body; "{addr<i>}" replaced by the i-th fake replica address
	BGen *BodyGen `json:"bgen,omitempty"`
	To   int      `json:"to,omitempty"` // ms to wait for the response (default 5000)
	Tag  string   `json:"tag,omitempty"`
	// Mid: a second request issued after this request's headers were sent (its handler has been
	// dispatched and waits for the body) and answered before the body is sent: a state change racing
	// with a request that already passed the router's state gate
	Mid *Req `json:"mid,omitempty"`
	// Dup: the same request is sent twice at the same moment (a client retry overlapping the original)
	Dup bool `json:"dup,omitempty"`
}

type RepState struct {
	Mode     string   `json:"mode"`            // RW | WO | ERR
	Override *[]string `json:"chain,omitempty"` // chain reported after setup (nil: whatever setup produced)
	Rev      int64    `json:"rev,omitempty"`
	IP       string   `json:"ip,omitempty"` // address of this fake instead of the default 127.x.0.y (e.g. "[::1]")
}

type State struct {
	Kind     string     `json:"kind"`               // replica: initial|closed|open|dirty|rebuilding ; controller: free text
	RF       int        `json:"rf,omitempty"`       // controller
	Replicas []RepState `json:"replicas,omitempty"` // controller: attached fakes (the first must be RW)
	Spare    int        `json:"spare,omitempty"`    // controller: additional fake replicas listening but not attached
	Snaps    int        `json:"snaps,omitempty"`    // snapshots taken during setup
}

type Case struct {
	ID     int    `json:"id"`
	Target string `json:"target"` // controller | replica
	State  State  `json:"state"`
	Reqs   []Req  `json:"reqs"`
	// Load (controller): four goroutines issue WriteAt / ReadAt through the controller while each request is
	// in flight, so that a writer is almost always waiting for the controller lock (a handler that takes the
	// read lock twice then deadlocks; on an idle controller it does not)
	Load bool `json:"load,omitempty"`
}

type Res struct {
	St     int    `json:"st"`            // HTTP status, 0 when no response
	Err    string `json:"err,omitempty"` // transport error / timeout
	Ms     int64  `json:"ms"`
	Panic  string `json:"panic,omitempty"`
	Stack  string `json:"stack,omitempty"`
	Probe  bool   `json:"probe"`
	Lock   string `json:"lock"` // free | held
	BodyLock string `json:"bodylock,omitempty"` // held: the API object's mutex was held while the handler waited for the request body
	Body   string `json:"body,omitempty"`
	Skipped bool  `json:"skipped,omitempty"`
}

type Out struct {
	ID        int      `json:"id"`
	SetupErr  string   `json:"setup_err,omitempty"`
	Res       []Res    `json:"res"`
	Exit      string   `json:"exit"` // ok | exit:<code> | signal:<n> | killed-on-timeout
	Stderr    string   `json:"stderr,omitempty"`
	Violation string   `json:"violation,omitempty"` // child-died | panic | hang | probe-failed | lock-held
	At        int      `json:"at"`                  // index of the request at which the violation showed
	Ids       []string `json:"ids,omitempty"`
}

// ---------------------------------------------------------------------------------- fakes

type fakeRep struct {
	mu         sync.Mutex
	addr       string
	chain      []string
	checkpoint string
	rev        int64
	mode       types.Mode
	rebuilding bool
	size       int64
	mon        types.MonitorChannel
	snapSeq    int
}

func (f *fakeRep) ReadAt(b []byte, off int64) (int, error)  { return len(b), nil }
func (f *fakeRep) WriteAt(b []byte, off int64) (int, error) { f.mu.Lock(); f.rev++; f.mu.Unlock(); return len(b), nil }
func (f *fakeRep) Close() error                             { return nil }
func (f *fakeRep) Sync() (int, error)                       { return 0, nil }
func (f *fakeRep) Unmap(int64, int64) (int, error)          { return 0, nil }
func (f *fakeRep) Snapshot(name string, userCreated bool, created string) error {
	f.mu.Lock()
	defer f.mu.Unlock()
	f.snapSeq++
	head := fmt.Sprintf("volume-head-%03d.img", f.snapSeq)
	snap := "volume-snap-" + name + ".img"
	if len(f.chain) == 0 {
		f.chain = []string{head}
		return nil
	}
	f.chain = append([]string{head, snap}, f.chain[1:]...)
	return nil
}
func (f *fakeRep) GetReplicaChain() ([]string, error) {
	f.mu.Lock()
	defer f.mu.Unlock()
	return append([]string{}, f.chain...), nil
}
func (f *fakeRep) SetCheckpoint(s string) error { f.mu.Lock(); f.checkpoint = s; f.mu.Unlock(); return nil }
func (f *fakeRep) Resize(name string, size string) error { return nil }
func (f *fakeRep) Size() (int64, error)                  { return f.size, nil }
func (f *fakeRep) SectorSize() (int64, error)            { return 4096, nil }
func (f *fakeRep) RemainSnapshots() (int, error)         { return 200, nil }
func (f *fakeRep) GetRevisionCounter() (int64, error)    { f.mu.Lock(); defer f.mu.Unlock(); return f.rev, nil }
func (f *fakeRep) GetCloneStatus() (string, error)       { return "completed", nil }
func (f *fakeRep) GetVolUsage() (types.VolUsage, error)  { return types.VolUsage{RevisionCounter: f.rev, SectorSize: 4096}, nil }
func (f *fakeRep) SetReplicaMode(m types.Mode) error     { f.mu.Lock(); f.mode = m; f.mu.Unlock(); return nil }
func (f *fakeRep) SetRevisionCounter(c int64) error      { f.mu.Lock(); f.rev = c; f.mu.Unlock(); return nil }
func (f *fakeRep) SetRebuilding(b bool) error            { f.mu.Lock(); f.rebuilding = b; f.mu.Unlock(); return nil }
func (f *fakeRep) GetMonitorChannel() types.MonitorChannel { return f.mon }
func (f *fakeRep) StopMonitoring()                         {}

// the replica's own REST face, as far as the controller talks plain HTTP to it
func (f *fakeRep) ServeHTTP(w http.ResponseWriter, r *http.Request) {
	f.mu.Lock()
	rep := rrest.Replica{Resource: client.Resource{Id: "1", Type: "replica", Actions: map[string]string{}, Links: map[string]string{}}}
	rep.Chain = append([]string{}, f.chain...)
	if len(f.chain) > 0 {
		rep.Head = f.chain[0]
	}
	rep.Checkpoint = f.checkpoint
	rep.RevisionCounter = strconv.FormatInt(f.rev, 10)
	rep.ReplicaMode = string(f.mode)
	rep.State = "open"
	rep.Size = strconv.FormatInt(f.size, 10)
	rep.SectorSize = 4096
	rep.CloneStatus = "completed"
	rep.RemainSnapshots = 200
	rep.Disks = map[string]types.DiskInfo{}
	for i, d := range f.chain {
		parent := ""
		if i+1 < len(f.chain) {
			parent = f.chain[i+1]
		}
		rep.Disks[d] = types.DiskInfo{Name: d, Parent: parent, UserCreated: true}
	}
	f.mu.Unlock()
	io.Copy(io.Discard, r.Body)
	w.Header().Set("Content-Type", "application/json")
	switch {
	case strings.Contains(r.URL.RawQuery, "prepareremovedisk"):
		json.NewEncoder(w).Encode(map[string]interface{}{"type": "prepareRemoveDiskOutput", "operations": []interface{}{}})
	default:
		json.NewEncoder(w).Encode(rep)
	}
}

type fakeFactory struct {
	mu   sync.Mutex
	reps map[string]*fakeRep
}

// connecting to a replica takes time (the controller drops its lock meanwhile): once the setup is over every
// Create lasts 40 ms, so that two overlapping requests are both inside it
var slowCreate int32

func (ff *fakeFactory) Create(address string) (types.Backend, error) {
	if atomic.LoadInt32(&slowCreate) == 1 {
		time.Sleep(40 * time.Millisecond)
	}
	ff.mu.Lock()
	defer ff.mu.Unlock()
	if r, ok := ff.reps[address]; ok {
		return r, nil
	}
	return nil, fmt.Errorf("fake factory: nobody listens at %q", address)
}
func (ff *fakeFactory) SignalToAdd(string, string) error { return nil }
func (ff *fakeFactory) VerifyReplicaAlive(string) bool   { return true }

type stubFrontend struct {
	mu sync.Mutex
	up bool
}

func (s *stubFrontend) Startup(name, frontendIP, clusterIP string, size, sectorSize int64, rw types.IOs) error {
	s.mu.Lock()
	s.up = true
	s.mu.Unlock()
	return nil
}
func (s *stubFrontend) Shutdown() error { s.mu.Lock(); s.up = false; s.mu.Unlock(); return nil }
func (s *stubFrontend) State() types.State {
	s.mu.Lock()
	defer s.mu.Unlock()
	if s.up {
		return types.StateUp
	}
	return types.StateDown
}
func (s *stubFrontend) Stats() types.Stats   { return types.Stats{SCSIIOCount: map[int]int64{}} }
func (s *stubFrontend) Resize(uint64) error  { return nil }

// ---------------------------------------------------------------------------------- child

type locker interface {
	TryLock() bool
	Unlock()
}

type child struct {
	target  string
	router  http.Handler
	lock    locker
	base    string // http://ip:port of the API under test
	ids     map[string]string
	addrs   []string
	probe   string
	panicMu sync.Mutex
	lastP   string
	lastS   string
	bodyLock string
	ctrl    *controller.Controller
	loadOn  int32
}

func (ch *child) serve(listen string, h http.Handler) error {
	ln, err := net.Listen("tcp", listen)
	if err != nil {
		return err
	}
	wrapped := http.HandlerFunc(func(w http.ResponseWriter, r *http.Request) {
		defer func() {
			if p := recover(); p != nil {
				ch.panicMu.Lock()
				ch.lastP = fmt.Sprint(p)
				ch.lastS = string(debug.Stack())
				ch.panicMu.Unlock()
				panic(p) // net/http's own recovery goes on as in production
			}
		}()
		h.ServeHTTP(w, r)
	})
	srv := &http.Server{Handler: wrapped, ErrorLog: log.New(io.Discard, "", 0)}
	go srv.Serve(ln)
	return nil
}

func listenFake(ip string, f *fakeRep) error {
	ln, err := net.Listen("tcp", ip+":9502")
	if err != nil {
		return err
	}
	go http.Serve(ln, f)
	return nil
}

func withDeadline(d time.Duration, f func() error) error {
	done := make(chan error, 1)
	go func() { done <- f() }()
	select {
	case err := <-done:
		return err
	case <-time.After(d):
		return fmt.Errorf("setup step did not return within %v", d)
	}
}

func (ch *child) setupController(st State, ipb int) error {
	rf := st.RF
	if rf == 0 {
		rf = 3
	}
	os.Setenv("REPLICATION_FACTOR", strconv.Itoa(rf))
	ff := &fakeFactory{reps: map[string]*fakeRep{}}
	fe := &stubFrontend{}
	c := controller.NewController(controller.WithBackend(ff), controller.WithFrontend(fe, ""),
		controller.WithName("vol"), controller.WithRF(rf))
	ch.lock = c
	ch.ctrl = c
	ch.router = crest.NewRouter(crest.NewServer(c))
	ch.ids["vol"] = base64.StdEncoding.EncodeToString([]byte("vol"))
	n := len(st.Replicas) + st.Spare
	var fakes []*fakeRep
	for i := 0; i < n; i++ {
		ip := fmt.Sprintf("127.%d.0.%d", ipb, i+1)
		if i < len(st.Replicas) && st.Replicas[i].IP != "" {
			ip = st.Replicas[i].IP
		}
		addr := "tcp://" + ip + ":9502"
		f := &fakeRep{addr: addr, chain: []string{"volume-head-000.img"}, mode: types.Mode("INIT"), size: 1 << 30,
			mon: make(types.MonitorChannel, 1), rev: 1}
		if i < len(st.Replicas) && st.Replicas[i].Rev != 0 {
			f.rev = st.Replicas[i].Rev
		}
		if err := listenFake(ip, f); err != nil {
			return err
		}
		ff.reps[addr] = f
		fakes = append(fakes, f)
		ch.addrs = append(ch.addrs, addr)
		ch.ids[fmt.Sprintf("rep%d", i)] = base64.StdEncoding.EncodeToString([]byte(addr))
	}
	for i, rs := range st.Replicas {
		addr := ch.addrs[i]
		if i == 0 {
			// bootstrap as in production: enough replicas register, the controller elects the one
			// with the highest revision count and signals it to start
			ip0 := strings.TrimSuffix(strings.TrimPrefix(addr, "tcp://"), ":9502")
			for k := 0; k < rf/2+1; k++ {
				reg := types.RegReplica{Address: ip0, UUID: "uuid-0", RevCount: 100, RepType: "Backend", RepState: "closed"}
				if k > 0 {
					reg = types.RegReplica{Address: fmt.Sprintf("127.%d.1.%d", ipb, k), UUID: fmt.Sprintf("uuid-x%d", k), RevCount: 1, RepType: "Backend", RepState: "closed"}
				}
				if err := withDeadline(10*time.Second, func() error { return c.RegisterReplica(reg) }); err != nil {
					return fmt.Errorf("register: %v", err)
				}
			}
			if !c.StartSignalled || c.MaxRevReplica != ip0 {
				c.MaxRevReplica, c.StartSignalled = ip0, true
			}
			if err := withDeadline(10*time.Second, func() error { return c.Start(addr) }); err != nil {
				return fmt.Errorf("start %s: %v", addr, err)
			}
			continue
		}
		if err := withDeadline(10*time.Second, func() error { return c.AddReplica(addr) }); err != nil {
			return fmt.Errorf("add %s: %v", addr, err)
		}
		switch rs.Mode {
		case "RW":
			// a rebuilt replica has the chain of the RW replica it was rebuilt from
			fakes[i].mu.Lock()
			fakes[0].mu.Lock()
			fakes[i].chain = append([]string{}, fakes[0].chain...)
			fakes[0].mu.Unlock()
			fakes[i].mu.Unlock()
			if err := withDeadline(10*time.Second, func() error { return c.VerifyRebuildReplica(addr) }); err != nil {
				return fmt.Errorf("verify %s: %v", addr, err)
			}
		case "ERR":
			if err := withDeadline(10*time.Second, func() error { return c.SetReplicaMode(addr, types.ERR) }); err != nil {
				return fmt.Errorf("setmode %s: %v", addr, err)
			}
		}
	}
	for k := 0; k < st.Snaps && len(st.Replicas) > 0; k++ {
		// only possible with rf RW replicas; otherwise the controller refuses and the state has fewer snapshots
		_ = withDeadline(10*time.Second, func() error { _, e := c.Snapshot(fmt.Sprintf("s%d", k)); return e })
	}
	for i, rs := range st.Replicas {
		if rs.Override != nil {
			fakes[i].mu.Lock()
			fakes[i].chain = append([]string{}, (*rs.Override)...)
			fakes[i].mu.Unlock()
		}
	}
	ch.probe = "/v1/volumes"
	return nil
}

type rwLocker struct{ s *replica.Server }

func (r rwLocker) TryLock() bool { return r.s.TryLock() }
func (r rwLocker) Unlock()       { r.s.Unlock() }

func (ch *child) setupReplica(st State, dir string, ipb int) error {
	hx.StartHoles()
	addr := fmt.Sprintf("127.%d.0.200:9502", ipb)
	s := replica.NewServer(addr, dir, 4096, "")
	ch.lock = rwLocker{s}
	ch.router = rrest.NewRouter(rrest.NewServer(s))
	ch.ids["vol"] = "1"
	ch.ids["rep0"] = "1"
	step := func(name string, f func() error) error {
		if err := withDeadline(10*time.Second, f); err != nil {
			return fmt.Errorf("%s: %v", name, err)
		}
		return nil
	}
	kind := st.Kind
	if kind != "initial" {
		if err := step("create", func() error { return s.Create(8 * 4096) }); err != nil {
			return err
		}
	}
	if kind == "open" || kind == "dirty" || kind == "rebuilding" {
		if err := step("open", func() error { return s.Open() }); err != nil {
			return err
		}
	}
	if kind == "dirty" {
		if err := step("setmode", func() error { return s.SetReplicaMode("RW") }); err != nil {
			return err
		}
		if err := step("write", func() error { _, e := s.WriteAt(make([]byte, 4096), 0); return e }); err != nil {
			return err
		}
		for k := 0; k < st.Snaps; k++ {
			name := fmt.Sprintf("s%d", k)
			if err := step("snapshot", func() error { return s.Snapshot(name, true, "2026-01-01T00:00:00Z") }); err != nil {
				return err
			}
			if err := step("write", func() error { _, e := s.WriteAt(make([]byte, 4096), 4096); return e }); err != nil {
				return err
			}
		}
	}
	if kind == "rebuilding" {
		if err := step("setrebuilding", func() error { return s.SetRebuilding(true) }); err != nil {
			return err
		}
	}
	ch.probe = "/ping"
	return nil
}

func (ch *child) subst(s string) string {
	for k, v := range ch.ids {
		s = strings.ReplaceAll(s, "{"+k+"}", v)
	}
	for i, a := range ch.addrs {
		s = strings.ReplaceAll(s, fmt.Sprintf("{addr%d}", i), a)
		s = strings.ReplaceAll(s, fmt.Sprintf("{ip%d}", i), strings.TrimSuffix(strings.TrimPrefix(a, "tcp://"), ":9502"))
	}
	return s
}

func bodyOf(r Req, sub func(string) string) []byte {
	if r.BGen != nil {
		var b bytes.Buffer
		b.WriteString(sub(r.BGen.Pre))
		switch r.BGen.Kind {
		case "big":
			b.Write(bytes.Repeat([]byte("A"), r.BGen.N))
		case "deep":
			b.Write(bytes.Repeat([]byte("["), r.BGen.N))
			b.Write(bytes.Repeat([]byte("]"), r.BGen.N))
		case "deepobj":
			b.Write(bytes.Repeat([]byte(`{"a":`), r.BGen.N))
			b.WriteString("1")
			b.Write(bytes.Repeat([]byte("}"), r.BGen.N))
		}
		b.WriteString(sub(r.BGen.Post))
		return b.Bytes()
	}
	return []byte(sub(r.B))
}

// rawRequest sends the request bytes as they are (so that any method, path and id encoding can be
// tried) and reads one response.
func (ch *child) rawRequest(host string, r Req, timeout time.Duration) (int, string, error) {
	conn, err := net.DialTimeout("tcp", host, 2*time.Second)
	if err != nil {
		return 0, "", err
	}
	defer conn.Close()
	conn.SetDeadline(time.Now().Add(timeout))
	body := bodyOf(r, ch.subst)
	target := ch.subst(r.P)
	if r.Q != "" {
		target += "?" + ch.subst(r.Q)
	}
	var b bytes.Buffer
	fmt.Fprintf(&b, "%s %s HTTP/1.1\r\nHost: %s\r\nConnection: close\r\nContent-Type: application/json\r\nContent-Length: %d\r\n\r\n", r.M, target, host, len(body))
	if r.Mid != nil {
		if _, err := conn.Write(b.Bytes()); err == nil {
			b.Reset()
			time.Sleep(60 * time.Millisecond)
			// the handler (if the router dispatched one) now waits for the body
			ch.bodyLock = "free"
			if !ch.lockFree(400 * time.Millisecond) {
				ch.bodyLock = "held"
			}
			mid := *r.Mid
			mid.Mid = nil
			ch.rawRequest(host, mid, 1500*time.Millisecond)
			conn.SetDeadline(time.Now().Add(timeout))
		}
	}
	b.Write(body)
	if _, err := conn.Write(b.Bytes()); err != nil {
		// the server may answer (and close) before a huge body is fully written: still read the answer
		_ = err
	}
	resp, err := http.ReadResponse(bufio.NewReader(conn), nil)
	if err != nil {
		return 0, "", err
	}
	defer resp.Body.Close()
	rb, _ := io.ReadAll(io.LimitReader(resp.Body, 300))
	return resp.StatusCode, string(rb), nil
}

func (ch *child) lockFree(wait time.Duration) bool {
	deadline := time.Now().Add(wait)
	for {
		if ch.lock.TryLock() {
			ch.lock.Unlock()
			return true
		}
		if time.Now().After(deadline) {
			return false
		}
		time.Sleep(5 * time.Millisecond)
	}
}

func childMain(workdir string, ipb int) {
	hx.Quiet()
	var c Case
	dec := json.NewDecoder(bufio.NewReaderSize(os.Stdin, 1<<20))
	if err := dec.Decode(&c); err != nil {
		fmt.Fprintln(os.Stderr, "child: bad case:", err)
		os.Exit(3)
	}
	out := json.NewEncoder(os.Stdout)
	ch := &child{target: c.Target, ids: map[string]string{}}
	var err error
	host := fmt.Sprintf("127.%d.0.100:9501", ipb)
	if c.Target == "controller" {
		err = ch.setupController(c.State, ipb)
	} else {
		dir := filepath.Join(workdir, "vol")
		os.RemoveAll(dir)
		os.MkdirAll(dir, 0o755)
		err = ch.setupReplica(c.State, dir, ipb)
	}
	if err == nil {
		err = ch.serve(host, ch.router)
	}
	if err != nil {
		out.Encode(map[string]string{"setup_err": err.Error()})
		os.Exit(0)
	}
	var idl []string
	for k, v := range ch.ids {
		idl = append(idl, k+"="+v)
	}
	out.Encode(map[string]interface{}{"setup": "ok", "ids": idl})
	if c.Load && ch.ctrl != nil {
		for g := 0; g < 4; g++ {
			go func(g int) {
				buf := make([]byte, 4096)
				for {
					if atomic.LoadInt32(&ch.loadOn) == 1 {
						ch.ctrl.WriteAt(buf, int64(g)*4096)
						ch.ctrl.ReadAt(buf, int64(g)*4096)
					} else {
						time.Sleep(time.Millisecond)
					}
				}
			}(g)
		}
	}
	wedged := false
	for _, r := range c.Reqs {
		if wedged {
			out.Encode(Res{Skipped: true})
			continue
		}
		to := time.Duration(r.To) * time.Millisecond
		if r.To == 0 {
			to = 5 * time.Second
		}
		ch.panicMu.Lock()
		ch.lastP, ch.lastS = "", ""
		ch.panicMu.Unlock()
		t0 := time.Now()
		ch.bodyLock = ""
		if c.Load {
			atomic.StoreInt32(&ch.loadOn, 1)
			time.Sleep(5 * time.Millisecond)
		}
		var twin chan struct{}
		if r.Dup {
			atomic.StoreInt32(&slowCreate, 1)
			twin = make(chan struct{})
			go func() { ch.rawRequest(host, r, to); close(twin) }()
		}
		st, body, rerr := ch.rawRequest(host, r, to)
		if twin != nil {
			<-twin
			atomic.StoreInt32(&slowCreate, 0)
		}
		atomic.StoreInt32(&ch.loadOn, 0)
		res := Res{St: st, Ms: time.Since(t0).Milliseconds(), Body: body, BodyLock: ch.bodyLock}
		if rerr != nil {
			res.Err = rerr.Error()
		}
		ch.panicMu.Lock()
		res.Panic, res.Stack = ch.lastP, ch.lastS
		ch.panicMu.Unlock()
		if st == 0 && res.Panic == "" && rerr != nil && strings.Contains(rerr.Error(), "timeout") {
			// a request that does not return: where is its goroutine?
			buf := make([]byte, 1<<20)
			buf = buf[:runtime.Stack(buf, true)]
			for _, g := range strings.Split(string(buf), "\n\n") {
				if strings.Contains(g, "/rest.(*Server).") && !strings.Contains(g, "restfuzz") || strings.Contains(g, "rest.(*Server)") {
					res.Stack += g + "\n\n"
				}
			}
		}
		if len(res.Stack) > 4000 {
			res.Stack = res.Stack[:4000]
		}
		// liveness: a well-formed request afterwards is still served, within 2 s
		pst, _, perr := ch.rawRequest(host, Req{M: "GET", P: ch.probe}, 2*time.Second)
		res.Probe = perr == nil && pst == 200
		if ch.lockFree(2 * time.Second) {
			res.Lock = "free"
		} else {
			res.Lock = "held"
		}
		if !res.Probe || res.Lock == "held" || (st == 0 && res.Panic == "") {
			wedged = true
		}
		out.Encode(res)
	}
	os.Exit(0)
}

// ---------------------------------------------------------------------------------- parent

func runCase(self string, c Case, workdir string, ipb int) Out {
	o := Out{ID: c.ID, At: -1}
	wd := filepath.Join(workdir, fmt.Sprintf("c%d", c.ID))
	os.MkdirAll(wd, 0o755)
	defer os.RemoveAll(wd)
	cmd := exec.Command(self, "child", wd, strconv.Itoa(ipb))
	cmd.Env = append(os.Environ(), "GOTRACEBACK=single")
	in, _ := json.Marshal(c)
	cmd.Stdin = bytes.NewReader(in)
	var stderr bytes.Buffer
	cmd.Stderr = &stderr
	stdout, _ := cmd.StdoutPipe()
	if err := cmd.Start(); err != nil {
		o.SetupErr = err.Error()
		return o
	}
	budget := 30 * time.Second
	for _, r := range c.Reqs {
		if r.To == 0 {
			budget += 10 * time.Second
		} else {
			budget += time.Duration(r.To)*time.Millisecond + 5*time.Second
		}
	}
	killed := false
	timer := time.AfterFunc(budget, func() { killed = true; cmd.Process.Kill() })
	sc := bufio.NewScanner(stdout)
	sc.Buffer(make([]byte, 1<<20), 1<<24)
	first := true
	for sc.Scan() {
		line := sc.Bytes()
		if first {
			first = false
			var hdr map[string]interface{}
			json.Unmarshal(line, &hdr)
			if e, ok := hdr["setup_err"].(string); ok {
				o.SetupErr = e
			}
			if ids, ok := hdr["ids"].([]interface{}); ok {
				for _, x := range ids {
					o.Ids = append(o.Ids, fmt.Sprint(x))
				}
			}
			continue
		}
		var r Res
		if json.Unmarshal(line, &r) == nil {
			o.Res = append(o.Res, r)
		}
	}
	err := cmd.Wait()
	timer.Stop()
	o.Exit = "ok"
	if killed {
		o.Exit = "killed-on-timeout"
	} else if err != nil {
		if ee, ok := err.(*exec.ExitError); ok {
			if ws, ok := ee.Sys().(syscall.WaitStatus); ok && ws.Signaled() {
				o.Exit = fmt.Sprintf("signal:%d", ws.Signal())
			} else {
				o.Exit = fmt.Sprintf("exit:%d", ee.ExitCode())
			}
		} else {
			o.Exit = "error:" + err.Error()
		}
	}
	se := stderr.String()
	if len(se) > 1500 {
		se = se[:1500]
	}
	o.Stderr = se
	// verdict
	if o.SetupErr != "" {
		return o
	}
	for i, r := range o.Res {
		if r.Skipped {
			break
		}
		switch {
		case r.Panic != "":
			o.Violation, o.At = "panic", i
		case r.St == 0 && strings.Contains(r.Err, "timeout"):
			o.Violation, o.At = "hang", i
		case r.Lock == "held":
			o.Violation, o.At = "lock-held", i
		case r.BodyLock == "held":
			o.Violation, o.At = "lock-held-while-reading-body", i
		case !r.Probe:
			o.Violation, o.At = "probe-failed", i
		}
		if o.Violation != "" {
			break
		}
	}
	if o.Exit != "ok" && o.Exit != "killed-on-timeout" {
		// the process under test died (fatal error, os.Exit, unrecovered panic in a goroutine)
		o.Violation, o.At = "child-died", len(o.Res)
		if o.At >= len(c.Reqs) {
			o.At = len(c.Reqs) - 1
		}
	} else if o.Exit == "killed-on-timeout" && o.Violation == "" {
		o.Violation, o.At = "hang", len(o.Res)
	}
	return o
}

func runMain(inp, outp, workdir string, workers int) {
	var cases []Case
	err := hx.ReadLines(inp, func(dec *json.Decoder) error {
		var c Case
		if err := dec.Decode(&c); err != nil {
			return err
		}
		cases = append(cases, c)
		return nil
	})
	if err != nil {
		fmt.Fprintln(os.Stderr, "restfuzz:", err)
		os.Exit(2)
	}
	self, _ := os.Executable()
	w, err := hx.NewWriter(outp)
	if err != nil {
		fmt.Fprintln(os.Stderr, "restfuzz:", err)
		os.Exit(2)
	}
	var mu sync.Mutex
	var wg sync.WaitGroup
	jobs := make(chan Case)
	for k := 0; k < workers; k++ {
		wg.Add(1)
		go func(k int) {
			defer wg.Done()
			for c := range jobs {
				o := runCase(self, c, workdir, 10+k)
				mu.Lock()
				w.Put(o)
				mu.Unlock()
			}
		}(k)
	}
	for _, c := range cases {
		jobs <- c
	}
	close(jobs)
	wg.Wait()
	w.Close()
}

type Route struct {
	Methods []string `json:"methods"`
	Path    string   `json:"path"`
	Queries []string `json:"queries"`
}

func walk(r *mux.Router) []Route {
	var out []Route
	r.Walk(func(route *mux.Route, router *mux.Router, ancestors []*mux.Route) error {
		var rt Route
		rt.Methods, _ = route.GetMethods()
		rt.Path, _ = route.GetPathTemplate()
		rt.Queries, _ = route.GetQueriesTemplates()
		if rt.Path != "" {
			out = append(out, rt)
		}
		return nil
	})
	return out
}

func routesMain(outp, workdir string) {
	hx.Quiet()
	c := controller.NewController(controller.WithBackend(&fakeFactory{reps: map[string]*fakeRep{}}),
		controller.WithFrontend(&stubFrontend{}, ""), controller.WithName("vol"), controller.WithRF(3))
	s := replica.NewServer("127.0.0.1:9502", filepath.Join(workdir, "routes-vol"), 4096, "")
	m := map[string][]Route{
		"controller": walk(crest.NewRouter(crest.NewServer(c))),
		"replica":    walk(rrest.NewRouter(rrest.NewServer(s))),
	}
	b, _ := json.MarshalIndent(m, "", " ")
	os.WriteFile(outp, b, 0o644)
}

func main() {
	if len(os.Args) < 2 {
		fmt.Fprintln(os.Stderr, "usage: restfuzz run|child|routes ...")
		os.Exit(2)
	}
	switch os.Args[1] {
	case "child":
		ipb, _ := strconv.Atoi(os.Args[3])
		childMain(os.Args[2], ipb)
	case "routes":
		routesMain(os.Args[2], os.Args[3])
	case "run":
		workers := 8
		if len(os.Args) > 5 {
			workers, _ = strconv.Atoi(os.Args[5])
		}
		runMain(os.Args[2], os.Args[3], os.Args[4], workers)
	default:
		// compatibility with vlib.run_harness: <in> <out> <workdir> [workers]
		workers := 8
		if len(os.Args) > 4 {
			workers, _ = strconv.Atoi(os.Args[4])
		}
		runMain(os.Args[1], os.Args[2], os.Args[3], workers)
	}
}
