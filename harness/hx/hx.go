// Package hx: shared helpers for the verification harness commands (JSON-lines I/O, quiet logging,
// hole-punch quiescing).
package hx

import (
	"bufio"
	"encoding/json"
	"io"
	"os"
	"time"

	"github.com/openebs/jiva/replica"
	"github.com/sirupsen/logrus"
)

// Quiet discards the repository's logging.
func Quiet() {
	logrus.SetOutput(io.Discard)
	logrus.SetLevel(logrus.PanicLevel)
}

// ReadLines decodes one JSON value per line of the file into fresh values produced by mk.
func ReadLines(path string, each func(dec *json.Decoder) error) error {
	f, err := os.Open(path)
	if err != nil {
		return err
	}
	defer f.Close()
	dec := json.NewDecoder(bufio.NewReaderSize(f, 1<<20))
	for dec.More() {
		if err := each(dec); err != nil {
			return err
		}
	}
	return nil
}

// Writer writes one JSON value per line.
type Writer struct {
	f *os.File
	w *bufio.Writer
	e *json.Encoder
}

func NewWriter(path string) (*Writer, error) {
	f, err := os.Create(path)
	if err != nil {
		return nil, err
	}
	w := bufio.NewWriterSize(f, 1<<20)
	return &Writer{f: f, w: w, e: json.NewEncoder(w)}, nil
}

func (w *Writer) Put(v interface{}) error { return w.e.Encode(v) }
func (w *Writer) Close() error {
	if err := w.w.Flush(); err != nil {
		return err
	}
	return w.f.Close()
}

var holesStarted bool

// StartHoles starts the production hole-punching goroutine once per process.
func StartHoles() {
	if !holesStarted {
		holesStarted = true
		go replica.CreateHoles()
	}
}

// QuiesceHoles waits until every hole queued so far has been applied: two empty sentinels are
// pushed (CreateHoles skips them); when the queue is empty after the second one was taken, every
// earlier fallocate has returned.
func QuiesceHoles() {
	replica.HoleCreatorChan <- replica.Hole{}
	replica.HoleCreatorChan <- replica.Hole{}
	for len(replica.HoleCreatorChan) != 0 {
		time.Sleep(50 * time.Microsecond)
	}
	// the second sentinel has been received; give the loop a moment to reach its next receive
	time.Sleep(50 * time.Microsecond)
}
