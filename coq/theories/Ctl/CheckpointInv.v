(** * Ctl: checkpoint soundness (C13) as an invariant of all reachable states.

    Two invariants, each proved over all 16 event kinds:
    - [cp_ok]: while the controller holds a checkpoint [n], exactly RF replicas are listed, none of them
      is rebuilding (WO), every listed replica has snapshot [n] in its chain and has persisted [n] as its
      checkpoint (with a predicted value);
    - [mon_ok]: every replica marked ERR has an undelivered monitor notification (its removal is pending).
    Together: at a point without pending notifications a recorded checkpoint implies that all RF replicas
    are RW ([checkpoint_sound_step], [checkpoint_sound_reachable]). *)
From Coq Require Import List ZArith Bool Arith Lia Permutation.
From Jiva Require Import Ctl.Model Ctl.Proofs Ctl.Props Ctl.RfConst.
Import ListNotations.
Open Scope Z_scope.

(** ** part A: the checkpoint invariant *)
Definition cp_ok (s : cst) : Prop :=
  forall n, checkpoint s = Some n ->
    length (replicas s) = rf s
    /\ (forall a m, In (a, m) (replicas s) -> m <> WO)
    /\ forall a, In a (keys (replicas s)) ->
         In n (f_chain (wget (w s) a))
         /\ f_cp (wget (w s) a) = Some n /\ f_cpk (wget (w s) a) = true.

Lemma cp_ok_none : forall s, checkpoint s = None -> cp_ok s.
Proof. intros s H n Hn. congruence. Qed.

Lemma cp_ok_room : forall s, cp_ok s -> (length (replicas s) < rf s)%nat -> checkpoint s = None.
Proof.
  intros s Hc Hl. destruct (checkpoint s) as [n|] eqn:E; [|reflexivity].
  destruct (Hc n E) as [Hlen _]. rewrite Hlen in Hl. exfalso. exact (Nat.lt_irrefl _ Hl).
Qed.

(** what a replica record may undergo without harming the invariant: the chain only grows, the
    persisted checkpoint is not touched *)
Definition wrel (f g : frep) : Prop :=
  (forall n, In n (f_chain f) -> In n (f_chain g)) /\ f_cp g = f_cp f /\ f_cpk g = f_cpk f.

Lemma wrel_refl : forall f, wrel f f.
Proof. intros f. repeat split; auto. Qed.
Lemma wrel_trans : forall f g h, wrel f g -> wrel g h -> wrel f h.
Proof. intros f g h [A1 [A2 A3]] [B1 [B2 B3]]. repeat split; [auto|congruence|congruence]. Qed.

Lemma wrel_apply : forall wid f, wrel f (f_apply f wid). Proof. intros; repeat split; auto. Qed.
Lemma wrel_snap : forall n f, wrel f (f_snap f n). Proof. intros; repeat split; cbn; auto. Qed.
Lemma wrel_size : forall z f, wrel f (f_set_size f z). Proof. intros; repeat split; auto. Qed.
Lemma wrel_mode : forall m f, wrel f (f_set_mode f m). Proof. intros; repeat split; auto. Qed.
Lemma wrel_rev : forall v f, wrel f (f_set_rev f v). Proof. intros; repeat split; auto. Qed.
Lemma wrel_open : forall b f, wrel f (f_set_open f b). Proof. intros; repeat split; auto. Qed.

(** harmless successor states *)
Definition cpr (s t : cst) : Prop :=
  checkpoint t = checkpoint s /\ rf t = rf s /\ length (replicas t) = length (replicas s)
  /\ (forall x m, In (x, m) (replicas t) -> In x (keys (replicas s)) /\ (m = WO -> In (x, WO) (replicas s)))
  /\ (forall x, wrel (wget (w s) x) (wget (w t) x)).

Lemma in_keys : forall {V} (l : list (nat * V)) x v, In (x, v) l -> In x (keys l).
Proof. intros V l x v H. change x with (fst (x, v)). apply in_map. exact H. Qed.

Lemma keys_in : forall {V} (l : list (nat * V)) x, In x (keys l) -> exists v, In (x, v) l.
Proof.
  intros V l x H. apply in_map_iff in H. destruct H as [[k v] [Hk Hin]]. cbn in Hk. subst. exists v. exact Hin.
Qed.

Lemma cpr_refl : forall s, cpr s s.
Proof.
  intros s. repeat split; auto; try (intros; apply wrel_refl).
  eapply in_keys; eauto. intros Hm; subst; assumption.
Qed.

Lemma cpr_trans : forall a b c, cpr a b -> cpr b c -> cpr a c.
Proof.
  intros a b c [A1 [A2 [A3 [A4 A5]]]] [B1 [B2 [B3 [B4 B5]]]].
  split; [congruence|]. split; [congruence|]. split; [congruence|]. split.
  - intros x m Hin. destruct (B4 x m Hin) as [Hk Hw]. split.
    + apply keys_in in Hk. destruct Hk as [v Hv]. exact (proj1 (A4 x v Hv)).
    + intros Hm. exact (proj2 (A4 x WO (Hw Hm)) eq_refl).
  - intros x. eapply wrel_trans; [apply A5|apply B5].
Qed.

Lemma cpr_ok : forall s t, cpr s t -> cp_ok s -> cp_ok t.
Proof.
  intros s t [R1 [R2 [R3 [R4 R5]]]] Hc n Hn. rewrite R1 in Hn.
  destruct (Hc n Hn) as [Hl [Hwo Hall]].
  split; [congruence|]. split.
  - intros a m Hin Hm. destruct (R4 a m Hin) as [_ Hw]. exact (Hwo a WO (Hw Hm) eq_refl).
  - intros a Ha. apply keys_in in Ha. destruct Ha as [m Hm]. destruct (R4 a m Hm) as [Hk _].
    destruct (Hall a Hk) as [C1 [C2 C3]]. destruct (R5 a) as [W1 [W2 W3]].
    split; [apply W1; exact C1|]. split; congruence.
Qed.

Lemma cpr_same : forall s t, replicas t = replicas s -> rf t = rf s -> checkpoint t = checkpoint s -> w t = w s ->
  cpr s t.
Proof.
  intros s t R1 R2 R3 R4. unfold cpr. rewrite R1, R2, R3, R4.
  repeat split; auto; try (intros; apply wrel_refl).
  eapply in_keys; eauto. intros Hm; subst; assumption.
Qed.

Lemma cpr_upd_rep : forall s a g, (forall f, wrel f (g f)) -> cpr s (upd_rep s a g).
Proof.
  intros s a g Hg. unfold cpr. cbn [checkpoint rf replicas upd_rep upd_w].
  split; [reflexivity|]. split; [reflexivity|]. split; [reflexivity|]. split.
  - intros x m Hin. split; [eapply in_keys; eauto|intros Hm; subst; assumption].
  - intros x. unfold upd_rep. cbn [w upd_w]. rewrite wget_wset. destruct (Nat.eqb a x) eqn:E; [|apply wrel_refl].
    apply Nat.eqb_eq in E. subst. apply Hg.
Qed.

Lemma cpr_fold : forall {A} (f : cst -> A -> cst) (l : list A) s,
  (forall t x, cpr t (f t x)) -> cpr s (fold_left f l s).
Proof.
  intros A f l. induction l as [|x l IH]; intros s H; cbn; [apply cpr_refl|].
  eapply cpr_trans; [apply H|apply IH; exact H].
Qed.

(** *** the checkpoint field under the small helpers *)
Lemma ck_stop_monitoring : forall s i, checkpoint (stop_monitoring s i) = checkpoint s.
Proof. intros. unfold stop_monitoring. dm; reflexivity. Qed.
Lemma ck_backend_set_mode : forall s a m, checkpoint (backend_set_mode s a m) = checkpoint s.
Proof. intros. unfold backend_set_mode. dm; rewrite ?ck_stop_monitoring; reflexivity. Qed.
Lemma ck_set_mode : forall s a m, checkpoint (set_mode_nolock s a m) = checkpoint s.
Proof.
  intros. unfold set_mode_nolock. cbn [checkpoint update_vol_status upd_status].
  dm; rewrite ?ck_backend_set_mode; reflexivity.
Qed.
Lemma ck_fold : forall {A} (f : cst -> A -> cst) l s, (forall t x, checkpoint (f t x) = checkpoint t) ->
  checkpoint (fold_left f l s) = checkpoint s.
Proof. intros A f l. induction l as [|x l IH]; intros s H; cbn; [reflexivity|]. rewrite IH by exact H. apply H. Qed.
Lemma ck_snapshot_all : forall s fs n, checkpoint (fst (snapshot_all s fs n)) = checkpoint s.
Proof. intros. unfold snapshot_all. cbn [fst]. apply ck_fold. intros. dm; reflexivity. Qed.

Lemma in_setm : forall l a m x mx, In (x, mx) (map (setm a m) l) -> (x = a /\ mx = m /\ In a (keys l)) \/ In (x, mx) l.
Proof.
  intros l a m x mx H. apply in_map_iff in H. destruct H as [[k v] [Hk Hin]].
  unfold setm in Hk. cbn in Hk. destruct (Nat.eqb k a) eqn:E.
  - apply Nat.eqb_eq in E. inversion Hk; subst. left. repeat split. eapply in_keys; eauto.
  - inversion Hk; subst. right. exact Hin.
Qed.

Lemma cpr_set_mode : forall s a m, m <> WO -> cpr s (set_mode_nolock s a m).
Proof.
  intros s a m Hm. unfold cpr. rewrite ck_set_mode, rf_set_mode, w_set_mode.
  split; [reflexivity|]. split; [reflexivity|].
  destruct (replicas_set_mode s a m) as [R|R]; rewrite R.
  - split; [reflexivity|]. split; [|intros; apply wrel_refl].
    intros x mx Hin. split; [eapply in_keys; eauto|intros E; subst; assumption].
  - split; [apply map_length|]. split; [|intros; apply wrel_refl].
    intros x mx Hin. apply in_setm in Hin. destruct Hin as [[Hx [Hmx Hk]]|Hin].
    + subst. split; [exact Hk|intros E; contradiction].
    + split; [eapply in_keys; eauto|intros E; subst; assumption].
Qed.

Lemma cpr_handle_error : forall errs s, cpr s (fst (handle_error_nolock s errs)).
Proof.
  intros errs s. unfold handle_error_nolock. cbn [fst]. apply cpr_fold.
  intros t x. apply cpr_set_mode. discriminate.
Qed.

Lemma cpr_snapshot_all : forall s fs n, cpr s (fst (snapshot_all s fs n)).
Proof.
  intros s fs n. unfold snapshot_all. cbn [fst]. apply cpr_fold.
  intros t x. destruct (flt fs x KSnap); [apply cpr_refl|apply cpr_upd_rep; apply wrel_snap].
Qed.

(** *** update_checkpoint establishes the invariant from scratch *)
Lemma setcp_fold_in : forall fs c (l : list (addr * (mode * nat))) w0 x,
  (forall p, In p l -> flt fs (fst p) KSetCp = false) ->
  In x (map fst l) \/ (f_cp (wget w0 x) = c /\ f_cpk (wget w0 x) = true) ->
  f_cp (wget (fold_left (fun wacc p => if flt fs (fst p) KSetCp then wacc
                                      else wset wacc (fst p) (f_set_cp (wget wacc (fst p)) c true)) l w0) x) = c
  /\ f_cpk (wget (fold_left (fun wacc p => if flt fs (fst p) KSetCp then wacc
                                      else wset wacc (fst p) (f_set_cp (wget wacc (fst p)) c true)) l w0) x) = true.
Proof.
  intros fs c. induction l as [|p t IH]; intros w0 x Hf Hx; cbn [fold_left].
  - destruct Hx as [[]|Hx]. exact Hx.
  - rewrite (Hf p (or_introl eq_refl)).
    apply IH; [intros q Hq; apply Hf; right; exact Hq|].
    rewrite wget_wset. destruct (Nat.eqb (fst p) x) eqn:E.
    + right. split; reflexivity.
    + destruct Hx as [[Hx|Hx]|Hx]; [apply Nat.eqb_neq in E; contradiction|left; exact Hx|right; exact Hx].
Qed.

Lemma update_checkpoint_stored : forall s fs n p,
  checkpoint (update_checkpoint s fs) = Some n -> In p (backends s) ->
  f_cp (wget (w (update_checkpoint s fs)) (fst p)) = Some n
  /\ f_cpk (wget (w (update_checkpoint s fs)) (fst p)) = true.
Proof.
  intros s fs n p Hn Hp.
  destruct (checkpoint_recorded_sound s fs n Hn) as [_ [Ha [_ Hf]]].
  unfold update_checkpoint in *.
  destruct (Nat.eqb (count_rw (replicas s)) (rf s)); [|cbn in Hn; discriminate].
  destruct (get_latest_snapshot s fs) as [o|]; [|cbn in Hn; discriminate].
  unfold set_checkpoint in *. rewrite Ha in *.
  destruct (negb (existsb (fun p0 => flt fs (fst p0) KSetCp) (backends s))); cbn in Hn; [|discriminate].
  subst o. cbn [w upd_checkpoint upd_w].
  apply setcp_fold_in; [intros q Hq; exact (proj1 (Hf q Hq))|].
  left. apply in_map. exact Hp.
Qed.

Lemma cp_update_checkpoint : forall s fs, struct_ok s -> cp_ok (update_checkpoint s fs).
Proof.
  intros s fs H n Hn.
  destruct (checkpoint_recorded_sound s fs n Hn) as [Hc [Ha [Hch _]]].
  destruct (sst_update_checkpoint s fs) as [R [_ [Rf _]]].
  rewrite R, Rf.
  split.
  { pose proof (count_rw_le_length (replicas s)) as L1. pose proof (st_len s H) as L2.
    rewrite Hc in L1. apply Nat.le_antisymm; assumption. }
  split.
  { intros a m Hin Hm. rewrite <- (st_mirror s H) in Hin. unfold proj in Hin. apply in_map_iff in Hin.
    destruct Hin as [p [Hp Hin]]. inversion Hp as [[Hp1 Hp2]].
    unfold all_rw_backends in Ha. rewrite forallb_forall in Ha. specialize (Ha p Hin).
    rewrite Hp2, Hm in Ha. discriminate. }
  intros a Hin. rewrite <- (st_mirror s H), keys_proj in Hin. unfold keys in Hin.
  apply in_map_iff in Hin. destruct Hin as [p [Hp Hin]]. subst a.
  split.
  - rewrite (update_checkpoint_keeps f_chain cpi_chain). destruct (Hch p Hin) as [t Ht]. unfold addr in *. rewrite Ht. left. reflexivity.
  - apply update_checkpoint_stored; assumption.
Qed.

Lemma sst_sym : forall s t, same_struct_fields s t -> same_struct_fields t s.
Proof. unfold same_struct_fields. intros s t [H1 [H2 [H3 [H4 H5]]]]. repeat split; congruence. Qed.

Lemma cp_remove_replica : forall s fs a, struct_ok s -> cp_ok s -> cp_ok (remove_replica_nolock s fs a).
Proof.
  intros s fs a H Hc. pose proof (struct_remove_replica s fs a H) as H'.
  unfold remove_replica_nolock in *. destruct (negb (has_replica s a)); [exact Hc|].
  apply cp_update_checkpoint. eapply sst_struct; [apply sst_sym; apply sst_update_checkpoint|exact H'].
Qed.

Lemma cp_remove_all : forall errs s fs, struct_ok s -> cp_ok s -> cp_ok (remove_all s fs errs).
Proof.
  unfold remove_all. induction errs as [|a t IH]; intros s fs H Hc; cbn; [exact Hc|].
  apply IH; [apply struct_remove_replica; exact H|apply cp_remove_replica; assumption].
Qed.

Lemma cp_errors : forall s fs errs, struct_ok s -> cp_ok s ->
  cp_ok (remove_all (fst (handle_error_nolock s errs)) fs errs).
Proof.
  intros s fs errs H Hc. apply cp_remove_all; [apply struct_handle_error; exact H|].
  eapply cpr_ok; [apply cpr_handle_error|exact Hc].
Qed.

Lemma cp_can_add : forall s fs a, struct_ok s -> cp_ok s -> cp_ok (fst (can_add s fs a)).
Proof.
  intros s fs a H Hc. unfold can_add.
  destruct (has_replica s a); [exact Hc|].
  destruct (find (fun p => mode_eqb (snd p) WO) (replicas s)) as [[wo m]|]; [|exact Hc].
  destruct (negb (amem (backends s) wo) || flt fs wo KRev || flt fs a KHttp); [exact Hc|].
  destruct (f_rev (wget (w s) wo) <? f_rev (wget (w s) a)); [|exact Hc].
  cbn [fst]. apply cp_remove_replica; assumption.
Qed.

Lemma length_can_add : forall s fs a, struct_ok s ->
  (length (replicas (fst (can_add s fs a))) <= length (replicas s))%nat.
Proof.
  intros s fs a H. unfold can_add. destruct (has_replica s a); [cbn; lia|].
  destruct (find _ (replicas s)) as [[wo m]|] eqn:Ef; [|cbn; lia].
  destruct (negb _ || _ || _); [cbn; lia|].
  destruct (_ <? _); [|cbn; lia]. cbn [fst].
  assert (Hwo : has_replica s wo = true).
  { apply has_replica_in. apply find_some in Ef. destruct Ef as [Hin _]. eapply in_keys; eauto. }
  destruct (replicas_remove s fs wo Hwo) as [R _]. rewrite R. apply length_adel_le.
Qed.

Lemma cp_add_replica_nolock : forall s fs a i b, struct_ok s -> (length (replicas s) < rf s)%nat -> cp_ok s ->
  cp_ok (fst (add_replica_nolock s fs a i b)).
Proof.
  intros s fs a i b H Hroom Hc. unfold add_replica_nolock.
  pose proof (cp_can_add s fs a H Hc) as Hc0.
  pose proof (length_can_add s fs a H) as Hl0.
  pose proof (rf_can_add s fs a) as Hrf0.
  destruct (can_add s fs a) as [s0 ok]. cbn [fst] in *.
  destruct ok; cbn [negb]; [|exact Hc0].
  assert (Hn0 : checkpoint s0 = None).
  { apply cp_ok_room; [exact Hc0|]. rewrite Hrf0. eapply Nat.le_lt_trans; eauto. }
  set (after := if b then _ else _).
  assert (Hafter : match after with Some (s3, _) => checkpoint s3 = None | None => True end).
  { subst after. destruct b; [|exact Hn0].
    destruct (negb (remain_ok s0)); [exact Hn0|].
    pose proof (ck_snapshot_all (upd_nsnap s0 (S (nsnap s0))) fs (nsnap s0)) as Hs.
    destruct (snapshot_all (upd_nsnap s0 (S (nsnap s0))) fs (nsnap s0)) as [s2 errs]. cbn [fst] in Hs.
    assert (H2 : checkpoint s2 = None) by (rewrite Hs; exact Hn0).
    destruct errs; [destruct (flt fs a KSnap)|]; exact H2. }
  destruct after as [[s3 r]|]; [|exact Hc0].
  destruct r; try (apply cp_ok_none; exact Hafter).
  destruct (flt fs a KSetModeWO); apply cp_ok_none; exact Hafter.
Qed.

Lemma cpr_create_backend : forall s fs a s1 i, create_backend s fs a = Some (s1, i) -> cpr s s1.
Proof.
  intros s fs a s1 i Hc. unfold create_backend in Hc.
  destruct (flt fs a KCreate || f_open (wget (w s) a)); [discriminate|].
  inversion Hc; subst. eapply cpr_trans; [apply cpr_upd_rep; apply wrel_open|apply cpr_same; reflexivity].
Qed.

Lemma cp_rm_from_registered : forall s, cp_ok s -> cp_ok (rm_from_registered s).
Proof. intros s H. eapply cpr_ok; [apply cpr_same; reflexivity|exact H]. Qed.

Lemma cp_add_during_start : forall s fs a, struct_ok s -> (length (replicas s) < rf s)%nat -> cp_ok s ->
  cp_ok (fst (add_during_start s fs a)).
Proof.
  intros s fs a H Hroom Hc. unfold add_during_start.
  destruct (create_backend s fs a) as [[s1 i]|] eqn:Hcb; [|apply cp_rm_from_registered; exact Hc].
  pose proof (struct_create_backend _ _ _ _ _ Hcb) as S1.
  assert (H1 : struct_ok s1) by (eapply sst_struct; [exact S1|exact H]).
  assert (C1 : cp_ok s1) by (eapply cpr_ok; [eapply cpr_create_backend; eauto|exact Hc]).
  destruct S1 as [R1 [R2 [R3 _]]].
  destruct (flt fs a KSize); [apply cp_rm_from_registered; exact C1|].
  set (s2 := if csize s1 =? maxint then _ else s1).
  assert (S2 : same_struct_fields s1 s2).
  { subst s2. destruct (csize s1 =? maxint); [apply sst_upd_csize|apply sst_refl]. }
  assert (H2 : struct_ok s2) by (eapply sst_struct; eauto).
  assert (C2 : cp_ok s2).
  { subst s2. destruct (csize s1 =? maxint); [|exact C1]. eapply cpr_ok; [apply cpr_same; reflexivity|exact C1]. }
  destruct (negb (csize s2 =? f_size (wget (w s1) a))); [apply cp_rm_from_registered; exact C2|].
  assert (Hroom2 : (length (replicas s2) < rf s2)%nat).
  { destruct S2 as [Q1 [Q2 [Q3 _]]]. rewrite Q1, Q3, R1, R3. exact Hroom. }
  pose proof (struct_add_replica_nolock s2 fs a i false H2 Hroom2) as H3.
  pose proof (cp_add_replica_nolock s2 fs a i false H2 Hroom2 C2) as C3.
  destruct (add_replica_nolock s2 fs a i false) as [s3 r]. cbn [fst] in H3, C3.
  destruct r; try (apply cp_rm_from_registered; exact C3).
  destruct (flt fs a KClone); [apply cp_remove_replica; assumption|].
  assert (G : cp_ok (fst (if flt fs a KSetModeRW then (remove_replica_nolock s3 fs a, RErr)
                  else (set_mode_nolock (upd_rep s3 a (fun f => f_set_mode f RRW)) a RW, ROk)))).
  { destruct (flt fs a KSetModeRW); cbn [fst]; [apply cp_remove_replica; assumption|].
    eapply cpr_ok; [|exact C3]. eapply cpr_trans; [apply cpr_upd_rep; apply wrel_mode|apply cpr_set_mode; discriminate]. }
  destruct (f_clone (wget (w s3) a)); try exact G. apply cp_remove_replica; assumption.
Qed.

Lemma cp_start_frontend : forall s, cp_ok s -> cp_ok (start_frontend s).
Proof.
  intros s H. unfold start_frontend. destruct (replicas s) eqn:E; [exact H|].
  eapply cpr_ok; [apply cpr_same; reflexivity|exact H].
Qed.

Lemma cp_do_start : forall s l fs, struct_ok s -> (length l <= 1)%nat -> cp_ok s ->
  cp_ok (fst (fst (do_start s l fs))).
Proof.
  intros s l fs H Hl Hc. pose proof (st_rf s H) as Hrf. unfold do_start.
  destruct l as [|a0 t]; [exact Hc|].
  destruct t as [|a1 t]; [|cbn in Hl; lia].
  destruct (replicas s) eqn:Er; [|exact Hc].
  destruct (negb (signalled s) || negb _); [exact Hc|].
  set (s0 := upd_csize _ maxint).
  assert (H0 : struct_ok s0).
  { subst s0. constructor; cbn; [constructor|reflexivity|lia|lia|exact Hrf|reflexivity|exact (st_reg s H)]. }
  assert (Hroom : (length (replicas s0) < rf s0)%nat) by (subst s0; cbn; lia).
  assert (C0 : cp_ok s0).
  { apply cp_ok_none. change (checkpoint s0) with (checkpoint s). apply cp_ok_room; [exact Hc|].
    rewrite Er. cbn. lia. }
  cbn [start_adds].
  pose proof (struct_add_during_start s0 fs a0 H0 Hroom) as H1.
  pose proof (cp_add_during_start s0 fs a0 H0 Hroom C0) as C1.
  destruct (add_during_start s0 fs a0) as [s1 r]. cbn [fst] in H1, C1.
  destruct r; try (apply cp_start_frontend; exact C1).
  destruct (existsb (fun p => flt fs (fst p) KRev) (replicas s1)); [apply cp_start_frontend; exact C1|].
  cbn [fst]. apply cp_start_frontend. apply cp_update_checkpoint.
  eapply sst_struct; [apply sst_update_vol_status|].
  match goal with |- struct_ok (fold_left ?f ?l s1) =>
    change (struct_ok (fold_left (fun acc p => if (fun q => snd q =? fold_left Z.max (map snd l) 0) p then acc
                                               else set_mode_nolock acc (fst p) ERR) l s1)) end.
  apply struct_fold_set_mode_err. exact H1.
Qed.

(** *** registration touches neither the replica list, nor the world, nor the monitors *)
Definition same_core (s t : cst) : Prop :=
  replicas t = replicas s /\ backends t = backends s /\ rf t = rf s /\ checkpoint t = checkpoint s /\ w t = w s
  /\ live_mon t = live_mon s /\ pend_mon t = pend_mon s /\ ninst t = ninst s.

Lemma sc_refl : forall s, same_core s s.
Proof. intros; repeat split. Qed.
Lemma sc_trans : forall a b c, same_core a b -> same_core b c -> same_core a c.
Proof.
  unfold same_core. intros a b c [A1 [A2 [A3 [A4 [A5 [A6 [A7 A8]]]]]]] [B1 [B2 [B3 [B4 [B5 [B6 [B7 B8]]]]]]].
  repeat split; congruence.
Qed.

Lemma sc_signal_replica : forall s fs, same_core s (fst (fst (signal_replica s fs))).
Proof.
  intros s fs. unfold signal_replica. destruct (maxrev s) as [m|]; [destruct (flt fs m KSignal)|]; repeat split.
Qed.

Lemma sc_do_register : forall s a u r b pick fs, same_core s (fst (fst (do_register s a u r b pick fs))).
Proof.
  intros s a u r b pick fs. unfold do_register.
  destruct (Nat.eqb u 0); [apply sc_refl|].
  set (s1 := upd_registered s _).
  assert (H1 : same_core s s1) by (repeat split).
  destruct (replicas s1) eqn:Er; [|exact H1].
  set (sw := if signalled s1 then _ else _).
  assert (Hsw : match sw with
                | inr out => same_core s (fst (fst out))
                | inl None => True
                | inl (Some (s2, _)) => same_core s s2 end).
  { subst sw. destruct (signalled s1); [|exact H1].
    destruct (match maxrev s1 with Some m => Nat.eqb m a | None => false end); [exact H1|].
    destruct (match maxrev s1 with Some m => flt fs m KAlive | None => true end); [|exact H1].
    destruct (maxrev s1); repeat split. }
  destruct sw as [[[s2 sg0]|]|out]; [| exact H1 | exact Hsw].
  destruct b; [exact Hsw|].
  set (s3 := match maxrev s2 with None => _ | Some _ => s2 end).
  assert (H3 : same_core s s3).
  { subst s3. destruct (maxrev s2); [exact Hsw|]. eapply sc_trans; [exact Hsw|repeat split]. }
  match goal with |- context [match ?L with Some l => _ | None => _ end] => destruct L as [l|] end; [|exact H3].
  set (s4 := upd_leader s3 l (signalled s3)).
  assert (H4 : same_core s s4) by (eapply sc_trans; [exact H3|repeat split]).
  destruct (Nat.leb (quorum (rf s4)) (length (registered s4))); [|exact H4].
  pose proof (sc_signal_replica s4 fs) as R5.
  destruct (signal_replica s4 fs) as [[s5 ok] sg]. cbn [fst] in *. eapply sc_trans; eauto.
Qed.

Lemma cpr_of_sc : forall s t, same_core s t -> cpr s t.
Proof. intros s t [A1 [A2 [A3 [A4 [A5 _]]]]]. apply cpr_same; assumption. Qed.

(** *** the events *)
Lemma cp_do_write : forall s wid off len fs, struct_ok s -> cp_ok s -> cp_ok (fst (do_write s wid off len fs)).
Proof.
  intros s wid off len fs H Hc. unfold do_write.
  destruct (ro s); [exact Hc|].
  destruct ((off <? 0) || (csize s <? off + len)); [exact Hc|].
  destruct (negb (avail s)); [exact Hc|].
  set (s1 := fold_left _ (writers s) s).
  assert (H1 : struct_ok s1).
  { eapply sst_struct; [|exact H]. subst s1. apply sst_fold_left.
    intros t x. destruct (flt fs x KWrite); [apply sst_refl|apply sst_upd_rep]. }
  assert (C1 : cp_ok s1).
  { eapply cpr_ok; [|exact Hc]. subst s1. apply cpr_fold.
    intros t x. destruct (flt fs x KWrite); [apply cpr_refl|apply cpr_upd_rep; apply wrel_apply]. }
  destruct (io_errs (writers s) fs KWrite KWriteAp) as [|e es] eqn:Ee; [exact C1|].
  pose proof (cp_errors s1 fs (e :: es) H1 C1) as C2.
  destruct (handle_error_nolock s1 (e :: es)) as [s2 sup]. cbn [fst] in *. exact C2.
Qed.

Lemma cp_do_sync : forall s fs k, struct_ok s -> cp_ok s -> cp_ok (fst (do_sync s fs k)).
Proof.
  intros s fs k H Hc. unfold do_sync.
  destruct (ro s); [exact Hc|].
  destruct (negb (avail s)); [exact Hc|].
  destruct (io_errs (writers s) fs k k) as [|e es] eqn:Ee; [exact Hc|].
  pose proof (cp_errors s fs (e :: es) H Hc) as C2.
  destruct (handle_error_nolock s (e :: es)) as [s2 sup]. cbn [fst] in *. exact C2.
Qed.

Lemma cp_do_read : forall s off len order fs, struct_ok s -> cp_ok s -> cp_ok (fst (fst (do_read s off len order fs))).
Proof.
  intros s off len order fs H Hc. unfold do_read.
  destruct ((off <? 0) || (csize s <? off + len)); [exact Hc|].
  destruct (replicas s) as [|[a0 m0] t] eqn:Er; [exact Hc|].
  assert (G : cp_ok (fst (fst (
      if negb (avail s) then (s, RErr, noeff)
      else if negb (read_order_ok s order fs) then (s, RInvalid, noeff)
      else
        let errs := filter (fun a => flt fs a KRead) order in
        let served := match rev order with lst :: _ => if flt fs lst KRead then None else Some lst | [] => None end in
        match errs with
        | [] => (s, ROk, mkeff [] served)
        | _ =>
            let '(s2, suppressed) := handle_error_nolock s errs in
            let s3 := remove_all s2 fs errs in
            (s3, match served with Some _ => if suppressed then ROk else RErr | None => RErr end, mkeff [] served)
        end)))).
  { destruct (negb (avail s)); [exact Hc|].
    destruct (negb (read_order_ok s order fs)); [exact Hc|].
    cbv zeta.
    destruct (filter (fun a => flt fs a KRead) order) as [|e es]; [exact Hc|].
    pose proof (cp_errors s fs (e :: es) H Hc) as C2.
    destruct (handle_error_nolock s (e :: es)) as [s2 sup]. cbn [fst] in *. exact C2. }
  destruct m0; destruct t; try exact G; exact Hc.
Qed.

Lemma cp_do_add_check : forall s a fs, struct_ok s -> cp_ok s -> cp_ok (fst (do_add_check s a fs)).
Proof.
  intros s a fs H Hc. unfold do_add_check.
  pose proof (cp_can_add s fs a H Hc) as Hc1.
  destruct (can_add s fs a) as [s1 ok]. cbn [fst] in Hc1.
  destruct (negb ok); [exact Hc1|].
  destruct (Nat.eqb (rf s1) (length (replicas s1))); [exact Hc1|].
  eapply cpr_ok; [apply cpr_same; reflexivity|exact Hc1].
Qed.

Lemma cp_do_add_commit : forall s a fs, struct_ok s -> cp_ok s -> cp_ok (fst (do_add_commit s a fs)).
Proof.
  intros s a fs H Hc. unfold do_add_commit.
  destruct (negb (existsb (Nat.eqb a) (pend_adds s))); [exact Hc|].
  set (s0 := upd_pend_adds s _).
  assert (H0 : struct_ok s0) by (eapply sst_struct; [apply sst_upd_pend_adds|exact H]).
  assert (C0 : cp_ok s0) by (eapply cpr_ok; [apply cpr_same; reflexivity|exact Hc]).
  destruct (create_backend s0 fs a) as [[s1 i]|] eqn:Hcb; [|exact C0].
  pose proof (struct_create_backend _ _ _ _ _ Hcb) as S1.
  assert (H1 : struct_ok s1) by (eapply sst_struct; eauto).
  assert (C1 : cp_ok s1) by (eapply cpr_ok; [eapply cpr_create_backend; eauto|exact C0]).
  destruct (Nat.eqb (rf s1) (length (replicas s1))) eqn:Erf.
  { eapply cpr_ok; [apply cpr_upd_rep; apply wrel_open|exact C1]. }
  assert (Hroom : (length (replicas s1) < rf s1)%nat).
  { apply Nat.eqb_neq in Erf. destruct H1 as [_ _ Hl _ _ _ _]. lia. }
  pose proof (struct_add_replica_nolock s1 fs a i true H1 Hroom) as H2.
  pose proof (cp_add_replica_nolock s1 fs a i true H1 Hroom C1) as C2.
  destruct (add_replica_nolock s1 fs a i true) as [s2 r]. cbn [fst] in H2, C2.
  destruct r; try exact C2.
  cbn [fst]. apply cp_update_checkpoint. eapply sst_struct; [apply sst_update_vol_status|exact H2].
Qed.

Lemma cp_do_verify : forall s a fs, struct_ok s -> cp_ok s -> cp_ok (fst (do_verify s a fs)).
Proof.
  intros s a fs H Hc. unfold do_verify.
  destruct (aget (replicas s) a) as [m|]; [|exact Hc].
  destruct (find (fun p => is_rw (snd p)) (replicas s)) as [[r0 m0]|]; [|destruct m; exact Hc].
  destruct m; try exact Hc.
  destruct (flt fs r0 KHttp || flt fs a KHttp); [exact Hc|].
  match goal with |- context [match ?K with Some k => _ | None => _ end] => destruct K as [k|] end; [|exact Hc].
  destruct (Nat.ltb (length (f_chain (wget (w s) a))) k); [exact Hc|].
  destruct (negb (list_eqb _ _)); [exact Hc|].
  destruct (negb (amem (backends s) r0) || flt fs r0 KRev); [exact Hc|].
  destruct (negb (amem (backends s) a) || flt fs a KSetModeRW); [exact Hc|].
  set (s1 := upd_rep s a _).
  assert (H1 : struct_ok s1) by (eapply sst_struct; [apply sst_upd_rep|exact H]).
  destruct (flt fs a KSetRev); [eapply cpr_ok; [apply cpr_upd_rep; apply wrel_mode|exact Hc]|].
  cbn [fst]. apply cp_update_checkpoint.
  eapply sst_struct; [apply sst_update_vol_status|].
  apply struct_set_mode; [discriminate|]. eapply sst_struct; [apply sst_upd_rep|exact H1].
Qed.

Lemma cp_do_mon_fire : forall s a fs, struct_ok s -> cp_ok s -> cp_ok (fst (do_mon_fire s a fs)).
Proof.
  intros s a fs H Hc. unfold do_mon_fire.
  destruct (first_for (pend_mon s) (Nat.eqb a)) as [[i x]|]; [|exact Hc].
  cbn [fst]. apply cp_remove_replica.
  - eapply sst_struct; [apply sst_upd_mon|exact H].
  - eapply cpr_ok; [apply cpr_same; reflexivity|exact Hc].
Qed.

Lemma cp_do_mon_fail : forall s a fs, struct_ok s -> cp_ok s -> cp_ok (fst (do_mon_fail s a fs)).
Proof.
  intros s a fs H Hc. unfold do_mon_fail.
  destruct (first_for (rev (live_mon s)) (Nat.eqb a)) as [[i x]|]; [|exact Hc].
  cbn [fst]. apply cp_remove_replica.
  - apply struct_set_mode; [discriminate|]. eapply sst_struct; [apply sst_upd_mon|exact H].
  - eapply cpr_ok; [apply cpr_set_mode; discriminate|]. eapply cpr_ok; [apply cpr_same; reflexivity|exact Hc].
Qed.

Lemma cp_do_snapshot : forall s n fs, cp_ok s -> cp_ok (fst (do_snapshot s n fs)).
Proof.
  intros s n fs Hc. unfold do_snapshot.
  destruct (negb (Nat.eqb (rwc s) (rf s))); [exact Hc|].
  destruct (Nat.eqb (length (backends s)) 0); [exact Hc|].
  destruct (negb (remain_ok s)); [exact Hc|].
  destruct (last_rw s) as [r0|]; [|exact Hc].
  destruct (flt fs r0 KHttp); [exact Hc|].
  destruct (existsb (Nat.eqb n) (f_chain (wget (w s) r0))); [exact Hc|].
  pose proof (cpr_snapshot_all s fs n) as Hs.
  destruct (snapshot_all s fs n) as [s1 errs]. cbn [fst] in Hs.
  assert (C1 : cp_ok s1) by (eapply cpr_ok; eauto).
  destruct errs as [|e es]; [exact C1|].
  pose proof (cpr_handle_error (e :: es) s1) as H2.
  destruct (handle_error_nolock s1 (e :: es)) as [s2 sup]. cbn [fst] in *. eapply cpr_ok; eauto.
Qed.

Lemma cp_do_resize : forall s sz fs, cp_ok s -> cp_ok (fst (do_resize s sz fs)).
Proof.
  intros s sz fs Hc. unfold do_resize.
  destruct (sz <? csize s); [exact Hc|].
  destruct (sz =? csize s); [exact Hc|].
  set (s1 := fold_left _ (writers s) s).
  assert (C1 : cp_ok s1).
  { eapply cpr_ok; [|exact Hc]. subst s1. apply cpr_fold.
    intros t x. destruct (flt fs x KResize); [apply cpr_refl|apply cpr_upd_rep; apply wrel_size]. }
  set (errs := filter (fun a => flt fs a KResize) (writers s)).
  assert (C2 : cp_ok (fst (match errs with
                               | [] => (s1, false)
                               | _ => let '(s2, suppressed) := handle_error_nolock s1 errs in (s2, negb suppressed)
                               end))).
  { destruct errs as [|e es]; [exact C1|].
    pose proof (cpr_handle_error (e :: es) s1) as H2.
    destruct (handle_error_nolock s1 (e :: es)) as [s2 sup]. cbn [fst] in *. eapply cpr_ok; eauto. }
  destruct (match errs with [] => (s1, false) | _ => _ end) as [s2 failed]. cbn [fst] in C2.
  destruct failed; [exact C2|].
  destruct (flt fs 0%nat KFeResize); [exact C2|].
  eapply cpr_ok; [apply cpr_same; reflexivity|exact C2].
Qed.

Lemma aget_in : forall {V} (l : list (nat * V)) a v, aget l a = Some v -> In (a, v) l.
Proof.
  intros V l a v. induction l as [|[k x] t IH]; cbn; intros H; [discriminate|].
  destruct (Nat.eqb k a) eqn:E; [|right; apply IH; exact H].
  apply Nat.eqb_eq in E. inversion H; subst. left. reflexivity.
Qed.

Theorem cp_step : forall s e, struct_ok s -> ev_wf e = true -> cp_ok s -> cp_ok (fst (fst (step s e))).
Proof.
  intros s e H Hwf Hc. destruct e; cbn [step].
  - eapply cpr_ok; [apply cpr_of_sc; apply sc_do_register|exact Hc].
  - apply cp_do_start; [exact H| |exact Hc]. cbn in Hwf. apply Nat.leb_le in Hwf. exact Hwf.
  - pose proof (cp_do_add_check s a fs H Hc). destruct (do_add_check s a fs); assumption.
  - pose proof (cp_do_add_commit s a fs H Hc). destruct (do_add_commit s a fs); assumption.
  - pose proof (cp_do_verify s a fs H Hc). destruct (do_verify s a fs); assumption.
  - cbn. apply cp_remove_replica; assumption.
  - destruct m; cbn; try exact Hc; (eapply cpr_ok; [apply cpr_set_mode; discriminate|exact Hc]).
  - pose proof (cp_do_mon_fire s a fs H Hc). destruct (do_mon_fire s a fs); assumption.
  - pose proof (cp_do_mon_fail s a fs H Hc). destruct (do_mon_fail s a fs); assumption.
  - pose proof (cp_do_write s wid off len fs H Hc). destruct (do_write s wid off len fs); assumption.
  - pose proof (cp_do_sync s fs KSync H Hc). destruct (do_sync s fs KSync); assumption.
  - pose proof (cp_do_sync s fs KUnmap H Hc). destruct (do_sync s fs KUnmap); assumption.
  - apply cp_do_read; assumption.
  - pose proof (cp_do_snapshot s name fs Hc). destruct (do_snapshot s name fs); assumption.
  - pose proof (cp_do_resize s newsize fs Hc). destruct (do_resize s newsize fs); assumption.
  - (* the sync agent rewrites the chain of a rebuilding replica only: none is listed while a checkpoint is held *)
    unfold do_sync_data. destruct (aget (replicas s) a) as [[]|] eqn:Ea; try exact Hc.
    destruct (find _ (replicas s)) as [[r0 m0]|]; [|exact Hc]. cbn [fst].
    apply cp_ok_none. change (checkpoint (upd_rep s a (fun f => f_copy_data f (wget (w s) r0)))) with (checkpoint s).
    destruct (checkpoint s) as [n|] eqn:En; [|reflexivity].
    destruct (Hc n En) as [_ [Hwo _]]. exfalso. exact (Hwo a WO (aget_in _ _ _ Ea) eq_refl).
Qed.

Lemma cp_init : forall rf0 w0, cp_ok (init rf0 w0).
Proof. intros. apply cp_ok_none. reflexivity. Qed.

(** ** part B: every replica marked ERR has an undelivered monitor notification *)
(** *** association-list facts *)
Lemma aget_adel_other : forall {V} (l : list (nat * V)) i j, i <> j -> aget (adel l j) i = aget l i.
Proof.
  intros V l i j Hij. induction l as [|[k v] t IH]; cbn; [reflexivity|].
  destruct (Nat.eqb k j) eqn:E.
  - apply Nat.eqb_eq in E. subst k. destruct (Nat.eqb j i) eqn:E2; [apply Nat.eqb_eq in E2; subst; contradiction|reflexivity].
  - cbn. destruct (Nat.eqb k i); [reflexivity|exact IH].
Qed.

Lemma aget_adel_same : forall {V} (l : list (nat * V)) i, NoDup (keys l) -> aget (adel l i) i = None.
Proof. intros V l i H. apply aget_none_not_in. apply adel_not_in. exact H. Qed.

Lemma aget_app : forall {V} (l r : list (nat * V)) i,
  aget (l ++ r) i = match aget l i with Some v => Some v | None => aget r i end.
Proof.
  intros V l r i. induction l as [|[k v] t IH]; cbn; [reflexivity|].
  destruct (Nat.eqb k i); [reflexivity|exact IH].
Qed.

Lemma aget_none_notin : forall {V} (l : list (nat * V)) i, aget l i = None -> ~ In i (keys l).
Proof.
  intros V l i. induction l as [|[k v] t IH]; cbn; intros H; [auto|].
  destruct (Nat.eqb k i) eqn:E; [discriminate|]. apply Nat.eqb_neq in E.
  intros [Hk|Hin]; [contradiction|]. exact (IH H Hin).
Qed.

Lemma in_adel : forall {V} (l : list (nat * V)) i e, In e (adel l i) -> In e l.
Proof.
  intros V l i e. induction l as [|[k v] t IH]; cbn; [auto|].
  destruct (Nat.eqb k i); cbn; intros H; [right; exact H|].
  destruct H as [H|H]; [left; exact H|right; apply IH; exact H].
Qed.

Lemma in_adel_other : forall {V} (l : list (nat * V)) i j v, In (j, v) l -> j <> i -> In (j, v) (adel l i).
Proof.
  intros V l i j v. induction l as [|[k x] t IH]; cbn; intros H Hji; [exact H|].
  destruct (Nat.eqb k i) eqn:E.
  - apply Nat.eqb_eq in E. subst k. destruct H as [H|H]; [inversion H; subst; contradiction|exact H].
  - cbn. destruct H as [H|H]; [left; exact H|right; apply IH; assumption].
Qed.

Lemma nodup_same_key : forall {V} (l : list (nat * V)) k v v', NoDup (keys l) -> In (k, v) l -> In (k, v') l -> v = v'.
Proof.
  intros V l k v v' Hn H1 H2.
  pose proof (aget_in_nodup l k v Hn H1) as A1. pose proof (aget_in_nodup l k v' Hn H2) as A2. congruence.
Qed.

Lemma keys_app : forall {V} (l r : list (nat * V)), keys (l ++ r) = keys l ++ keys r.
Proof. intros. unfold keys. apply map_app. Qed.

Lemma perm_adel : forall {V} (l : list (nat * V)) i v, aget l i = Some v -> Permutation (keys l) (i :: keys (adel l i)).
Proof.
  intros V l i v. induction l as [|[k x] t IH]; cbn; intros H; [discriminate|].
  destruct (Nat.eqb k i) eqn:E.
  - apply Nat.eqb_eq in E. subst. apply Permutation_refl.
  - cbn. eapply perm_trans; [apply perm_skip; apply IH; exact H|apply perm_swap].
Qed.

Lemma nodup_app_l : forall (l r : list nat), NoDup (l ++ r) -> NoDup l.
Proof.
  induction l as [|x t IH]; intros r H; [constructor|].
  cbn in H. inversion H as [|y ys Hy Hd]; subst. constructor; [|eapply IH; exact Hd].
  intro Hin. apply Hy. apply in_or_app. left. exact Hin.
Qed.

Lemma nodup_app_r : forall (l r : list nat), NoDup (l ++ r) -> NoDup r.
Proof.
  induction l as [|x t IH]; intros r H; [exact H|].
  cbn in H. inversion H as [|y ys Hy Hd]; subst. apply IH. exact Hd.
Qed.

Lemma keys_app_adel_r_sub : forall {V} (l p : list (nat * V)) i k, In k (keys (l ++ adel p i)) -> In k (keys (l ++ p)).
Proof.
  intros V l p i k H. rewrite keys_app in *. apply in_app_or in H. apply in_or_app.
  destruct H as [H|H]; [left; exact H|right; eapply keys_adel_subset; exact H].
Qed.

Lemma keys_app_adel_l_sub : forall {V} (l p : list (nat * V)) i k, In k (keys (adel l i ++ p)) -> In k (keys (l ++ p)).
Proof.
  intros V l p i k H. rewrite keys_app in *. apply in_app_or in H. apply in_or_app.
  destruct H as [H|H]; [left; eapply keys_adel_subset; exact H|right; exact H].
Qed.

Lemma nodup_app_adel_r : forall {V} (l p : list (nat * V)) i, NoDup (keys (l ++ p)) -> NoDup (keys (l ++ adel p i)).
Proof.
  intros V l p i. induction l as [|[k v] t IH]; cbn; intros H; [apply nodup_adel; exact H|].
  inversion H as [|x xs Hx Hd]; subst. constructor; [|apply IH; exact Hd].
  intro Hin. apply Hx. eapply keys_app_adel_r_sub. exact Hin.
Qed.

Lemma nodup_app_adel_l : forall {V} (l p : list (nat * V)) i, NoDup (keys (l ++ p)) -> NoDup (keys (adel l i ++ p)).
Proof.
  intros V l p i. induction l as [|[k v] t IH]; cbn; intros H; [exact H|].
  inversion H as [|x xs Hx Hd]; subst.
  destruct (Nat.eqb k i); [exact Hd|]. cbn. constructor; [|apply IH; exact Hd].
  intro Hin. apply Hx. eapply keys_app_adel_l_sub. exact Hin.
Qed.

(** *** the invariant, with an exempted set [X] of addresses (used inside a monitor event, between the
    consumption of the notification and the removal of the replica), a strict bound [N] on all instance
    ids in use and a lower bound [B] of the instance counter *)
Record mon3 (X : addr -> Prop) (N B : nat) (s : cst) : Prop := mkmon3 {
  mo_live : forall a m i, aget (backends s) a = Some (m, i) ->
      (aget (live_mon s) i = Some a \/ aget (live_mon s) i = None)
      /\ (m <> ERR -> X a \/ aget (live_mon s) i = Some a);
  mo_err : forall a, In (a, ERR) (replicas s) -> X a \/ exists i, In (i, a) (pend_mon s);
  mo_nodup : NoDup (keys (live_mon s ++ pend_mon s));
  mo_bound : forall k, In k (keys (live_mon s ++ pend_mon s)) -> (k < N)%nat;
  mo_binst : forall a m i, aget (backends s) a = Some (m, i) -> (i < N)%nat;
  mo_ninst : (B <= ninst s)%nat
}.

Definition nobody (a : addr) : Prop := False.
Definition mon_ok (s : cst) : Prop := mon3 nobody (ninst s) (ninst s) s.

Lemma mon3_weaken : forall (X X' : addr -> Prop) N N' B B' s,
  mon3 X N B s -> (N <= N')%nat -> (B' <= B)%nat -> (forall a, X a -> X' a) -> mon3 X' N' B' s.
Proof.
  intros X X' N N' B B' s [M1 M2 M3 M4 M5 M6] HN HB HX. constructor.
  - intros a m i Hb. destruct (M1 a m i Hb) as [P1 P2]. split; [exact P1|].
    intros Hm. destruct (P2 Hm) as [P|P]; [left; apply HX; exact P|right; exact P].
  - intros a Ha. destruct (M2 a Ha) as [P|P]; [left; apply HX; exact P|right; exact P].
  - exact M3.
  - intros k Hk. eapply Nat.lt_le_trans; [apply M4; exact Hk|exact HN].
  - intros a m i Hb. eapply Nat.lt_le_trans; [eapply M5; exact Hb|exact HN].
  - eapply Nat.le_trans; [exact HB|exact M6].
Qed.

Lemma mon3_renorm : forall X N B s, mon3 X N B s -> (N <= B)%nat -> mon3 X (ninst s) (ninst s) s.
Proof.
  intros X N B s M HNB. pose proof (mo_ninst _ _ _ _ M) as Hn.
  assert (HN : (N <= ninst s)%nat) by (eapply Nat.le_trans; eauto).
  destruct (mon3_weaken X X N (ninst s) B B s M HN (Nat.le_refl _) (fun a H => H)) as [M1 M2 M3 M4 M5 M6].
  constructor; try assumption. apply Nat.le_refl.
Qed.

(** helpers that leave the monitor-related fields alone *)
Definition smf (s t : cst) : Prop :=
  replicas t = replicas s /\ backends t = backends s /\ live_mon t = live_mon s /\ pend_mon t = pend_mon s
  /\ ninst t = ninst s.
Lemma smf_refl : forall s, smf s s. Proof. intros; repeat split. Qed.
Lemma smf_trans : forall a b c, smf a b -> smf b c -> smf a c.
Proof. unfold smf. intros a b c [A1 [A2 [A3 [A4 A5]]]] [B1 [B2 [B3 [B4 B5]]]]. repeat split; congruence. Qed.
Lemma smf_mon : forall X N B s t, smf s t -> mon3 X N B s -> mon3 X N B t.
Proof.
  unfold smf. intros X N B s t [A1 [A2 [A3 [A4 A5]]]] [M1 M2 M3 M4 M5 M6].
  constructor; rewrite ?A1, ?A2, ?A3, ?A4, ?A5; assumption.
Qed.
Lemma smf_upd_rep : forall s a g, smf s (upd_rep s a g). Proof. intros; repeat split. Qed.
Lemma smf_fold : forall {A} (f : cst -> A -> cst) (l : list A) s, (forall t x, smf t (f t x)) -> smf s (fold_left f l s).
Proof.
  intros A f l. induction l as [|x l IH]; intros s H; cbn; [apply smf_refl|].
  eapply smf_trans; [apply H|apply IH; exact H].
Qed.
Lemma smf_set_checkpoint : forall s fs n, smf s (fst (set_checkpoint s fs n)).
Proof. intros s fs n. unfold set_checkpoint. destruct (all_rw_backends s); cbn; repeat split. Qed.
Lemma smf_update_checkpoint : forall s fs, smf s (update_checkpoint s fs).
Proof.
  intros s fs. unfold update_checkpoint.
  destruct (Nat.eqb (count_rw (replicas s)) (rf s)); [|repeat split].
  destruct (get_latest_snapshot s fs) as [n|]; [|repeat split].
  pose proof (smf_set_checkpoint s fs n) as H.
  destruct (set_checkpoint s fs n) as [s1 ok]. cbn in H.
  eapply smf_trans; [exact H|repeat split].
Qed.
Lemma smf_snapshot_all : forall s fs n, smf s (fst (snapshot_all s fs n)).
Proof.
  intros s fs n. unfold snapshot_all. cbn [fst].
  apply smf_fold. intros t x. destruct (flt fs x KSnap); [apply smf_refl|apply smf_upd_rep].
Qed.
Lemma smf_of_sc : forall s t, same_core s t -> smf s t.
Proof. intros s t [A1 [A2 [A3 [A4 [A5 [A6 [A7 A8]]]]]]]. repeat split; assumption. Qed.

(** *** StopMonitoring as functions on the two monitor lists *)
Definition stopL (L : list (nat * addr)) (i : nat) : list (nat * addr) :=
  match aget L i with Some _ => adel L i | None => L end.
Definition stopP (L P : list (nat * addr)) (i : nat) : list (nat * addr) :=
  match aget L i with Some a => P ++ [(i, a)] | None => P end.

Lemma stop_fields : forall s i,
  replicas (stop_monitoring s i) = replicas s /\ backends (stop_monitoring s i) = backends s
  /\ ninst (stop_monitoring s i) = ninst s
  /\ live_mon (stop_monitoring s i) = stopL (live_mon s) i
  /\ pend_mon (stop_monitoring s i) = stopP (live_mon s) (pend_mon s) i.
Proof. intros s i. unfold stop_monitoring, stopL, stopP. destruct (aget (live_mon s) i); repeat split. Qed.

Lemma stop_keys_perm : forall L P i, Permutation (keys (stopL L i ++ stopP L P i)) (keys (L ++ P)).
Proof.
  intros L P i. unfold stopL, stopP. destruct (aget L i) as [a|] eqn:E; [|apply Permutation_refl].
  rewrite !keys_app. cbn [keys map fst].
  pose proof (perm_adel L i a E) as Hp.
  eapply perm_trans; [|apply Permutation_app_tail; apply Permutation_sym; exact Hp].
  cbn [app]. rewrite app_assoc. apply Permutation_sym. apply Permutation_cons_append.
Qed.

(** the monitor of backend [a] is stopped; [a] is unlisted or marked ERR; nothing else changes *)
Lemma mon3_detach : forall X N B s t a,
  mon3 X N B s ->
  ninst t = ninst s ->
  match aget (backends s) a with
  | Some (_, i) => live_mon t = stopL (live_mon s) i /\ pend_mon t = stopP (live_mon s) (pend_mon s) i
  | None => live_mon t = live_mon s /\ pend_mon t = pend_mon s
  end ->
  (forall x, x <> a -> aget (backends t) x = aget (backends s) x) ->
  (forall m i, aget (backends t) a = Some (m, i) -> m = ERR /\ exists m0, aget (backends s) a = Some (m0, i)) ->
  (forall x, In (x, ERR) (replicas t) ->
     In (x, ERR) (replicas s) \/ (x = a /\ exists m0 i, m0 <> ERR /\ aget (backends s) a = Some (m0, i))) ->
  mon3 X N B t.
Proof.
  intros X N B s t a [M1 M2 M3 M4 M5 M6] Hni Hmon Hoth Ha Hrep.
  destruct (aget (backends s) a) as [[m0 i]|] eqn:Eb.
  - destruct Hmon as [HL HP]. destruct (M1 a m0 i Eb) as [A1 A2].
    assert (NL : NoDup (keys (live_mon s))) by (rewrite keys_app in M3; eapply nodup_app_l; exact M3).
    assert (Pm : Permutation (keys (live_mon t ++ pend_mon t)) (keys (live_mon s ++ pend_mon s))).
    { rewrite HL, HP. apply stop_keys_perm. }
    assert (Hpg : forall e, In e (pend_mon s) -> In e (pend_mon t)).
    { intros e He. rewrite HP. unfold stopP. destruct (aget (live_mon s) i); [apply in_or_app; left; exact He|exact He]. }
    assert (Hlx : forall x mx ix, x <> a -> aget (backends s) x = Some (mx, ix) ->
                  aget (live_mon t) ix = aget (live_mon s) ix).
    { intros x mx ix Hxa Hx. rewrite HL. unfold stopL. destruct (aget (live_mon s) i) as [y|] eqn:E; [|reflexivity].
      apply aget_adel_other. intro Ei. subst ix.
      destruct A1 as [A1|A1]; [|congruence]. destruct (M1 x mx i Hx) as [[B1|B1] _]; congruence. }
    assert (Hli : aget (live_mon t) i = Some a \/ aget (live_mon t) i = None).
    { right. rewrite HL. unfold stopL. destruct (aget (live_mon s) i) eqn:E; [apply aget_adel_same; exact NL|exact E]. }
    constructor.
    + intros x mx ix Hx. destruct (Nat.eq_dec x a) as [Hxa|Hxa].
      * subst x. destruct (Ha mx ix Hx) as [Hm [m1 Hb1]]. inversion Hb1; subst.
        split; [exact Hli|intros Hc; contradiction].
      * rewrite (Hoth x Hxa) in Hx. rewrite (Hlx x mx ix Hxa Hx). exact (M1 x mx ix Hx).
    + intros x Hx. destruct (Hrep x Hx) as [Hold|[Hxa [m1 [i1 [Hm1 Hb1]]]]].
      * destruct (M2 x Hold) as [P|[j Hj]]; [left; exact P|right; exists j; apply Hpg; exact Hj].
      * subst x. inversion Hb1; subst m1 i1. destruct (A2 Hm1) as [P|P]; [left; exact P|].
        right. exists i. rewrite HP. unfold stopP. rewrite P. apply in_or_app. right. left. reflexivity.
    + eapply Permutation_NoDup; [apply Permutation_sym; exact Pm|exact M3].
    + intros k Hk. apply M4. eapply Permutation_in; [exact Pm|exact Hk].
    + intros x mx ix Hx. destruct (Nat.eq_dec x a) as [Hxa|Hxa].
      * subst x. destruct (Ha mx ix Hx) as [_ [m1 Hb1]]. inversion Hb1; subst. eapply M5; exact Eb.
      * rewrite (Hoth x Hxa) in Hx. eapply M5; exact Hx.
    + rewrite Hni. exact M6.
  - destruct Hmon as [HL HP].
    assert (Hna : forall m i, aget (backends t) a = Some (m, i) -> False).
    { intros m i Hx. destruct (Ha m i Hx) as [_ [m1 Hb1]]. discriminate. }
    constructor; rewrite ?HL, ?HP, ?Hni; try assumption.
    + intros x mx ix Hx. destruct (Nat.eq_dec x a) as [Hxa|Hxa]; [subst; exfalso; eapply Hna; exact Hx|].
      rewrite (Hoth x Hxa) in Hx. exact (M1 x mx ix Hx).
    + intros x Hx. destruct (Hrep x Hx) as [Hold|[Hxa [m1 [i1 [Hm1 Hb1]]]]]; [exact (M2 x Hold)|discriminate].
    + intros x mx ix Hx. destruct (Nat.eq_dec x a) as [Hxa|Hxa]; [subst; exfalso; eapply Hna; exact Hx|].
      rewrite (Hoth x Hxa) in Hx. eapply M5; exact Hx.
Qed.

(** the mode of backend [a] changes (not to ERR), its instance stays *)
Lemma mon3_promote : forall X N B s t a m m0 i,
  mon3 X N B s ->
  ninst t = ninst s -> live_mon t = live_mon s -> pend_mon t = pend_mon s ->
  aget (backends s) a = Some (m0, i) -> m0 <> ERR ->
  backends t = aset (backends s) a (m, i) ->
  (forall x, In (x, ERR) (replicas t) -> In (x, ERR) (replicas s)) ->
  mon3 X N B t.
Proof.
  intros X N B s t a m m0 i [M1 M2 M3 M4 M5 M6] Hni HL HP Eb Hm0 Hbk Hrep.
  constructor; rewrite ?HL, ?HP, ?Hni; try assumption.
  - intros x mx ix Hx. rewrite Hbk, aget_aset in Hx. destruct (Nat.eqb a x) eqn:E.
    + apply Nat.eqb_eq in E. subst x. inversion Hx; subst. destruct (M1 a m0 ix Eb) as [A1 A2].
      split; [exact A1|intros _; exact (A2 Hm0)].
    + exact (M1 x mx ix Hx).
  - intros x Hx. exact (M2 x (Hrep x Hx)).
  - intros x mx ix Hx. rewrite Hbk, aget_aset in Hx. destruct (Nat.eqb a x) eqn:E.
    + inversion Hx; subst. eapply M5; exact Eb.
    + eapply M5; exact Hx.
Qed.

Lemma backend_of_replica : forall s a m0, struct_ok s -> aget (replicas s) a = Some m0 ->
  exists i, aget (backends s) a = Some (m0, i).
Proof.
  intros s a m0 H Ea. rewrite <- (st_mirror s H), aget_proj in Ea.
  destruct (aget (backends s) a) as [[m i]|]; [|discriminate]. inversion Ea; subst. exists i. reflexivity.
Qed.

Lemma mon_set_mode : forall X N B s a m, struct_ok s -> mon3 X N B s -> mon3 X N B (set_mode_nolock s a m).
Proof.
  intros X N B s a m H M. unfold set_mode_nolock.
  match goal with |- mon3 _ _ _ (update_vol_status ?x) => apply (smf_mon X N B x); [repeat split|] end.
  destruct (aget (replicas s) a) as [m0|] eqn:Ea; [|exact M].
  assert (G : m0 <> ERR ->
     mon3 X N B (backend_set_mode (upd_replicas s (map (fun p => if Nat.eqb (fst p) a then (fst p, m) else p) (replicas s))) a m)).
  { intros Hm0.
    destruct (backend_of_replica s a m0 H Ea) as [i Eb].
    unfold backend_set_mode. cbn [backends upd_replicas]. rewrite Eb.
    match goal with |- context [upd_backends ?u ?v] => set (s1 := upd_backends u v) end.
    assert (R1 : replicas s1 = map (setm a m) (replicas s)) by reflexivity.
    assert (B1 : backends s1 = aset (backends s) a (m, i)) by reflexivity.
    assert (L1 : live_mon s1 = live_mon s /\ pend_mon s1 = pend_mon s /\ ninst s1 = ninst s) by (repeat split).
    destruct L1 as [L1 [P1 N1]].
    clearbody s1.
    assert (Hrep : m <> ERR -> forall x, In (x, ERR) (replicas s1) -> In (x, ERR) (replicas s)).
    { intros Hm x Hx. rewrite R1 in Hx. apply in_setm in Hx.
      destruct Hx as [[_ [Hmx _]]|Hx]; [exfalso; apply Hm; symmetry; exact Hmx|exact Hx]. }
    destruct (mode_eqb m ERR) eqn:Em.
    - assert (m = ERR) by (destruct m; try discriminate; reflexivity). subst m.
      destruct (stop_fields s1 i) as [F1 [F2 [F3 [F4 F5]]]].
      eapply (mon3_detach X N B s _ a M).
      + rewrite F3. exact N1.
      + rewrite Eb, F4, F5, L1, P1. split; reflexivity.
      + intros x Hx. rewrite F2, B1. rewrite aget_aset.
        destruct (Nat.eqb a x) eqn:E; [apply Nat.eqb_eq in E; subst; contradiction|reflexivity].
      + intros mx ix Hx. rewrite F2, B1 in Hx.
        rewrite aget_aset, Nat.eqb_refl in Hx. inversion Hx; subst. split; [reflexivity|exists m0; exact Eb].
      + intros x Hx. rewrite F1, R1 in Hx. apply in_setm in Hx.
        destruct Hx as [[Hxa _]|Hx]; [|left; exact Hx]. right. split; [exact Hxa|]. exists m0, i. split; assumption.
    - assert (Hm : m <> ERR) by (intro; subst; discriminate).
      eapply (mon3_promote X N B s s1 a m m0 i M); try reflexivity; try assumption. apply Hrep. exact Hm. }
  destruct m0; try (apply G; discriminate). exact M.
Qed.

Lemma mon_remove_replica : forall X N B s fs a, struct_ok s -> mon3 X N B s ->
  mon3 X N B (remove_replica_nolock s fs a).
Proof.
  intros X N B s fs a H M. unfold remove_replica_nolock.
  destruct (negb (has_replica s a)); [exact M|].
  eapply smf_mon; [apply smf_update_checkpoint|].
  match goal with |- mon3 _ _ _ (update_vol_status ?x) => apply (smf_mon X N B x); [repeat split|] end.
  set (s1 := if Nat.eqb (length (replicas s)) 1 && fe_up s then _ else s).
  assert (F : replicas s1 = replicas s /\ backends s1 = backends s /\ live_mon s1 = live_mon s
              /\ pend_mon s1 = pend_mon s /\ ninst s1 = ninst s).
  { subst s1. destruct (Nat.eqb (length (replicas s)) 1 && fe_up s); repeat split. }
  destruct F as [F1 [F2 [F3 [F4 F5]]]].
  set (s3 := upd_replicas (upd_registered s1 (adel (registered s1) a)) (adel (replicas (upd_registered s1 (adel (registered s1) a))) a)).
  assert (G1 : replicas s3 = adel (replicas s) a) by (subst s3; cbn; rewrite F1; reflexivity).
  assert (G2 : backends s3 = backends s) by (subst s3; cbn; exact F2).
  assert (G3 : live_mon s3 = live_mon s) by (subst s3; cbn; exact F3).
  assert (G4 : pend_mon s3 = pend_mon s) by (subst s3; cbn; exact F4).
  assert (G5 : ninst s3 = ninst s) by (subst s3; cbn; exact F5).
  assert (Hk : NoDup (keys (backends s))) by (rewrite <- keys_proj, (st_mirror s H); exact (st_nodup s H)).
  assert (Hrep : forall t, replicas t = replicas s3 -> forall x, In (x, ERR) (replicas t) -> In (x, ERR) (replicas s)).
  { intros t Ht x Hx. rewrite Ht, G1 in Hx. eapply in_adel. exact Hx. }
  unfold remove_backend. rewrite G2.
  destruct (aget (backends s) a) as [[mb ib]|] eqn:Eb.
  - destruct (stop_fields s3 ib) as [S1 [S2 [S3 [S4 S5]]]].
    eapply (mon3_detach X N B s _ a M).
    + cbn [ninst upd_backends upd_rep upd_w]. rewrite S3. exact G5.
    + rewrite Eb. cbn [live_mon pend_mon upd_backends upd_rep upd_w]. rewrite S4, S5, G3, G4. split; reflexivity.
    + intros x Hx. cbn [backends upd_backends upd_rep upd_w]. rewrite S2, G2. apply aget_adel_other. exact Hx.
    + intros m i Hx. cbn [backends upd_backends upd_rep upd_w] in Hx. rewrite S2, G2, (aget_adel_same _ _ Hk) in Hx. discriminate.
    + intros x Hx. left. revert x Hx. apply Hrep. cbn [replicas upd_backends upd_rep upd_w]. exact S1.
  - eapply (mon3_detach X N B s _ a M).
    + exact G5.
    + rewrite Eb. split; assumption.
    + intros x Hx. rewrite G2. reflexivity.
    + intros m i Hx. rewrite G2, Eb in Hx. discriminate.
    + intros x Hx. left. revert x Hx. apply Hrep. reflexivity.
Qed.

Lemma mon_handle_error : forall X N B errs s, struct_ok s -> mon3 X N B s ->
  mon3 X N B (fst (handle_error_nolock s errs)).
Proof.
  intros X N B errs s H M. unfold handle_error_nolock. cbn [fst].
  revert s H M. induction errs as [|a t IH]; intros s H M; cbn; [exact M|].
  apply IH; [apply struct_set_mode; [discriminate|exact H]|apply mon_set_mode; assumption].
Qed.

Lemma mon_remove_all : forall X N B errs s fs, struct_ok s -> mon3 X N B s -> mon3 X N B (remove_all s fs errs).
Proof.
  intros X N B. unfold remove_all. induction errs as [|a t IH]; intros s fs H M; cbn; [exact M|].
  apply IH; [apply struct_remove_replica; exact H|apply mon_remove_replica; assumption].
Qed.

Lemma mon_errors : forall X N B s fs errs, struct_ok s -> mon3 X N B s ->
  mon3 X N B (remove_all (fst (handle_error_nolock s errs)) fs errs).
Proof.
  intros X N B s fs errs H M. apply mon_remove_all; [apply struct_handle_error; exact H|].
  apply mon_handle_error; assumption.
Qed.

Lemma mon_fold_set_mode_err : forall X N B {A} (l : list A) (g : A -> bool) (k : A -> addr) s,
  struct_ok s -> mon3 X N B s ->
  mon3 X N B (fold_left (fun acc p => if g p then acc else set_mode_nolock acc (k p) ERR) l s).
Proof.
  intros X N B A l g k. induction l as [|x t IH]; intros s H M; cbn; [exact M|].
  destruct (g x); [apply IH; assumption|].
  apply IH; [apply struct_set_mode; [discriminate|exact H]|apply mon_set_mode; assumption].
Qed.

Lemma mon_can_add : forall X N B s fs a, struct_ok s -> mon3 X N B s -> mon3 X N B (fst (can_add s fs a)).
Proof.
  intros X N B s fs a H M. unfold can_add.
  destruct (has_replica s a); [exact M|].
  destruct (find (fun p => mode_eqb (snd p) WO) (replicas s)) as [[wo m]|]; [|exact M].
  destruct (negb (amem (backends s) wo) || flt fs wo KRev || flt fs a KHttp); [exact M|].
  destruct (f_rev (wget (w s) wo) <? f_rev (wget (w s) a)); [|exact M].
  cbn [fst]. apply mon_remove_replica; assumption.
Qed.

Lemma mon_create_backend : forall X N B s fs a s1 i, create_backend s fs a = Some (s1, i) -> mon3 X N B s ->
  i = ninst s /\ mon3 X N (S (ninst s)) s1.
Proof.
  intros X N B s fs a s1 i Hc [M1 M2 M3 M4 M5 M6]. unfold create_backend in Hc.
  destruct (flt fs a KCreate || f_open (wget (w s) a)); [discriminate|].
  inversion Hc; subst. split; [reflexivity|]. constructor; cbn; try assumption. apply Nat.le_refl.
Qed.

Lemma aget_snoc_other : forall {V} (l : list (nat * V)) i v j, j <> i -> aget (l ++ [(i, v)]) j = aget l j.
Proof.
  intros V l i v j Hj. rewrite aget_app. destruct (aget l j); [reflexivity|]. cbn.
  destruct (Nat.eqb i j) eqn:E; [apply Nat.eqb_eq in E; subst; contradiction|reflexivity].
Qed.

Lemma mon_add_replica_nolock : forall X N s fs a i b, struct_ok s -> mon3 X N (S i) s -> (N <= i)%nat ->
  mon3 X (S i) (S i) (fst (add_replica_nolock s fs a i b)).
Proof.
  intros X N s fs a i b H M HNi.
  assert (Wk : forall t, mon3 X N (S i) t -> mon3 X (S i) (S i) t).
  { intros t Mt. eapply mon3_weaken; [exact Mt| |apply Nat.le_refl|auto]. apply Nat.le_trans with i; [exact HNi|apply Nat.le_succ_diag_r]. }
  unfold add_replica_nolock.
  destruct (struct_can_add s fs a H) as [Hs0 Hpost].
  pose proof (mon_can_add X N (S i) s fs a H M) as M0.
  destruct (can_add s fs a) as [s0 ok]. cbn [fst snd] in *.
  destruct ok; cbn [negb]; [|apply Wk; exact M0].
  destruct (Hpost eq_refl) as [Hnew _].
  set (after := if b then _ else _).
  assert (Hafter : match after with Some (s3, _) => smf s0 s3 | None => True end).
  { subst after. destruct b; [|apply smf_refl].
    destruct (negb (remain_ok s0)); [apply smf_refl|].
    pose proof (smf_snapshot_all (upd_nsnap s0 (S (nsnap s0))) fs (nsnap s0)) as Hs.
    destruct (snapshot_all (upd_nsnap s0 (S (nsnap s0))) fs (nsnap s0)) as [s2 errs]. cbn [fst] in Hs.
    assert (Hs2 : smf s0 s2) by (eapply smf_trans; [|exact Hs]; repeat split).
    destruct errs; [destruct (flt fs a KSnap)|]; (eapply smf_trans; [exact Hs2|repeat split]). }
  destruct after as [[s3 r]|]; [|apply Wk; exact M0].
  pose proof (smf_mon X N (S i) s0 s3 Hafter M0) as M3.
  destruct r; try (apply Wk; exact M3).
  destruct (flt fs a KSetModeWO); [apply Wk; exact M3|].
  destruct Hafter as [R1 [R2 [R3 [R4 R5]]]].
  assert (Hnb : amem (backends s3) a = false).
  { unfold amem. rewrite aget_none_not_in; [reflexivity|]. rewrite R2, <- keys_proj, (st_mirror s0 Hs0).
    intro Hin. apply has_replica_in in Hin. congruence. }
  cbn [fst backends upd_replicas upd_rep upd_w]. rewrite Hnb.
  destruct M3 as [M1 M2 M3 M4 M5 M6].
  assert (Hfresh : aget (live_mon s3) i = None).
  { apply aget_none_not_in. intro Hin.
    assert (Hlt : (i < N)%nat) by (apply M4; rewrite keys_app; apply in_or_app; left; exact Hin).
    exact (Nat.lt_irrefl _ (Nat.lt_le_trans _ _ _ Hlt HNi)). }
  assert (Pm : Permutation (keys ((live_mon s3 ++ [(i, a)]) ++ pend_mon s3)) (i :: keys (live_mon s3 ++ pend_mon s3))).
  { rewrite !keys_app. cbn [keys map fst].
    apply (Permutation_app_tail (map fst (pend_mon s3)) (l := map fst (live_mon s3) ++ [i]) (l' := i :: map fst (live_mon s3))). apply Permutation_sym. apply Permutation_cons_append. }
  constructor; cbn [backends live_mon pend_mon replicas ninst upd_mon upd_backends upd_replicas upd_rep upd_w].
  - intros x mx ix Hx. rewrite aget_app in Hx. destruct (aget (backends s3) x) as [[m1 i1]|] eqn:E1.
    + inversion Hx; subst m1 i1. destruct (M1 x mx ix E1) as [A1 A2]. pose proof (M5 x mx ix E1) as Hlt.
      assert (Hne : ix <> i).
      { intro E. subst ix. exact (Nat.lt_irrefl _ (Nat.lt_le_trans _ _ _ Hlt HNi)). }
      rewrite (aget_snoc_other _ _ _ _ Hne). split; assumption.
    + cbn [aget] in Hx. destruct (Nat.eqb a x) eqn:E; [|discriminate]. inversion Hx; subst mx ix.
      apply Nat.eqb_eq in E. subst x.
      assert (Hl : aget (live_mon s3 ++ [(i, a)]) i = Some a).
      { rewrite aget_app, Hfresh. cbn [aget]. rewrite Nat.eqb_refl. reflexivity. }
      split; [left; exact Hl|intros _; right; exact Hl].
  - intros x Hx. apply in_app_or in Hx. destruct Hx as [Hx|[Hx|[]]]; [exact (M2 x Hx)|inversion Hx].
  - eapply Permutation_NoDup; [apply Permutation_sym; exact Pm|]. constructor; [|exact M3].
    intro Hin. exact (Nat.lt_irrefl _ (Nat.lt_le_trans _ _ _ (M4 i Hin) HNi)).
  - intros k Hk. eapply Permutation_in in Hk; [|exact Pm]. destruct Hk as [Hk|Hk].
    + subst k. apply Nat.lt_succ_diag_r.
    + apply Nat.lt_lt_succ_r. eapply Nat.lt_le_trans; [apply M4; exact Hk|exact HNi].
  - intros x mx ix Hx. rewrite aget_app in Hx. destruct (aget (backends s3) x) as [[m1 i1]|] eqn:E1.
    + inversion Hx; subst m1 i1. apply Nat.lt_lt_succ_r. eapply Nat.lt_le_trans; [eapply M5; exact E1|exact HNi].
    + cbn [aget] in Hx. destruct (Nat.eqb a x); [|discriminate]. inversion Hx; subst. apply Nat.lt_succ_diag_r.
  - exact M6.
Qed.

Lemma mon_add_during_start : forall s fs a, struct_ok s -> (length (replicas s) < rf s)%nat -> mon_ok s ->
  mon_ok (fst (add_during_start s fs a)).
Proof.
  intros s fs a H Hroom M. unfold mon_ok in *. unfold add_during_start.
  destruct (create_backend s fs a) as [[s1 i]|] eqn:Hcb.
  2:{ eapply smf_mon; [|exact M]. repeat split. }
  pose proof (struct_create_backend _ _ _ _ _ Hcb) as S1.
  assert (H1 : struct_ok s1) by (eapply sst_struct; [exact S1|exact H]).
  destruct (mon_create_backend _ _ _ _ _ _ _ _ Hcb M) as [Hi M1].
  destruct S1 as [R1 [R2 [R3 _]]].
  assert (Nm : forall t, mon3 nobody (ninst s) (S (ninst s)) t -> mon3 nobody (ninst t) (ninst t) t).
  { intros t Mt. eapply mon3_renorm; [exact Mt|apply Nat.le_succ_diag_r]. }
  assert (Nm2 : forall t, mon3 nobody (S i) (S i) t -> mon3 nobody (ninst t) (ninst t) t).
  { intros t Mt. eapply mon3_renorm; [exact Mt|apply Nat.le_refl]. }
  assert (Rm : forall t, mon3 nobody (ninst s) (S (ninst s)) t -> mon3 nobody (ninst s) (S (ninst s)) (rm_from_registered t)).
  { intros t Mt. eapply smf_mon; [|exact Mt]. repeat split. }
  assert (Rm2 : forall t, mon3 nobody (S i) (S i) t -> mon3 nobody (S i) (S i) (rm_from_registered t)).
  { intros t Mt. eapply smf_mon; [|exact Mt]. repeat split. }
  destruct (flt fs a KSize); [apply Nm; apply Rm; exact M1|].
  set (s2 := if csize s1 =? maxint then _ else s1).
  assert (S2 : same_struct_fields s1 s2).
  { subst s2. destruct (csize s1 =? maxint); [apply sst_upd_csize|apply sst_refl]. }
  assert (H2 : struct_ok s2) by (eapply sst_struct; eauto).
  assert (M2 : mon3 nobody (ninst s) (S (ninst s)) s2).
  { subst s2. destruct (csize s1 =? maxint); [|exact M1]. eapply smf_mon; [|exact M1]. repeat split. }
  destruct (negb (csize s2 =? f_size (wget (w s1) a))); [apply Nm; apply Rm; exact M2|].
  assert (Hroom2 : (length (replicas s2) < rf s2)%nat).
  { destruct S2 as [Q1 [Q2 [Q3 _]]]. rewrite Q1, Q3, R1, R3. exact Hroom. }
  pose proof (struct_add_replica_nolock s2 fs a i false H2 Hroom2) as H3.
  assert (M2' : mon3 nobody (ninst s) (S i) s2) by (rewrite Hi; exact M2).
  assert (Hle : (ninst s <= i)%nat) by (rewrite Hi; apply Nat.le_refl).
  pose proof (mon_add_replica_nolock nobody (ninst s) s2 fs a i false H2 M2' Hle) as M3.
  destruct (add_replica_nolock s2 fs a i false) as [s3 r]. cbn [fst] in H3, M3.
  destruct r; try (apply Nm2; apply Rm2; exact M3).
  destruct (flt fs a KClone); [apply Nm2; apply mon_remove_replica; assumption|].
  assert (G : mon3 nobody (S i) (S i) (fst (if flt fs a KSetModeRW then (remove_replica_nolock s3 fs a, RErr)
                  else (set_mode_nolock (upd_rep s3 a (fun f => f_set_mode f RRW)) a RW, ROk)))).
  { destruct (flt fs a KSetModeRW); cbn [fst]; [apply mon_remove_replica; assumption|].
    apply mon_set_mode; [eapply sst_struct; [apply sst_upd_rep|exact H3]|].
    eapply smf_mon; [apply smf_upd_rep|exact M3]. }
  destruct (f_clone (wget (w s3) a)); try (apply Nm2; exact G). apply Nm2. apply mon_remove_replica; assumption.
Qed.

Lemma mon_start_frontend : forall X N B s, mon3 X N B s -> mon3 X N B (start_frontend s).
Proof.
  intros X N B s M. unfold start_frontend. destruct (replicas s) eqn:E; [exact M|].
  eapply smf_mon; [|exact M]. repeat split.
Qed.

Lemma mon_ok_smf : forall s t, smf s t -> mon_ok s -> mon_ok t.
Proof.
  intros s t Hs M. unfold mon_ok in *. destruct Hs as [A1 [A2 [A3 [A4 A5]]]]. rewrite A5.
  eapply smf_mon; [|exact M]. repeat split; assumption.
Qed.

Lemma mon_ok_start_frontend : forall s, mon_ok s -> mon_ok (start_frontend s).
Proof.
  intros s M. unfold start_frontend. destruct (replicas s) eqn:E; [exact M|].
  eapply mon_ok_smf; [|exact M]. repeat split.
Qed.

Lemma mon_do_start : forall s l fs, struct_ok s -> (length l <= 1)%nat -> mon_ok s ->
  mon_ok (fst (fst (do_start s l fs))).
Proof.
  intros s l fs H Hl M. pose proof (st_rf s H) as Hrf. unfold do_start.
  destruct l as [|a0 t]; [exact M|].
  destruct t as [|a1 t]; [|cbn in Hl; lia].
  destruct (replicas s) eqn:Er; [|exact M].
  destruct (negb (signalled s) || negb _); [exact M|].
  set (s0 := upd_csize _ maxint).
  assert (H0 : struct_ok s0).
  { subst s0. constructor; cbn; [constructor|reflexivity|lia|lia|exact Hrf|reflexivity|exact (st_reg s H)]. }
  assert (Hroom : (length (replicas s0) < rf s0)%nat) by (subst s0; cbn; lia).
  assert (Hb : backends s = []).
  { pose proof (st_mirror s H) as Hm. rewrite Er in Hm. unfold proj in Hm. apply map_eq_nil in Hm. exact Hm. }
  assert (M0 : mon_ok s0).
  { eapply mon_ok_smf; [|exact M]. subst s0. unfold smf. cbn. rewrite Er, Hb. repeat split. }
  cbn [start_adds].
  pose proof (struct_add_during_start s0 fs a0 H0 Hroom) as H1.
  pose proof (mon_add_during_start s0 fs a0 H0 Hroom M0) as M1.
  destruct (add_during_start s0 fs a0) as [s1 r]. cbn [fst] in H1, M1.
  destruct r; try (cbn [fst]; apply mon_ok_start_frontend; exact M1).
  destruct (existsb (fun p => flt fs (fst p) KRev) (replicas s1)); [cbn [fst]; apply mon_ok_start_frontend; exact M1|].
  cbn [fst]. apply mon_ok_start_frontend.
  eapply mon_ok_smf; [apply smf_update_checkpoint|].
  match goal with |- mon_ok (update_vol_status ?x) => apply (mon_ok_smf x); [repeat split|] end.
  unfold mon_ok in M1. apply (mon3_renorm nobody (ninst s1) (ninst s1)); [|apply Nat.le_refl].
  match goal with |- mon3 _ _ _ (fold_left ?f ?l s1) =>
      change (mon3 nobody (ninst s1) (ninst s1)
               (fold_left (fun acc p => if (fun q => snd q =? fold_left Z.max (map snd l) 0) p then acc
                                               else set_mode_nolock acc (fst p) ERR) l s1)) end.
  apply mon_fold_set_mode_err; assumption.
Qed.

Lemma mon_do_write : forall X N B s wid off len fs, struct_ok s -> mon3 X N B s ->
  mon3 X N B (fst (do_write s wid off len fs)).
Proof.
  intros X N B s wid off len fs H M. unfold do_write.
  destruct (ro s); [exact M|].
  destruct ((off <? 0) || (csize s <? off + len)); [exact M|].
  destruct (negb (avail s)); [exact M|].
  set (s1 := fold_left _ (writers s) s).
  assert (H1 : struct_ok s1).
  { eapply sst_struct; [|exact H]. subst s1. apply sst_fold_left.
    intros t x. destruct (flt fs x KWrite); [apply sst_refl|apply sst_upd_rep]. }
  assert (M1 : mon3 X N B s1).
  { eapply smf_mon; [|exact M]. subst s1. apply smf_fold.
    intros t x. destruct (flt fs x KWrite); [apply smf_refl|apply smf_upd_rep]. }
  destruct (io_errs (writers s) fs KWrite KWriteAp) as [|e es] eqn:Ee; [exact M1|].
  pose proof (mon_errors X N B s1 fs (e :: es) H1 M1) as M2.
  destruct (handle_error_nolock s1 (e :: es)) as [s2 sup]. cbn [fst] in *. exact M2.
Qed.

Lemma mon_do_sync : forall X N B s fs k, struct_ok s -> mon3 X N B s -> mon3 X N B (fst (do_sync s fs k)).
Proof.
  intros X N B s fs k H M. unfold do_sync.
  destruct (ro s); [exact M|].
  destruct (negb (avail s)); [exact M|].
  destruct (io_errs (writers s) fs k k) as [|e es] eqn:Ee; [exact M|].
  pose proof (mon_errors X N B s fs (e :: es) H M) as M2.
  destruct (handle_error_nolock s (e :: es)) as [s2 sup]. cbn [fst] in *. exact M2.
Qed.

Lemma mon_do_read : forall X N B s off len order fs, struct_ok s -> mon3 X N B s ->
  mon3 X N B (fst (fst (do_read s off len order fs))).
Proof.
  intros X N B s off len order fs H M. unfold do_read.
  destruct ((off <? 0) || (csize s <? off + len)); [exact M|].
  destruct (replicas s) as [|[a0 m0] t] eqn:Er; [exact M|].
  assert (G : mon3 X N B (fst (fst (
      if negb (avail s) then (s, RErr, noeff)
      else if negb (read_order_ok s order fs) then (s, RInvalid, noeff)
      else
        let errs := filter (fun a => flt fs a KRead) order in
        let served := match rev order with lst :: _ => if flt fs lst KRead then None else Some lst | [] => None end in
        match errs with
        | [] => (s, ROk, mkeff [] served)
        | _ =>
            let '(s2, suppressed) := handle_error_nolock s errs in
            let s3 := remove_all s2 fs errs in
            (s3, match served with Some _ => if suppressed then ROk else RErr | None => RErr end, mkeff [] served)
        end)))).
  { destruct (negb (avail s)); [exact M|].
    destruct (negb (read_order_ok s order fs)); [exact M|].
    cbv zeta.
    destruct (filter (fun a => flt fs a KRead) order) as [|e es]; [exact M|].
    pose proof (mon_errors X N B s fs (e :: es) H M) as M2.
    destruct (handle_error_nolock s (e :: es)) as [s2 sup]. cbn [fst] in *. exact M2. }
  destruct m0; destruct t; try exact G; exact M.
Qed.

Lemma mon_do_add_check : forall X N B s a fs, struct_ok s -> mon3 X N B s -> mon3 X N B (fst (do_add_check s a fs)).
Proof.
  intros X N B s a fs H M. unfold do_add_check.
  pose proof (mon_can_add X N B s fs a H M) as M1.
  destruct (can_add s fs a) as [s1 ok]. cbn [fst] in M1.
  destruct (negb ok); [exact M1|].
  destruct (Nat.eqb (rf s1) (length (replicas s1))); [exact M1|].
  eapply smf_mon; [|exact M1]. repeat split.
Qed.

Lemma mon_do_add_commit : forall s a fs, struct_ok s -> mon_ok s -> mon_ok (fst (do_add_commit s a fs)).
Proof.
  intros s a fs H M. unfold mon_ok in *. unfold do_add_commit.
  destruct (negb (existsb (Nat.eqb a) (pend_adds s))); [exact M|].
  set (s0 := upd_pend_adds s _).
  assert (H0 : struct_ok s0) by (eapply sst_struct; [apply sst_upd_pend_adds|exact H]).
  assert (M0 : mon3 nobody (ninst s0) (ninst s0) s0) by (eapply smf_mon; [|exact M]; repeat split).
  destruct (create_backend s0 fs a) as [[s1 i]|] eqn:Hcb; [|exact M0].
  pose proof (struct_create_backend _ _ _ _ _ Hcb) as S1.
  assert (H1 : struct_ok s1) by (eapply sst_struct; eauto).
  destruct (mon_create_backend _ _ _ _ _ _ _ _ Hcb M0) as [Hi M1].
  destruct (Nat.eqb (rf s1) (length (replicas s1))) eqn:Erf.
  { eapply mon3_renorm; [|apply Nat.le_succ_diag_r]. eapply smf_mon; [apply smf_upd_rep|exact M1]. }
  assert (Hroom : (length (replicas s1) < rf s1)%nat).
  { apply Nat.eqb_neq in Erf. destruct H1 as [_ _ Hl _ _ _ _]. lia. }
  pose proof (struct_add_replica_nolock s1 fs a i true H1 Hroom) as H2.
  assert (M1' : mon3 nobody (ninst s0) (S i) s1) by (rewrite Hi; exact M1).
  assert (Hle : (ninst s0 <= i)%nat) by (rewrite Hi; apply Nat.le_refl).
  pose proof (mon_add_replica_nolock nobody (ninst s0) s1 fs a i true H1 M1' Hle) as M2.
  destruct (add_replica_nolock s1 fs a i true) as [s2 r]. cbn [fst] in H2, M2.
  destruct r; try (eapply mon3_renorm; [exact M2|apply Nat.le_refl]).
  cbn [fst]. eapply mon3_renorm; [|apply Nat.le_refl].
  eapply smf_mon; [apply smf_update_checkpoint|]. eapply smf_mon; [|exact M2]. repeat split.
Qed.

Lemma mon_do_verify : forall X N B s a fs, struct_ok s -> mon3 X N B s -> mon3 X N B (fst (do_verify s a fs)).
Proof.
  intros X N B s a fs H M. unfold do_verify.
  destruct (aget (replicas s) a) as [m|]; [|exact M].
  destruct (find (fun p => is_rw (snd p)) (replicas s)) as [[r0 m0]|]; [|destruct m; exact M].
  destruct m; try exact M.
  destruct (flt fs r0 KHttp || flt fs a KHttp); [exact M|].
  match goal with |- context [match ?K with Some k => _ | None => _ end] => destruct K as [k|] end; [|exact M].
  destruct (Nat.ltb (length (f_chain (wget (w s) a))) k); [exact M|].
  destruct (negb (list_eqb _ _)); [exact M|].
  destruct (negb (amem (backends s) r0) || flt fs r0 KRev); [exact M|].
  destruct (negb (amem (backends s) a) || flt fs a KSetModeRW); [exact M|].
  set (s1 := upd_rep s a _).
  assert (H1 : struct_ok s1) by (eapply sst_struct; [apply sst_upd_rep|exact H]).
  assert (M1 : mon3 X N B s1) by (eapply smf_mon; [apply smf_upd_rep|exact M]).
  destruct (flt fs a KSetRev); [exact M1|].
  cbn [fst]. eapply smf_mon; [apply smf_update_checkpoint|].
  match goal with |- mon3 _ _ _ (update_vol_status ?x) => apply (smf_mon X N B x); [repeat split|] end.
  apply mon_set_mode; [eapply sst_struct; [apply sst_upd_rep|exact H1]|].
  eapply smf_mon; [apply smf_upd_rep|exact M1].
Qed.

Lemma mon_do_snapshot : forall X N B s n fs, struct_ok s -> mon3 X N B s -> mon3 X N B (fst (do_snapshot s n fs)).
Proof.
  intros X N B s n fs H M. unfold do_snapshot.
  destruct (negb (Nat.eqb (rwc s) (rf s))); [exact M|].
  destruct (Nat.eqb (length (backends s)) 0); [exact M|].
  destruct (negb (remain_ok s)); [exact M|].
  destruct (last_rw s) as [r0|]; [|exact M].
  destruct (flt fs r0 KHttp); [exact M|].
  destruct (existsb (Nat.eqb n) (f_chain (wget (w s) r0))); [exact M|].
  pose proof (sst_snapshot_all s fs n) as Hs.
  pose proof (smf_snapshot_all s fs n) as Hm.
  destruct (snapshot_all s fs n) as [s1 errs]. cbn [fst] in Hs, Hm.
  assert (H1 : struct_ok s1) by (eapply sst_struct; [exact Hs|exact H]).
  assert (M1 : mon3 X N B s1) by (eapply smf_mon; eauto).
  destruct errs as [|e es]; [exact M1|].
  pose proof (mon_handle_error X N B (e :: es) s1 H1 M1) as M2.
  destruct (handle_error_nolock s1 (e :: es)) as [s2 sup]. exact M2.
Qed.

Lemma mon_do_resize : forall X N B s sz fs, struct_ok s -> mon3 X N B s -> mon3 X N B (fst (do_resize s sz fs)).
Proof.
  intros X N B s sz fs H M. unfold do_resize.
  destruct (sz <? csize s); [exact M|].
  destruct (sz =? csize s); [exact M|].
  set (s1 := fold_left _ (writers s) s).
  assert (H1 : struct_ok s1).
  { eapply sst_struct; [|exact H]. subst s1. apply sst_fold_left.
    intros t x. destruct (flt fs x KResize); [apply sst_refl|apply sst_upd_rep]. }
  assert (M1 : mon3 X N B s1).
  { eapply smf_mon; [|exact M]. subst s1. apply smf_fold.
    intros t x. destruct (flt fs x KResize); [apply smf_refl|apply smf_upd_rep]. }
  set (errs := filter (fun a => flt fs a KResize) (writers s)).
  assert (M2 : mon3 X N B (fst (match errs with
                               | [] => (s1, false)
                               | _ => let '(s2, suppressed) := handle_error_nolock s1 errs in (s2, negb suppressed)
                               end))).
  { destruct errs as [|e es]; [exact M1|].
    pose proof (mon_handle_error X N B (e :: es) s1 H1 M1) as M2.
    destruct (handle_error_nolock s1 (e :: es)) as [s2 sup]. exact M2. }
  destruct (match errs with [] => (s1, false) | _ => _ end) as [s2 failed]. cbn [fst] in M2.
  destruct failed; [exact M2|].
  destruct (flt fs 0%nat KFeResize); [exact M2|].
  eapply smf_mon; [|exact M2]. repeat split.
Qed.

(** *** the monitor events: the notification is consumed, then the replica is removed *)
Lemma mon3_shrink : forall (X' X : addr -> Prop) N B t, mon3 X' N B t -> struct_ok t ->
  (forall y, X' y -> X y \/ ~ In y (keys (replicas t))) -> mon3 X N B t.
Proof.
  intros X' X N B t [M1 M2 M3 M4 M5 M6] H HX. constructor; try assumption.
  - intros y my iy Hy. destruct (M1 y my iy Hy) as [A1 A2]. split; [exact A1|].
    intros Hm. destruct (A2 Hm) as [P|P]; [|right; exact P].
    destruct (HX y P) as [Q|Q]; [left; exact Q|]. exfalso. apply Q.
    rewrite <- (st_mirror t H), keys_proj. eapply in_keys. eapply aget_in. exact Hy.
  - intros y Hy. destruct (M2 y Hy) as [P|P]; [|right; exact P].
    destruct (HX y P) as [Q|Q]; [left; exact Q|]. exfalso. apply Q. eapply in_keys. exact Hy.
Qed.

Lemma mon_do_mon_fire : forall X N B s a fs, struct_ok s -> mon3 X N B s -> mon3 X N B (fst (do_mon_fire s a fs)).
Proof.
  intros X N B s a fs H M. unfold do_mon_fire.
  destruct (first_for (pend_mon s) (Nat.eqb a)) as [[i x]|] eqn:Ef; [|exact M].
  cbn [fst]. unfold first_for in Ef. apply find_some in Ef. destruct Ef as [Hin Hx]. cbn [snd] in Hx.
  apply Nat.eqb_eq in Hx. subst x.
  set (s1 := upd_mon s (live_mon s) (adel (pend_mon s) i)).
  assert (H1 : struct_ok s1) by (eapply sst_struct; [apply sst_upd_mon|exact H]).
  assert (M1 : mon3 (fun y => X y \/ y = a) N B s1).
  { destruct M as [M1 M2 M3 M4 M5 M6].
    assert (NP : NoDup (keys (pend_mon s))) by (rewrite keys_app in M3; eapply nodup_app_r; exact M3).
    constructor; cbn [backends replicas live_mon pend_mon ninst s1 upd_mon]; try assumption.
    - intros y my iy Hy. destruct (M1 y my iy Hy) as [A1 A2]. split; [exact A1|].
      intros Hm. destruct (A2 Hm) as [P|P]; [left; left; exact P|right; exact P].
    - intros y Hy. destruct (M2 y Hy) as [P|[j Hj]]; [left; left; exact P|].
      destruct (Nat.eq_dec y a) as [E|E]; [left; right; exact E|]. right. exists j.
      apply in_adel_other; [exact Hj|]. intro Ej. subst j. apply E. exact (nodup_same_key _ _ _ _ NP Hj Hin).
    - apply nodup_app_adel_r. exact M3.
    - intros k Hk. apply M4. eapply keys_app_adel_r_sub. exact Hk. }
  eapply mon3_shrink; [apply mon_remove_replica; [exact H1|exact M1]|apply struct_remove_replica; exact H1|].
  intros y [Hy|Hy]; [left; exact Hy|right]. subst y. apply remove_replica_gone. exact H1.
Qed.

Lemma mon_do_mon_fail : forall X N B s a fs, struct_ok s -> mon3 X N B s -> mon3 X N B (fst (do_mon_fail s a fs)).
Proof.
  intros X N B s a fs H M. unfold do_mon_fail.
  destruct (first_for (rev (live_mon s)) (Nat.eqb a)) as [[i x]|] eqn:Ef; [|exact M].
  cbn [fst]. unfold first_for in Ef. apply find_some in Ef. destruct Ef as [Hin Hx]. cbn [snd] in Hx.
  apply Nat.eqb_eq in Hx. subst x. apply in_rev in Hin.
  set (s1 := upd_mon s (adel (live_mon s) i) (pend_mon s)).
  assert (H1 : struct_ok s1) by (eapply sst_struct; [apply sst_upd_mon|exact H]).
  assert (M1 : mon3 (fun y => X y \/ y = a) N B s1).
  { destruct M as [M1 M2 M3 M4 M5 M6].
    assert (NL : NoDup (keys (live_mon s))) by (rewrite keys_app in M3; eapply nodup_app_l; exact M3).
    pose proof (aget_in_nodup _ _ _ NL Hin) as Hia.
    constructor; cbn [backends replicas live_mon pend_mon ninst s1 upd_mon]; try assumption.
    - intros y my iy Hy. destruct (M1 y my iy Hy) as [A1 A2].
      destruct (Nat.eq_dec iy i) as [E|E].
      + subst iy. rewrite (aget_adel_same _ _ NL). split; [right; reflexivity|].
        intros Hm. left. destruct (A2 Hm) as [P|P]; [left; exact P|right; congruence].
      + rewrite (aget_adel_other _ _ _ E). split; [exact A1|].
        intros Hm. destruct (A2 Hm) as [P|P]; [left; left; exact P|right; exact P].
    - intros y Hy. destruct (M2 y Hy) as [P|P]; [left; left; exact P|right; exact P].
    - apply nodup_app_adel_l. exact M3.
    - intros k Hk. apply M4. eapply keys_app_adel_l_sub. exact Hk. }
  assert (H2 : struct_ok (set_mode_nolock s1 a ERR)) by (apply struct_set_mode; [discriminate|exact H1]).
  eapply mon3_shrink; [apply mon_remove_replica; [exact H2|apply mon_set_mode; [exact H1|exact M1]]
                      |apply struct_remove_replica; exact H2|].
  intros y [Hy|Hy]; [left; exact Hy|right]. subst y. apply remove_replica_gone. exact H2.
Qed.

Lemma mon_ok_keep : forall s t, (forall X N B, mon3 X N B s -> mon3 X N B t) -> mon_ok s -> mon_ok t.
Proof. intros s t Hk M. unfold mon_ok in *. eapply mon3_renorm; [apply Hk; exact M|apply Nat.le_refl]. Qed.

Theorem mon_step : forall s e, struct_ok s -> ev_wf e = true -> mon_ok s -> mon_ok (fst (fst (step s e))).
Proof.
  intros s e H Hwf M. destruct e; cbn [step].
  - eapply mon_ok_smf; [apply smf_of_sc; apply sc_do_register|exact M].
  - apply mon_do_start; [exact H| |exact M]. cbn in Hwf. apply Nat.leb_le in Hwf. exact Hwf.
  - eapply mon_ok_keep; [|exact M]. intros X N B MX.
    pose proof (mon_do_add_check X N B s a fs H MX). destruct (do_add_check s a fs); assumption.
  - pose proof (mon_do_add_commit s a fs H M). destruct (do_add_commit s a fs); assumption.
  - eapply mon_ok_keep; [|exact M]. intros X N B MX.
    pose proof (mon_do_verify X N B s a fs H MX). destruct (do_verify s a fs); assumption.
  - cbn. eapply mon_ok_keep; [|exact M]. intros X N B MX. apply mon_remove_replica; assumption.
  - destruct m; cbn; try exact M; (eapply mon_ok_keep; [|exact M]; intros X N B MX; apply mon_set_mode; assumption).
  - eapply mon_ok_keep; [|exact M]. intros X N B MX.
    pose proof (mon_do_mon_fire X N B s a fs H MX). destruct (do_mon_fire s a fs); assumption.
  - eapply mon_ok_keep; [|exact M]. intros X N B MX.
    pose proof (mon_do_mon_fail X N B s a fs H MX). destruct (do_mon_fail s a fs); assumption.
  - eapply mon_ok_keep; [|exact M]. intros X N B MX.
    pose proof (mon_do_write X N B s wid off len fs H MX). destruct (do_write s wid off len fs); assumption.
  - eapply mon_ok_keep; [|exact M]. intros X N B MX.
    pose proof (mon_do_sync X N B s fs KSync H MX). destruct (do_sync s fs KSync); assumption.
  - eapply mon_ok_keep; [|exact M]. intros X N B MX.
    pose proof (mon_do_sync X N B s fs KUnmap H MX). destruct (do_sync s fs KUnmap); assumption.
  - eapply mon_ok_keep; [|exact M]. intros X N B MX. apply mon_do_read; assumption.
  - eapply mon_ok_keep; [|exact M]. intros X N B MX.
    pose proof (mon_do_snapshot X N B s name fs H MX). destruct (do_snapshot s name fs); assumption.
  - eapply mon_ok_keep; [|exact M]. intros X N B MX.
    pose proof (mon_do_resize X N B s newsize fs H MX). destruct (do_resize s newsize fs); assumption.
  - unfold do_sync_data. destruct (aget (replicas s) a) as [[]|]; try exact M.
    destruct (find _ (replicas s)) as [[r0 m0]|]; [|exact M]. cbn [fst].
    eapply mon_ok_smf; [apply smf_upd_rep|exact M].
Qed.

Lemma mon_init : forall rf0 w0, mon_ok (init rf0 w0).
Proof.
  intros rf0 w0. unfold mon_ok. constructor; cbn.
  - intros a m i Hx. discriminate.
  - intros a [].
  - constructor.
  - intros k [].
  - intros a m i Hx. discriminate.
  - apply Nat.le_refl.
Qed.

(** ** the combined invariant and the C13 statement *)
Definition ck_inv (s : cst) : Prop := struct_ok s /\ cp_ok s /\ mon_ok s.

Theorem ck_inv_step : forall s e, ck_inv s -> ev_wf e = true -> ck_inv (fst (fst (step s e))).
Proof.
  intros s e [H [C M]] Hwf. split; [apply struct_step; assumption|].
  split; [apply cp_step; assumption|apply mon_step; assumption].
Qed.

Theorem ck_inv_reachable : forall es rf0 w0, (1 <= rf0)%nat -> forallb ev_wf es = true ->
  ck_inv (run (init rf0 w0) es).
Proof.
  intros es rf0 w0 H Hwf.
  assert (G : forall es s, ck_inv s -> forallb ev_wf es = true -> ck_inv (run s es)).
  { clear. induction es as [|e t IH]; intros s Hs Hw; cbn; [exact Hs|].
    cbn in Hw. apply andb_prop in Hw. destruct Hw as [He Ht].
    apply IH; [apply ck_inv_step; assumption|exact Ht]. }
  apply G; [|exact Hwf]. split; [apply struct_init; exact H|]. split; [apply cp_init|apply mon_init].
Qed.

Lemma count_rw_all : forall l, (forall a m, In (a, m) l -> m = RW) -> count_rw l = length l.
Proof.
  unfold count_rw. induction l as [|[a m] t IH]; intros Hall; cbn; [reflexivity|].
  rewrite (Hall a m (or_introl eq_refl)). cbn. f_equal. apply IH. intros x mx Hx. eapply Hall. right. exact Hx.
Qed.

(** a recorded checkpoint, at a point without undelivered monitor notifications: exactly RF replicas,
    all RW, every one has the checkpoint snapshot in its chain and has persisted it *)
Definition checkpoint_sound (s : cst) : Prop :=
  forall n, checkpoint s = Some n -> pend_mon s = [] ->
    count_rw (replicas s) = rf s /\ length (replicas s) = rf s
    /\ forall a, In a (keys (replicas s)) ->
         In n (f_chain (wget (w s) a)) /\ (f_cpk (wget (w s) a) = true -> f_cp (wget (w s) a) = Some n).

Lemma sound_of_inv : forall s, cp_ok s -> mon_ok s -> checkpoint_sound s.
Proof.
  intros s C M n Hn Hp. destruct (C n Hn) as [Hl [Hwo Hall]].
  assert (Hrw : forall a m, In (a, m) (replicas s) -> m = RW).
  { intros a m Hin. destruct m; [exfalso; exact (Hwo a WO Hin eq_refl)|reflexivity|].
    destruct (mo_err _ _ _ _ M a Hin) as [[]|[i Hi]]. rewrite Hp in Hi. destruct Hi. }
  split; [rewrite (count_rw_all _ Hrw); exact Hl|]. split; [exact Hl|].
  intros a Ha. destruct (Hall a Ha) as [A1 [A2 A3]]. split; [exact A1|intros _; exact A2].
Qed.

Theorem checkpoint_sound_step : forall s e, ck_inv s -> ev_wf e = true ->
  ck_inv (fst (fst (step s e))) /\ checkpoint_sound (fst (fst (step s e))).
Proof.
  intros s e Hi Hwf. pose proof (ck_inv_step s e Hi Hwf) as [H [C M]].
  split; [split; [exact H|split; [exact C|exact M]]|apply sound_of_inv; assumption].
Qed.

Theorem checkpoint_sound_reachable : forall (es : list event) (rf0 : nat) (w0 : world) (n : nat),
  (1 <= rf0)%nat -> forallb ev_wf es = true ->
  let s := run (init rf0 w0) es in
  checkpoint s = Some n -> pend_mon s = [] ->
  count_rw (replicas s) = rf s /\ length (replicas s) = rf s
  /\ forall a, In a (keys (replicas s)) ->
       In n (f_chain (wget (w s) a)) /\ (f_cpk (wget (w s) a) = true -> f_cp (wget (w s) a) = Some n).
Proof.
  intros es rf0 w0 n H Hwf s Hn Hp. destruct (ck_inv_reachable es rf0 w0 H Hwf) as [_ [C M]].
  exact (sound_of_inv _ C M n Hn Hp).
Qed.

(** without the quiescence condition (stronger in its other parts): while a checkpoint is held, exactly
    RF replicas are listed, none is rebuilding, each one has the snapshot and has persisted the
    checkpoint with a predicted value; a listed replica that is not RW is marked ERR and its removal
    (which withdraws the checkpoint) is pending in the monitor queue *)
Theorem checkpoint_holders_reachable : forall (es : list event) (rf0 : nat) (w0 : world) (n : nat),
  (1 <= rf0)%nat -> forallb ev_wf es = true ->
  let s := run (init rf0 w0) es in
  checkpoint s = Some n ->
  length (replicas s) = rf s
  /\ (forall a m, In (a, m) (replicas s) -> m = RW \/ (m = ERR /\ exists i, In (i, a) (pend_mon s)))
  /\ forall a, In a (keys (replicas s)) ->
       In n (f_chain (wget (w s) a)) /\ f_cp (wget (w s) a) = Some n /\ f_cpk (wget (w s) a) = true.
Proof.
  intros es rf0 w0 n H Hwf s Hn. destruct (ck_inv_reachable es rf0 w0 H Hwf) as [_ [C M]].
  destruct (C n Hn) as [Hl [Hwo Hall]]. split; [exact Hl|]. split; [|exact Hall].
  intros a m Hin. destruct m; [exfalso; exact (Hwo a WO Hin eq_refl)|left; reflexivity|].
  right. split; [reflexivity|]. destruct (mo_err _ _ _ _ M a Hin) as [[]|P]. exact P.
Qed.

(** ** non-vacuity, and why the quiescence condition is needed *)
Definition ex_world : world := [(0%nat, mkfrep false RINIT [5%nat] 1 None true [] 100 CNA)].
Definition ex_boot : list event := [Register 0%nat 1%nat 1 false None []; Start [0%nat] []].

Example checkpoint_recorded_example :
  let s := run (init 1 ex_world) ex_boot in
  checkpoint s = Some 5%nat /\ pend_mon s = [] /\ replicas s = [(0%nat, RW)]
  /\ f_cp (wget (w s) 0%nat) = Some 5%nat.
Proof. vm_compute. repeat split. Qed.

(** the history: boot one replica (checkpoint 5 recorded), then its mode is set to ERR (by the
    SetReplicaMode request, or by a failed snapshot/resize call): the checkpoint is still held with no RW
    replica until the monitor goroutine delivers the removal *)
Example checkpoint_held_until_monitor_fires :
  let s := run (init 1 ex_world) (ex_boot ++ [SetMode 0%nat ERR]) in
  checkpoint s = Some 5%nat /\ count_rw (replicas s) = 0%nat /\ rf s = 1%nat /\ pend_mon s = [(0%nat, 0%nat)]
  /\ checkpoint (run s [MonFire 0%nat []]) = None.
Proof. vm_compute. repeat split. Qed.
