(** * Ctl: step-level theorems for C01/C02/C04/C05/C07/C09/C10/C13/C16/C19 (control halves) *)
From Coq Require Import List ZArith Bool Arith Lia.
From Jiva Require Import Ctl.Model Ctl.Proofs.
Import ListNotations.
Open Scope Z_scope.

(** ** small list facts *)
Lemma filter_length_le : forall {A} (p : A -> bool) l, (length (filter p l) <= length l)%nat.
Proof. intros A p l. induction l as [|x t IH]; cbn; [lia|]. destruct (p x); cbn; lia. Qed.

Lemma filter_split_length : forall {A} (p : A -> bool) l,
  (length (filter p l) + length (filter (fun x => negb (p x)) l) = length l)%nat.
Proof. intros A p l. induction l as [|x t IH]; cbn; [reflexivity|]. destruct (p x); cbn; lia. Qed.

Lemma filter_imp_length : forall {A} (p q : A -> bool) l, (forall x, p x = true -> q x = true) ->
  (length (filter p l) <= length (filter q l))%nat.
Proof.
  intros A p q l H. induction l as [|x t IH]; cbn; [lia|].
  destruct (p x) eqn:Ep; [rewrite (H x Ep); cbn; lia|]. destruct (q x); cbn; lia.
Qed.

Lemma fold_max_ge : forall l x0 x, In x l -> x <= fold_left Z.max l x0.
Proof.
  assert (G : forall l x0, x0 <= fold_left Z.max l x0).
  { induction l as [|y t IH]; intros x0; cbn; [lia|]. specialize (IH (Z.max x0 y)). lia. }
  induction l as [|y t IH]; intros x0 x Hin; cbn; [contradiction|].
  destruct Hin as [Hin|Hin]; [subst; specialize (G t (Z.max x0 x)); lia|apply IH; exact Hin].
Qed.

(** ** C01 (controller half) / C16 (controller half): range and size checks touch nothing *)
Theorem write_out_of_range : forall s wid off len fs, ro s = false ->
  (off < 0 \/ csize s < off + len) -> do_write s wid off len fs = (s, RErr).
Proof.
  intros s wid off len fs Hro Hr. unfold do_write. rewrite Hro.
  assert (E : (off <? 0) || (csize s <? off + len) = true).
  { destruct Hr as [Hr|Hr]; [apply Z.ltb_lt in Hr; rewrite Hr; reflexivity|].
    apply Z.ltb_lt in Hr. rewrite Hr. apply orb_true_r. }
  rewrite E. reflexivity.
Qed.

Theorem read_out_of_range : forall s off len order fs,
  (off < 0 \/ csize s < off + len) -> do_read s off len order fs = (s, RErr, noeff).
Proof.
  intros s off len order fs Hr. unfold do_read.
  assert (E : (off <? 0) || (csize s <? off + len) = true).
  { destruct Hr as [Hr|Hr]; [apply Z.ltb_lt in Hr; rewrite Hr; reflexivity|].
    apply Z.ltb_lt in Hr. rewrite Hr. apply orb_true_r. }
  rewrite E. reflexivity.
Qed.

Theorem resize_not_growing_refused : forall s sz fs, sz <= csize s -> do_resize s sz fs = (s, RErr).
Proof.
  intros s sz fs H. unfold do_resize.
  destruct (sz <? csize s) eqn:E1; [reflexivity|].
  apply Z.ltb_ge in E1. assert (sz = csize s) by lia. subst. rewrite Z.eqb_refl. reflexivity.
Qed.

(** ** C02: the majority rule of MultiWriterAt as seen through Controller.WriteAt *)
(** replicas that applied the write: every writer that did not fail before applying it *)
Definition appliers (s : cst) (fs : faults) : list addr :=
  filter (fun a => negb (flt fs a KWrite)) (writers s).

Lemma writers_nonempty_of_avail : forall s, struct_ok s -> avail s = true -> (0 < length (writers s))%nat.
Proof.
  intros s H Hav. rewrite (st_avail s H) in Hav. unfold writers.
  induction (backends s) as [|[a [m i]] t IH]; cbn in *; [discriminate|].
  destruct m; cbn in *; try lia.
  destruct (existsb (fun p => is_rw (fst (snd p))) t); [specialize (IH eq_refl); lia|discriminate].
Qed.

Theorem write_ack_majority : forall s wid off len fs s',
  struct_ok s -> do_write s wid off len fs = (s', ROk) ->
  (length (writers s) < 2 * length (appliers s fs))%nat.
Proof.
  intros s wid off len fs s' H Hw. unfold do_write in Hw.
  destruct (ro s); [discriminate|].
  destruct ((off <? 0) || (csize s <? off + len)); [discriminate|].
  destruct (negb (avail s)) eqn:Eav; [discriminate|].
  apply negb_false_iff in Eav.
  pose proof (writers_nonempty_of_avail s H Eav) as Hne.
  set (ws := writers s) in *.
  pose proof (filter_split_length (fun a => flt fs a KWrite) ws) as Hsp.
  assert (Hle : (length (filter (fun a => flt fs a KWrite) ws) <= length (io_errs ws fs KWrite KWriteAp))%nat).
  { unfold io_errs. apply filter_imp_length. intros x Hx. rewrite Hx. reflexivity. }
  unfold appliers. fold ws.
  destruct (io_errs ws fs KWrite KWriteAp) as [|e es] eqn:Ee.
  - cbn in Hle. lia.
  - destruct (handle_error_nolock _ (e :: es)) as [s2 sup].
    destruct (majority_ok (length ws) (length (e :: es))) eqn:Em; [|cbn in Hw; inversion Hw].
    unfold majority_ok in Em. apply Nat.ltb_lt in Em.
    pose proof (Nat.div_mod_eq (length ws) 2) as Hd.
    pose proof (Nat.mod_upper_bound (length ws) 2). lia.
Qed.

Theorem write_no_majority_fails : forall s wid off len fs,
  (2 * length (filter (fun a => negb (flt fs a KWrite || flt fs a KWriteAp)) (writers s)) <= length (writers s))%nat ->
  (0 < length (writers s))%nat ->
  snd (do_write s wid off len fs) <> ROk.
Proof.
  intros s wid off len fs Hm Hne. unfold do_write.
  destruct (ro s); [cbn; discriminate|].
  destruct ((off <? 0) || (csize s <? off + len)); [cbn; discriminate|].
  destruct (negb (avail s)); [cbn; discriminate|].
  set (ws := writers s) in *.
  pose proof (filter_split_length (fun a => flt fs a KWrite || flt fs a KWriteAp) ws) as Hsp.
  unfold io_errs.
  destruct (filter (fun a => flt fs a KWrite || flt fs a KWriteAp) ws) as [|e es] eqn:Ee.
  - cbn in Hsp. lia.
  - destruct (handle_error_nolock _ (e :: es)) as [s2 sup].
    assert (Em : majority_ok (length ws) (length (e :: es)) = false).
    { unfold majority_ok. apply Nat.ltb_ge.
      pose proof (Nat.div_mod_eq (length ws) 2) as Hd.
      pose proof (Nat.mod_upper_bound (length ws) 2). lia. }
    rewrite Em. cbn. discriminate.
Qed.

(** every replica named in [errs] is gone after remove_all *)
Lemma remove_replica_gone : forall s fs a, struct_ok s -> ~ In a (keys (replicas (remove_replica_nolock s fs a))).
Proof.
  intros s fs a H. destruct (has_replica s a) eqn:E.
  - destruct (replicas_remove s fs a E) as [R _]. rewrite R. apply adel_not_in. exact (st_nodup s H).
  - unfold remove_replica_nolock. rewrite E. cbn. intro Hin. apply has_replica_in in Hin. congruence.
Qed.

Lemma remove_replica_subset : forall s fs a x, In x (keys (replicas (remove_replica_nolock s fs a))) -> In x (keys (replicas s)).
Proof.
  intros s fs a x Hin. destruct (has_replica s a) eqn:E.
  - destruct (replicas_remove s fs a E) as [R _]. rewrite R in Hin. eapply keys_adel_subset. exact Hin.
  - unfold remove_replica_nolock in Hin. rewrite E in Hin. exact Hin.
Qed.

Lemma remove_all_subset : forall errs s fs x, In x (keys (replicas (remove_all s fs errs))) -> In x (keys (replicas s)).
Proof.
  unfold remove_all. induction errs as [|a t IH]; intros s fs x Hin; cbn in *; [exact Hin|].
  apply IH in Hin. eapply remove_replica_subset. exact Hin.
Qed.

Lemma remove_all_gone : forall errs s fs a, struct_ok s -> In a errs -> ~ In a (keys (replicas (remove_all s fs errs))).
Proof.
  unfold remove_all. induction errs as [|e t IH]; intros s fs a H Hin; [contradiction|].
  cbn. destruct Hin as [Hin|Hin].
  - subst. intro Hx. apply remove_all_subset in Hx. exact (remove_replica_gone s fs a H Hx).
  - apply IH; [apply struct_remove_replica; exact H|exact Hin].
Qed.

Theorem write_failed_detached : forall s wid off len fs a,
  struct_ok s -> ro s = false -> avail s = true -> 0 <= off -> off + len <= csize s ->
  In a (writers s) -> (flt fs a KWrite || flt fs a KWriteAp) = true ->
  ~ In a (keys (replicas (fst (do_write s wid off len fs)))).
Proof.
  intros s wid off len fs a H Hro Hav Ho Hl Hin Hf. unfold do_write. rewrite Hro, Hav.
  assert (E : (off <? 0) || (csize s <? off + len) = false).
  { apply orb_false_iff. split; [apply Z.ltb_ge; lia|apply Z.ltb_ge; lia]. }
  rewrite E. cbn [negb].
  set (s1 := fold_left _ (writers s) s).
  assert (H1 : struct_ok s1).
  { eapply sst_struct; [|exact H]. subst s1. apply sst_fold_left.
    intros t x. destruct (flt fs x KWrite); [apply sst_refl|apply sst_upd_rep]. }
  assert (Hine : In a (io_errs (writers s) fs KWrite KWriteAp)).
  { unfold io_errs. apply filter_In. split; assumption. }
  destruct (io_errs (writers s) fs KWrite KWriteAp) as [|e es] eqn:Ee; [contradiction|].
  pose proof (struct_handle_error (e :: es) s1 H1) as H2.
  destruct (handle_error_nolock s1 (e :: es)) as [s2 sup]. cbn [fst] in *.
  apply remove_all_gone; assumption.
Qed.

(** ** C04: a successful read was served by an RW replica, failed readers are detached *)
Theorem read_served_by_rw : forall s off len order fs s' ef,
  struct_ok s -> do_read s off len order fs = (s', ROk, ef) ->
  exists a, e_served ef = Some a /\ aget (replicas s) a = Some RW.
Proof.
  intros s off len order fs s' ef H Hr. unfold do_read in Hr.
  destruct ((off <? 0) || (csize s <? off + len)); [discriminate|].
  assert (G : (if negb (avail s) then (s, RErr, noeff)
      else if negb (read_order_ok s order fs) then (s, RInvalid, noeff)
      else
        let errs := filter (fun a => flt fs a KRead) order in
        let served := match rev order with lst :: _ => if flt fs lst KRead then None else Some lst | [] => None end in
        match errs with
        | [] => (s, ROk, mkeff [] served)
        | _ =>
            let '(s2, suppressed) := handle_error_nolock s errs in
            let s3 := remove_all s2 fs errs in
            (s3, match served with Some _ => if suppressed then ROk else RErr | None => RErr end, mkeff [] served)
        end) = (s', ROk, ef)).
  { destruct (replicas s) as [|[a0 m0] t]; [discriminate|].
    destruct m0; destruct t; try exact Hr; discriminate. }
  clear Hr.
  destruct (negb (avail s)); [discriminate|].
  destruct (negb (read_order_ok s order fs)) eqn:Eo; [discriminate|].
  apply negb_false_iff in Eo. unfold read_order_ok in Eo.
  apply andb_prop in Eo. destruct Eo as [Eo1 Eo3]. apply andb_prop in Eo1. destruct Eo1 as [_ Eo2].
  cbv zeta in G.
  destruct (rev order) as [|lst before] eqn:Er; [discriminate|].
  assert (Hlst : In lst order) by (apply in_rev; rewrite Er; left; reflexivity).
  assert (Hrw : aget (replicas s) lst = Some RW).
  { rewrite forallb_forall in Eo2. specialize (Eo2 lst Hlst). apply existsb_exists in Eo2.
    destruct Eo2 as [y [Hy Hey]]. apply Nat.eqb_eq in Hey. subst y.
    unfold readers in Hy. apply in_map_iff in Hy. destruct Hy as [[k [m i]] [Hk Hy]]. cbn in Hk. subst k.
    apply filter_In in Hy. destruct Hy as [Hy Hm]. cbn in Hm. destruct m; try discriminate.
    rewrite <- (st_mirror s H), aget_proj.
    assert (Hg : aget (backends s) lst = Some (RW, i)).
    { pose proof (st_nodup s H) as Hn. rewrite <- (st_mirror s H), keys_proj in Hn.
      clear - Hy Hn. induction (backends s) as [|[k v] t IH]; [contradiction|].
      cbn in *. inversion Hn as [|x xs Hx Hd]; subst.
      destruct Hy as [Hy|Hy].
      - inversion Hy; subst. rewrite Nat.eqb_refl. reflexivity.
      - destruct (Nat.eqb k lst) eqn:E.
        + apply Nat.eqb_eq in E. subst. exfalso. apply Hx. change lst with (fst (lst, (RW, i))). apply in_map. exact Hy.
        + apply IH; assumption. }
    rewrite Hg. reflexivity. }
  destruct (flt fs lst KRead) eqn:Ef.
  - (* the last one failed too: nobody served, the result cannot be ROk *)
    destruct (filter (fun a => flt fs a KRead) order) as [|e es] eqn:Ee.
    + exfalso. assert (Hin : In lst (filter (fun a => flt fs a KRead) order)) by (apply filter_In; split; assumption).
      rewrite Ee in Hin. contradiction.
    + destruct (handle_error_nolock s (e :: es)) as [s2 sup]. inversion G.
  - destruct (filter (fun a => flt fs a KRead) order) as [|e es] eqn:Ee.
    + inversion G; subst. exists lst. split; [reflexivity|exact Hrw].
    + destruct (handle_error_nolock s (e :: es)) as [s2 sup]. inversion G; subst. exists lst. split; [reflexivity|exact Hrw].
Qed.

Theorem read_without_rw_fails : forall s off len order fs,
  struct_ok s -> count_rw (replicas s) = 0%nat -> snd (fst (do_read s off len order fs)) <> ROk.
Proof.
  intros s off len order fs H Hc. unfold do_read.
  destruct ((off <? 0) || (csize s <? off + len)); [cbn; discriminate|].
  assert (Hav : avail s = false).
  { rewrite (st_avail s H). rewrite <- (st_mirror s H) in Hc. clear - Hc.
    induction (backends s) as [|[a [m i]] t IH]; cbn in *; [reflexivity|].
    unfold count_rw in *. cbn in Hc. destruct m; cbn in *; try discriminate; apply IH; exact Hc. }
  destruct (replicas s) as [|[a0 m0] t]; [cbn; discriminate|].
  destruct m0; destruct t; cbn; rewrite ?Hav; cbn; discriminate.
Qed.

(** ** C09: election *)
Theorem start_only_signalled_leader : forall s addrs fs,
  replicas s = [] -> snd (fst (do_start s addrs fs)) = ROk -> addrs <> [] ->
  signalled s = true /\ exists a t, addrs = a :: t /\ maxrev s = Some a.
Proof.
  intros s addrs fs Hr Hok Hne. unfold do_start in Hok.
  destruct addrs as [|a0 t]; [contradiction|]. rewrite Hr in Hok.
  destruct (signalled s); [|cbn in Hok; discriminate].
  split; [reflexivity|]. exists a0, t. split; [reflexivity|].
  destruct (maxrev s) as [m|]; [|cbn in Hok; discriminate].
  destruct (Nat.eqb m a0) eqn:E; [apply Nat.eqb_eq in E; subst; reflexivity|cbn in Hok; discriminate].
Qed.

Theorem start_refused_keeps_state : forall s addrs fs,
  replicas s = [] -> (signalled s = false \/ match addrs with a :: _ => maxrev s <> Some a | [] => False end) ->
  addrs <> [] -> do_start s addrs fs = (s, RErr, noeff).
Proof.
  intros s addrs fs Hr Hc Hne. unfold do_start.
  destruct addrs as [|a0 t]; [contradiction|]. rewrite Hr.
  destruct Hc as [Hc|Hc].
  - rewrite Hc. reflexivity.
  - destruct (signalled s); [|reflexivity]. cbn.
    destruct (maxrev s) as [m|]; [|reflexivity].
    destruct (Nat.eqb m a0) eqn:E; [apply Nat.eqb_eq in E; subst; contradiction|reflexivity].
Qed.

(** what a registration may signal: at most one start signal, only with a majority registered, only
    without attached replicas, and to a registered replica that is not rebuilding and has the
    highest revision count among the registered replicas that are not rebuilding *)
Definition candidates (s : cst) : list (addr * rrec) :=
  filter (fun p => negb (rg_rebuilding (snd p))) (registered s).

Lemma signal_replica_signals : forall s fs s' ok sg, signal_replica s fs = (s', ok, sg) ->
  sg = match maxrev s with Some m => [(m, true)] | None => [] end.
Proof.
  intros s fs s' ok sg H. unfold signal_replica in H.
  destruct (maxrev s) as [m|]; [destruct (flt fs m KSignal)|]; inversion H; reflexivity.
Qed.

Lemma aget_in_nodup : forall {V} (l : list (nat * V)) k v, NoDup (keys l) -> In (k, v) l -> aget l k = Some v.
Proof.
  intros V l k v. induction l as [|[k0 v0] t IH]; intros Hn Hin; [contradiction|].
  cbn. inversion Hn as [|x xs Hx Hd]; subst. destruct Hin as [Hin|Hin].
  - inversion Hin; subst. rewrite Nat.eqb_refl. reflexivity.
  - destruct (Nat.eqb k0 k) eqn:E; [|apply IH; assumption].
    apply Nat.eqb_eq in E. subst. exfalso. apply Hx. change k with (fst (k, v)). apply in_map. exact Hin.
Qed.

Theorem register_signal_rule : forall s a u r pick fs s' res ef m,
  struct_ok s ->
  do_register s a u r false pick fs = (s', res, ef) -> In (m, true) (e_signals ef) ->
  replicas s = []
  /\ exists s4, (quorum (rf s) <= length (registered s4))%nat
     /\ maxrev s4 = Some m
     /\ (forall q, In q (candidates s4) -> rg_rev (snd q) <= reg_rev s4 (Some m))
     /\ e_signals ef = [(m, true)].
Proof.
  intros s a u r pick fs s' res ef m Hst Hreg Hin. unfold do_register in Hreg.
  destruct (Nat.eqb u 0); [inversion Hreg; subst; cbn in Hin; contradiction|].
  set (s1 := upd_registered s _) in Hreg.
  assert (H1 : struct_ok s1).
  { apply struct_upd_registered; [exact Hst|]. apply nodup_aset. apply nodup_filter_keys. exact (st_reg s Hst). }
  assert (R1 : replicas s1 = replicas s) by reflexivity.
  destruct (replicas s1) eqn:Er; [|inversion Hreg; subst; cbn in Hin; contradiction].
  split; [congruence|].
  set (sw := if signalled s1 then _ else _) in Hreg.
  assert (Hsw : match sw with
                | inr out => e_signals (snd out) = []
                | inl None => True
                | inl (Some (s2, sg0)) => sg0 = [] /\ rf s2 = rf s /\ struct_ok s2 end).
  { subst sw. destruct (signalled s1); [|split; [reflexivity|split; [reflexivity|exact H1]]].
    destruct (match maxrev s1 with Some m0 => Nat.eqb m0 a | None => false end); [split; [reflexivity|split; [reflexivity|exact H1]]|].
    destruct (match maxrev s1 with Some m0 => flt fs m0 KAlive | None => true end); [|reflexivity].
    destruct (maxrev s1); (split; [reflexivity|split; [reflexivity|]]).
    - eapply sst_struct; [apply sst_upd_leader|]. apply struct_upd_registered; [exact H1|apply nodup_adel; exact (st_reg s1 H1)].
    - eapply sst_struct; [apply sst_upd_leader|exact H1]. }
  destruct sw as [[[s2 sg0]|]|out].
  - destruct Hsw as [Hsg0 [Hrf2 Hs2]]. subst sg0.
    set (s3 := match maxrev s2 with None => _ | Some _ => s2 end) in Hreg.
    assert (Hrf3 : rf s3 = rf s) by (subst s3; destruct (maxrev s2); [exact Hrf2|exact Hrf2]).
    assert (Hs3 : struct_ok s3).
    { subst s3. destruct (maxrev s2); [exact Hs2|]. eapply sst_struct; [apply sst_upd_leader|exact Hs2]. }
    set (cand := filter (fun p => negb (rg_rebuilding (snd p))) (registered s3)) in Hreg.
    set (best := fold_left Z.max (map (fun p => rg_rev (snd p)) cand) 0) in Hreg.
    assert (Hbest : forall q, In q cand -> rg_rev (snd q) <= best).
    { intros q Hq. apply fold_max_ge. apply in_map_iff. exists q. split; [reflexivity|exact Hq]. }
    match type of Hreg with context [match ?L with Some l => _ | None => _ end] =>
      destruct L as [l|] eqn:El end; [|inversion Hreg; subst; cbn in Hin; contradiction].
    set (s4 := upd_leader s3 l (signalled s3)) in Hreg.
    destruct (Nat.leb (quorum (rf s4)) (length (registered s4))) eqn:Eq;
      [|inversion Hreg; subst; cbn in Hin; contradiction].
    destruct (signal_replica s4 fs) as [[s5 ok] sg] eqn:Es.
    pose proof (signal_replica_signals _ _ _ _ _ Es) as Hsg.
    inversion Hreg; subst s' res ef. cbn [e_signals app] in *.
    assert (Hm4 : maxrev s4 = l) by reflexivity.
    rewrite Hm4 in Hsg. destruct l as [lm|]; [|subst sg; contradiction].
    subst sg. destruct Hin as [Hin|[]]. inversion Hin; subst lm.
    exists s4. split; [apply Nat.leb_le in Eq; change (rf s4) with (rf s3) in Eq; rewrite Hrf3 in Eq; exact Eq|].
    split; [reflexivity|]. split; [|reflexivity].
    intros q Hq. change (candidates s4) with cand in Hq.
    change (reg_rev s4 (Some m)) with (reg_rev s3 (Some m)).
    specialize (Hbest q Hq).
    destruct (best <=? reg_rev s3 (maxrev s3)) eqn:Eb.
    + inversion El as [Hl]. apply Z.leb_le in Eb. eapply Z.le_trans; [exact Hbest|].
      first [exact Eb | rewrite Hl in Eb; exact Eb | rewrite <- Hl; exact Eb].
    + destruct pick as [p|]; [|discriminate].
      destruct (existsb (fun q0 => Nat.eqb (fst q0) p && (rg_rev (snd q0) =? best)) cand) eqn:Ex; [|discriminate].
      inversion El; subst p. apply existsb_exists in Ex. destruct Ex as [[k rec] [Hk Hkk]].
      cbn in Hkk. apply andb_prop in Hkk. destruct Hkk as [K1 K2]. apply Nat.eqb_eq in K1. apply Z.eqb_eq in K2. subst k.
      assert (Hg : aget (registered s3) m = Some rec).
      { apply aget_in_nodup; [exact (st_reg s3 Hs3)|]. unfold cand in Hk. apply filter_In in Hk. exact (proj1 Hk). }
      unfold reg_rev. rewrite Hg. rewrite K2. exact Hbest.
  - inversion Hreg; subst; cbn in Hin; contradiction.
  - destruct out as [[so ro'] eo]. inversion Hreg; subst. cbn in Hsw. rewrite Hsw in Hin. contradiction.
Qed.

(** ** world lookups *)
Lemma aget_aset : forall {V} (l : list (nat * V)) a v x,
  aget (aset l a v) x = if Nat.eqb a x then Some v else aget l x.
Proof.
  intros V l a v x. induction l as [|[k w0] t IH]; cbn.
  - destruct (Nat.eqb a x); reflexivity.
  - destruct (Nat.eqb k a) eqn:E; cbn.
    + apply Nat.eqb_eq in E. subst. destruct (Nat.eqb a x); reflexivity.
    + destruct (Nat.eqb k x) eqn:E2.
      * destruct (Nat.eqb a x) eqn:E3; [|reflexivity].
        apply Nat.eqb_eq in E2. apply Nat.eqb_eq in E3. subst. rewrite Nat.eqb_refl in E. discriminate.
      * exact IH.
Qed.

Lemma wget_wset : forall w0 a f x, wget (wset w0 a f) x = if Nat.eqb a x then f else wget w0 x.
Proof. intros. unfold wget, wset. rewrite aget_aset. destruct (Nat.eqb a x); reflexivity. Qed.

(** a projection of the replica record that set-checkpoint / open / mode changes do not touch *)
Definition cp_invariant {A} (g : frep -> A) : Prop :=
  forall f c k, g (f_set_cp f c k) = g f.

Lemma set_checkpoint_keeps : forall {A} (g : frep -> A), cp_invariant g ->
  forall s fs n x, g (wget (w (fst (set_checkpoint s fs n))) x) = g (wget (w s) x).
Proof.
  intros A g Hg s fs n x. unfold set_checkpoint.
  assert (G : forall (l : list (addr * (mode * nat))) (F : world -> addr * (mode * nat) -> world) w0,
             (forall wacc p y, g (wget (F wacc p) y) = g (wget wacc y)) ->
             g (wget (fold_left F l w0) x) = g (wget w0 x)).
  { induction l as [|p t IH]; intros F w0 HF; cbn; [reflexivity|]. rewrite IH by exact HF. apply HF. }
  destruct (all_rw_backends s); cbn [fst w upd_w]; apply G; intros wacc p y.
  - destruct (flt fs (fst p) KSetCp); [reflexivity|]. rewrite wget_wset. destruct (Nat.eqb (fst p) y) eqn:E; [|reflexivity].
    apply Nat.eqb_eq in E. subst. apply Hg.
  - destruct (is_rw (fst (snd p))); [|reflexivity]. rewrite wget_wset. destruct (Nat.eqb (fst p) y) eqn:E; [|reflexivity].
    apply Nat.eqb_eq in E. subst. apply Hg.
Qed.

Lemma update_checkpoint_keeps : forall {A} (g : frep -> A), cp_invariant g ->
  forall s fs x, g (wget (w (update_checkpoint s fs)) x) = g (wget (w s) x).
Proof.
  intros A g Hg s fs x. unfold update_checkpoint.
  destruct (Nat.eqb (count_rw (replicas s)) (rf s)); [|reflexivity].
  destruct (get_latest_snapshot s fs) as [n|]; [|reflexivity].
  pose proof (set_checkpoint_keeps g Hg s fs n x) as H.
  destruct (set_checkpoint s fs n) as [s1 ok]. exact H.
Qed.

Lemma cpi_rev : cp_invariant f_rev. Proof. intros f c k. reflexivity. Qed.
Lemma cpi_clone : cp_invariant f_clone. Proof. intros f c k. reflexivity. Qed.
Lemma cpi_chain : cp_invariant f_chain. Proof. intros f c k. reflexivity. Qed.
Lemma cpi_applied : cp_invariant f_applied. Proof. intros f c k. reflexivity. Qed.

(** ** C13: the snapshot gate and when a checkpoint is recorded *)
Theorem snapshot_gate : forall s n fs, status_ok s -> count_rw (replicas s) <> rf s ->
  do_snapshot s n fs = (s, RErr).
Proof.
  intros s n fs [Hc _] Hne. unfold do_snapshot. rewrite Hc.
  destruct (Nat.eqb (count_rw (replicas s)) (rf s)) eqn:E; [apply Nat.eqb_eq in E; contradiction|reflexivity].
Qed.

Lemma same_heads_sound : forall chains cur n, same_heads chains cur = Some (Some n) ->
  (match cur with Some c => c = n | None => True end)
  /\ forall c, In c chains -> exists t, c = n :: t.
Proof.
  induction chains as [|c t IH]; intros cur n H; cbn in H.
  - inversion H; subst. split; [reflexivity|intros c []].
  - destruct c as [|h ct]; [discriminate|].
    destruct cur as [c0|].
    + destruct (Nat.eqb c0 h) eqn:E; [|discriminate]. apply Nat.eqb_eq in E. subst.
      destruct (IH _ _ H) as [Hc Hall]. cbn in Hc. subst. split; [reflexivity|].
      intros c [Hc|Hc]; [subst; exists ct; reflexivity|apply Hall; exact Hc].
    + destruct (IH _ _ H) as [Hc Hall]. cbn in Hc. subst. split; [exact I|].
      intros c [Hc|Hc]; [subst; exists ct; reflexivity|apply Hall; exact Hc].
Qed.

Theorem checkpoint_recorded_sound : forall s fs n,
  checkpoint (update_checkpoint s fs) = Some n ->
  count_rw (replicas s) = rf s
  /\ all_rw_backends s = true
  /\ (forall p, In p (backends s) -> exists t, f_chain (wget (w s) (fst p)) = n :: t)
  /\ (forall p, In p (backends s) -> flt fs (fst p) KSetCp = false /\ flt fs (fst p) KChain = false).
Proof.
  intros s fs n H. unfold update_checkpoint in H.
  destruct (Nat.eqb (count_rw (replicas s)) (rf s)) eqn:E; [|cbn in H; discriminate].
  apply Nat.eqb_eq in E. split; [exact E|].
  unfold get_latest_snapshot in H.
  destruct (all_rw_backends s) eqn:Ea; cbn [negb] in H; [|cbn in H; discriminate].
  split; [reflexivity|].
  destruct (existsb (fun p => flt fs (fst p) KChain) (backends s)) eqn:Ec; [cbn in H; discriminate|].
  destruct (same_heads _ None) as [o|] eqn:Es; [|cbn in H; discriminate].
  unfold set_checkpoint in H. rewrite Ea in H.
  destruct (existsb (fun p => flt fs (fst p) KSetCp) (backends s)) eqn:Ek; cbn in H; [discriminate|].
  subst o. destruct (same_heads_sound _ _ _ Es) as [_ Hall].
  split.
  - intros p Hp. apply Hall. apply in_map_iff. exists p. split; [reflexivity|exact Hp].
  - intros p Hp. split.
    + destruct (flt fs (fst p) KSetCp) eqn:F; [|reflexivity].
      assert (X : existsb (fun p0 => flt fs (fst p0) KSetCp) (backends s) = true) by (apply existsb_exists; exists p; split; assumption).
      congruence.
    + destruct (flt fs (fst p) KChain) eqn:F; [|reflexivity].
      assert (X : existsb (fun p0 => flt fs (fst p0) KChain) (backends s) = true) by (apply existsb_exists; exists p; split; assumption).
      congruence.
Qed.

Theorem checkpoint_withdrawn : forall s fs, count_rw (replicas s) <> rf s ->
  checkpoint (update_checkpoint s fs) = None.
Proof.
  intros s fs H. unfold update_checkpoint.
  destruct (Nat.eqb (count_rw (replicas s)) (rf s)) eqn:E; [apply Nat.eqb_eq in E; contradiction|reflexivity].
Qed.

Lemma length_adel_lt : forall {V} (l : list (nat * V)) a, In a (keys l) -> (length (adel l a) < length l)%nat.
Proof.
  intros V l a. induction l as [|[k v] t IH]; cbn; intros H; [contradiction|].
  destruct (Nat.eqb k a) eqn:E; [lia|]. cbn.
  destruct H as [H|H]; [subst; rewrite Nat.eqb_refl in E; discriminate|]. specialize (IH H). lia.
Qed.

Lemma count_rw_le_length : forall l, (count_rw l <= length l)%nat.
Proof. intros. unfold count_rw. apply filter_length_le. Qed.

(** as soon as a replica leaves, the checkpoint is withdrawn *)
Theorem checkpoint_withdrawn_on_removal : forall s fs a, struct_ok s -> has_replica s a = true ->
  checkpoint (remove_replica_nolock s fs a) = None.
Proof.
  intros s fs a H Ha. pose proof (replicas_remove s fs a Ha) as [R Rf].
  unfold remove_replica_nolock in *. rewrite Ha in *. cbn [negb] in *.
  match goal with |- checkpoint (update_checkpoint ?X fs) = None => set (x := X) in * end.
  apply checkpoint_withdrawn.
  destruct (sst_update_checkpoint x fs) as [Q1 [_ [Q3 _]]].
  rewrite <- Q1, <- Q3, R, Rf.
  pose proof (length_adel_lt (replicas s) a (proj1 (has_replica_in s a) Ha)) as L1.
  pose proof (count_rw_le_length (adel (replicas s) a)) as L2.
  pose proof (st_len s H) as L3.
  intro E. rewrite E in L2.
  exact (Nat.lt_irrefl _ (Nat.lt_le_trans _ _ _ L1 (Nat.le_trans _ _ _ L3 L2))).
Qed.

(** ** C07 / C10 (controller halves): promotion WO -> RW in VerifyRebuildReplica happens only after
    the chains were compared from the checkpoint upward, and it copies the source's counter *)
Lemma list_eqb_eq : forall a b, list_eqb a b = true -> a = b.
Proof.
  induction a as [|x t IH]; intros [|y u] H; cbn in H; try discriminate; [reflexivity|].
  apply andb_prop in H. destruct H as [H1 H2]. apply Nat.eqb_eq in H1. subst. f_equal. apply IH. exact H2.
Qed.

Theorem verify_promotes_after_check : forall s a fs s',
  aget (replicas s) a = Some WO -> do_verify s a fs = (s', ROk) ->
  exists r0 m0 k,
    find (fun p => is_rw (snd p)) (replicas s) = Some (r0, m0)
    /\ (k <= length (f_chain (wget (w s) a)))%nat
    /\ firstn k (f_chain (wget (w s) r0)) = firstn k (f_chain (wget (w s) a))
    /\ (match f_cp (wget (w s) a) with
        | None => k = length (f_chain (wget (w s) r0))
        | Some c => exists i, index_of (f_chain (wget (w s) r0)) c 0 = Some i /\ k = S i
        end)
    /\ f_rev (wget (w s') a) = f_rev (wget (w s) r0)
    /\ f_mode (wget (w s') a) = RRW.
Proof.
  intros s a fs s' Hwo Hv. unfold do_verify in Hv. rewrite Hwo in Hv.
  destruct (find (fun p => is_rw (snd p)) (replicas s)) as [[r0 m0]|] eqn:Ef; [|discriminate].
  destruct (flt fs r0 KHttp || flt fs a KHttp); [discriminate|].
  set (rwchain := f_chain (wget (w s) r0)) in *.
  set (wochain := f_chain (wget (w s) a)) in *.
  destruct (match f_cp (wget (w s) a) with
            | None => Some (length rwchain)
            | Some c => match index_of rwchain c 0 with Some i => Some (S i) | None => None end
            end) as [k|] eqn:Ek; [|discriminate].
  destruct (Nat.ltb (length wochain) k) eqn:El; [discriminate|].
  destruct (negb (list_eqb (firstn k rwchain) (firstn k wochain))) eqn:Ee; [discriminate|].
  destruct (negb (amem (backends s) r0) || flt fs r0 KRev); [discriminate|].
  destruct (negb (amem (backends s) a) || flt fs a KSetModeRW); [discriminate|].
  destruct (flt fs a KSetRev); [discriminate|].
  inversion Hv; subst s'. clear Hv.
  exists r0, m0, k. split; [reflexivity|].
  split; [apply Nat.ltb_ge in El; exact El|].
  split.
  { apply negb_false_iff in Ee. apply list_eqb_eq. exact Ee. }
  split.
  { destruct (f_cp (wget (w s) a)) as [c|].
    - destruct (index_of rwchain c 0) as [i|] eqn:Ei; [|discriminate]. inversion Ek. exists i. split; [exact Ei|reflexivity].
    - inversion Ek. reflexivity. }
  (* the world: set-rev and set-mode on a, then only checkpoint updates *)
  set (s2 := upd_rep (upd_rep s a (fun f => f_set_mode f RRW)) a (fun f => f_set_rev f (f_rev (wget (w s) r0)))).
  assert (W : forall {A} (g : frep -> A), cp_invariant g ->
              g (wget (w (update_checkpoint (update_vol_status (set_mode_nolock s2 a RW)) fs)) a) = g (wget (w s2) a)).
  { intros A g Hg. rewrite (update_checkpoint_keeps g Hg).
    assert (Wm : forall t, w (update_vol_status t) = w t) by reflexivity.
    rewrite Wm. unfold set_mode_nolock. rewrite Wm.
    destruct (aget (replicas s2) a) as [[]|]; try reflexivity;
      cbn [w upd_replicas]; unfold backend_set_mode; cbn [backends upd_replicas];
      destruct (aget (backends s2) a) as [[mb ib]|]; try reflexivity; cbn [mode_eqb];
      cbn [w upd_backends]; reflexivity. }
  split.
  - rewrite (W _ f_rev cpi_rev). subst s2. unfold upd_rep. cbn [w upd_w]. rewrite wget_wset, Nat.eqb_refl. reflexivity.
  - assert (Hm : cp_invariant f_mode) by (intros f c k0; reflexivity).
    rewrite (W _ f_mode Hm). subst s2. unfold upd_rep. cbn [w upd_w]. rewrite !wget_wset, !Nat.eqb_refl. reflexivity.
Qed.

(** ** C19 (controller half): during start a replica becomes RW only after its clone status was read
    and was not "error"; a failed status read or an error status removes it and fails the start *)
Definition start_tail (s3 : cst) (fs : faults) (a : addr) : cst * res :=
  if flt fs a KClone then (remove_replica_nolock s3 fs a, RErr)
  else match f_clone (wget (w s3) a) with
       | CErr => (remove_replica_nolock s3 fs a, RErr)
       | _ =>
           if flt fs a KSetModeRW then (remove_replica_nolock s3 fs a, RErr)
           else (set_mode_nolock (upd_rep s3 a (fun f => f_set_mode f RRW)) a RW, ROk)
       end.

Lemma add_during_start_tail : forall s fs a s1 i s3,
  create_backend s fs a = Some (s1, i) -> flt fs a KSize = false ->
  let s2 := if csize s1 =? maxint then upd_csize s1 (f_size (wget (w s1) a)) else s1 in
  negb (csize s2 =? f_size (wget (w s1) a)) = false ->
  add_replica_nolock s2 fs a i false = (s3, ROk) ->
  add_during_start s fs a = start_tail s3 fs a.
Proof.
  intros s fs a s1 i s3 Hc Hs s2 Hz Ha. unfold add_during_start, start_tail.
  rewrite Hc, Hs. fold s2. rewrite Hz, Ha.
  destruct (flt fs a KClone); [reflexivity|].
  destruct (f_clone (wget (w s3) a)); reflexivity.
Qed.

Theorem clone_error_not_served : forall s3 fs a, struct_ok s3 ->
  (flt fs a KClone = true \/ f_clone (wget (w s3) a) = CErr) ->
  snd (start_tail s3 fs a) = RErr /\ has_replica (fst (start_tail s3 fs a)) a = false.
Proof.
  intros s3 fs a H Hc. unfold start_tail.
  destruct (flt fs a KClone) eqn:Fk.
  - split; [reflexivity|]. cbn [fst].
    destruct (has_replica (remove_replica_nolock s3 fs a) a) eqn:E; [|reflexivity].
    apply has_replica_in in E. exfalso. exact (remove_replica_gone s3 fs a H E).
  - destruct Hc as [Hc|Hc]; [discriminate|]. rewrite Hc. split; [reflexivity|]. cbn [fst].
    destruct (has_replica (remove_replica_nolock s3 fs a) a) eqn:E; [|reflexivity].
    apply has_replica_in in E. exfalso. exact (remove_replica_gone s3 fs a H E).
Qed.

Theorem clone_promoted_only_when_done : forall s3 fs a, snd (start_tail s3 fs a) = ROk ->
  flt fs a KClone = false /\ f_clone (wget (w s3) a) <> CErr.
Proof.
  intros s3 fs a H. unfold start_tail in H.
  destruct (flt fs a KClone); [cbn in H; discriminate|]. split; [reflexivity|].
  destruct (f_clone (wget (w s3) a)); [discriminate|discriminate|cbn in H; discriminate].
Qed.

(** ** C05: replicas enter the set only through add-commit (as WO) or start *)
Definition sub_keys (s t : cst) : Prop := forall x, In x (keys (replicas t)) -> In x (keys (replicas s)).
Lemma sk_refl : forall s, sub_keys s s. Proof. intros s x H. exact H. Qed.
Lemma sk_trans : forall a b c, sub_keys a b -> sub_keys b c -> sub_keys a c.
Proof. intros a b c H1 H2 x H. apply H1. apply H2. exact H. Qed.
Lemma sk_of_sst : forall s t, same_struct_fields s t -> sub_keys s t.
Proof. intros s t [R _] x H. rewrite R in H. exact H. Qed.

Lemma replicas_backend_set_mode : forall s a m, replicas (backend_set_mode s a m) = replicas s.
Proof.
  intros s a m. unfold backend_set_mode. destruct (aget (backends s) a) as [[mb ib]|]; [|reflexivity].
  destruct (mode_eqb m ERR); [|reflexivity].
  unfold stop_monitoring. cbn. destruct (aget (live_mon s) ib); reflexivity.
Qed.

Lemma replicas_set_mode : forall s a m,
  replicas (set_mode_nolock s a m) = replicas s \/ replicas (set_mode_nolock s a m) = map (setm a m) (replicas s).
Proof.
  intros s a m. unfold set_mode_nolock. cbn [replicas update_vol_status upd_status].
  destruct (aget (replicas s) a) as [[]|]; try (left; reflexivity);
    right; rewrite replicas_backend_set_mode; reflexivity.
Qed.

Lemma sk_set_mode : forall s a m, sub_keys s (set_mode_nolock s a m).
Proof.
  intros s a m x H. destruct (replicas_set_mode s a m) as [R|R]; rewrite R in H; [exact H|].
  rewrite keys_setm in H. exact H.
Qed.

Lemma sk_remove : forall s fs a, sub_keys s (remove_replica_nolock s fs a).
Proof. intros s fs a x H. eapply remove_replica_subset. exact H. Qed.

Lemma sk_handle_error : forall errs s, sub_keys s (fst (handle_error_nolock s errs)).
Proof.
  intros errs s. unfold handle_error_nolock. cbn [fst].
  revert s. induction errs as [|a t IH]; intros s; cbn; [apply sk_refl|].
  eapply sk_trans; [apply sk_set_mode|apply IH].
Qed.

Lemma sk_remove_all : forall errs s fs, sub_keys s (remove_all s fs errs).
Proof. intros errs s fs x H. eapply remove_all_subset. exact H. Qed.

Lemma sk_can_add : forall s fs a, sub_keys s (fst (can_add s fs a)).
Proof.
  intros s fs a. unfold can_add. destruct (has_replica s a); [apply sk_refl|].
  destruct (find _ (replicas s)) as [[wo m]|]; [|apply sk_refl].
  destruct (negb _ || _ || _); [apply sk_refl|].
  destruct (_ <? _); [|apply sk_refl]. cbn [fst]. apply sk_remove.
Qed.

Lemma replicas_do_register : forall s a u r b pick fs, replicas (fst (fst (do_register s a u r b pick fs))) = replicas s.
Proof.
  intros s a u r b pick fs. unfold do_register.
  destruct (Nat.eqb u 0); [reflexivity|].
  set (s1 := upd_registered s _).
  destruct (replicas s1) eqn:Er; [|reflexivity].
  set (sw := if signalled s1 then _ else _).
  assert (Hsw : match sw with
                | inr out => replicas (fst (fst out)) = replicas s
                | inl None => True
                | inl (Some (s2, _)) => replicas s2 = replicas s end).
  { subst sw. destruct (signalled s1); [|reflexivity].
    destruct (match maxrev s1 with Some m => Nat.eqb m a | None => false end); [reflexivity|].
    destruct (match maxrev s1 with Some m => flt fs m KAlive | None => true end); [|reflexivity].
    destruct (maxrev s1); reflexivity. }
  destruct sw as [[[s2 sg0]|]|out]; [| reflexivity | exact Hsw].
  destruct b; [exact Hsw|].
  set (s3 := match maxrev s2 with None => _ | Some _ => s2 end).
  assert (H3 : replicas s3 = replicas s) by (subst s3; destruct (maxrev s2); exact Hsw).
  match goal with |- context [match ?L with Some l => _ | None => _ end] => destruct L as [l|] end; [|exact H3].
  set (s4 := upd_leader s3 l (signalled s3)).
  destruct (Nat.leb (quorum (rf s4)) (length (registered s4))); [|exact H3].
  assert (R5 : replicas (fst (fst (signal_replica s4 fs))) = replicas s).
  { unfold signal_replica. destruct (maxrev s4) as [m|]; [destruct (flt fs m KSignal)|]; exact H3. }
  destruct (signal_replica s4 fs) as [[s5 ok] sg]. exact R5.
Qed.

Lemma add_replica_keys : forall s fs a i b y,
  In y (keys (replicas (fst (add_replica_nolock s fs a i b)))) -> y = a \/ In y (keys (replicas s)).
Proof.
  intros s fs a i b y. unfold add_replica_nolock.
  pose proof (sk_can_add s fs a) as Hca. destruct (can_add s fs a) as [sc ok]. cbn [fst] in Hca.
  destruct (negb ok); [intro Hy; right; apply Hca; exact Hy|].
  set (after := if b then _ else _).
  assert (Haf : match after with Some (s3, _) => replicas s3 = replicas sc | None => True end).
  { subst after. destruct b; [|reflexivity]. destruct (negb (remain_ok sc)); [reflexivity|].
    pose proof (sst_snapshot_all (upd_nsnap sc (S (nsnap sc))) fs (nsnap sc)) as [Q _].
    destruct (snapshot_all (upd_nsnap sc (S (nsnap sc))) fs (nsnap sc)) as [s2 errs]. cbn [fst] in Q.
    destruct errs; [destruct (flt fs a KSnap)|]; exact Q. }
  destruct after as [[s3 r]|]; [|intro Hy; right; apply Hca; exact Hy].
  destruct r; try (cbn [fst]; rewrite Haf; intro Hy; right; apply Hca; exact Hy).
  destruct (flt fs a KSetModeWO); [cbn [fst]; rewrite Haf; intro Hy; right; apply Hca; exact Hy|].
  cbn [fst replicas upd_mon upd_backends upd_replicas upd_rep upd_w]. rewrite Haf.
  unfold keys. rewrite map_app. intro Hy. apply in_app_or in Hy. destruct Hy as [Hy|[Hy|[]]].
  - right. apply Hca. exact Hy.
  - left. symmetry. exact Hy.
Qed.

Theorem enter_only_by_add_or_start : forall s e x,
  In x (keys (replicas (fst (fst (step s e))))) -> ~ In x (keys (replicas s)) ->
  match e with AddCommit a _ => x = a | Start _ _ => replicas s = [] | _ => False end.
Proof.
  intros s e x Hin Hnot.
  assert (G : forall t, sub_keys s t -> In x (keys (replicas t)) -> False) by (intros t Ht Hx; apply Hnot; apply Ht; exact Hx).
  destruct e; cbn [step] in Hin.
  - rewrite replicas_do_register in Hin. exact (Hnot Hin).
  - unfold do_start in Hin. destruct addrs as [|a0 t]; [exfalso; exact (Hnot Hin)|].
    destruct (replicas s) eqn:Er; [reflexivity|]. exfalso. cbn in Hin. first [rewrite Er in Hin | idtac]. exact (Hnot Hin).
  - apply (G (fst (do_add_check s a fs))); [|destruct (do_add_check s a fs); exact Hin].
    unfold do_add_check. pose proof (sk_can_add s fs a) as Hc. destruct (can_add s fs a) as [s1 ok]. cbn [fst] in Hc.
    destruct (negb ok); [exact Hc|]. destruct (Nat.eqb (rf s1) (length (replicas s1))); exact Hc.
  - (* add-commit: only a itself can be new *)
    assert (Hin' : In x (keys (replicas (fst (do_add_commit s a fs))))) by (destruct (do_add_commit s a fs); exact Hin).
    clear Hin. unfold do_add_commit in Hin'.
    destruct (negb (existsb (Nat.eqb a) (pend_adds s))); [exfalso; exact (Hnot Hin')|].
    set (s0 := upd_pend_adds s _) in Hin'.
    destruct (create_backend s0 fs a) as [[s1 i]|] eqn:Hc; [|exfalso; exact (Hnot Hin')].
    pose proof (struct_create_backend _ _ _ _ _ Hc) as [R1 _].
    destruct (Nat.eqb (rf s1) (length (replicas s1))); [cbn in Hin'; rewrite R1 in Hin'; exfalso; exact (Hnot Hin')|].
    pose proof (fun y => add_replica_keys s1 fs a i true y) as Hadd.
    destruct (add_replica_nolock s1 fs a i true) as [s2 r] eqn:Ea. cbn [fst] in Hadd.
    assert (Hin2 : In x (keys (replicas s2))).
    { destruct r; cbn [fst] in Hin'; try exact Hin'.
      destruct (sst_update_checkpoint (update_vol_status s2) fs) as [Q _]. rewrite Q in Hin'. exact Hin'. }
    destruct (Hadd x Hin2) as [Hx|Hx]; [exact Hx|]. rewrite R1 in Hx. exfalso. exact (Hnot Hx).
  - apply (G (fst (do_verify s a fs))); [|destruct (do_verify s a fs); exact Hin].
    unfold do_verify.
    destruct (aget (replicas s) a) as [m|]; [|apply sk_refl].
    destruct (find (fun p => is_rw (snd p)) (replicas s)) as [[r0 m0]|]; [|destruct m; apply sk_refl].
    destruct m; try apply sk_refl.
    destruct (flt fs r0 KHttp || flt fs a KHttp); [apply sk_refl|].
    match goal with |- context [match ?K with Some k => _ | None => _ end] => destruct K as [k|] end; [|apply sk_refl].
    destruct (Nat.ltb _ k); [apply sk_refl|]. destruct (negb (list_eqb _ _)); [apply sk_refl|].
    destruct (negb _ || _); [apply sk_refl|]. destruct (negb _ || _); [apply sk_refl|].
    destruct (flt fs a KSetRev); [apply sk_of_sst; apply sst_upd_rep|].
    cbn [fst]. eapply sk_trans; [|apply sk_of_sst; apply sst_update_checkpoint].
    eapply sk_trans; [|apply sk_of_sst; apply sst_update_vol_status].
    eapply sk_trans; [|apply sk_set_mode]. apply sk_of_sst.
    eapply sst_trans; apply sst_upd_rep.
  - cbn in Hin. apply (G _ (sk_remove s fs a) Hin).
  - destruct m; cbn in Hin; try exact (Hnot Hin); apply (G _ (sk_set_mode s a _) Hin).
  - apply (G (fst (do_mon_fire s a fs))); [|destruct (do_mon_fire s a fs); exact Hin].
    unfold do_mon_fire. destruct (first_for (pend_mon s) (Nat.eqb a)) as [[i y]|]; [|apply sk_refl].
    cbn [fst]. eapply sk_trans; [apply sk_of_sst; apply sst_upd_mon|apply sk_remove].
  - apply (G (fst (do_mon_fail s a fs))); [|destruct (do_mon_fail s a fs); exact Hin].
    unfold do_mon_fail. destruct (first_for (rev (live_mon s)) (Nat.eqb a)) as [[i y]|]; [|apply sk_refl].
    cbn [fst]. eapply sk_trans; [apply sk_of_sst; apply sst_upd_mon|].
    eapply sk_trans; [apply sk_set_mode|apply sk_remove].
  - apply (G (fst (do_write s wid off len fs))); [|destruct (do_write s wid off len fs); exact Hin].
    unfold do_write. destruct (ro s); [apply sk_refl|].
    destruct ((off <? 0) || (csize s <? off + len)); [apply sk_refl|].
    destruct (negb (avail s)); [apply sk_refl|].
    set (s1 := fold_left _ (writers s) s).
    assert (K1 : sub_keys s s1).
    { apply sk_of_sst. subst s1. apply sst_fold_left. intros t y. destruct (flt fs y KWrite); [apply sst_refl|apply sst_upd_rep]. }
    destruct (io_errs (writers s) fs KWrite KWriteAp) as [|e0 es]; [exact K1|].
    pose proof (sk_handle_error (e0 :: es) s1) as K2.
    destruct (handle_error_nolock s1 (e0 :: es)) as [s2 sup]. cbn [fst] in *.
    eapply sk_trans; [exact K1|]. eapply sk_trans; [exact K2|apply sk_remove_all].
  - apply (G (fst (do_sync s fs KSync))); [|destruct (do_sync s fs KSync); exact Hin].
    unfold do_sync. destruct (ro s); [apply sk_refl|]. destruct (negb (avail s)); [apply sk_refl|].
    destruct (io_errs (writers s) fs KSync KSync) as [|e0 es]; [apply sk_refl|].
    pose proof (sk_handle_error (e0 :: es) s) as K2.
    destruct (handle_error_nolock s (e0 :: es)) as [s2 sup]. cbn [fst] in *.
    eapply sk_trans; [exact K2|apply sk_remove_all].
  - apply (G (fst (do_sync s fs KUnmap))); [|destruct (do_sync s fs KUnmap); exact Hin].
    unfold do_sync. destruct (ro s); [apply sk_refl|]. destruct (negb (avail s)); [apply sk_refl|].
    destruct (io_errs (writers s) fs KUnmap KUnmap) as [|e0 es]; [apply sk_refl|].
    pose proof (sk_handle_error (e0 :: es) s) as K2.
    destruct (handle_error_nolock s (e0 :: es)) as [s2 sup]. cbn [fst] in *.
    eapply sk_trans; [exact K2|apply sk_remove_all].
  - apply (G (fst (fst (do_read s off len order fs))) ); [|exact Hin].
    unfold do_read. destruct ((off <? 0) || (csize s <? off + len)); [apply sk_refl|].
    assert (K : sub_keys s (fst (fst (
      if negb (avail s) then (s, RErr, noeff)
      else if negb (read_order_ok s order fs) then (s, RInvalid, noeff)
      else
        let errs := filter (fun a => flt fs a KRead) order in
        let served := match rev order with lst :: _ => if flt fs lst KRead then None else Some lst | [] => None end in
        match errs with
        | [] => (s, ROk, mkeff [] served)
        | _ =>
            let '(s2, suppressed) := handle_error_nolock s errs in
            let s3 := remove_all s2 fs errs in
            (s3, match served with Some _ => if suppressed then ROk else RErr | None => RErr end, mkeff [] served)
        end)))).
    { destruct (negb (avail s)); [apply sk_refl|].
      destruct (negb (read_order_ok s order fs)); [apply sk_refl|]. cbv zeta.
      destruct (filter (fun a => flt fs a KRead) order) as [|e0 es]; [apply sk_refl|].
      pose proof (sk_handle_error (e0 :: es) s) as K2.
      destruct (handle_error_nolock s (e0 :: es)) as [s2 sup]. cbn [fst] in *.
      eapply sk_trans; [exact K2|apply sk_remove_all]. }
    destruct (replicas s) as [|[a0 m0] t]; [apply sk_refl|].
    destruct m0; destruct t; try exact K; apply sk_refl.
  - apply (G (fst (do_snapshot s name fs))); [|destruct (do_snapshot s name fs); exact Hin].
    unfold do_snapshot. destruct (negb (Nat.eqb (rwc s) (rf s))); [apply sk_refl|].
    destruct (Nat.eqb (length (backends s)) 0); [apply sk_refl|].
    destruct (negb (remain_ok s)); [apply sk_refl|].
    destruct (last_rw s) as [r0|]; [|apply sk_refl].
    destruct (flt fs r0 KHttp); [apply sk_refl|].
    destruct (existsb (Nat.eqb name) (f_chain (wget (w s) r0))); [apply sk_refl|].
    pose proof (sst_snapshot_all s fs name) as Hs.
    destruct (snapshot_all s fs name) as [s1 errs]. cbn [fst] in Hs.
    destruct errs as [|e0 es]; [apply sk_of_sst; exact Hs|].
    pose proof (sk_handle_error (e0 :: es) s1) as K2.
    destruct (handle_error_nolock s1 (e0 :: es)) as [s2 sup]. cbn [fst] in *.
    eapply sk_trans; [apply sk_of_sst; exact Hs|exact K2].
  - apply (G (fst (do_resize s newsize fs))); [|destruct (do_resize s newsize fs); exact Hin].
    unfold do_resize. destruct (newsize <? csize s); [apply sk_refl|]. destruct (newsize =? csize s); [apply sk_refl|].
    set (s1 := fold_left _ (writers s) s).
    assert (K1 : sub_keys s s1).
    { apply sk_of_sst. subst s1. apply sst_fold_left. intros t y. destruct (flt fs y KResize); [apply sst_refl|apply sst_upd_rep]. }
    set (errs := filter (fun a => flt fs a KResize) (writers s)).
    assert (K2 : sub_keys s (fst (match errs with
                               | [] => (s1, false)
                               | _ => let '(s2, suppressed) := handle_error_nolock s1 errs in (s2, negb suppressed)
                               end))).
    { destruct errs as [|e0 es]; [exact K1|].
      pose proof (sk_handle_error (e0 :: es) s1) as K3.
      destruct (handle_error_nolock s1 (e0 :: es)) as [s2 sup]. eapply sk_trans; [exact K1|exact K3]. }
    destruct (match errs with [] => (s1, false) | _ => _ end) as [s2 failed]. cbn [fst] in K2.
    destruct failed; [exact K2|]. destruct (flt fs 0%nat KFeResize); [exact K2|].
    eapply sk_trans; [exact K2|apply sk_of_sst; apply sst_upd_csize].
  - apply (G (fst (do_sync_data s a))); [|destruct (do_sync_data s a); exact Hin].
    unfold do_sync_data. destruct (aget (replicas s) a) as [[]|]; try apply sk_refl.
    destruct (find _ (replicas s)) as [[r0 m0]|]; [|apply sk_refl]. cbn. apply sk_of_sst. apply sst_upd_rep.
Qed.

(** ** C02 / C05: what the replicas hold after an acknowledged write, and that a failing minority
    does not surface *)
(** projections of a replica record that detaching, checkpoint updates and mode bookkeeping leave alone *)
Definition data_invariant {A} (g : frep -> A) : Prop :=
  cp_invariant g /\ (forall f b, g (f_set_open f b) = g f).

Lemma di_applied : data_invariant f_applied.
Proof. split; [exact cpi_applied|intros f b; reflexivity]. Qed.

Lemma w_stop_monitoring : forall s i, w (stop_monitoring s i) = w s.
Proof. intros s i. unfold stop_monitoring. destruct (aget (live_mon s) i); reflexivity. Qed.

Lemma w_set_mode : forall s a m, w (set_mode_nolock s a m) = w s.
Proof.
  intros s a m. unfold set_mode_nolock. cbn [w update_vol_status upd_status].
  destruct (aget (replicas s) a) as [[]|]; try reflexivity;
    unfold backend_set_mode; cbn [backends upd_replicas];
    destruct (aget (backends s) a) as [[mb ib]|]; try reflexivity;
    destruct (mode_eqb m ERR); cbn; rewrite ?w_stop_monitoring; reflexivity.
Qed.

Lemma keeps_remove_replica : forall {A} (g : frep -> A), data_invariant g ->
  forall s fs a x, g (wget (w (remove_replica_nolock s fs a)) x) = g (wget (w s) x).
Proof.
  intros A g [Hc Ho] s fs a x. unfold remove_replica_nolock.
  destruct (negb (has_replica s a)); [reflexivity|].
  rewrite (update_checkpoint_keeps g Hc). cbn [w update_vol_status upd_status].
  unfold remove_backend. cbn [backends upd_replicas upd_registered].
  match goal with |- context [aget ?B a] => destruct (aget B a) as [[mb ib]|] end.
  - cbn [w upd_backends upd_rep upd_w]. rewrite wget_wset.
    destruct (Nat.eqb a x) eqn:E.
    + apply Nat.eqb_eq in E. subst. rewrite Ho. rewrite w_stop_monitoring. cbn.
      destruct (Nat.eqb (length (replicas s)) 1 && fe_up s); reflexivity.
    + rewrite w_stop_monitoring. cbn. destruct (Nat.eqb (length (replicas s)) 1 && fe_up s); reflexivity.
  - cbn. destruct (Nat.eqb (length (replicas s)) 1 && fe_up s); reflexivity.
Qed.

Lemma keeps_handle_error : forall {A} (g : frep -> A) errs s x,
  g (wget (w (fst (handle_error_nolock s errs))) x) = g (wget (w s) x).
Proof.
  intros A g errs s x. unfold handle_error_nolock. cbn [fst].
  revert s. induction errs as [|a t IH]; intros s; cbn; [reflexivity|]. rewrite IH, w_set_mode. reflexivity.
Qed.

Lemma keeps_remove_all : forall {A} (g : frep -> A), data_invariant g ->
  forall errs s fs x, g (wget (w (remove_all s fs errs)) x) = g (wget (w s) x).
Proof.
  intros A g Hg errs. unfold remove_all. induction errs as [|a t IH]; intros s fs x; cbn; [reflexivity|].
  rewrite IH. apply keeps_remove_replica. exact Hg.
Qed.

(** the fan-out: every writer that does not fail before applying gets the write appended *)
Lemma fanout_applied : forall ws s wid fs x,
  NoDup ws ->
  f_applied (wget (w (fold_left (fun acc a => if flt fs a KWrite then acc else upd_rep acc a (fun f => f_apply f wid)) ws s)) x)
  = if existsb (Nat.eqb x) ws && negb (flt fs x KWrite) then f_applied (wget (w s) x) ++ [wid] else f_applied (wget (w s) x).
Proof.
  induction ws as [|a t IH]; intros s wid fs x Hn; cbn [fold_left existsb]; [reflexivity|].
  inversion Hn as [|y ys Hy Hd]; subst.
  rewrite IH by exact Hd.
  destruct (Nat.eqb x a) eqn:E.
  - apply Nat.eqb_eq in E. subst x.
    assert (Ht : existsb (Nat.eqb a) t = false).
    { destruct (existsb (Nat.eqb a) t) eqn:Ex; [|reflexivity]. apply existsb_exists in Ex.
      destruct Ex as [z [Hz Hez]]. apply Nat.eqb_eq in Hez. subst. contradiction. }
    rewrite Ht. cbn [orb andb].
    destruct (flt fs a KWrite); cbn [negb andb]; [reflexivity|].
    unfold upd_rep. cbn [w upd_w]. rewrite wget_wset, Nat.eqb_refl. reflexivity.
  - cbn [orb].
    destruct (flt fs a KWrite); [reflexivity|].
    unfold upd_rep. cbn [w upd_w]. rewrite wget_wset.
    assert (E' : Nat.eqb a x = false) by (rewrite Nat.eqb_sym; exact E). rewrite E'. reflexivity.
Qed.

Lemma writers_nodup : forall s, struct_ok s -> NoDup (writers s).
Proof.
  intros s H. unfold writers.
  pose proof (st_nodup s H) as Hn. rewrite <- (st_mirror s H), keys_proj in Hn.
  unfold keys in Hn. clear - Hn. induction (backends s) as [|[k [m i]] t IH]; cbn in *; [constructor|].
  inversion Hn as [|x xs Hx Hd]; subst.
  destruct (negb (mode_eqb m ERR)); cbn; [|apply IH; exact Hd].
  constructor; [|apply IH; exact Hd].
  intro Hin. apply Hx. apply in_map_iff in Hin. destruct Hin as [p [Hp Hin]]. apply filter_In in Hin.
  destruct Hin as [Hin _]. rewrite <- Hp. apply in_map. exact Hin.
Qed.

(** every writer that is still listed after an acknowledged (or any) write and did not fail it holds it *)
Theorem write_survivors_hold_it : forall s wid off len fs x,
  struct_ok s -> ro s = false -> avail s = true -> 0 <= off -> off + len <= csize s ->
  In x (writers s) -> flt fs x KWrite = false ->
  In wid (f_applied (wget (w (fst (do_write s wid off len fs))) x)).
Proof.
  intros s wid off len fs x H Hro Hav Ho Hl Hin Hf. unfold do_write. rewrite Hro, Hav.
  assert (E : (off <? 0) || (csize s <? off + len) = false).
  { apply orb_false_iff. split; [apply Z.ltb_ge; lia|apply Z.ltb_ge; lia]. }
  rewrite E. cbn [negb].
  set (s1 := fold_left _ (writers s) s).
  assert (A1 : In wid (f_applied (wget (w s1) x))).
  { subst s1. rewrite fanout_applied by (apply writers_nodup; exact H).
    assert (Ex : existsb (Nat.eqb x) (writers s) = true) by (apply existsb_exists; exists x; split; [exact Hin|apply Nat.eqb_refl]).
    rewrite Ex, Hf. cbn. apply in_or_app. right. left. reflexivity. }
  destruct (io_errs (writers s) fs KWrite KWriteAp) as [|e es]; [exact A1|].
  pose proof (keeps_handle_error f_applied (e :: es) s1 x) as K1.
  destruct (handle_error_nolock s1 (e :: es)) as [s2 sup]. cbn [fst] in *.
  rewrite (keeps_remove_all f_applied di_applied). rewrite K1. exact A1.
Qed.

(** whoever is in service after the write was a writer of it *)
Lemma in_service_after_write_was_writer : forall s wid off len fs x m,
  struct_ok s ->
  aget (replicas (fst (do_write s wid off len fs))) x = Some m -> m <> ERR ->
  In x (keys (replicas s)).
Proof.
  intros s wid off len fs x m H Hg Hm.
  assert (Hin : In x (keys (replicas (fst (do_write s wid off len fs))))).
  { clear - Hg. induction (replicas (fst (do_write s wid off len fs))) as [|[k v] t IH]; cbn in *; [discriminate|].
    destruct (Nat.eqb k x) eqn:E; [left; apply Nat.eqb_eq; exact E|right; apply IH; exact Hg]. }
  pose proof (enter_only_by_add_or_start s (Write wid off len fs) x) as G. cbn [step] in G.
  destruct (do_write s wid off len fs) as [s1 r]. cbn [fst] in *.
  destruct (in_dec Nat.eq_dec x (keys (replicas s))) as [Hi|Hni]; [exact Hi|].
  exfalso. exact (G Hin Hni).
Qed.

(** *** a failing minority does not surface: if the writers that do not fail are a strict majority and
    one of them is RW, the write is acknowledged *)
Lemma count_rw_pos : forall l a, aget l a = Some RW -> (0 < count_rw l)%nat.
Proof.
  unfold count_rw. induction l as [|[k v] t IH]; intros a H; cbn in *; [discriminate|].
  destruct (Nat.eqb k a).
  - inversion H; subst. cbn. lia.
  - specialize (IH a H). destruct (is_rw v); cbn; lia.
Qed.

Lemma aget_setm_other : forall l a m x, x <> a -> aget (map (setm a m) l) x = aget l x.
Proof.
  induction l as [|[k v] t IH]; intros a m x Hx; cbn; [reflexivity|].
  unfold setm at 1. cbn. destruct (Nat.eqb k a) eqn:E; cbn.
  - apply Nat.eqb_eq in E. subst k. destruct (Nat.eqb a x) eqn:E2; [apply Nat.eqb_eq in E2; subst; contradiction|apply IH; exact Hx].
  - destruct (Nat.eqb k x); [reflexivity|apply IH; exact Hx].
Qed.

Lemma aget_set_mode_other : forall s a m x, x <> a -> aget (replicas (set_mode_nolock s a m)) x = aget (replicas s) x.
Proof.
  intros s a m x Hx. destruct (replicas_set_mode s a m) as [R|R]; rewrite R; [reflexivity|].
  apply aget_setm_other. exact Hx.
Qed.

Lemma handle_error_keeps_others : forall errs s x, ~ In x errs ->
  aget (replicas (fst (handle_error_nolock s errs))) x = aget (replicas s) x.
Proof.
  intros errs s x. unfold handle_error_nolock. cbn [fst].
  revert s. induction errs as [|a t IH]; intros s Hn; cbn; [reflexivity|].
  rewrite IH by (intro Hi; apply Hn; right; exact Hi).
  apply aget_set_mode_other. intro E. apply Hn. left. symmetry. exact E.
Qed.

Theorem write_minority_failure_acked : forall s wid off len fs x,
  struct_ok s -> ro s = false -> avail s = true -> 0 <= off -> off + len <= csize s ->
  majority_ok (length (writers s)) (length (io_errs (writers s) fs KWrite KWriteAp)) = true ->
  aget (replicas s) x = Some RW -> ~ In x (io_errs (writers s) fs KWrite KWriteAp) ->
  snd (do_write s wid off len fs) = ROk.
Proof.
  intros s wid off len fs x H Hro Hav Ho Hl Hmaj Hrw Hnx. unfold do_write. rewrite Hro, Hav.
  assert (E : (off <? 0) || (csize s <? off + len) = false).
  { apply orb_false_iff. split; [apply Z.ltb_ge; lia|apply Z.ltb_ge; lia]. }
  rewrite E. cbn [negb].
  set (s1 := fold_left _ (writers s) s).
  assert (R1 : replicas s1 = replicas s).
  { subst s1. apply sst_fold_left. intros t y. destruct (flt fs y KWrite); [apply sst_refl|apply sst_upd_rep]. }
  destruct (io_errs (writers s) fs KWrite KWriteAp) as [|e es] eqn:Ee; [reflexivity|].
  rewrite Hmaj.
  pose proof (handle_error_keeps_others (e :: es) s1 x Hnx) as K.
  rewrite R1, Hrw in K.
  destruct (handle_error_nolock s1 (e :: es)) as [s2 sup] eqn:Eh. cbn [fst] in K.
  assert (Hsup : sup = true).
  { unfold handle_error_nolock in Eh. inversion Eh as [[Hs2 Hsp]]. apply Nat.ltb_lt.
    eapply count_rw_pos. rewrite Hs2. exact K. }
  rewrite Hsup. reflexivity.
Qed.
