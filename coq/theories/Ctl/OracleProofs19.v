(** * Ctl: the control half of C19 — the clone status of a replica is a constant of the scripted world,
    and a replica that a start request makes RW has a clone status other than "error" *)
From Coq Require Import List ZArith Bool Arith Lia.
From Jiva Require Import Ctl.Model Ctl.Corr Ctl.Oracles Ctl.Proofs Ctl.Props Ctl.RfConst Ctl.OracleProofs
  Ctl.OracleProofs2 Ctl.OracleProofs07 Ctl.OracleProofsX.
Import ListNotations.
Open Scope Z_scope.

(** ** no request changes the clone status of a replica *)
Definition wclk (w1 w2 : world) : Prop := forall a, f_clone (wget w2 a) = f_clone (wget w1 a).
Definition clk (s t : cst) : Prop := wclk (w s) (w t).

Lemma wclk_refl : forall w1, wclk w1 w1. Proof. intros w1 a. reflexivity. Qed.
Lemma wclk_wset : forall w1 w2 a f, wclk w1 w2 -> f_clone f = f_clone (wget w2 a) -> wclk w1 (wset w2 a f).
Proof.
  intros w1 w2 a f H Hf x. rewrite wget_wset. destruct (Nat.eqb a x) eqn:E; [|apply H].
  apply Nat.eqb_eq in E. subst. rewrite Hf. apply H.
Qed.
Lemma clk_refl : forall s, clk s s. Proof. intros s a. reflexivity. Qed.
Lemma clk_trans : forall a b c, clk a b -> clk b c -> clk a c.
Proof. intros a b c H1 H2 x. rewrite (H2 x). apply H1. Qed.
Lemma clk_eq : forall s t, w t = w s -> clk s t.
Proof. intros s t H a. rewrite H. reflexivity. Qed.
Lemma clk_upd_rep : forall s a g, (forall f, f_clone (g f) = f_clone f) -> clk s (upd_rep s a g).
Proof. intros s a g Hg. unfold clk, upd_rep. cbn [w upd_w]. apply wclk_wset; [apply wclk_refl|apply Hg]. Qed.

Ltac clk_same :=
  first [ apply clk_eq; reflexivity
        | unfold clk;
          cbn [w upd_rep upd_w upd_mon upd_backends upd_replicas upd_ninst upd_nsnap upd_csize upd_fe upd_leader
               upd_registered upd_status upd_checkpoint upd_pend_adds update_vol_status close_new];
          repeat (apply wclk_wset; [|reflexivity]); apply wclk_refl ].

Lemma clk_uvs : forall s, clk s (update_vol_status s). Proof. intros. clk_same. Qed.
Lemma clk_upd_backends : forall s v, clk s (upd_backends s v). Proof. intros. clk_same. Qed.
Lemma clk_upd_replicas : forall s v, clk s (upd_replicas s v). Proof. intros. clk_same. Qed.
Lemma clk_upd_registered : forall s v, clk s (upd_registered s v). Proof. intros. clk_same. Qed.
Ltac clk_then := eapply clk_trans; [|apply clk_uvs].

Lemma clk_fold : forall {A} (f : cst -> A -> cst) l s, (forall t x, clk t (f t x)) -> clk s (fold_left f l s).
Proof.
  intros A f l. induction l as [|x l IH]; intros s H; cbn; [apply clk_refl|].
  eapply clk_trans; [apply H|apply IH; exact H].
Qed.

Lemma clk_stop_monitoring : forall s i, clk s (stop_monitoring s i).
Proof. intros. unfold stop_monitoring. destruct (aget (live_mon s) i); [clk_same|apply clk_refl]. Qed.

Lemma clk_backend_set_mode : forall s a m, clk s (backend_set_mode s a m).
Proof.
  intros. unfold backend_set_mode. destruct (aget (backends s) a) as [[m0 i]|]; [|apply clk_refl].
  cbv zeta. destruct (mode_eqb m ERR); [|clk_same].
  eapply clk_trans; [|apply clk_stop_monitoring]. clk_same.
Qed.

Lemma clk_set_mode : forall s a m, clk s (set_mode_nolock s a m).
Proof.
  intros. unfold set_mode_nolock. clk_then.
  destruct (aget (replicas s) a) as [[]|]; try apply clk_refl;
    (eapply clk_trans; [|apply clk_backend_set_mode]; clk_same).
Qed.

Lemma clk_set_checkpoint : forall s fs n, clk s (fst (set_checkpoint s fs n)).
Proof. intros s fs n a. apply (set_checkpoint_keeps f_clone cpi_clone). Qed.

Lemma clk_update_checkpoint : forall s fs, clk s (update_checkpoint s fs).
Proof.
  intros. unfold update_checkpoint.
  destruct (Nat.eqb (count_rw (replicas s)) (rf s)); [|clk_same].
  destruct (get_latest_snapshot s fs) as [n|]; [|clk_same].
  pose proof (clk_set_checkpoint s fs n) as H. destruct (set_checkpoint s fs n) as [s1 ok]. cbn [fst] in H.
  eapply clk_trans; [exact H|clk_same].
Qed.

Lemma clk_remove_backend : forall s a, clk s (remove_backend s a).
Proof.
  intros. unfold remove_backend. destruct (aget (backends s) a) as [[m0 i]|]; [|apply clk_refl].
  cbv zeta. eapply clk_trans; [|apply clk_upd_backends]. eapply clk_trans; [|apply clk_upd_rep; intros; reflexivity]. apply clk_stop_monitoring.
Qed.

Lemma clk_remove_replica : forall s fs a, clk s (remove_replica_nolock s fs a).
Proof.
  intros. unfold remove_replica_nolock. destruct (negb (has_replica s a)); [apply clk_refl|].
  cbv zeta.
  eapply clk_trans; [|apply clk_update_checkpoint]. clk_then.
  eapply clk_trans; [|apply clk_remove_backend]. eapply clk_trans; [|apply clk_upd_replicas].
  eapply clk_trans; [|apply clk_upd_registered].
  destruct (Nat.eqb (length (replicas s)) 1 && fe_up s); [|apply clk_refl].
  apply clk_eq; reflexivity.
Qed.

Lemma clk_handle_error : forall errs s, clk s (fst (handle_error_nolock s errs)).
Proof. intros. unfold handle_error_nolock. cbn [fst]. apply clk_fold. intros. apply clk_set_mode. Qed.

Lemma clk_remove_all : forall errs s fs, clk s (remove_all s fs errs).
Proof. intros. unfold remove_all. apply clk_fold. intros. apply clk_remove_replica. Qed.

Lemma clk_detach : forall s fs errs, clk s (detach s fs errs).
Proof. intros. unfold detach. eapply clk_trans; [apply clk_handle_error|apply clk_remove_all]. Qed.

Lemma clk_can_add : forall s fs a, clk s (fst (can_add s fs a)).
Proof.
  intros. unfold can_add. destruct (has_replica s a); [apply clk_refl|].
  destruct (find _ (replicas s)) as [[wo m]|]; [|apply clk_refl].
  destruct (negb _ || _ || _); [apply clk_refl|].
  destruct (_ <? _); [|apply clk_refl]. cbn [fst]. apply clk_remove_replica.
Qed.

Lemma clk_snapshot_all : forall s fs n, clk s (fst (snapshot_all s fs n)).
Proof.
  intros. unfold snapshot_all. cbn [fst]. apply clk_fold. intros t x. destruct (flt fs x KSnap); [apply clk_refl|clk_same].
Qed.

Lemma clk_add_replica_nolock : forall s fs a i b, clk s (fst (add_replica_nolock s fs a i b)).
Proof.
  intros. unfold add_replica_nolock.
  pose proof (clk_can_add s fs a) as Hc. destruct (can_add s fs a) as [s0 ok]. cbn [fst] in Hc.
  destruct (negb ok); [exact Hc|].
  assert (G : forall t, clk s0 t -> clk s t) by (intros t Ht; eapply clk_trans; eassumption).
  destruct b.
  - destruct (negb (remain_ok s0)); [exact Hc|].
    pose proof (clk_snapshot_all (upd_nsnap s0 (S (nsnap s0))) fs (nsnap s0)) as Hs.
    destruct (snapshot_all (upd_nsnap s0 (S (nsnap s0))) fs (nsnap s0)) as [s2 errs]. cbn [fst] in Hs.
    assert (H2 : clk s0 s2) by (eapply clk_trans; [|exact Hs]; clk_same).
    assert (G2 : forall t, clk s2 t -> clk s t) by (intros t Ht; apply G; eapply clk_trans; eassumption).
    destruct errs; [destruct (flt fs a KSnap)|]; cbn [fst]; try (apply G2; clk_same).
    destruct (flt fs a KSetModeWO); cbn [fst]; apply G2; clk_same.
  - destruct (flt fs a KSetModeWO); cbn [fst]; apply G; [apply clk_refl|clk_same].
Qed.

Lemma clk_create_backend : forall s fs a s1 i, create_backend s fs a = Some (s1, i) -> clk s s1.
Proof.
  intros s fs a s1 i H. unfold create_backend in H. destruct (_ || _); [discriminate|]. inversion H. clk_same.
Qed.

Lemma clk_rm_from_registered : forall s, clk s (rm_from_registered s).
Proof. intros. apply clk_eq; reflexivity. Qed.

Lemma clk_add_during_start : forall s fs a, clk s (fst (add_during_start s fs a)).
Proof.
  intros. unfold add_during_start.
  destruct (create_backend s fs a) as [[s1 i]|] eqn:Hc; [|apply clk_rm_from_registered].
  pose proof (clk_create_backend _ _ _ _ _ Hc) as R1.
  assert (G1 : forall t, clk s1 t -> clk s t) by (intros t Ht; eapply clk_trans; eassumption).
  destruct (flt fs a KSize); [cbn [fst]; apply G1; apply clk_rm_from_registered|].
  set (s2 := if csize s1 =? maxint then _ else s1).
  assert (R2 : clk s s2) by (subst s2; destruct (csize s1 =? maxint); [apply G1; clk_same|exact R1]).
  assert (G2 : forall t, clk s2 t -> clk s t) by (intros t Ht; eapply clk_trans; eassumption).
  destruct (negb (csize s2 =? f_size (wget (w s1) a))); [cbn [fst]; apply G2; apply clk_rm_from_registered|].
  pose proof (clk_add_replica_nolock s2 fs a i false) as R3.
  destruct (add_replica_nolock s2 fs a i false) as [s3 r]. cbn [fst] in R3.
  assert (G3 : forall t, clk s3 t -> clk s t) by (intros t Ht; apply G2; eapply clk_trans; eassumption).
  destruct r; cbn [fst]; try (apply G3; apply clk_rm_from_registered).
  destruct (flt fs a KClone); [cbn [fst]; apply G3; apply clk_remove_replica|].
  assert (G : clk s (fst (if flt fs a KSetModeRW then (remove_replica_nolock s3 fs a, RErr)
                  else (set_mode_nolock (upd_rep s3 a (fun f => f_set_mode f RRW)) a RW, ROk)))).
  { destruct (flt fs a KSetModeRW); cbn [fst]; apply G3; [apply clk_remove_replica|].
    eapply clk_trans; [|apply clk_set_mode]. clk_same. }
  destruct (f_clone (wget (w s3) a)); try exact G. cbn [fst]. apply G3. apply clk_remove_replica.
Qed.

Lemma clk_start_adds : forall l s fs, clk s (fst (start_adds s fs l)).
Proof.
  induction l as [|a t IH]; intros; cbn; [apply clk_refl|].
  pose proof (clk_add_during_start s fs a) as R. destruct (add_during_start s fs a) as [s1 r]. cbn [fst] in R.
  destruct r; cbn; try exact R. eapply clk_trans; [exact R|apply IH].
Qed.

Lemma clk_start_frontend : forall s, clk s (start_frontend s).
Proof. intros. unfold start_frontend. destruct (replicas s); [apply clk_refl|clk_same]. Qed.

Lemma clk_do_start : forall s l fs, clk s (fst (fst (do_start s l fs))).
Proof.
  intros. unfold do_start. destruct l as [|a0 t]; [apply clk_refl|].
  destruct (replicas s); [|apply clk_refl].
  destruct (negb (signalled s) || negb _); [apply clk_refl|].
  set (s0 := upd_csize _ maxint).
  pose proof (clk_start_adds (a0 :: t) s0 fs) as R1.
  destruct (start_adds s0 fs (a0 :: t)) as [s1 r]. cbn [fst] in R1.
  assert (R0 : clk s s1) by (eapply clk_trans; [|exact R1]; subst s0; clk_same).
  assert (G : forall t, clk s1 t -> clk s t) by (intros u Hu; eapply clk_trans; eassumption).
  destruct r; cbn [fst]; try (apply G; apply clk_start_frontend).
  destruct (existsb _ (replicas s1)); cbn [fst]; apply G; [apply clk_start_frontend|].
  eapply clk_trans; [|apply clk_start_frontend].
  eapply clk_trans; [|apply clk_update_checkpoint]. clk_then.
  apply clk_fold. intros t0 x. destruct (_ =? _); [apply clk_refl|apply clk_set_mode].
Qed.

Lemma clk_do_write : forall s wid off len fs, clk s (fst (do_write s wid off len fs)).
Proof.
  intros. destruct (ro s) eqn:Hro.
  { destruct (do_write_not_reached s wid off len fs (or_introl Hro)) as [X _]. rewrite X. apply clk_refl. }
  destruct ((off <? 0) || (csize s <? off + len)) eqn:Hr.
  { destruct (do_write_not_reached s wid off len fs (or_intror (or_introl Hr))) as [X _]. rewrite X. apply clk_refl. }
  destruct (avail s) eqn:Hav.
  2:{ destruct (do_write_not_reached s wid off len fs (or_intror (or_intror Hav))) as [X _]. rewrite X. apply clk_refl. }
  rewrite (do_write_unfold s wid off len fs Hro Hr Hav). cbn [fst].
  eapply clk_trans; [|apply clk_detach]. unfold fanout. apply clk_fold.
  intros t x. destruct (flt fs x KWrite); [apply clk_refl|clk_same].
Qed.

Lemma clk_do_sync : forall s fs k, clk s (fst (do_sync s fs k)).
Proof.
  intros. destruct (ro s) eqn:Hro.
  { destruct (do_sync_not_reached s fs k (or_introl Hro)) as [X _]. rewrite X. apply clk_refl. }
  destruct (avail s) eqn:Hav.
  2:{ destruct (do_sync_not_reached s fs k (or_intror Hav)) as [X _]. rewrite X. apply clk_refl. }
  rewrite (do_sync_unfold s fs k Hro Hav). cbn [fst]. apply clk_detach.
Qed.

Lemma clk_read_main : forall s order fs, clk s (fst (fst (read_main s order fs))).
Proof.
  intros. unfold read_main. destruct (negb (avail s)); [apply clk_refl|].
  destruct (negb (read_order_ok s order fs)); [apply clk_refl|]. cbv zeta.
  destruct (filter _ order) as [|e0 es]; [apply clk_refl|].
  pose proof (clk_detach s fs (e0 :: es)) as R. unfold detach in R.
  destruct (handle_error_nolock s (e0 :: es)) as [s2 sup]. exact R.
Qed.

Lemma clk_do_read : forall s off len order fs, clk s (fst (fst (do_read s off len order fs))).
Proof.
  intros. rewrite do_read_unfold. destruct (_ || _); [apply clk_refl|].
  pose proof (clk_read_main s order fs) as G.
  destruct (replicas s) as [|[a0 m0] t]; [apply clk_refl|]. destruct m0; destruct t; try exact G; apply clk_refl.
Qed.

Lemma clk_step : forall s e, match e with Register _ _ _ _ _ _ => False | _ => True end ->
  clk s (fst (fst (step s e))).
Proof.
  intros s e He. destruct e; try contradiction; cbn [step].
  - apply clk_do_start.
  - unfold do_add_check. pose proof (clk_can_add s fs a) as R. destruct (can_add s fs a) as [s1 ok]. cbn [fst] in R.
    destruct (negb ok); [exact R|]. destruct (Nat.eqb _ _); [exact R|]. cbn [fst]. eapply clk_trans; [exact R|clk_same].
  - unfold do_add_commit. destruct (negb _); [apply clk_refl|].
    set (s0 := upd_pend_adds s _).
    destruct (create_backend s0 fs a) as [[s1 i]|] eqn:Hc; [|cbn [fst]; subst s0; clk_same].
    pose proof (clk_create_backend _ _ _ _ _ Hc) as R1.
    assert (R0 : clk s s1) by (eapply clk_trans; [|exact R1]; subst s0; clk_same).
    destruct (Nat.eqb (rf s1) (length (replicas s1))); [cbn [fst]; eapply clk_trans; [exact R0|clk_same]|].
    pose proof (clk_add_replica_nolock s1 fs a i true) as R2.
    destruct (add_replica_nolock s1 fs a i true) as [s2 r]. cbn [fst] in R2.
    assert (R3 : clk s s2) by (eapply clk_trans; eassumption).
    destruct r; cbn [fst]; try exact R3.
    eapply clk_trans; [exact R3|]. eapply clk_trans; [|apply clk_update_checkpoint]. clk_same.
  - unfold do_verify.
    destruct (aget (replicas s) a) as [m|]; [|apply clk_refl].
    destruct (find _ (replicas s)) as [[r0 m0]|]; [|destruct m; apply clk_refl].
    destruct m; try apply clk_refl.
    destruct (_ || _); [apply clk_refl|].
    match goal with |- context [match ?K with Some k => _ | None => _ end] => destruct K as [k|] end; [|apply clk_refl].
    destruct (Nat.ltb _ k); [apply clk_refl|]. destruct (negb (list_eqb _ _)); [apply clk_refl|].
    destruct (_ || _); [apply clk_refl|]. destruct (_ || _); [apply clk_refl|].
    destruct (flt fs a KSetRev); [cbn [fst]; clk_same|].
    cbn [fst]. eapply clk_trans; [|apply clk_update_checkpoint]. clk_then.
    eapply clk_trans; [|apply clk_set_mode]. clk_same.
  - apply clk_remove_replica.
  - destruct m; cbn [fst]; try apply clk_refl; apply clk_set_mode.
  - unfold do_mon_fire. destruct (first_for _ _) as [[i x]|]; [|apply clk_refl]. cbn [fst].
    eapply clk_trans; [|apply clk_remove_replica]. clk_same.
  - unfold do_mon_fail. destruct (first_for _ _) as [[i x]|]; [|apply clk_refl]. cbn [fst].
    eapply clk_trans; [|apply clk_remove_replica]. eapply clk_trans; [|apply clk_set_mode]. clk_same.
  - pose proof (clk_do_write s wid off len fs) as G. destruct (do_write s wid off len fs). exact G.
  - pose proof (clk_do_sync s fs KSync) as G. destruct (do_sync s fs KSync). exact G.
  - pose proof (clk_do_sync s fs KUnmap) as G. destruct (do_sync s fs KUnmap). exact G.
  - apply clk_do_read.
  - unfold do_snapshot. destruct (negb _); [apply clk_refl|]. destruct (Nat.eqb _ 0); [apply clk_refl|].
    destruct (negb _); [apply clk_refl|]. destruct (last_rw s) as [r0|]; [|apply clk_refl].
    destruct (flt fs r0 KHttp); [apply clk_refl|]. destruct (existsb _ _); [apply clk_refl|].
    pose proof (clk_snapshot_all s fs name) as R1.
    destruct (snapshot_all s fs name) as [s1 errs]. cbn [fst] in R1.
    destruct errs as [|e0 es]; [exact R1|].
    pose proof (clk_handle_error (e0 :: es) s1) as R2.
    destruct (handle_error_nolock s1 (e0 :: es)) as [s2 sup]. cbn [fst] in *. eapply clk_trans; eassumption.
  - unfold do_resize. destruct (_ <? _); [apply clk_refl|]. destruct (_ =? _); [apply clk_refl|].
    set (s1 := fold_left _ (writers s) s).
    assert (R1 : clk s s1).
    { subst s1. apply clk_fold. intros t x. destruct (flt fs x KResize); [apply clk_refl|clk_same]. }
    set (errs := filter _ (writers s)).
    assert (R2 : clk s (fst (match errs with
                               | [] => (s1, false)
                               | _ => let '(s2, suppressed) := handle_error_nolock s1 errs in (s2, negb suppressed)
                               end))).
    { destruct errs as [|e0 es]; [exact R1|].
      pose proof (clk_handle_error (e0 :: es) s1) as R3.
      destruct (handle_error_nolock s1 (e0 :: es)) as [s2 sup]. cbn [fst] in *. eapply clk_trans; eassumption. }
    destruct (match errs with [] => (s1, false) | _ => _ end) as [s2 failed]. cbn [fst] in R2.
    destruct failed; [exact R2|]. destruct (flt fs 0%nat KFeResize); [exact R2|]. cbn [fst]. eapply clk_trans; [exact R2|clk_same].
  - unfold do_sync_data. destruct (aget (replicas s) a) as [[]|]; try apply clk_refl.
    destruct (find _ (replicas s)) as [[r0 m0]|]; [|apply clk_refl]. cbn [fst]. clk_same.
Qed.


Lemma w_reg_switch : forall s1 a fs,
  match reg_switch s1 a fs with
  | inr out => w (fst (fst out)) = w s1
  | inl None => True
  | inl (Some (s2, _)) => w s2 = w s1
  end.
Proof.
  intros s1 a fs. unfold reg_switch. destruct (signalled s1); [|reflexivity].
  destruct (match maxrev s1 with Some m => Nat.eqb m a | None => false end); [reflexivity|].
  destruct (match maxrev s1 with Some m => flt fs m KAlive | None => true end); [|reflexivity].
  cbv zeta. destruct (maxrev s1); reflexivity.
Qed.

Lemma w_reg_elect : forall s2 a pick fs sg0, w (fst (fst (reg_elect s2 a pick fs sg0))) = w s2.
Proof.
  intros s2 a pick fs sg0. unfold reg_elect.
  set (s3 := match maxrev s2 with None => upd_leader s2 (Some a) (signalled s2) | Some _ => s2 end).
  assert (W3 : w s3 = w s2) by (subst s3; destruct (maxrev s2); reflexivity).
  cbv zeta.
  match goal with |- context [match ?L with Some l => _ | None => _ end] => destruct L as [l|] end; [|exact W3].
  destruct (Nat.leb _ _); [|exact W3].
  unfold signal_replica. cbn [maxrev upd_leader].
  destruct l as [m|]; [destruct (flt fs m KSignal)|]; exact W3.
Qed.

Lemma clk_do_register : forall s a u rev reb pick fs, clk s (fst (fst (do_register s a u rev reb pick fs))).
Proof.
  intros. apply clk_eq. rewrite do_register_unfold. destruct (Nat.eqb u 0); [reflexivity|]. cbv zeta.
  destruct (replicas (reg_s1 s a u rev reb)); [|reflexivity].
  pose proof (w_reg_switch (reg_s1 s a u rev reb) a fs) as Hs.
  destruct (reg_switch (reg_s1 s a u rev reb) a fs) as [[[s2 sg0]|]|out]; [|reflexivity|exact Hs].
  destruct reb; [exact Hs|]. rewrite w_reg_elect. exact Hs.
Qed.

Lemma clk_step_all : forall s e, clk s (fst (fst (step s e))).
Proof.
  intros s e. destruct e; try (apply clk_step; exact I). apply clk_do_register.
Qed.

(** ** a replica that a start request makes RW has a clone status other than "error" *)
Lemma add_during_start_rw : forall s fs a x,
  In (x, RW) (replicas (fst (add_during_start s fs a))) ->
  In (x, RW) (replicas s) \/ f_clone (wget (w s) x) <> CErr.
Proof.
  intros s fs a x. unfold add_during_start.
  destruct (create_backend s fs a) as [[s1 i]|] eqn:Hc; [|cbn; auto].
  pose proof (struct_create_backend _ _ _ _ _ Hc) as [R1 _].
  pose proof (clk_create_backend _ _ _ _ _ Hc) as K1.
  destruct (flt fs a KSize); [cbn; rewrite R1; auto|].
  set (s2 := if csize s1 =? maxint then _ else s1).
  assert (R2 : replicas s2 = replicas s) by (subst s2; destruct (csize s1 =? maxint); exact R1).
  assert (K2 : clk s s2) by (subst s2; destruct (csize s1 =? maxint); [eapply clk_trans; [exact K1|clk_same]|exact K1]).
  destruct (negb (csize s2 =? f_size (wget (w s1) a))); [cbn; rewrite R2; auto|].
  pose proof (rws_add_replica_nolock s2 fs a i false) as R3.
  pose proof (clk_add_replica_nolock s2 fs a i false) as K3.
  destruct (add_replica_nolock s2 fs a i false) as [s3 r]. cbn [fst] in R3, K3.
  assert (G : forall t, rw_sub s3 t -> In (x, RW) (replicas t) -> In (x, RW) (replicas s) \/ f_clone (wget (w s) x) <> CErr).
  { intros t Ht Hx. left. rewrite <- R2. apply R3. apply Ht. exact Hx. }
  destruct r; try (cbn [fst]; apply G; apply rws_eq; reflexivity).
  destruct (flt fs a KClone); [cbn [fst]; apply G; apply rws_remove|].
  assert (Promote : f_clone (wget (w s3) a) <> CErr ->
            In (x, RW) (replicas (fst (if flt fs a KSetModeRW then (remove_replica_nolock s3 fs a, RErr)
                  else (set_mode_nolock (upd_rep s3 a (fun f => f_set_mode f RRW)) a RW, ROk)))) ->
            In (x, RW) (replicas s) \/ f_clone (wget (w s) x) <> CErr).
  { intros Hcl. destruct (flt fs a KSetModeRW); cbn [fst]; [apply G; apply rws_remove|].
    intros Hx. destruct (replicas_set_mode (upd_rep s3 a (fun f => f_set_mode f RRW)) a RW) as [R|R]; rewrite R in Hx.
    - apply (G s3 (rws_refl s3) Hx).
    - apply in_setm_rw in Hx. destruct Hx as [E|Hx]; [|apply (G s3 (rws_refl s3) Hx)].
      subst x. right. rewrite <- (K2 a), <- (K3 a). exact Hcl. }
  destruct (f_clone (wget (w s3) a)) eqn:Ecl.
  - apply Promote. discriminate.
  - apply Promote. discriminate.
  - cbn [fst]. apply G. apply rws_remove.
Qed.

Lemma start_adds_rw : forall l s fs x,
  In (x, RW) (replicas (fst (start_adds s fs l))) ->
  In (x, RW) (replicas s) \/ f_clone (wget (w s) x) <> CErr.
Proof.
  induction l as [|a t IH]; intros s fs x Hx; cbn in Hx; [left; exact Hx|].
  pose proof (add_during_start_rw s fs a x) as Ha. pose proof (clk_add_during_start s fs a) as Ka.
  destruct (add_during_start s fs a) as [s1 r]. cbn [fst] in Ha, Ka.
  destruct r; try (apply Ha; exact Hx).
  destruct (IH s1 fs x Hx) as [H1|H1]; [apply Ha; exact H1|right; rewrite <- (Ka x); exact H1].
Qed.

Lemma rws_start_frontend : forall s, rw_sub s (start_frontend s).
Proof. intros s. unfold start_frontend. destruct (replicas s) eqn:E; [apply rws_refl|]. apply rws_sst. apply sst_upd_fe. Qed.

Lemma rws_fold_set_mode_err : forall {A} (l : list A) (g : A -> bool) (k : A -> addr) s,
  rw_sub s (fold_left (fun acc p => if g p then acc else set_mode_nolock acc (k p) ERR) l s).
Proof.
  intros A l g k. induction l as [|x t IH]; intros s; cbn; [apply rws_refl|].
  eapply rws_trans; [|apply IH]. destruct (g x); [apply rws_refl|apply rws_set_mode_err].
Qed.

Lemma do_start_rw : forall s l fs x,
  In (x, RW) (replicas (fst (fst (do_start s l fs)))) ->
  In (x, RW) (replicas s) \/ f_clone (wget (w s) x) <> CErr.
Proof.
  intros s l fs x. unfold do_start.
  destruct l as [|a0 t]; [cbn; auto|].
  destruct (replicas s) eqn:Er; [|cbn [fst]; rewrite Er; auto].
  destruct (negb (signalled s) || negb _); [cbn [fst]; rewrite Er; auto|].
  set (s0 := upd_csize _ maxint).
  pose proof (start_adds_rw (a0 :: t) s0 fs x) as Hs.
  destruct (start_adds s0 fs (a0 :: t)) as [s1 r]. cbn [fst] in Hs.
  assert (G : forall u, rw_sub s1 u -> In (x, RW) (replicas u) -> In (x, RW) [] \/ f_clone (wget (w s) x) <> CErr).
  { intros u Hu Hx. destruct (Hs (Hu x Hx)) as [Hi|Hi]; [subst s0; cbn in Hi; contradiction|right; exact Hi]. }
  destruct r; try (cbn [fst]; apply G; apply rws_start_frontend).
  destruct (existsb _ (replicas s1)); cbn [fst]; apply G; [apply rws_start_frontend|].
  eapply rws_trans; [|apply rws_start_frontend].
  eapply rws_trans; [|apply rws_sst; apply sst_update_checkpoint].
  eapply rws_trans; [|apply rws_sst; apply sst_update_vol_status].
  match goal with |- rw_sub s1 (fold_left ?f ?l0 s1) =>
    change (rw_sub s1 (fold_left (fun acc p => if (fun q => snd q =? fold_left Z.max (map snd l0) 0) p then acc
                                               else set_mode_nolock acc (fst p) ERR) l0 s1)) end.
  apply rws_fold_set_mode_err.
Qed.

(** ** the oracle *)
Definition clone_const (w0 : world) (s : cst) : Prop := forall a, f_clone (wget (w s) a) = f_clone (wget w0 a).

Lemma c19_step_model : forall w0 n s e r0 ef0 r0',
  clone_const w0 s ->
  c19_step w0 (with_res1 (observe n s r0 ef0) r0') e
           (observe n (fst (fst (step s e))) (snd (fst (step s e))) (snd (step s e))) = true.
Proof.
  intros w0 n s e r0 ef0 r0' Hc. destruct e; try reflexivity.
  unfold c19_step. cbn [o_replicas observe with_res1 step].
  apply forallb_forall. intros [x m] Hp. cbn [fst snd].
  destruct (is_rw m && negb (mem x (addrs_of (replicas s)))) eqn:E; [|reflexivity].
  apply andb_prop in E. destruct E as [E1 E2]. destruct m; try discriminate.
  apply negb_true_iff in E2. apply mem_false in E2.
  destruct (do_start_rw s addrs fs x Hp) as [Hin|Hcl].
  - exfalso. apply E2. eapply in_keys. exact Hin.
  - rewrite <- (Hc x). destruct (f_clone (wget (w s) x)); try reflexivity. contradiction.
Qed.

Theorem c19_oracle_model_x : forall xs rf0 n w0, (1 <= rf0)%nat -> forallb xev_wf xs = true ->
  walk (lift (c19_step w0) nopair) 0 (obs0 rf0 n w0) xs (trace n (init rf0 w0) xs) = None.
Proof.
  intros xs rf0 n w0 Hrf Hwf.
  change (obs0 rf0 n w0) with (with_res1 (observe n (init rf0 w0) ROk noeff) None).
  apply (walk_model_x (c19_step w0) nopair (clone_const w0) (fun _ _ => True)).
  - intros s e Hc _ a. rewrite (clk_step_all s e a). apply Hc.
  - intros s e r0 ef0 r0' Hc _. apply c19_step_model. exact Hc.
  - reflexivity.
  - intros a. reflexivity.
  - clear. generalize (init rf0 w0). induction (flatten xs) as [|e t IH]; intros s; cbn; [exact I|split; [exact I|apply IH]].
Qed.

(** non-vacuity: a start of a replica whose clone status is "error" is refused and the replica is not
    listed; with status "done" it becomes RW *)
Example c19_start_clone_error_and_done :
  let es := [One (Register 0%nat 1%nat 1 false None []); One (Start [0%nat] [])] in
  let werr := [(0%nat, mkfrep false RINIT [] 1 None true [] 0 CErr)] in
  let wdone := [(0%nat, mkfrep false RINIT [] 1 None true [] 0 CDone)] in
  map o_replicas (trace 1 (init 1 werr) es) = [[]; []]
  /\ map o_res (trace 1 (init 1 werr) es) = [ROk; RErr]
  /\ map o_replicas (trace 1 (init 1 wdone) es) = [[]; [(0%nat, RW)]]
  /\ walk (lift (c19_step wdone) nopair) 0 (obs0 1 1 wdone) es (trace 1 (init 1 wdone) es) = None.
Proof. vm_compute. repeat split; reflexivity. Qed.
