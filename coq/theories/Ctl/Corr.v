(** * Ctl: observations and the model-vs-implementation comparison (executable only) *)
From Coq Require Import List ZArith Bool Arith.
From Jiva Require Import Ctl.Model.
Import ListNotations.
Open Scope Z_scope.

Record repobs := mkrepobs {
  o_open : bool; o_mode : rmode; o_chain : list nat; o_rev : Z; o_cp : option nat;
  o_applied : list nat; o_rsize : Z
}.

Record obs := mkobs {
  o_res : res;
  o_res1 : option res;                 (* result of the first request of a concurrent pair *)
  o_replicas : list (addr * mode);
  o_ro : bool; o_rwc : nat;
  o_checkpoint : option nat;
  o_maxrev : option addr; o_signalled : bool;
  o_registered : list addr;            (* sorted *)
  o_size : Z; o_feup : bool;
  o_reps : list repobs;
  o_signals : list (addr * bool);      (* sorted *)
  o_served : option addr
}.

Fixpoint insert (x : nat) (l : list nat) : list nat :=
  match l with [] => [x] | h :: t => if Nat.leb x h then x :: l else h :: insert x t end.
Definition sort (l : list nat) : list nat := fold_right insert [] l.
Fixpoint insert2 (x : nat * bool) (l : list (nat * bool)) : list (nat * bool) :=
  match l with
  | [] => [x]
  | h :: t => if Nat.ltb (fst x) (fst h) || (Nat.eqb (fst x) (fst h) && (negb (snd x) || snd h))
              then x :: l else h :: insert2 x t
  end.
Definition sort2 (l : list (nat * bool)) : list (nat * bool) := fold_right insert2 [] l.

(** the comparison treats a refused I/O like any other failed I/O (the implementation's error text
    is not an observable) *)
Definition res_class (r : res) : res := match r with RRefused => RErr | x => x end.

Definition observe_rep (f : frep) : repobs :=
  mkrepobs (f_open f) (f_mode f) (f_chain f) (f_rev f) (f_cp f) (f_applied f) (f_size f).

(** a request in flight (held inside the replicas or inside a replica's HTTP answer) and a second request
    issued meanwhile: the controller lock serialises them in this order *)
Inductive xevent := One (e : event) | Two (e1 e2 : event).

Definition xstep (s : cst) (x : xevent) : cst * res * eff * option res :=
  match x with
  | One e => let '(s1, r, ef) := step s e in (s1, r, ef, None)
  | Two a b =>
      let '(s1, r1, f1) := step s a in
      let '(s2, r2, f2) := step s1 b in
      (s2, r2, mkeff (e_signals f1 ++ e_signals f2) (e_served f2), Some (res_class r1))
  end.

Definition observe (n : nat) (s : cst) (r : res) (e : eff) : obs :=
  mkobs (res_class r) None (replicas s) (ro s) (rwc s) (checkpoint s) (maxrev s) (signalled s)
        (sort (map fst (registered s))) (csize s) (fe_up s)
        (map (fun a => observe_rep (wget (w s) a)) (seq 0 n))
        (sort2 (e_signals e)) (e_served e).

Definition with_res1 (o : obs) (r1 : option res) : obs :=
  mkobs (o_res o) r1 (o_replicas o) (o_ro o) (o_rwc o) (o_checkpoint o) (o_maxrev o) (o_signalled o)
        (o_registered o) (o_size o) (o_feup o) (o_reps o) (o_signals o) (o_served o).

Fixpoint trace (n : nat) (s : cst) (es : list xevent) : list obs :=
  match es with
  | [] => []
  | e :: t => let '(s1, r, ef, r1) := xstep s e in with_res1 (observe n s1 r ef) r1 :: trace n s1 t
  end.

(** ** equality with field codes *)
Definition rmode_eqb (a b : rmode) : bool :=
  match a, b with RINIT, RINIT | RWO, RWO | RRW, RRW => true | _, _ => false end.
Definition onat_eqb (a b : option nat) : bool :=
  match a, b with None, None => true | Some x, Some y => Nat.eqb x y | _, _ => false end.
Fixpoint lnat_eqb (a b : list nat) : bool :=
  match a, b with [] , [] => true | x :: a', y :: b' => Nat.eqb x y && lnat_eqb a' b' | _, _ => false end.
Fixpoint lrep_eqb (a b : list (addr * mode)) : bool :=
  match a, b with
  | [], [] => true
  | (x, m) :: a', (y, k) :: b' => Nat.eqb x y && mode_eqb m k && lrep_eqb a' b'
  | _, _ => false end.
Fixpoint lsig_eqb (a b : list (addr * bool)) : bool :=
  match a, b with
  | [], [] => true
  | (x, m) :: a', (y, k) :: b' => Nat.eqb x y && Bool.eqb m k && lsig_eqb a' b'
  | _, _ => false end.

(** replica fields: 1 open 2 mode 3 chain 4 rev 5 checkpoint 6 applied 7 size; cpk = is the model's
    checkpoint value a prediction *)
Definition rep_diff (cpk : bool) (a b : repobs) : nat :=
  if negb (Bool.eqb (o_open a) (o_open b)) then 1
  else if negb (rmode_eqb (o_mode a) (o_mode b)) then 2
  else if negb (lnat_eqb (o_chain a) (o_chain b)) then 3
  else if negb (Z.eqb (o_rev a) (o_rev b)) then 4
  else if cpk && negb (onat_eqb (o_cp a) (o_cp b)) then 5
  else if negb (lnat_eqb (o_applied a) (o_applied b)) then 6
  else if negb (Z.eqb (o_rsize a) (o_rsize b)) then 7
  else 0%nat.

Fixpoint reps_diff (i : nat) (cpks : list bool) (a b : list repobs) : nat :=
  match a, b, cpks with
  | [], [], _ => 0%nat
  | x :: a', y :: b', k :: ks =>
      match rep_diff k x y with
      | O => reps_diff (S i) ks a' b'
      | d => (100 + 10 * i + d)%nat
      end
  | _, _, _ => 99%nat
  end.

(** 1 result 2 replica list 3 read-only 4 rw count 5 checkpoint 6 leader 7 signalled 8 registered
    9 size 10 frontend 11 signals 12 served 13 result of the first request of a pair 1xy replica x field y *)
Definition ores_eqb (a b : option res) : bool :=
  match a, b with None, None => true | Some x, Some y => res_eqb x y | _, _ => false end.

Definition obs_diff (cpks : list bool) (a b : obs) : nat :=
  if negb (res_eqb (o_res a) (o_res b)) then 1
  else if negb (ores_eqb (o_res1 a) (o_res1 b)) then 13
  else if negb (lrep_eqb (o_replicas a) (o_replicas b)) then 2
  else if negb (Bool.eqb (o_ro a) (o_ro b)) then 3
  else if negb (Nat.eqb (o_rwc a) (o_rwc b)) then 4
  else if negb (onat_eqb (o_checkpoint a) (o_checkpoint b)) then 5
  else if negb (onat_eqb (o_maxrev a) (o_maxrev b)) then 6
  else if negb (Bool.eqb (o_signalled a) (o_signalled b)) then 7
  else if negb (lnat_eqb (o_registered a) (o_registered b)) then 8
  else if negb (Z.eqb (o_size a) (o_size b)) then 9
  else if negb (Bool.eqb (o_feup a) (o_feup b)) then 10
  else if negb (lsig_eqb (o_signals a) (o_signals b)) then 11
  else if negb (onat_eqb (o_served a) (o_served b)) then 12
  else reps_diff 0 cpks (o_reps a) (o_reps b).

Fixpoint first_diff (n : nat) (i : nat) (s : cst) (es : list xevent) (os : list obs) : option (nat * nat) :=
  match es, os with
  | [], [] => None
  | e :: t, o :: os' =>
      let '(s1, r, ef, r1) := xstep s e in
      let cpks := map (fun a => f_cpk (wget (w s1) a)) (seq 0 n) in
      match obs_diff cpks (with_res1 (observe n s1 r ef) r1) o with
      | O => first_diff n (S i) s1 t os'
      | d => Some (i, d)
      end
  | _, _ => Some (i, 98%nat)
  end.

Record case := mkcase { c_rf : nat; c_n : nat; c_world : world; c_events : list xevent; c_obs : list obs }.
