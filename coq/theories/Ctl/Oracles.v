(** * Ctl: the properties as executable predicates over *observed* traces, and the correspondence
    entry points.  Each oracle looks only at what the harness can see (Corr.obs) and at the events'
    scripts; Proofs.v shows that every trace of the model satisfies them. *)
From Coq Require Import List ZArith Bool Arith.
From Jiva Require Import Ctl.Model Ctl.Corr.
Import ListNotations.
Open Scope Z_scope.

Definition mem (a : nat) (l : list nat) : bool := existsb (Nat.eqb a) l.
Definition addrs_of (l : list (addr * mode)) : list addr := map fst l.
Definition in_service (l : list (addr * mode)) : list addr :=
  map fst (filter (fun p => negb (mode_eqb (snd p) ERR)) l).
Definition rw_of (l : list (addr * mode)) : list addr :=
  map fst (filter (fun p => is_rw (snd p)) l).
Definition wo_of (l : list (addr * mode)) : list addr :=
  map fst (filter (fun p => mode_eqb (snd p) WO) l).
Definition is_mode (l : list (addr * mode)) (a : addr) (m : mode) : bool :=
  existsb (fun p => Nat.eqb (fst p) a && mode_eqb (snd p) m) l.
Definition applied_of (o : obs) (a : addr) : list nat :=
  match nth_error (o_reps o) a with Some r => o_applied r | None => [] end.
Definition rep_of (o : obs) (a : addr) : option repobs := nth_error (o_reps o) a.
Definition holds (o : obs) (a : addr) (wid : nat) : bool := mem wid (applied_of o a).
Definition same_reps (a b : obs) (x : addr) : bool :=
  match rep_of a x, rep_of b x with
  | Some p, Some q => Nat.eqb (rep_diff true p q) 0
  | None, None => true
  | _, _ => false
  end.
Definition is_ack (o : obs) : bool := res_eqb (o_res o) ROk.

(** what the event is, for the oracles *)
Definition is_io (e : event) : bool :=
  match e with Write _ _ _ _ | Sync _ | Unmap _ => true | _ => false end.
Definition ev_faults (e : event) : faults :=
  match e with
  | Register _ _ _ _ _ fs | Start _ fs | AddCheck _ fs | AddCommit _ fs | Verify _ fs | Remove _ fs
  | MonFire _ fs | MonFail _ fs | Write _ _ _ fs | Sync fs | Unmap fs | Read _ _ _ fs
  | Snapshot _ fs | Resize _ fs => fs
  | SetMode _ _ | SyncData _ => []
  end.

(** ** C02: ack only after a strict majority of the attached replicas applied it; laggards detached *)
Definition c02_step (rf0 : nat) (prev : obs) (e : event) (cur : obs) : bool :=
  match e with
  | Write wid _ _ fs =>
      let att := in_service (o_replicas prev) in
      let applied := filter (fun a => holds cur a wid) att in
      if is_ack cur then
        (* strictly more than half of the attached replicas applied it, one of them RW *)
        Nat.ltb (length att) (2 * length applied)
        && existsb (fun a => mem a (rw_of (o_replicas prev))) applied
        (* every attached replica that failed it is detached now *)
        && forallb (fun a => if flt fs a KWrite || flt fs a KWriteAp then negb (mem a (addrs_of (o_replicas cur))) else true) att
        (* every replica still in service holds it *)
        && forallb (fun a => holds cur a wid) (in_service (o_replicas cur))
      else true
  | Sync fs =>
      let att := in_service (o_replicas prev) in
      let okc := filter (fun a => negb (flt fs a KSync)) att in
      if is_ack cur then
        Nat.ltb (length att) (2 * length okc)
        && forallb (fun a => if flt fs a KSync then negb (mem a (addrs_of (o_replicas cur))) else true) att
      else true
  | Unmap fs =>
      let att := in_service (o_replicas prev) in
      let okc := filter (fun a => negb (flt fs a KUnmap)) att in
      if is_ack cur then
        Nat.ltb (length att) (2 * length okc)
        && forallb (fun a => if flt fs a KUnmap then negb (mem a (addrs_of (o_replicas cur))) else true) att
      else true
  | _ => true
  end.

(** ** C03: mutating I/O only with a quorum of RW replicas; status always re-evaluated *)
Definition quorum_ok (rf0 : nat) (l : list (addr * mode)) : bool :=
  Nat.leb (quorum rf0) (count_rw l).
Definition untouched (prev cur : obs) : bool :=
  forallb (fun a => same_reps prev cur a) (seq 0 (length (o_reps prev))).

Definition c03_step (rf0 : nat) (prev : obs) (e : event) (cur : obs) : bool :=
  (* the status reported after every event is the one the membership implies *)
  Bool.eqb (o_ro cur) (negb (quorum_ok rf0 (o_replicas cur)))
  && Nat.eqb (o_rwc cur) (count_rw (o_replicas cur))
  && (if is_io e
      then if quorum_ok rf0 (o_replicas prev) then true
           else negb (is_ack cur) && untouched prev cur && lrep_eqb (o_replicas prev) (o_replicas cur)
      else true).

(** ** C04: reads only from RW replicas, fail-over detaches the failed reader *)
Definition c04_step (rf0 : nat) (prev : obs) (e : event) (cur : obs) : bool :=
  match e with
  | Read off len order fs =>
      let rws := rw_of (o_replicas prev) in
      match o_served cur with
      | Some a =>
          is_ack cur && mem a rws
          && forallb (fun x => mem x rws) order
          && forallb (fun x => if Nat.eqb x a then true else negb (mem x (addrs_of (o_replicas cur)))) order
      | None =>
          negb (is_ack cur)
          (* inside the volume it may only fail if no RW replica could serve it *)
          && ((off <? 0) || (o_size prev <? off + len) || forallb (fun x => flt fs x KRead) rws)
      end
  | _ => true
  end.

(** ** C05: a failing minority is isolated, the operation in flight succeeds, it comes back only
    through add *)
Definition io_kind_fail (e : event) (a : addr) : bool :=
  match e with
  | Write _ _ _ fs => flt fs a KWrite || flt fs a KWriteAp
  | Sync fs => flt fs a KSync
  | Unmap fs => flt fs a KUnmap
  | _ => false
  end.

(** a write outside the volume is rejected before any replica is called *)
Definition io_in_range (prev : obs) (e : event) : bool :=
  match e with Write _ off len _ => (0 <=? off) && (off + len <=? o_size prev) | _ => true end.

Definition c05_step (rf0 : nat) (prev : obs) (e : event) (cur : obs) : bool :=
  let att := in_service (o_replicas prev) in
  (* failed replicas are gone after the event (when the I/O reached the replicas at all) *)
  (if is_io e && quorum_ok rf0 (o_replicas prev) && negb (Nat.eqb (length (rw_of (o_replicas prev))) 0)
      && io_in_range prev e
   then forallb (fun a => if io_kind_fail e a then negb (mem a (addrs_of (o_replicas cur))) else true) att
   else true)
  (* a minority failing does not surface (write, flush, unmap): the survivors are a strict majority containing an RW *)
  && (let good := filter (fun a => negb (io_kind_fail e a)) att in
      if is_io e && quorum_ok rf0 (o_replicas prev) && io_in_range prev e
         && Nat.ltb (length att) (2 * length good)
         && existsb (fun a => mem a (rw_of (o_replicas prev))) good
      then is_ack cur else true)
  (* replicas enter the set only through add (as WO) or start *)
  && forallb (fun p =>
        if mem (fst p) (addrs_of (o_replicas prev)) then true
        else match e with
             | AddCommit a _ => Nat.eqb a (fst p) && mode_eqb (snd p) WO
             | Start _ _ => Nat.eqb (length (o_replicas prev)) 0
             | _ => false
             end) (o_replicas cur)
  (* nobody outside the set receives I/O *)
  && (if is_io e
      then forallb (fun a => if mem a att then true else same_reps prev cur a) (seq 0 (length (o_reps prev)))
      else true)
  (* a replica marked failed is not revived by a mode request: it comes back only through remove + add *)
  && (match e with
      | SetMode a _ =>
          if is_mode (o_replicas prev) a ERR then is_mode (o_replicas cur) a ERR || negb (mem a (addrs_of (o_replicas cur)))
          else true
      | _ => true
      end)
  (* a detector that reports a replica detaches it: a monitor notification that was delivered (whatever value
     the monitor channel carried), an explicit remove *)
  && (match e with
      | MonFire a _ | MonFail a _ | Remove a _ =>
          if is_ack cur then negb (mem a (addrs_of (o_replicas cur))) else true
      | _ => true
      end).

(** ** C18: bookkeeping consistent at quiescent points *)
Definition c18_step (rf0 : nat) (quiescent : bool) (prev : obs) (e : event) (cur : obs) : bool :=
  nodupb (addrs_of (o_replicas cur))
  && Nat.leb (length (o_replicas cur)) rf0
  && Nat.leb (length (wo_of (o_replicas cur))) 1
  && (if quiescent then Nat.eqb (o_rwc cur) (count_rw (o_replicas cur)) else true)
  (* only replicas in service (listed and not marked failed) receive calls *)
  && (match e with
      | Write _ _ _ _ | Sync _ | Unmap _ | Read _ _ _ _ | Snapshot _ _ | Resize _ _ =>
          forallb (fun a => if mem a (in_service (o_replicas prev)) then true else same_reps prev cur a)
                  (seq 0 (length (o_reps prev)))
      | _ => true
      end)
  (* ... and every replica reported in service was sent the I/O: after an acknowledged write each of them holds it *)
  && (match e with
      | Write wid _ _ _ => if is_ack cur then forallb (fun a => holds cur a wid) (in_service (o_replicas cur)) else true
      | _ => true
      end).

(** ** C13: snapshot gate and checkpoint soundness *)
Definition chain_of (o : obs) (a : addr) : list nat :=
  match rep_of o a with Some r => o_chain r | None => [] end.
(* the snapshot request is fanned out to the replicas: the name lookup on the last RW replica works and the name
   is new there (otherwise the request is refused before anybody is called) *)
Definition snap_called (prev : obs) (e : event) : bool :=
  match e with
  | Snapshot n fs =>
      match rev (rw_of (o_replicas prev)) with
      | r0 :: _ => negb (flt fs r0 KHttp) && negb (mem n (chain_of prev r0))
      | [] => false
      end
  | _ => true
  end.

Definition c13_step (rf0 : nat) (quiescent : bool) (prev : obs) (e : event) (cur : obs) : bool :=
  (match e with
   | Snapshot n fs =>
       (* refused, touching nobody, unless all rf replicas are RW *)
       if Nat.eqb (count_rw (o_replicas prev)) rf0 && Nat.eqb (length (o_replicas prev)) rf0
       then (* taken: on every replica that did not fail it (same point of the write stream: one event) *)
            (if is_ack cur
             then forallb (fun a => if flt fs a KSnap then true else mem n (chain_of cur a)) (addrs_of (o_replicas prev))
             else true)
            (* a replica that failed the snapshot does not stay in service without it *)
            && (if snap_called prev e
                then forallb (fun a => if flt fs a KSnap then negb (mem a (in_service (o_replicas cur))) else true)
                             (addrs_of (o_replicas prev))
                else true)
       else negb (is_ack cur) && untouched prev cur
   | _ => true
   end)
  (* checked at quiescent points and at the moment a checkpoint is recorded (whatever is pending then) *)
  && (match (match o_checkpoint cur with
             | Some s => if quiescent || negb (onat_eqb (o_checkpoint prev) (Some s)) then Some s else None
             | None => None
             end) with
      | None => true
      | Some s =>
          Nat.eqb (count_rw (o_replicas cur)) rf0 && Nat.eqb (length (o_replicas cur)) rf0
          && forallb (fun a => mem s (chain_of cur a)
                               (* at the moment it is recorded it is every replica's latest snapshot *)
                               && (if onat_eqb (o_checkpoint prev) (Some s) then true
                                   else match chain_of cur a with h :: _ => Nat.eqb h s | [] => false end)
                               && match rep_of cur a with Some r => onat_eqb (o_cp r) (Some s) | None => false end)
                     (addrs_of (o_replicas cur))
      end).

(** ** C01 / C16, controller halves: out-of-range I/O and non-growing resizes touch nothing; a grow
    reaches every replica in service *)
Definition c01_step (rf0 : nat) (prev : obs) (e : event) (cur : obs) : bool :=
  match e with
  | Write _ off len _ | Read off len _ _ =>
      if (off <? 0) || (o_size prev <? off + len)
      then negb (is_ack cur) && untouched prev cur && lrep_eqb (o_replicas prev) (o_replicas cur)
      else true
  | _ => true
  end.

Definition rsize_of (o : obs) (a : addr) : Z := match rep_of o a with Some r => o_rsize r | None => 0 end.
Definition c16_step (rf0 : nat) (prev : obs) (e : event) (cur : obs) : bool :=
  match e with
  | Resize sz fs =>
      if sz <=? o_size prev
      then negb (is_ack cur) && untouched prev cur && Z.eqb (o_size cur) (o_size prev)
      else
        (* every replica in service (RW or rebuilding) that did not fail the call has the new size *)
        forallb (fun a => if flt fs a KResize then true else Z.eqb (rsize_of cur a) sz) (in_service (o_replicas prev))
        && (if is_ack cur then Z.eqb (o_size cur) sz else Z.eqb (o_size cur) (o_size prev))
        (* a grow that the frontend refuses is reported failed (the exported size is the old one) *)
        && (if flt fs 0%nat KFeResize then negb (is_ack cur) else true)
        (* the failure is booked against the replica that failed: it leaves the service, the others stay *)
        && forallb (fun a => Bool.eqb (mem a (in_service (o_replicas cur))) (negb (flt fs a KResize)))
                   (in_service (o_replicas prev))
  | _ => true
  end.

(** ** C09: bootstrap election *)
(** oracle memory: the latest registration record of every address *)
Definition regs := list (addr * (Z * bool)).
Definition regs_upd (g : regs) (e : event) : regs :=
  match e with
  | Register a u rev reb _ _ => if Nat.eqb u 0 then g else aset g a (rev, reb)
  | _ => g
  end.
Definition reg_of (g : regs) (a : addr) : Z * bool :=
  match aget g a with Some x => x | None => (0, true) end.

Definition c09_step (rf0 : nat) (g : regs) (prev : obs) (e : event) (cur : obs) : bool :=
  let starts := map fst (filter (fun p => snd p) (o_signals cur)) in
  match e with
  | Register a u _ _ _ fs =>
      let g1 := regs_upd g e in
      (* a start signal only with a majority registered (before anybody is dropped) *)
      forallb (fun m =>
        (* the registered replicas at the moment of the signal: those still registered plus the target
           (which is dropped again when the signal fails) *)
        let pool := if mem m (o_registered cur) then o_registered cur else m :: o_registered cur in
        Nat.leb (quorum rf0) (length pool)
        && Nat.eqb (length (o_replicas prev)) 0
        (* the target is not rebuilding and has the highest revision among the registered ones that
           are not rebuilding and were not found unreachable *)
        && negb (snd (reg_of g1 m))
        && forallb (fun x => if snd (reg_of g1 x) || flt fs x KSignal || flt fs x KAlive then true
                             else fst (reg_of g1 x) <=? fst (reg_of g1 m)) pool) starts
      (* one registration, at most one start signal *)
      && Nat.leb (length starts) 1
  | Start addrs _ =>
      (* only the signalled replica can start the volume *)
      (if Nat.eqb (length (o_replicas prev)) 0 && negb (Nat.eqb (length (o_replicas cur)) 0)
       then match addrs, o_maxrev prev with
            | a0 :: _, Some m => Nat.eqb a0 m && o_signalled prev
            | _, _ => false
            end
       else true)
      (* replicas found behind at start-up are not readers *)
      && (if is_ack cur && Nat.eqb (length (o_replicas prev)) 0
          then let revs := map (fun a => match rep_of cur a with Some r => o_rev r | None => 0 end) (addrs_of (o_replicas cur)) in
               let mx := fold_left Z.max revs 0 in
               forallb (fun p => match rep_of cur (fst p) with
                                 | Some r => if o_rev r <? mx then negb (is_rw (snd p)) else true
                                 | None => false end) (o_replicas cur)
          else true)
      && Nat.eqb (length starts) 0
  | Remove a _ | MonFire a _ | MonFail a _ =>
      (* an attached replica that is removed is no longer counted as registered (it has to register again) *)
      Nat.eqb (length starts) 0
      && (if is_ack cur && mem a (addrs_of (o_replicas prev)) then negb (mem a (o_registered cur)) else true)
  | _ => Nat.eqb (length starts) 0
  end.

(** *** C09, second oracle: one registration per UUID *)
(** oracle memory: the UUID every address registered with last.  A replica that registers again under a
    new address (same UUID) replaces its older registration: after a [Register a u ..] with u <> 0 no
    other registered address carries the UUID u (otherwise one replica counts twice towards the majority) *)
Definition uids := list (addr * nat).
Definition uids_upd (t : uids) (e : event) : uids :=
  match e with
  | Register a u _ _ _ _ => if Nat.eqb u 0 then t else aset t a u
  | _ => t
  end.
Definition c09u_step (t : uids) (prev : obs) (e : event) (cur : obs) : bool :=
  match e with
  | Register a u _ _ _ _ =>
      if Nat.eqb u 0 then true
      else
        let t1 := uids_upd t e in
        forallb (fun x => Nat.eqb x a
                          || negb (match aget t1 x with Some v => Nat.eqb v u | None => false end))
                (o_registered cur)
  | _ => true
  end.

(** ** concurrent pairs: what the properties say when a second request is issued while the first is in
    flight (the intermediate state is not observable; the rules use the script of the first request) *)
Definition lift (f : obs -> event -> obs -> bool) (pairf : obs -> event -> event -> obs -> bool)
  (prev : obs) (x : xevent) (cur : obs) : bool :=
  match x with One e => f prev e cur | Two a b => pairf prev a b cur end.

(** C03: if the failures of the write in flight take the RW count below the quorum, the queued
    write / sync / unmap is refused and touches nobody *)
Definition c03_pair (rf0 : nat) (prev : obs) (a b : event) (cur : obs) : bool :=
  Bool.eqb (o_ro cur) (negb (quorum_ok rf0 (o_replicas cur)))
  && Nat.eqb (o_rwc cur) (count_rw (o_replicas cur))
  && match a, b with
     | Write _ _ _ fs1, Write wid2 _ _ _ =>
         let left := filter (fun p => negb (flt fs1 (fst p) KWrite || flt fs1 (fst p) KWriteAp)) (o_replicas prev) in
         if quorum_ok rf0 (o_replicas prev) && io_in_range prev a && negb (quorum_ok rf0 left)
         then negb (is_ack cur) && forallb (fun x => negb (holds cur x wid2)) (seq 0 (length (o_reps cur)))
         else true
     | Write _ _ _ fs1, Sync _ | Write _ _ _ fs1, Unmap _ =>
         let left := filter (fun p => negb (flt fs1 (fst p) KWrite || flt fs1 (fst p) KWriteAp)) (o_replicas prev) in
         if quorum_ok rf0 (o_replicas prev) && io_in_range prev a && negb (quorum_ok rf0 left) then negb (is_ack cur) else true
     | _, _ => true
     end.

(** C13: a snapshot accepted while all RF replicas were RW is on every one of them, whatever request
    (a removal, a monitor failure) was waiting behind it *)
Definition c13_pair (rf0 : nat) (prev : obs) (a b : event) (cur : obs) : bool :=
  match a with
  | Snapshot n fs =>
      if Nat.eqb (count_rw (o_replicas prev)) rf0 && Nat.eqb (length (o_replicas prev)) rf0
      then match o_res1 cur with
           | Some ROk => forallb (fun x => if flt fs x KSnap then true else mem n (chain_of cur x)) (addrs_of (o_replicas prev))
           | _ => true
           end
      else true
  | _ => true
  end.

(** C04 / C05: a read queued behind a write that detaches replicas is served by a replica that is still
    listed RW afterwards *)
(* "was RW before" unless the first request promotes that replica; "did not fail the first request" only when
   that request is an I/O that reached the replicas *)
Definition promotes (prev : obs) (a : event) (x : addr) : bool :=
  match a with
  | Verify y _ => Nat.eqb y x
  | SetMode y RW => Nat.eqb y x
  | Start _ _ => Nat.eqb (length (o_replicas prev)) 0
  | _ => false
  end.

Definition c04_pair (rf0 : nat) (prev : obs) (a b : event) (cur : obs) : bool :=
  match b with
  | Read _ _ _ _ =>
      match o_served cur with
      | Some x =>
          (mem x (rw_of (o_replicas prev)) || promotes prev a x)
          && (if is_io a && quorum_ok rf0 (o_replicas prev) && io_in_range prev a
              then negb (io_kind_fail a x) else true)
      | None => true
      end
  | _ => true
  end.

Definition nopair (prev : obs) (a b : event) (cur : obs) : bool := true.

(** ** running the oracles over a whole observed trace *)
(** ** C07 (control half): a rebuilding replica is promoted only by a verify request that succeeds, and then
    its chain agrees with the first RW replica's from the checkpoint upward (the whole chain when it has none)
    and it carries that replica's revision counter *)

Definition c07_step (rf0 : nat) (prev : obs) (e : event) (cur : obs) : bool :=
  match e with
  | Verify a _ =>
      if is_mode (o_replicas prev) a WO && is_mode (o_replicas cur) a RW then
        is_ack cur
        && match rw_of (o_replicas prev) with
           | r0 :: _ =>
               match rep_of prev r0, rep_of prev a, rep_of cur a with
               | Some pr, Some pa, Some ca =>
                   Z.eqb (o_rev ca) (o_rev pr)
                   && match (match o_cp pa with
                             | None => Some (length (o_chain pr))
                             | Some c => match index_of (o_chain pr) c 0 with Some i => Some (S i) | None => None end
                             end) with
                      | Some k => Nat.leb k (length (o_chain pa)) && lnat_eqb (firstn k (o_chain pr)) (firstn k (o_chain pa))
                      | None => false
                      end
               | _, _, _ => true            (* a replica outside the observed range: no verdict *)
               end
           | [] => false
           end
      else true
  | _ => true
  end.

(** no event other than a verify request for that replica - or the administrative mode override
    (PUT /v1/replicas/{id} {mode: RW}), which compares nothing - turns a listed WO replica into RW *)
Definition c07_only_verify (prev : obs) (e : event) (cur : obs) : bool :=
  forallb (fun p =>
    if is_mode (o_replicas prev) (fst p) WO && mode_eqb (snd p) RW
    then match e with
         | Verify a _ => Nat.eqb a (fst p)
         | SetMode a RW => Nat.eqb a (fst p)
         | _ => false
         end
    else true) (o_replicas cur).

(** ** C19 (control half): a replica that enters the list as RW at a start request has a clone status that allows
    it: none (not a clone) or completed; the scripted world is part of the case *)
Definition clone_ok (c : cstat) : bool := match c with CErr => false | _ => true end.
Definition c19_step (w0 : world) (prev : obs) (e : event) (cur : obs) : bool :=
  match e with
  | Start _ _ =>
      forallb (fun p => if is_rw (snd p) && negb (mem (fst p) (addrs_of (o_replicas prev)))
                        then clone_ok (f_clone (wget w0 (fst p))) else true) (o_replicas cur)
  | _ => true
  end.

Record verdict := mkverdict {
  v_diff : option (nat * nat);
  v_c02 : option nat; v_c03 : option nat; v_c04 : option nat; v_c05 : option nat;
  v_c09 : option nat; v_c13 : option nat; v_c18 : option nat;     (* first step at which the oracle fails *)
  v_c01 : option nat; v_c16 : option nat; v_c07 : option nat; v_c19 : option nat
}.

Definition obs0 (rf0 n : nat) (w0 : world) : obs := observe n (init rf0 w0) ROk noeff.

(** is the controller quiescent after the observed prefix: the harness reports the number of
    undelivered monitor notifications through the pseudo-field [pending] (list aligned with obs) *)
Fixpoint walk (f : obs -> xevent -> obs -> bool) (i : nat) (prev : obs) (es : list xevent) (os : list obs) : option nat :=
  match es, os with
  | e :: t, o :: os' => if f prev e o then walk f (S i) o t os' else Some i
  | _, _ => None
  end.

Fixpoint walk_q (f : bool -> obs -> xevent -> obs -> bool) (i : nat) (prev : obs) (es : list xevent) (os : list obs) (qs : list bool) : option nat :=
  match es, os, qs with
  | e :: t, o :: os', q :: qs' => if f q prev e o then walk_q f (S i) o t os' qs' else Some i
  | _, _, _ => None
  end.

Definition xregs_upd (g : regs) (x : xevent) : regs :=
  match x with One e => regs_upd g e | Two a b => regs_upd (regs_upd g a) b end.
Fixpoint walk_g (f : regs -> obs -> xevent -> obs -> bool) (i : nat) (g : regs) (prev : obs) (es : list xevent) (os : list obs) : option nat :=
  match es, os with
  | e :: t, o :: os' => if f g prev e o then walk_g f (S i) (xregs_upd g e) o t os' else Some i
  | _, _ => None
  end.

(** the UUID memory sees both requests of a pair in serialisation order (as [xregs_upd]).  The only
    observation of a pair is taken after both requests: a second request that registers a UUID is
    checked against it with the memory updated by the first; otherwise the second request can only
    delete registrations, and the first request is checked against it *)
Definition xuids_upd (t : uids) (x : xevent) : uids :=
  match x with One e => uids_upd t e | Two a b => uids_upd (uids_upd t a) b end.
Definition liftu (t : uids) (prev : obs) (x : xevent) (cur : obs) : bool :=
  match x with
  | One e => c09u_step t prev e cur
  | Two a b =>
      match b with
      | Register _ ub _ _ _ _ =>
          if Nat.eqb ub 0 then c09u_step t prev a cur else c09u_step (uids_upd t a) prev b cur
      | _ => c09u_step t prev a cur
      end
  end.
Fixpoint walk_u (f : uids -> obs -> xevent -> obs -> bool) (i : nat) (t : uids) (prev : obs) (es : list xevent) (os : list obs) : option nat :=
  match es, os with
  | e :: r, o :: os' => if f t prev e o then walk_u f (S i) (xuids_upd t e) o r os' else Some i
  | _, _ => None
  end.

Record xcase := mkxcase { x_case : case; x_quiet : list bool }.

Definition check_case (x : xcase) : verdict :=
  let c := x_case x in
  let rf0 := c_rf c in
  let o0 := obs0 rf0 (c_n c) (c_world c) in
  mkverdict
    (first_diff (c_n c) 0 (init rf0 (c_world c)) (c_events c) (c_obs c))
    (walk (lift (c02_step rf0) nopair) 0 o0 (c_events c) (c_obs c))
    (walk (lift (c03_step rf0) (c03_pair rf0)) 0 o0 (c_events c) (c_obs c))
    (walk (lift (c04_step rf0) (c04_pair rf0)) 0 o0 (c_events c) (c_obs c))
    (walk (lift (c05_step rf0) nopair) 0 o0 (c_events c) (c_obs c))
    (match walk_g (fun g => lift (c09_step rf0 g) nopair) 0 [] o0 (c_events c) (c_obs c) with
     | Some i => Some i
     | None => walk_u liftu 0 [] o0 (c_events c) (c_obs c)
     end)
    (walk_q (fun q => lift (c13_step rf0 q) (c13_pair rf0)) 0 o0 (c_events c) (c_obs c) (x_quiet x))
    (walk_q (fun q => lift (c18_step rf0 q) (fun prev a b cur => c18_step rf0 q prev (SetMode 0%nat WO) cur)) 0 o0 (c_events c) (c_obs c) (x_quiet x))
    (walk (lift (c01_step rf0) nopair) 0 o0 (c_events c) (c_obs c))
    (walk (lift (c16_step rf0) nopair) 0 o0 (c_events c) (c_obs c))
    (walk (lift (fun prev e cur => c07_step rf0 prev e cur && c07_only_verify prev e cur) nopair) 0 o0 (c_events c) (c_obs c))
    (walk (lift (c19_step (c_world c)) nopair) 0 o0 (c_events c) (c_obs c)).

Definition on (o : option nat) : nat := match o with Some i => S i | None => 0%nat end.

(** per bad case: (index, (diff step, diff field), [oracle failure step+1 or 0] for C02 C03 C04 C05 C09 C13 C18) *)
Fixpoint bad_cases (i : nat) (cs : list xcase) : list (nat * (nat * nat) * list nat) :=
  match cs with
  | [] => []
  | c :: t =>
      let v := check_case c in
      let fl := [on (v_c02 v); on (v_c03 v); on (v_c04 v); on (v_c05 v); on (v_c09 v); on (v_c13 v); on (v_c18 v);
                 on (v_c01 v); on (v_c16 v); on (v_c07 v); on (v_c19 v)] in
      let d := match v_diff v with Some d => d | None => (0, 0)%nat end in
      if Nat.eqb (fold_left Nat.add fl 0%nat) 0%nat && match v_diff v with None => true | _ => false end
      then bad_cases (S i) t
      else (i, d, fl) :: bad_cases (S i) t
  end.

(** coverage flags per case, from the model's run:
    1 a write acknowledged with a failing minority, 2 an I/O refused for lack of quorum, 4 a read failed over,
    8 a start signal sent, 16 a checkpoint set, 32 a replica promoted by verify, 64 a monitor fired,
    128 a failed operation (any), 256 three or more RW replicas at some point *)
Definition b2n (b : bool) (k : nat) : nat := if b then k else 0%nat.
Fixpoint flags_walk (n : nat) (s : cst) (es : list xevent) (acc : nat * nat * nat * nat * nat * nat * nat * nat * nat)
  : nat * nat * nat * nat * nat * nat * nat * nat * nat :=
  match es with
  | [] => acc
  | x :: t =>
      let '(s1, r, ef, _) := xstep s x in
      let e := match x with One e => e | Two _ b => b end in
      let '(f1, f2, f3, f4, f5, f6, f7, f8, f9) := acc in
      let ack := res_eqb r ROk in
      let acc' :=
        (Nat.max f1 (b2n (match e with Write _ _ _ fs => ack && negb (Nat.eqb (length fs) 0) | _ => false end) 1),
         Nat.max f2 (b2n (is_io e && res_eqb r RRefused) 2),
         Nat.max f3 (b2n (match e with Read _ _ order _ => ack && Nat.ltb 1 (length order) | _ => false end) 4),
         Nat.max f4 (b2n (existsb (fun p => snd p) (e_signals ef)) 8),
         Nat.max f5 (b2n (match checkpoint s1 with Some _ => true | None => false end) 16),
         Nat.max f6 (b2n (match e with Verify _ _ => ack && Nat.ltb (count_rw (replicas s)) (count_rw (replicas s1)) | _ => false end) 32),
         Nat.max f7 (b2n (match e with MonFire _ _ | MonFail _ _ => ack | _ => false end) 64),
         Nat.max f8 (b2n (res_eqb r RErr) 128),
         Nat.max f9 (b2n (Nat.leb 3 (count_rw (replicas s1))) 256)) in
      flags_walk n s1 t acc'
  end.
Definition case_flags (x : xcase) : nat :=
  let c := x_case x in
  let '(f1, f2, f3, f4, f5, f6, f7, f8, f9) :=
    flags_walk (c_n c) (init (c_rf c) (c_world c)) (c_events c) (0, 0, 0, 0, 0, 0, 0, 0, 0)%nat in
  (f1 + f2 + f3 + f4 + f5 + f6 + f7 + f8 + f9)%nat.
Definition coverage (cs : list xcase) : list nat := map case_flags cs.
