(** * Ctl: per-property trace oracles over observed traces, and the correspondence entry points *)
From Coq Require Import List ZArith Bool Arith.
From Jiva Require Import Ctl.Model Ctl.Corr.
Import ListNotations.
Open Scope Z_scope.

Definition check_diff (c : case) : option (nat * nat) :=
  first_diff (c_n c) 0 (init (c_rf c) (c_world c)) (c_events c) (c_obs c).

Fixpoint bad_cases (i : nat) (cs : list case) : list (nat * (nat * nat)) :=
  match cs with
  | [] => []
  | c :: t => match check_diff c with
              | Some d => (i, d) :: bad_cases (S i) t
              | None => bad_cases (S i) t
              end
  end.
Definition coverage (cs : list case) : list nat := map (fun c => length (c_events c)) cs.
