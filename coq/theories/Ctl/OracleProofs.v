(** * Ctl: the trace oracle of C03 holds on every trace of the model (single-request histories) *)
From Coq Require Import List ZArith Bool Arith Lia.
From Jiva Require Import Ctl.Model Ctl.Corr Ctl.Oracles Ctl.Proofs Ctl.RfConst.
Import ListNotations.
Open Scope Z_scope.

Lemma lnat_eqb_refl : forall l, lnat_eqb l l = true.
Proof. induction l; cbn; [reflexivity|rewrite Nat.eqb_refl; assumption]. Qed.
Lemma onat_eqb_refl : forall o, onat_eqb o o = true.
Proof. intros [x|]; cbn; [apply Nat.eqb_refl|reflexivity]. Qed.
Lemma rmode_eqb_refl : forall m, rmode_eqb m m = true.
Proof. destruct m; reflexivity. Qed.
Lemma lrep_eqb_refl : forall l, lrep_eqb l l = true.
Proof. induction l as [|[a m] t IH]; cbn; [reflexivity|]. rewrite Nat.eqb_refl, IH. destruct m; reflexivity. Qed.

Lemma rep_diff_refl : forall k p, rep_diff k p p = 0%nat.
Proof.
  intros k p. unfold rep_diff.
  rewrite Bool.eqb_reflx, rmode_eqb_refl, !lnat_eqb_refl, !Z.eqb_refl, onat_eqb_refl. cbn.
  destruct k; reflexivity.
Qed.

Lemma same_reps_same_world : forall n s r1 e1 r2 e2 a,
  same_reps (observe n s r1 e1) (observe n s r2 e2) a = true.
Proof.
  intros. unfold same_reps, rep_of, observe. cbn [o_reps].
  destruct (nth_error (map (fun a0 => observe_rep (wget (w s) a0)) (seq 0 n)) a) as [p|]; [|reflexivity].
  rewrite rep_diff_refl. reflexivity.
Qed.

Lemma untouched_same_world : forall n s r1 e1 r2 e2,
  untouched (observe n s r1 e1) (observe n s r2 e2) = true.
Proof. intros. unfold untouched. apply forallb_forall. intros a _. apply same_reps_same_world. Qed.

(** the oracle does not look at the result of the previous event *)
Lemma c03_step_model : forall rf0 n s e r0 ef0 r0',
  status_ok s -> rf s = rf0 ->
  c03_step rf0 (with_res1 (observe n s r0 ef0) r0') e
           (observe n (fst (fst (step s e))) (snd (fst (step s e))) (snd (step s e))) = true.
Proof.
  intros rf0 n s e r0 ef0 r0' Hst Hrf.
  pose proof (status_step s e Hst) as [Hc1 Hr1].
  pose proof (rf_step s e) as Hrf1.
  unfold c03_step. cbn [o_ro o_rwc o_replicas observe with_res1].
  unfold quorum_ok. rewrite Hr1, Hc1, Hrf1, Hrf. rewrite Bool.eqb_reflx, Nat.eqb_refl. cbn [andb].
  destruct (is_io e) eqn:Eio; [|reflexivity].
  destruct (Nat.leb (quorum rf0) (count_rw (replicas s))) eqn:Eq; [reflexivity|].
  assert (Hm : is_mut_io e = true) by (destruct e; cbn in *; congruence).
  rewrite (gate_refuses s e Hst Hm) by (apply Nat.leb_gt in Eq; rewrite Hrf; exact Eq).
  cbn [fst snd]. unfold is_ack. cbn [o_res observe res_class res_eqb negb andb].
  change (with_res1 (observe n s r0 ef0) r0') with (with_res1 (observe n s r0 ef0) r0').
  assert (U : untouched (with_res1 (observe n s r0 ef0) r0') (observe n s RRefused noeff) = true).
  { unfold untouched. apply forallb_forall. intros a _. unfold same_reps, rep_of, with_res1, observe. cbn [o_reps].
    destruct (nth_error (map (fun a0 => observe_rep (wget (w s) a0)) (seq 0 n)) a) as [p|]; [|reflexivity].
    rewrite rep_diff_refl. reflexivity. }
  rewrite U. cbn [andb o_replicas with_res1 observe]. apply lrep_eqb_refl.
Qed.

Theorem c03_oracle_model : forall es rf0 n s r0 ef0 r0' i,
  status_ok s -> rf s = rf0 ->
  walk (lift (c03_step rf0) (c03_pair rf0)) i (with_res1 (observe n s r0 ef0) r0') (map One es) (trace n s (map One es)) = None.
Proof.
  induction es as [|e t IH]; intros rf0 n s r0 ef0 r0' i Hst Hrf; cbn [map trace walk]; [reflexivity|].
  cbn [xstep].
  pose proof (c03_step_model rf0 n s e r0 ef0 r0' Hst Hrf) as Hs.
  destruct (step s e) as [[s1 r] ef] eqn:E. cbn [fst snd] in Hs.
  cbn [walk lift].
  change (with_res1 (observe n s1 r ef) None) with (observe n s1 r ef).
  rewrite Hs.
  change (observe n s1 r ef) with (with_res1 (observe n s1 r ef) None).
  apply IH.
  - replace s1 with (fst (fst (step s e))) by (rewrite E; reflexivity). apply status_step. exact Hst.
  - replace s1 with (fst (fst (step s e))) by (rewrite E; reflexivity). rewrite rf_step. exact Hrf.
Qed.

(** from the initial state: the C03 oracle accepts every trace of the model *)
Corollary c03_oracle_model_init : forall es rf0 n w0, (1 <= rf0)%nat ->
  walk (lift (c03_step rf0) (c03_pair rf0)) 0 (obs0 rf0 n w0) (map One es) (trace n (init rf0 w0) (map One es)) = None.
Proof.
  intros es rf0 n w0 H. unfold obs0.
  change (observe n (init rf0 w0) ROk noeff) with (with_res1 (observe n (init rf0 w0) ROk noeff) None).
  apply c03_oracle_model; [apply status_init; exact H|reflexivity].
Qed.
